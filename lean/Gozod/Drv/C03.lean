/-
  Line handler for C03.
    c03 nil <rule ptrTy|nilable> <admitsNil 0/1> <ownNilPath 0/1> <op>*     → "<model outcome>\t<spec verdict on the implementation's outcome>"
    c03 val <kind plain|record|structp> <ok|bad> <dep 0/1> <ownNilPath 0/1> <op>*   → "same" | "diff:verdict"  (a non-nil input must be validated as by the base schema;
                                                               the harness compares with the base schema itself; dep = the input's verdict depends on
                                                               the type's own configuration; model = `ctxStepX` under the configuration the history leaves)
    c03 cfg <kind> <op>*                                     → "carried" | "dropped": the type's own configuration fields after the history (by reflection)
    c03 wnil <rule> <admitsNil> <ownNilPath> <stack> <op>*   → the same under a chain of wrappers; <stack> is a word over T (`.Transform(fᵢ)`)
                                                               and P (`.Pipe(targetᵢ)`), innermost first, i = position; observation =
                                                               "<result> log=<callback log>", e.g. "ok:f2(f1(prefault:value)) log=f1(prefault:value);f2(f1(prefault:value))"
    c03 wval <stack> <ok|bad> <op>*                          → a non-nil input the base accepts / rejects: "<result> log=<…> base=same"
                                                               (base=same: the harness ran the unmodified base schema under the same wrappers and saw the same)
    c03 cseq <ctx> / <entry> <in> <rule> <admitsNil> <ownNilPath> <op>* / …   → a sequence of parses through ONE context (<ctx> = fresh|new|report|flag|errmap:
                                                               how the caller made it); <entry> = Parse|ParseAny|MustParse|StrictParse, <in> = nil|nilptr|ok|bad;
                                                               observation = "<o1> / <o2> / … ctx=same" (a step that differs from the same parse through a
                                                               fresh context carries "!fresh=<that outcome>")
    c03 csib <tuple|object|array> <ctx|none> / Child <in> <rule> <admitsNil> <ownNilPath> [W=<stack>] <op>* / …   → the same steps as children of one container parse
                                                               (W=<stack>: the child is the schema under that wrapper chain; in a successful tuple it shows as "ok:<term>")
  op := Optional | Nilable | Nullish | NonOptional | Default:v|i | DefaultFunc:v|i | Prefault:v|i | PrefaultFunc:v|i | Overwrite | Refine
  The raw line is "<op line> @ <implementation outcome>"; the spec verdict echoes the implementation's
  outcome when `specNil` admits it and is "spec-rejects:<expected>" otherwise.
-/
import Gozod.Model.Modifiers
namespace Gozod.Drv.C03
open Gozod.Mods

def parseOp : String → Option Op
  | "Optional" => some .optional | "Nilable" => some .nilable | "Nullish" => some .nullish
  | "NonOptional" => some .nonOptional
  | "Default:v" => some (.dflt true) | "Default:i" => some (.dflt false)
  | "DefaultFunc:v" => some (.dfltFn true) | "DefaultFunc:i" => some (.dfltFn false)
  | "Prefault:v" => some (.prefault true) | "Prefault:i" => some (.prefault false)
  | "PrefaultFunc:v" => some (.prefaultFn true) | "PrefaultFunc:i" => some (.prefaultFn false)
  | "Overwrite" => some .overwrite | "Refine" => some .refine
  | _ => none

def renderOutcome : Outcome → String
  | .dflt false => "default:value" | .dflt true => "default:func"
  | .prefaultOk false => "prefault:value" | .prefaultOk true => "prefault:func"
  | .checkError => "err:checks" | .nonOptional => "err:nonoptional" | .nil => "nil"
  | .typeError => "err:type" | .refineError => "err:custom"

def parseOutcome (s : String) : Option Outcome := allOutcomes.find? (fun o => renderOutcome o == s)

def parseStack (s : String) : Option (List W) :=
  s.toList.mapM fun c => if c == 'T' then some W.tf else if c == 'P' then some W.pipe else none

def renderV : V → String
  | .src o => renderOutcome o
  | .inp => "in"
  | .app i v => "f" ++ toString i ++ "(" ++ renderV v ++ ")"

def renderCall (c : Call) : String :=
  (if c.pipe then "p" else "f") ++ toString c.id ++ "(" ++ renderV c.arg ++ ")"

/-- `short`: a non-nil rejection is rendered without its class (the base schema decides the class). -/
def renderObs (short : Bool) (p : R × List Call) : String :=
  let r := match p.1 with
    | .ok v => "ok:" ++ renderV v
    | .err o => if short then "err" else renderOutcome o
  r ++ " log=" ++ (if p.2.isEmpty then "-" else ";".intercalate (p.2.map renderCall))

/-! ### sequences of parses through one context (`cseq`) and children of one container (`csib`) -/

/-- what the model says to a line that claims a nil path of the type's own (`ownNilPath` = 1): nothing the
    implementation can have shown — never an echo of the observation -/
def ownRefused : String := "bad-op:own-nil-path-not-modelled"

structure StepD where
  entry : String
  inp : String
  rule : RefineRule
  adm : Bool
  h : List Op
  ws : List W := []   -- csib: the child is the schema under this wrapper chain (`W=<stack>` token)

def parseStepD (seg : String) : Option StepD :=
  match (seg.splitOn " ").filter (· ≠ "") with
  | entry :: inp :: rule :: adm :: own :: rest =>
    let (wtok, ops) := rest.partition (·.startsWith "W=")
    let ws := match wtok with
      | [] => some []
      | [t] => parseStack (String.ofList (t.toList.drop 2))
      | _ => none
    -- own = 1 (a nil path of the type's own, outside the engine model) is refused: the whole line becomes "bad-op"
    if own != "0" then none else
    match ops.mapM parseOp, ws with
    | some h, some ws => some ⟨entry, inp, if rule == "nilable" then .nilableFlag else .ptrTy, adm == "1", h, ws⟩
    | _, _ => none
  | _ => none

def StepD.input (d : StepD) : In :=
  if d.inp == "ok" then .valid else if d.inp == "bad" then .invalid else .nil

def parseCtx : String → Ctx
  | "report" => { reportInput := true }
  | "flag" => { isPrefaultContext := true }
  | "errmap" => { errMap := true }
  | _ => {}

def stripMark (s : String) : String := (s.splitOn "!").headD s

def isSuccess : Outcome → Bool
  | .dflt _ | .prefaultOk _ | .nil => true
  | _ => false

def resultOutcome : R → Option Outcome
  | .ok (.src o) => some o
  | .err o => some o
  | _ => none

/-- One step's result as `cseq` renders it. -/
def renderStep (d : StepD) (r : R) : String :=
  if d.inp == "ok" || d.inp == "bad" then (match r with | .ok _ => "ok" | .err _ => "err")
  else match resultOutcome r with
    | some o => renderOutcome o
    | none => "ok"

def admissible (d : StepD) : List Outcome := allOutcomes.filter (specNil d.adm d.h)

/-- The statement's verdict on one observed step outcome (judged by `specNil` on that step's own history). -/
def specStepStr (d : StepD) (io : String) : String :=
  if d.inp == "ok" then "ok" else if d.inp == "bad" then "err"
  else match parseOutcome io with
    | some o => if specNil d.adm d.h o then io
                else "spec-rejects:expected " ++ " | ".intercalate ((admissible d).map renderOutcome)
    | none => "spec-rejects:unclassified-outcome"

def handleSeq (init : String) (segs : List String) (impl : Option String) : String :=
  match segs.mapM parseStepD with
  | none => "bad-op"
  | some ds =>
    let c0 := parseCtx init
    let run := runSeq ctxStep c0 (ds.map fun d => ((⟨d.adm, applyAll d.rule {} d.h⟩ : Sch), d.input))
    let (iSteps, _) := match impl with
      | some io => (match io.splitOn " ctx=" with
                    | [a, b] => ((a.splitOn " / ").map some, b)
                    | _ => ([], "?"))
      | none => ([], "?")
    let implAt := fun (k : Nat) => (iSteps.getD k none)
    -- StrictParse steps (a typed nil pointer / a value of the static input type) are modelled and judged like Parse steps:
    -- `specNil` on the step's own history.
    let idx := List.range ds.length
    let ms := idx.map fun k =>
      match ds[k]?, run.2[k]? with
      | some d, some r => renderStep d r
      | _, _ => "?"
    let ss := idx.map fun k =>
      match ds[k]? with
      | some d =>
        (match implAt k with
         | none => "-"
         | some io => specStepStr d (stripMark io))
      | none => "?"
    let cm := if run.1 == c0 then "same" else "changed"
    " / ".intercalate ms ++ " ctx=" ++ cm ++ "\t" ++ (if impl.isSome then " / ".intercalate ss ++ " ctx=same" else "-")

/-- A child's outcome as a container's error reports it: the code (`invalid_type` for both the nonoptional and the
    type error — `Expected` does not survive the path-prepending conversion), custom, or a check issue. -/
def renderSibErr : Outcome → String
  | .nonOptional | .typeError => "err:type"
  | o => renderOutcome o

def handleSib (kind init : String) (segs : List String) (impl : Option String) : String :=
  match segs.mapM parseStepD with
  | none => "bad-op"
  | some ds =>
    let c0 := if init == "none" then ({} : Ctx) else parseCtx init
    -- `validateTupleForEngine` / `validateObject` / `validateArray`: `schema.ParseAny(child, ctx)` for every child, one ctx
    let run := runSeq ctxStep c0 (ds.map fun d => ((⟨d.adm, applyAll d.rule {} d.h⟩ : Sch), d.input))
    let iSteps := match impl with
      | some io => (match io.splitOn " ctx=" with
                    | [a, _] => (a.splitOn " / ").map some
                    | _ => [])
      | none => []
    let implAt := fun (k : Nat) => (iSteps.getD k none)
    let idx := List.range ds.length
    -- does any child fail?
    let anyErr := idx.any fun k =>
      match run.2[k]? with
      | some r => (match r with | .err _ => true | .ok _ => false)
      | _ => false
    let ms := idx.map fun k =>
      match ds[k]?, run.2[k]? with
      | some d, some r =>
        (match r with
         | .err o => if kind == "array" || d.inp == "ok" || d.inp == "bad" then "err" else renderSibErr o
         | .ok _ =>
           if kind == "tuple" && !anyErr then
             (if d.ws.isEmpty || d.inp == "ok" || d.inp == "bad" then renderStep d r
              else match ((wrap (applyAll d.rule {} d.h) d.ws).parse d.adm d.input).1 with
                | .ok v => "ok:" ++ renderV v
                | .err o => renderSibErr o)
           else "ok")
      | _, _ => "?"
    let ss := idx.map fun k =>
      match ds[k]? with
      | some d =>
        (match implAt k with
         | none => "-"
         | some io =>
           if d.inp == "ok" then "ok" else if d.inp == "bad" then "err" else
           let adm := admissible d
           let okAdm := adm.any isSuccess
           let errs := (adm.filter (fun o => !isSuccess o)).map fun o => if kind == "array" then "err" else renderSibErr o
           -- a wrapped child seen in a successful tuple/array: the term the statement admits (`specWrapped`: a default goes
           -- through no Transform callback, everything else through every wrapper once, in order)
           let okTerms := adm.filterMap fun o => match (specWrapped o d.ws).1 with
             | .ok v => some ("ok:" ++ renderV v)
             | .err _ => none
           if io.startsWith "ok:" then (if okTerms.contains io then io else "spec-rejects:expected " ++ " | ".intercalate (okTerms ++ errs))
           else if io == "ok" then (if okAdm then io else "spec-rejects:expected " ++ " | ".intercalate errs)
           else if errs.contains io then io
           else match parseOutcome io with
             | some o => if isSuccess o && specNil d.adm d.h o then io
                         else "spec-rejects:expected " ++ " | ".intercalate (adm.map renderOutcome)
             | none => "spec-rejects:expected " ++ " | ".intercalate (adm.map renderOutcome))
      | none => "?"
    let cm := if run.1 == c0 then "same" else "changed"
    " / ".intercalate ms ++ " ctx=" ++ cm ++ "\t" ++ (if impl.isSome then " / ".intercalate ss ++ " ctx=same" else "-")

/-- The value parser as the `val` lines abstract it: an input is (accepted by the schema as constructed, verdict
    depends on the type's own configuration); with the configuration gone a dependent input's verdict flips. -/
def depValidate (cfg : Bool) (x : Bool × Bool) : Option Unit :=
  let verdict := if x.2 && !cfg then !x.1 else x.1
  if verdict then some () else none

def handleLine (line : String) : String :=
  let (lhs, impl) := match line.splitOn " @ " with
    | [a, b] => (a, some b)
    | _ => (line, none)
  match (lhs.splitOn " ").filter (· ≠ "") with
  | "c03" :: "cseq" :: init :: _ => handleSeq init ((lhs.splitOn " / ").drop 1) impl
  | "c03" :: "csib" :: kind :: init :: _ => handleSib kind init ((lhs.splitOn " / ").drop 1) impl
  | "c03" :: "cfg" :: kind :: ops =>
    -- the type's own configuration after the history: carried, or left at its zero value by a dropping method
    match ops.mapM parseOp with
    | none => "bad-op"
    | some h =>
      let s := applyAllC dropsCfg (kindOfName kind) .nilableFlag false (⟨true, false, {}⟩ : SchC Bool) h
      (if s.cfg then "carried" else "dropped") ++ "\tcarried"
  | "c03" :: "val" :: kind :: okbad :: dep :: own :: ops =>
    -- a non-nil input: the value parser under the configuration the history leaves (`ctxStepX`); an input whose verdict
    -- depends on the configuration (dep = 1) flips when the configuration is gone
    match ops.mapM parseOp with
    | none => "bad-op"
    | some h =>
      let s0 : SchC Bool := ⟨true, false, {}⟩
      let x : Bool × Bool := (okbad == "ok", dep == "1")
      let a := (ctxStepX depValidate {} (applyAllC dropsCfg (kindOfName kind) .nilableFlag false s0 h) (some x)).2
      let b := (ctxStepX depValidate {} s0 (some x)).2
      -- (own: no row has a nil path outside the engine model any more — f5847cc — the token is always 0; a line that
      -- says 1 is refused, never echoed: round 4c, audit A LOW)
      (if own == "1" then ownRefused else if a == b then "same" else "diff:verdict") ++ "\tsame"
  | "c03" :: "wval" :: stack :: okbad :: ops =>
    match parseStack stack, ops.mapM parseOp with
    | some ws, some h =>
      let inp := if okbad == "ok" then In.valid else In.invalid
      let m := renderObs true ((wrap (applyAll .ptrTy {} h) ws).parse false inp) ++ " base=same"
      let s := renderObs true (specValW (okbad == "ok") ws) ++ " base=same"
      m ++ "\t" ++ s
    | _, _ => "bad-op"
  | "c03" :: "wnil" :: rule :: adm :: own :: stack :: ops =>
    let rule := if rule == "nilable" then RefineRule.nilableFlag else RefineRule.ptrTy
    let adm := adm == "1"
    match parseStack stack, ops.mapM parseOp with
    | some ws, some h =>
      let m := if own == "1" then ownRefused else renderObs false ((wrap (applyAll rule {} h) ws).parse adm .nil)
      let admissible := (allOutcomes.filter (specNil adm h)).map fun o => renderObs false (specWrapped o ws)
      let s := match impl with
        | none => "-"
        | some io => if admissible.contains io then io else "spec-rejects:expected " ++ " | ".intercalate admissible
      m ++ "\t" ++ s
    | _, _ => "bad-op"
  | "c03" :: "nil" :: rule :: adm :: own :: ops =>
    let rule := if rule == "nilable" then RefineRule.nilableFlag else RefineRule.ptrTy
    let adm := adm == "1"
    match ops.mapM parseOp with
    | none => "bad-op"
    | some h =>
      -- own = 1 (a type with a nil path of its own that the engine model does not cover) no longer exists in the
      -- harness table; the model never echoes the observation: such a line is refused and shows as a broken tie
      let m := if own == "1" then ownRefused else renderOutcome (nilOutcome adm (applyAll rule {} h))
      let s := match impl with
        | none => "-"
        | some io =>
          match parseOutcome io with
          | some o => if specNil adm h o then io
                      else "spec-rejects:expected " ++ " | ".intercalate ((allOutcomes.filter (specNil adm h)).map renderOutcome)
          | none => "spec-rejects:unclassified-outcome"
      m ++ "\t" ++ s
  | _ => "bad-op"

end Gozod.Drv.C03
