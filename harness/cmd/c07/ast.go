package main

// Schema / instance ASTs shared (as text) with the Lean driver `driver_c07`.
//
// Every token is separated by one space (parentheses are tokens), so the Lean side can use the
// common token loop.  Strings travel as `s:` + dot-separated decimal code points.  Numbers in
// instances and float bounds travel in QUARTER units (`q6` = 1.5) so both sides stay in exact
// integer arithmetic; integer-schema bounds are plain integers.
//
//	S ::= ( str CK* )              CK ::= ( min N ) | ( max N ) | ( len N ) | ( sw STR ) | ( ew STR ) | ( inc STR ) | lower | upper | trim
//	    | ( int KIND NK* )         NK ::= ( gt Z ) | ( gte Z ) | ( lt Z ) | ( lte Z ) | ( mul Z )
//	    | ( flt NK* )              (Z in quarter units)
//	    | bool | nil | any | never
//	    | ( enum STR+ ) | ( lit J+ )
//	    | ( opt S ) | ( nul S )
//	    | ( obj MODE CATCH PART ( cks SZ* ) ( STR S )* )     MODE ::= strip|strict|loose  CATCH ::= - | S   PART ::= p | -
//	    | ( objF MODE CATCH ( ops OP* ) ( cks SZ* ) ( STR S )* )   an object with a call history, top level (or under lazy) only
//	                               OP ::= ( part STR* ) | ( req STR* )      Partial(keys…) / Required(keys…), in call order
//	    | ( mapF ( str CK* ) S SZ* )   gozod.Map(String()<CK*>, S)<SZ*>, top level only
//	    | ( recV WRAP S )          V = Union([S, Slice(LazyAny(→ V))]); the schema is V (root), StrictObject{val: V} (field) or Slice(V)
//	                               (slice); top level only, default options only
//	    | ( slice S SZ* )          SZ ::= ( min N ) | ( max N ) | ( len N )
//	    | ( arr REST ( cks SZ* ) S* ) | ( tup REST ( cks SZ* ) S* )     REST ::= - | S
//	    | ( rec S S SZ* )
//	    | ( union S+ ) | ( xor S+ ) | ( and S S )
//	    | ( id NAME S )            S.Meta(GlobalMeta{ID: NAME}) — the converter hoists it into $defs (NAME is one token)
//	    | ( lazy FL S )            types.LazyAny(func() any { return S }) with FL = -- | o- | -n | on (Optional()/Nilable() on the lazy schema); top level only
//	    | ( re NAME ) among CK     String().Regex(<table entry NAME>)   (rxTable in gen.go / Rx in the Lean model)
//	J ::= n | t | f | qZ | s:CP.CP… | ( a J* ) | ( o ( STR J )* )

import (
	"fmt"
	"strconv"
	"strings"
)

type Ck struct {
	Op string // min max len sw ew inc lower upper trim gt gte lt lte mul
	N  int64
	S  string
}

type Field struct {
	Name string
	S    *Sch
}

type Sch struct {
	K      string // str int flt bool nil any never enum lit opt nul obj slice arr tup rec union xor and
	Kind   string // int kind
	Cks    []Ck
	Strs   []string // enum
	Lits   []*J     // lit
	Elem   *Sch     // opt/nul/slice element; rec value
	Key    *Sch     // rec key
	Mode   string   // obj
	Catch  *Sch
	Part   bool
	Fields []Field
	Items  []*Sch // arr/tup items, union/xor members, and (2)
	Rest   *Sch
	Name   string // id: registry ID
	Ops    []ObjOp // obj: Partial / Required calls, in order (applied after WithCatchall, before the size checks)
}

// ObjOp: one Partial(keys…) / Required(keys…) call; no keys = the call without arguments.
type ObjOp struct {
	Req  bool
	Keys []string
}


type J struct {
	T  string // n b q s a o
	B  bool
	Q  int64 // quarter units
	S  string
	A  []*J
	Ks []string
	Vs []*J
}

func encStr(s string) string {
	var b strings.Builder
	b.WriteString("s:")
	first := true
	for _, r := range s {
		if !first {
			b.WriteByte('.')
		}
		first = false
		b.WriteString(strconv.Itoa(int(r)))
	}
	return b.String()
}

func (c Ck) String() string {
	switch c.Op {
	case "lower", "upper", "trim":
		return c.Op
	case "sw", "ew", "inc":
		return "( " + c.Op + " " + encStr(c.S) + " )"
	case "re":
		return "( re " + c.S + " )"
	}
	return fmt.Sprintf("( %s %d )", c.Op, c.N)
}

func cks(cs []Ck) string {
	var b strings.Builder
	for _, c := range cs {
		b.WriteString(" ")
		b.WriteString(c.String())
	}
	return b.String()
}

func orDash(s *Sch) string {
	if s == nil {
		return "-"
	}
	return s.String()
}

func (s *Sch) String() string {
	switch s.K {
	case "bool", "nil", "any", "never":
		return s.K
	case "str":
		return "( str" + cks(s.Cks) + " )"
	case "int":
		return "( int " + s.Kind + cks(s.Cks) + " )"
	case "flt":
		return "( flt" + cks(s.Cks) + " )"
	case "enum":
		var b strings.Builder
		b.WriteString("( enum")
		for _, v := range s.Strs {
			b.WriteString(" " + encStr(v))
		}
		return b.String() + " )"
	case "lit":
		var b strings.Builder
		b.WriteString("( lit")
		for _, v := range s.Lits {
			b.WriteString(" " + v.String())
		}
		return b.String() + " )"
	case "opt", "nul":
		return "( " + s.K + " " + s.Elem.String() + " )"
	case "id":
		return "( id " + s.Name + " " + s.Elem.String() + " )"
	case "lazy":
		return "( lazy " + s.Kind + " " + s.Elem.String() + " )"
	case "obj":
		var b strings.Builder
		if len(s.Ops) > 0 {
			b.WriteString("( objF ")
			b.WriteString(s.Mode + " " + orDash(s.Catch) + " ( ops")
			for _, op := range s.Ops {
				if op.Req {
					b.WriteString(" ( req")
				} else {
					b.WriteString(" ( part")
				}
				for _, k := range op.Keys {
					b.WriteString(" " + encStr(k))
				}
				b.WriteString(" )")
			}
			b.WriteString(" ) ( cks" + cks(s.Cks) + " )")
			for _, f := range s.Fields {
				b.WriteString(" ( " + encStr(f.Name) + " " + f.S.String() + " )")
			}
			return b.String() + " )"
		}
		p := "-"
		if s.Part {
			p = "P"
		}
		b.WriteString("( obj " + s.Mode + " " + orDash(s.Catch) + " " + p + " ( cks" + cks(s.Cks) + " )")
		for _, f := range s.Fields {
			b.WriteString(" ( " + encStr(f.Name) + " " + f.S.String() + " )")
		}
		return b.String() + " )"
	case "slice":
		return "( slice " + s.Elem.String() + cks(s.Cks) + " )"
	case "arr", "tup":
		var b strings.Builder
		b.WriteString("( " + s.K + " " + orDash(s.Rest) + " ( cks" + cks(s.Cks) + " )")
		for _, it := range s.Items {
			b.WriteString(" " + it.String())
		}
		return b.String() + " )"
	case "rec":
		return "( rec " + s.Key.String() + " " + s.Elem.String() + cks(s.Cks) + " )"
	case "recv":
		return "( recV " + s.Kind + " " + s.Elem.String() + " )"
	case "map":
		return "( mapF " + s.Key.String() + " " + s.Elem.String() + cks(s.Cks) + " )"
	case "union", "xor", "and":
		var b strings.Builder
		b.WriteString("( " + s.K)
		for _, it := range s.Items {
			b.WriteString(" " + it.String())
		}
		return b.String() + " )"
	}
	panic("Sch.String: " + s.K)
}

func (j *J) String() string {
	switch j.T {
	case "n":
		return "n"
	case "b":
		if j.B {
			return "t"
		}
		return "f"
	case "q":
		return "q" + strconv.FormatInt(j.Q, 10)
	case "s":
		return encStr(j.S)
	case "a":
		var b strings.Builder
		b.WriteString("( a")
		for _, v := range j.A {
			b.WriteString(" " + v.String())
		}
		return b.String() + " )"
	case "o":
		var b strings.Builder
		b.WriteString("( o")
		for i, k := range j.Ks {
			b.WriteString(" ( " + encStr(k) + " " + j.Vs[i].String() + " )")
		}
		return b.String() + " )"
	}
	panic("J.String")
}

// constructors
func jNull() *J         { return &J{T: "n"} }
func jBool(b bool) *J   { return &J{T: "b", B: b} }
func jQ(q int64) *J     { return &J{T: "q", Q: q} }
func jInt(n int64) *J   { return &J{T: "q", Q: 4 * n} }
func jStr(s string) *J  { return &J{T: "s", S: s} }
func jArr(xs ...*J) *J  { return &J{T: "a", A: xs} }
func jObj() *J          { return &J{T: "o"} }
func (j *J) with(k string, v *J) *J {
	r := &J{T: "o", Ks: append(append([]string{}, j.Ks...), k), Vs: append(append([]*J{}, j.Vs...), v)}
	return r
}
func (j *J) without(k string) *J {
	r := &J{T: "o"}
	for i, kk := range j.Ks {
		if kk != k {
			r.Ks = append(r.Ks, kk)
			r.Vs = append(r.Vs, j.Vs[i])
		}
	}
	return r
}
func (j *J) get(k string) *J {
	for i, kk := range j.Ks {
		if kk == k {
			return j.Vs[i]
		}
	}
	return nil
}

// JSON text of an instance (numbers: quarter units → exact decimal).
func (j *J) JSON() string {
	switch j.T {
	case "n":
		return "null"
	case "b":
		if j.B {
			return "true"
		}
		return "false"
	case "q":
		return qText(j.Q)
	case "s":
		return strconv.Quote(j.S) // ASCII + \u escapes: valid JSON for the strings we generate
	case "a":
		parts := make([]string, len(j.A))
		for i, v := range j.A {
			parts[i] = v.JSON()
		}
		return "[" + strings.Join(parts, ",") + "]"
	case "o":
		parts := make([]string, len(j.Ks))
		for i, k := range j.Ks {
			parts[i] = strconv.Quote(k) + ":" + j.Vs[i].JSON()
		}
		return "{" + strings.Join(parts, ",") + "}"
	}
	panic("J.JSON")
}

func qText(q int64) string {
	neg := q < 0
	a := q
	if neg {
		a = -q
	}
	s := strconv.FormatInt(a/4, 10)
	switch a % 4 {
	case 1:
		s += ".25"
	case 2:
		s += ".5"
	case 3:
		s += ".75"
	}
	if neg {
		s = "-" + s
	}
	return s
}
