/- REGENERATED on every `./check C12` run by harness/cmd/c12/access.go (go/ast over <repo>/jsonschema/to.go; the
   `accessorAlias` table behaviourally over <repo>/types).  DO NOT EDIT. -/
namespace Gozod.Gen.ConvAccess

/-- where the memory a write site writes through comes from -/
inductive Origin
  | fresh | doc | converter | scratch | scratchShared | liveInternals | schema | value
  | accessor (m : String) | global (n : String) | unknown (s : String)
deriving DecidableEq, Repr

structure AccCall where
  fn : String
  method : String
  result : String
  how : String
  data : Bool   -- the result is a slice or a map (or unknown: reflective call)
deriving DecidableEq, Repr

structure AccAlias where
  method : String
  recv : String
  alias : Bool
deriving DecidableEq, Repr

structure WriteSite where
  fn : String
  kind : String
  target : String
  origin : Origin
  detail : String
deriving DecidableEq, Repr

/-- order-relevant effect of a loop body -/
inductive Effect
  | mapInsert (target : String)
  | appendSorted (list : String)
  | appendUnsorted (list : String)
  | field (f : String) (key : String)
  | converterCall (m : String)
  | delete (target : String)
deriving DecidableEq, Repr

structure MapRange where
  fn : String
  over : String
  cls : String
  effects : List Effect
deriving DecidableEq, Repr

/-- every method the converter calls on a schema value -/
def accessorCalls : List AccCall := [
  ⟨"annotatedInternals", "Internals", "*core.ZodTypeInternals", "direct", false⟩,
  ⟨"convert", "Internals", "*core.ZodTypeInternals", "direct", false⟩,
  ⟨"convertArray", "Element", "core.ZodSchema", "assert", false⟩,
  ⟨"convertArray", "Items", "[]core.ZodSchema", "assert", true⟩,
  ⟨"convertArray", "Rest", "core.ZodSchema", "assert", false⟩,
  ⟨"convertDiscriminatedUnion", "Options", "[]core.ZodSchema", "assert", true⟩,
  ⟨"convertEnum", "Options", "reflect", "reflect", true⟩,
  ⟨"convertIntersection", "Left", "core.ZodSchema", "assert", false⟩,
  ⟨"convertIntersection", "Right", "core.ZodSchema", "assert", false⟩,
  ⟨"convertLazy", "Inner", "reflect", "reflect", true⟩,
  ⟨"convertLazy", "Unwrap", "core.ZodType[any]", "assert", false⟩,
  ⟨"convertLiteral", "Values", "reflect", "reflect", true⟩,
  ⟨"convertMap", "Internals", "*core.ZodTypeInternals", "assert", false⟩,
  ⟨"convertMap", "KeyType", "any", "assert", false⟩,
  ⟨"convertMap", "ValueType", "any", "assert", false⟩,
  ⟨"convertObject", "Shape", "core.StructSchema", "assert", true⟩,
  ⟨"convertObjectFromShape", "Catchall", "core.ZodSchema", "assert", false⟩,
  ⟨"convertObjectFromShape", "Internals", "*core.ZodTypeInternals", "assert", false⟩,
  ⟨"convertObjectFromShape", "IsFieldOptional", "bool", "assert", false⟩,
  ⟨"convertRecord", "IsLoose", "bool", "assert", false⟩,
  ⟨"convertRecord", "KeyType", "any", "assert", false⟩,
  ⟨"convertRecord", "ValueType", "any", "assert", false⟩,
  ⟨"convertTuple", "Internals", "*core.ZodTypeInternals", "assert", false⟩,
  ⟨"convertTuple", "Items", "[]core.ZodSchema", "assert", true⟩,
  ⟨"convertTuple", "Rest", "core.ZodSchema", "assert", false⟩,
  ⟨"convertUnion", "Internals", "*core.ZodTypeInternals", "direct", false⟩,
  ⟨"convertUnion", "Options", "[]core.ZodSchema", "assert", true⟩,
  ⟨"convertXor", "Options", "[]core.ZodSchema", "assert", true⟩,
  ⟨"doConvert", "Inner", "core.ZodSchema", "assert", false⟩,
  ⟨"doConvert", "Output", "core.ZodSchema", "assert", false⟩,
  ⟨"isNullSchema", "Internals", "*core.ZodTypeInternals", "direct", false⟩,
  ⟨"lookupMeta", "Inner", "core.ZodSchema", "assert", false⟩,
  ⟨"resolveUnknownKeysMode", "UnknownKeys", "any", "assert", false⟩,
  ⟨"resolveUnknownKeysMode", "UnknownKeys", "reflect", "reflect", true⟩,
  ⟨"unwrapSchema", "Inner", "core.ZodSchema", "assert", false⟩
]

/-- slice/map-returning accessors × schema types of the generator: does the result alias the schema's own memory? -/
def accessorAlias : List AccAlias := [
  ⟨"Items", "ZodArray", false⟩,
  ⟨"Items", "ZodTuple", true⟩,
  ⟨"Options", "ZodDiscriminatedUnion", false⟩,
  ⟨"Options", "ZodEnum", false⟩,
  ⟨"Options", "ZodUnion", false⟩,
  ⟨"Options", "ZodXor", false⟩,
  ⟨"Shape", "ZodObject", false⟩,
  ⟨"Shape", "ZodStruct", false⟩,
  ⟨"Values", "ZodLiteral", true⟩
]

/-- the fields `annotatedInternals` re-makes on its private copy of the internals -/
def scratchFreshFields : List String := ["Bag"]

/-- every place of to.go that writes through a reference -/
def writeSites : List WriteSite := [
  ⟨"annotatedInternals", "field", "in", .fresh, "Bag"⟩,
  ⟨"annotatedInternals", "index", "in.Bag", .scratch, ""⟩,
  ⟨"applyBag", "field", "js", .doc, "Pattern"⟩,
  ⟨"applyBag", "field", "js", .doc, "AllOf"⟩,
  ⟨"applyBag", "append", "js.AllOf", .doc, ""⟩,
  ⟨"applyBag", "field", "js", .doc, "MinLength"⟩,
  ⟨"applyBag", "field", "js", .doc, "MaxLength"⟩,
  ⟨"applyBag", "field", "js", .doc, "Format"⟩,
  ⟨"applyBag", "field", "js", .doc, "ContentEncoding"⟩,
  ⟨"applyBag", "field", "js", .doc, "ContentMediaType"⟩,
  ⟨"applyBag", "field", "js", .doc, "Minimum"⟩,
  ⟨"applyBag", "field", "js", .doc, "Maximum"⟩,
  ⟨"applyBag", "field", "js", .doc, "MultipleOf"⟩,
  ⟨"applyBag", "field", "js", .doc, "ExclusiveMinimum"⟩,
  ⟨"applyBag", "field", "js", .doc, "ExclusiveMaximum"⟩,
  ⟨"applyBag", "field", "js", .doc, "MinItems"⟩,
  ⟨"applyBag", "field", "js", .doc, "MaxItems"⟩,
  ⟨"applyBag", "field", "js", .doc, "MinProperties"⟩,
  ⟨"applyBag", "field", "js", .doc, "MaxProperties"⟩,
  ⟨"applyMeta", "field", "jsonSchema", .doc, "Title"⟩,
  ⟨"applyMeta", "field", "jsonSchema", .doc, "Description"⟩,
  ⟨"applyMeta", "field", "jsonSchema", .doc, "Examples"⟩,
  ⟨"applyNumericRangeDefaults", "field", "js", .doc, "Minimum"⟩,
  ⟨"applyNumericRangeDefaults", "field", "js", .doc, "Maximum"⟩,
  ⟨"applyStringBag", "index", "uniquePatterns", .fresh, ""⟩,
  ⟨"applyStringBag", "append", "result", .fresh, ""⟩,
  ⟨"applyStringBag", "field", "jsonSchema", .doc, "Pattern"⟩,
  ⟨"applyStringBag", "field", "jsonSchema", .doc, "AllOf"⟩,
  ⟨"applyStringBag", "index", "jsonSchema.AllOf", .doc, ""⟩,
  ⟨"applyStringBag", "delete", "internals.Bag", .scratch, ""⟩,
  ⟨"applyStringBag", "field", "jsonSchema", .doc, "Format"⟩,
  ⟨"applyStringBag", "field", "jsonSchema", .doc, "MinLength"⟩,
  ⟨"applyStringBag", "field", "jsonSchema", .doc, "MaxLength"⟩,
  ⟨"applyStringBag", "field", "jsonSchema", .doc, "ContentEncoding"⟩,
  ⟨"applyStringBag", "field", "jsonSchema", .doc, "ContentMediaType"⟩,
  ⟨"convert", "field", "c", .converter, "depth"⟩,
  ⟨"convert", "index", "c.counts", .converter, ""⟩,
  ⟨"convert", "index", "c.seen", .converter, ""⟩,
  ⟨"convert", "index", "c.converting", .converter, ""⟩,
  ⟨"convert", "delete", "c.converting", .converter, ""⟩,
  ⟨"convert", "deref", "slot", .converter, ""⟩,
  ⟨"convert", "field", "c", .converter, "auto"⟩,
  ⟨"convert", "index", "c.refs", .converter, ""⟩,
  ⟨"convert", "index", "c.defs", .converter, ""⟩,
  ⟨"convert", "deref", "placeholder", .fresh, ""⟩,
  ⟨"convert", "field", "finalSchema", .doc, "Description"⟩,
  ⟨"convert", "index", "placeholder.AnyOf", .fresh, ""⟩,
  ⟨"convert", "field", "refSchema", .fresh, "Description"⟩,
  ⟨"convert", "field", "placeholder", .fresh, "Ref"⟩,
  ⟨"convert", "field", "placeholder", .fresh, "Type"⟩,
  ⟨"convert", "field", "placeholder", .fresh, "OneOf"⟩,
  ⟨"convert", "field", "placeholder", .fresh, "Properties"⟩,
  ⟨"convert", "field", "placeholder", .fresh, "Items"⟩,
  ⟨"convertArray", "field", "jsonSchema", .fresh, "Items"⟩,
  ⟨"convertArray", "field", "jsonSchema", .fresh, "PrefixItems"⟩,
  ⟨"convertArray", "index", "jsonSchema.PrefixItems", .fresh, ""⟩,
  ⟨"convertArray", "field", "jsonSchema", .fresh, "MinItems"⟩,
  ⟨"convertArray", "field", "jsonSchema", .fresh, "MaxItems"⟩,
  ⟨"convertDiscriminatedUnion", "index", "oneOf", .fresh, ""⟩,
  ⟨"convertEnum", "append", "enumValues", .fresh, ""⟩,
  ⟨"convertEnum", "inplace", "enumValues", .fresh, "slices.SortStableFunc"⟩,
  ⟨"convertEnum", "field", "js", .fresh, "Type"⟩,
  ⟨"convertFile", "field", "itemSchema", .fresh, "MinLength"⟩,
  ⟨"convertFile", "field", "itemSchema", .fresh, "MaxLength"⟩,
  ⟨"convertFile", "index", "anyOf", .fresh, ""⟩,
  ⟨"convertFile", "field", "s", .fresh, "AnyOf"⟩,
  ⟨"convertFile", "field", "s", .fresh, "Type"⟩,
  ⟨"convertFile", "field", "s", .fresh, "Format"⟩,
  ⟨"convertFile", "field", "s", .fresh, "ContentEncoding"⟩,
  ⟨"convertFile", "field", "s", .fresh, "ContentMediaType"⟩,
  ⟨"convertFile", "field", "s", .fresh, "MinLength"⟩,
  ⟨"convertFile", "field", "s", .fresh, "MaxLength"⟩,
  ⟨"convertFile", "delete", "internals.Bag", .scratch, ""⟩,
  ⟨"convertLiteral", "index", "values", .fresh, ""⟩,
  ⟨"convertLiteral", "index", "flat", .fresh, ""⟩,
  ⟨"convertLiteral", "field", "jsonSchema", .fresh, "Type"⟩,
  ⟨"convertLiteral", "field", "jsonSchema", .fresh, "Const"⟩,
  ⟨"convertLiteral", "field", "jsonSchema", .fresh, "Enum"⟩,
  ⟨"convertObjectFromShape", "field", "c", .converter, "path"⟩,
  ⟨"convertObjectFromShape", "append", "c.path", .converter, ""⟩,
  ⟨"convertObjectFromShape", "index", "properties", .fresh, ""⟩,
  ⟨"convertObjectFromShape", "append", "required", .fresh, ""⟩,
  ⟨"convertObjectFromShape", "field", "jsonSchema", .fresh, "Properties"⟩,
  ⟨"convertObjectFromShape", "inplace", "required", .fresh, "slices.SortFunc"⟩,
  ⟨"convertObjectFromShape", "field", "jsonSchema", .fresh, "Required"⟩,
  ⟨"convertObjectFromShape", "field", "jsonSchema", .fresh, "AdditionalProperties"⟩,
  ⟨"convertTuple", "field", "jsonSchema", .fresh, "PrefixItems"⟩,
  ⟨"convertTuple", "field", "c", .converter, "path"⟩,
  ⟨"convertTuple", "append", "c.path", .converter, ""⟩,
  ⟨"convertTuple", "index", "jsonSchema.PrefixItems", .fresh, ""⟩,
  ⟨"convertTuple", "field", "jsonSchema", .fresh, "Items"⟩,
  ⟨"convertTuple", "field", "jsonSchema", .fresh, "MinItems"⟩,
  ⟨"convertTuple", "field", "jsonSchema", .fresh, "MaxItems"⟩,
  ⟨"convertUnion", "field", "c", .converter, "path"⟩,
  ⟨"convertUnion", "append", "c.path", .converter, ""⟩,
  ⟨"convertUnion", "append", "anyOf", .fresh, ""⟩,
  ⟨"convertXor", "field", "c", .converter, "path"⟩,
  ⟨"convertXor", "append", "c.path", .converter, ""⟩,
  ⟨"convertXor", "append", "oneOf", .fresh, ""⟩,
  ⟨"doConvert", "field", "emptyNotSchema", .fresh, "Boolean"⟩,
  ⟨"doConvert", "deref", "emptyNotSchema.Boolean", .fresh, ""⟩,
  ⟨"getID", "index", "c.idCache", .converter, ""⟩,
  ⟨"lazyRef", "field", "c", .converter, "auto"⟩,
  ⟨"lazyRef", "deref", "slot", .fresh, ""⟩,
  ⟨"lazyRef", "index", "c.lazyDefs", .converter, ""⟩,
  ⟨"lazyRef", "index", "c.refs", .converter, ""⟩,
  ⟨"lazyRef", "index", "c.defs", .converter, ""⟩,
  ⟨"toJSONSchemaRegistry", "field", "opts", .fresh, "Metadata"⟩,
  ⟨"toJSONSchemaRegistry", "append", "schemasInRegistry", .fresh, ""⟩,
  ⟨"toJSONSchemaRegistry", "field", "rootSchema", .fresh, "Defs"⟩,
  ⟨"toJSONSchemaRegistry", "index", "rootSchema.Defs", .fresh, ""⟩,
  ⟨"toJSONSchemaSingle", "field", "c", .fresh, "root"⟩,
  ⟨"toJSONSchemaSingle", "field", "s", .fresh, "Defs"⟩,
  ⟨"toJSONSchemaSingle", "index", "s.Defs", .fresh, ""⟩,
  ⟨"unwrapSchema", "index", "c.unwrapCache", .converter, ""⟩,
  ⟨"unwrapSchema", "index", "visited", .fresh, ""⟩
]

/-- every loop over a map (or Registry.Range callback) with the order-relevant effects of its body -/
def mapRanges : List MapRange := [
  ⟨"annotatedInternals", "live.Bag", "map", [.mapInsert "in.Bag"]⟩,
  ⟨"applyBag", "bag", "sortedKeys", [.field "ContentEncoding" "contentEncoding", .field "ContentMediaType" "contentMediaType", .field "ContentMediaType" "mime", .field "ExclusiveMaximum" "exclusiveMaximum", .field "ExclusiveMinimum" "exclusiveMinimum", .field "Format" "format", .field "MaxItems" "maxItems", .field "MaxLength" "maxLength", .field "MaxLength" "maxSize", .field "MaxProperties" "maxProperties", .field "Maximum" "maximum", .field "MinItems" "minItems", .field "MinLength" "minLength", .field "MinLength" "minSize", .field "MinProperties" "minProperties", .field "Minimum" "minimum", .field "MultipleOf" "multipleOf"]⟩,
  ⟨"convertObjectFromShape", "shape", "sortedKeys", [.appendSorted "required", .converterCall "convert", .field "path" "*", .mapInsert "properties"]⟩,
  ⟨"toJSONSchemaRegistry", "c.defs", "sortedKeys", [.mapInsert "rootSchema.Defs"]⟩,
  ⟨"toJSONSchemaSingle", "c.defs", "sortedKeys", [.mapInsert "s.Defs"]⟩,
  ⟨"toJSONSchemaRegistry", "reg.Range", "registry", [.appendUnsorted "schemasInRegistry"]⟩
]

/-- the member types whose lists `convertEnum` sorts (`total`: every list) -/
def enumSort : List String := ["total"]

/-- provenance of a VALUE stored into the document / handed to a callback -/
inductive VOrigin
  | fresh | doc | value | registryEntry | schema | other (s : String)
deriving DecidableEq, Repr

structure OptField where
  name : String
  typ : String
  cls : String
  reads : List String
  writes : List String
  calls : List String
deriving DecidableEq, Repr

structure CtxArg where
  field : String
  expr : String
  origin : VOrigin
  returned : Bool   -- the same variable is what the calling function returns
deriving DecidableEq, Repr

structure DocStore where
  fn : String
  field : String
  rhs : String
  origin : VOrigin
deriving DecidableEq, Repr

/-- every field of `type Options struct`, and the functions of to.go that read / write / call it -/
def optionFields : List OptField := [
  ⟨"Metadata", "*core.Registry[core.GlobalMeta]", "registry", ["applyMeta", "getID"], ["toJSONSchemaRegistry"], []⟩,
  ⟨"Unrepresentable", "string", "value", ["doConvert"], [], []⟩,
  ⟨"Cycles", "string", "value", ["convert"], [], []⟩,
  ⟨"Reused", "string", "value", ["convert"], [], []⟩,
  ⟨"URI", "func(id string) string", "callback", ["convert"], [], ["convert"]⟩,
  ⟨"Target", "string", "value", [], [], []⟩,
  ⟨"Override", "func(ctx OverrideContext)", "callback", ["convert"], [], ["convert"]⟩,
  ⟨"IO", "string", "value", ["convertObjectFromShape", "doConvert"], [], []⟩
]

/-- what `c.opts.Override(OverrideContext{…})` is handed -/
def overrideCall : List CtxArg := [
  ⟨"ZodSchema", "schema", .schema, false⟩,
  ⟨"JSONSchema", "placeholder", .fresh, true⟩
]

/-- what `c.opts.URI(…)` is handed -/
def uriCall : List CtxArg := [
  ⟨"arg0", "id", .value, false⟩
]

/-- every reference-typed value stored into the document, with the provenance of the value -/
def docStores : List DocStore := [
  ⟨"applyMeta", "Examples", "slices.Clone(meta.Examples)", .fresh⟩,
  ⟨"convert", "Type", "nil", .value⟩,
  ⟨"convertArray", "Type", "[]string{\"array\"}", .fresh⟩,
  ⟨"convertEnum", "Enum", "enumValues", .fresh⟩,
  ⟨"convertEnum", "Type", "[]string{\"number\"}", .fresh⟩,
  ⟨"convertEnum", "Type", "[]string{\"string\"}", .fresh⟩,
  ⟨"convertFile", "Type", "[]string{\"string\"}", .fresh⟩,
  ⟨"convertFile", "Type", "[]string{\"string\"}", .fresh⟩,
  ⟨"convertFile", "Type", "nil", .value⟩,
  ⟨"convertLiteral", "Const", "&lib.ConstValue{Value: values[0], IsSet: true}", .fresh⟩,
  ⟨"convertLiteral", "Enum", "values", .fresh⟩,
  ⟨"convertLiteral", "Type", "[]string{\"boolean\"}", .fresh⟩,
  ⟨"convertLiteral", "Type", "[]string{\"number\"}", .fresh⟩,
  ⟨"convertLiteral", "Type", "[]string{\"string\"}", .fresh⟩,
  ⟨"convertLiteral", "Value", "values[0]", .fresh⟩,
  ⟨"convertMap", "Type", "[]string{\"object\"}", .fresh⟩,
  ⟨"convertObjectFromShape", "Required", "required", .fresh⟩,
  ⟨"convertObjectFromShape", "Type", "[]string{\"object\"}", .fresh⟩,
  ⟨"convertRecord", "Type", "[]string{\"object\"}", .fresh⟩,
  ⟨"convertRecord", "Type", "[]string{\"object\"}", .fresh⟩,
  ⟨"convertTuple", "Type", "[]string{\"array\"}", .fresh⟩,
  ⟨"doConvert", "Type", "[]string{\"boolean\"}", .fresh⟩,
  ⟨"doConvert", "Type", "[]string{\"integer\"}", .fresh⟩,
  ⟨"doConvert", "Type", "[]string{\"null\"}", .fresh⟩,
  ⟨"doConvert", "Type", "[]string{\"number\"}", .fresh⟩,
  ⟨"doConvert", "Type", "[]string{\"number\"}", .fresh⟩,
  ⟨"doConvert", "Type", "[]string{\"number\"}", .fresh⟩,
  ⟨"doConvert", "Type", "[]string{\"string\"}", .fresh⟩,
  ⟨"doConvert", "Type", "[]string{\"string\"}", .fresh⟩,
  ⟨"doConvert", "Type", "[]string{\"string\"}", .fresh⟩,
  ⟨"doConvert", "Type", "[]string{\"string\"}", .fresh⟩,
  ⟨"doConvert", "Type", "[]string{\"string\"}", .fresh⟩,
  ⟨"doConvert", "Type", "[]string{\"string\"}", .fresh⟩,
  ⟨"doConvert", "Type", "[]string{\"string\"}", .fresh⟩,
  ⟨"doConvert", "Type", "[]string{\"string\"}", .fresh⟩,
  ⟨"toJSONSchemaRegistry", "Defs", "make(map[string]*lib.Schema, len(c.defs))", .fresh⟩,
  ⟨"toJSONSchemaSingle", "Defs", "make(map[string]*lib.Schema, len(c.defs))", .fresh⟩
]

/-- every call of a mutating method (Add / Remove / Set… / Store / Delete / …) on anything but the converter and the document -/
def mutatorCalls : List (String × String × String) := []

end Gozod.Gen.ConvAccess
