/-
  Line handlers for C16 (numeric comparison / MultipleOf).
  cmp <op> <kind> <val> <kind> <val>   → "<model> <spec>"   (1/0)
  mul <kind> <val> <kind> <val>        → "<model> <spec>"
  fmul <kind> <val> <kind> <val>       → "<model>\t-"   (a float operand: the documented ε-rule, `NumFloat.multipleOfNum`;
                                          the model observation is the oracle)
  xcmp <op> OPND OPND / xmul OPND OPND  → "<model>\t<spec>"   (model = `Model/NumBig.lean`: `xcmp` / `xmul`, the theorems of
                                          `Proofs/C16Big.lean` are about these) an operand `toNum` does not hold (big integers: the exact
                                          `big.Int` path; complex: `coerce.ToFloat64`, `xval`); spec = the comparison of the
                                          values / integer divisibility when both operands denote a number exactly
                                          (built-in kinds, uintptr, big integers), `-` otherwise; OPND = <kind> <val> | nx 0 (a named numeric type:
                                          not numeric for the code) | cx <bits of |z|> (complex: magnitude, as Go
                                          computed it) | big <dec> (a *big.Int)
  kind ∈ i8 i16 i32 i64 int u8 u16 u32 u64 uint uptr (val = decimal integer; uptr = uintptr, held as a uint64)
       | f32 f64 (val = decimal of the IEEE-754 binary64 bit pattern of the widened value)
-/
import Gozod.Model.Num
import Gozod.Model.NumFloat
import Gozod.Model.NumBig
namespace Gozod.Drv.C16
open Gozod Gozod.NumBig

def parseNum (kind val : String) : Option Num :=
  if kind == "f64" || kind == "f32" then
    val.toNat?.map (fun b => Num.f (F.ofBits b))
  else if kind == "uptr" then do
    let v ← val.toInt?
    if IntTy.u64.inRange v then some (Num.u v) else none
  else do
    let t ← IntTy.ofString? kind
    let v ← val.toInt?
    if t.inRange v then some (Num.ofInt t v) else none

def parseOpnd (kind val : String) : Option Opnd :=
  if kind == "nx" then some .named
  else if kind == "cx" then val.toNat?.map (fun b => .cplx (F.ofBits b))
  else if kind == "big" then val.toInt?.map Opnd.big
  else if kind == "uptr" then (parseNum kind val).bind (fun n => match n with | .u v => some (.uptr v) | _ => none)
  else (parseNum kind val).map Opnd.num

def b2s (b : Bool) : String := if b then "1" else "0"

/-- `-` = the operands have no specification (complex, named types). -/
def showSpec : Option Bool → String
  | some b => b2s b
  | none => "-"

def specMul (a b : Num) : Option Bool :=
  match a, b with
  | .f _, _ => none
  | _, .f _ => none
  | a, b =>
    let iv : Num → Int := fun n => match n with | .i v => v | .u v => v | .f _ => 0
    some (specMultipleOfInt (iv a) (iv b))

def handle : List String → String
  | ["cmp", op, ka, a, kb, b] =>
    match CmpOp.ofString? op, parseNum ka a, parseNum kb b with
    | some op, some x, some y => s!"{b2s (implCmp op x y)} {b2s (specCmp op x y)}"
    | _, _, _ => "bad-op"
  | ["mul", ka, a, kb, b] =>
    match parseNum ka a, parseNum kb b with
    | some x, some y =>
      match specMul x y with
      | some s => s!"{b2s (multipleOfInts x y)} {b2s s}"
      | none => "bad-op"
    | _, _ => "bad-op"
  | ["xcmp", op, ka, a, kb, b] =>
    match CmpOp.ofString? op, parseOpnd ka a, parseOpnd kb b with
    | some op, some x, some y => s!"{b2s (xcmp op x y)}\t{showSpec (specXcmp op x y)}"
    | _, _, _ => "bad-op"
  | ["xmul", ka, a, kb, b] =>
    match parseOpnd ka a, parseOpnd kb b with
    | some x, some y => s!"{b2s (xmul x y)}\t{showSpec (specXmul x y)}"
    | _, _ => "bad-op"
  | ["fmul", ka, a, kb, b] =>
    match parseOpnd ka a, parseOpnd kb b with
    | some x, some y => s!"{b2s (xmul x y)}\t-"
    | _, _ => "bad-op"
  | _ => "bad-op"

end Gozod.Drv.C16
