"""C09 — all parse entry points agree: StrictParse, ParseAny and Must* match Parse."""
import os, re, subprocess
from . import common as C

MANIFEST = dict(
   technique="Lean 4 proof (case analysis over the fast paths of ParsePrimitiveStrict against ParsePrimitive, reusing the C10 check-engine theorems; ParseComplexStrict against ParseComplex for arbitrary validators, extractors and transforms; statement-by-statement transcriptions of the four type-local (Parse, StrictParse) pairs - BigInt, File, Function, Struct - with their own agreement theorems; the six entry points assembled from a (Parse, StrictParse) pair by the fwd / must wrapper shapes (Cpx.six); induction over histories of constructor calls, copy-on-write derivations, CloneFrom of both flavours and entry-point calls on a heap of schemas with per-schema hidden state; evaluation of the whole entry-point table, including the resolution of promoted methods through embedded schemas) + go/ast translator over types/*.go regenerating the table of how every entry point of every schema type is implemented and the source text of every statement around its engine call + differential correspondence: real String()/StringPtr() schemas, string and integer histories (primitive path: Prim.parse / Prim.strictParse through Cpx.six), and real schemas of the thirteen complex-path types (Slice, Array, Map, Object, Record, Set, Tuple, Union, Xor, Intersection, File, Function, Struct) run through Cpx.parse / Cpx.strictParse / TypeLocal.file..., func..., struct... / Cpx.must / Cpx.fwd with the configuration read off the real schema's internals and the validator's answers read off the unmodified schema + in-harness comparison of all six entry points on every schema type of the table and on every zero-argument constructor of the library (value, pointer and Coerced variants), on well-typed and ill-typed inputs, cold and after histories",
   text="c09_strict_eq_parse proves for the primitive engine path that StrictParse and Parse yield the same verdict, value and issue positions for every check list, every modifier configuration and every input of the strict static type (nil pointers included). c09_complex_strict_eq_parse proves the same for the complex engine path as it is after 692881a, for every validator, every behaviour of the extractors, every transform and every input, well-typed or not (the legacy function is kept as legacyStrictParse with four witnesses and legacy_not_agreeing). The clause about ParseAny and the Must variants is carried by the go/ast shape table: c09_table_wrappers and c09_table_bases are decided over the whole table regenerated from types/*.go on every run (53 schema types x 6 entry points) and say that on every type ParseAny is 'return z.Parse(input, ctx...)' and each Must variant is 'r, err := z.X(...); if err != nil { panic(err) }; return r' of its base entry point, promotion through embedded schemas followed; Cpx.six assembles the six entry points from a (Parse, StrictParse) pair by exactly these two shapes, and c09_six_agree / c09_six_any_follow_parse / c09_must_returns_or_panics say what the shapes do (where the pair agrees on an input all six answer with Parse's result, a Must variant by returning it or panicking with that very error; ParseAny / MustParse / MustParseAny follow Parse on every input whatever StrictParse does) - no theorem states 'ParseAny = Parse' about the model itself, where it would be reflexivity. c09_table_as_expected and c09_table_covered: every (Parse, StrictParse) pair is the bare engine pair the agreement theorems cover, is inherited from an embedded schema that is, answers StrictParse with 'return z.Parse(input, ctx...)', or is one of four transcribed type-local implementations (c09_table_transcribed pins both rows and the text of every statement around the engine call; c09_bigint_strict_eq_parse, c09_file_strict_eq_parse, c09_function_same_verdict_value and c09_struct_partial are their agreement theorems, the last two with witnesses for the excluded region), or ZodStringBool, whose two entry points have different domains by design (c09_table_run_only). c09_fam_strict_eq_parse / c09_fam_six_agree / c09_fam_struct_six_partial restate the agreement for TypeLocal.famParse / famStrict / famSix, the definitions the driver executes on the cpx lines (family = the row of the regenerated table). c09_history proves that in every history (constructors, any copy-on-write method, CloneFrom of both flavours in both directions, the six entry points called in any order any number of times) every entry point answers what Parse answers on the schema's current configuration, for any implementation whose per-schema state is Faithful; the pinned code is Faithful, a memoised flag copied by CloneFrom is not (memoising_stale_witness). Decided by the run: (1) the primitive model on String()/StringPtr() schemas with random check chains and modifier suffixes and on string / integer histories (all six observations predicted through Cpx.six over Prim.parse / Prim.strictParse); (2) the complex model on real schemas of the thirteen complex-path types: every cpx line carries the configuration read by reflection from the schema's Internals(), whether R is a pointer, what the input is to the engine (untyped nil, typed nil, a value, a pointer, refused) and what the type's validator answers on the input and on the prefault value (= the unmodified schema's answer), and the driver predicts P, S, A, MP, MS, MA through TypeLocal.famSix, compared with the real six entry points on a projection without message texts (results with their Go shape, errors as code@path lists, non-optional told apart) - under every modifier history of length <= 2 over the eight modifiers, on each sample as strict input, behind a pointer, as typed nil pointer, nil of R, untyped nil and foreign values; (3) on every schema type of the table the six entry points are compared with each other in the harness with full messages, on cold schemas and after histories; frame lines check by reflection that no field of core.ZodTypeInternals changes across a parse. A directed run starts from every zero-argument constructor of types/*.go (184; the registry is compared with the source on every run); its distribution (constructors, history lengths, variants, input classes) is printed into the evidence. Structure fingerprints of the 50 transcribed Go functions aim the run when one of them is edited.",
   note="Trusted: Lean kernel; axioms propext/Classical.choice/Quot.sound at most; harness + comparer; the go/ast classification of method bodies (engine / fwd / must / inherit / own). The type-specific parts of the complex path are parameters of the model: the validator's answer comes from the run (the unmodified schema's Parse on the value - so for an unmodified schema on a plain value the prediction of P is that observation itself, and what the model adds there is S, A and the Must variants; under modifiers, on nil-like inputs, pointers, defaults and prefaults all six are genuine predictions); the harness' Overwrite is the identity, so the pointer pass of an overwrite (CEnv.firstPass) and the checks on a default / on nil are instantiated as 'nothing changes' - validatePointer's firstPass arm is therefore not exercised by the run; an engine-level Transform is not reachable through the public API; a ZodFunction with an Overwrite check on a nil-like input is left to the in-harness comparison (convertResult answers with a pointer to a typed nil, a shape Cpx.Res cannot express). The result switch of the nine 'return z.Parse' types is modelled as Cpx.adapt and compared by the run only (fingerprinted, not pinned by text). ZodStruct's createStructTypeError is modelled under the projection (a root-level custom issue, or invalid_type for untyped nil). The Faithful hypotheses of c09_history are tied to the code by the frame observation. The four transcribed type-local pairs are pinned by statement text and by the fingerprints of their helpers. ZodStringBool is judged by the statement directly in the run (known finding). Deviations are listed as known findings by (type, Parse outcome class, StrictParse outcome class): stringbool (by design), function (pointer shape; pinned by the library's own test; predicted by funcParse / funcStrict). Pointer identity of results is C15's business and not compared here.",
   design="DESIGN.md §5 C09")

MODULES = ["Gozod.Proofs.C09", "Gozod.Proofs.C09Complex", "Gozod.Proofs.C09Table", "Gozod.Proofs.C09TypeLocal"]
THEOREMS = ["Gozod.C09." + t for t in [
    # complex engine path, legacy witnesses, wrappers (Proofs/C09Complex.lean)
    "c09_complex_strict_eq_parse", "sliceConv_ok", "c09_slice_strict_eq_parse", "adapt_preserves", "c09_complex_same_verdict_value",
    "adapt_shape", "adapt_idem", "handleNilComplex_handled", "legacy_fast_path_witness", "legacy_nil_path_witness",
    "legacy_validation_only_witness", "legacy_fallback_witness", "legacy_validatePointer_bypass", "legacy_not_agreeing",
    "c09_must_returns_or_panics", "must_returned_iff", "must_panicked_iff", "must_congr",
    "c09_six_agree", "c09_six_any_follow_parse", "c09_slice_six",
    # the entry-point table regenerated from types/*.go (Proofs/C09Table.lean)
    "c09_table_as_expected", "c09_table_wrappers", "c09_table_covered", "c09_table_via_parse", "c09_table_type_local", "c09_table_nonempty",
    "c09_table_bases", "c09_table_mixed", "c09_table_transcribed", "c09_table_run_only",
    # the transcribed type-local pairs (Proofs/C09TypeLocal.lean)
    "c09_bigint_strict_eq_parse", "bigParse_nil_irrelevant", "bigNilPass_not_engine", "fileResult_eq_adapt", "fileToR_adapt_false",
    "c09_file_strict_eq_parse", "c09_file_is_engine_pair", "c09_function_same_verdict_value", "c09_function_strict_eq_parse",
    "c09_function_pointer_shape_witness", "c09_function_full_false", "parse_structInternals", "structParse_eq", "c09_struct_partial",
    "c09_struct_rewrite_witness", "c09_struct_full_false",
    # the families the driver runs on the cpx lines (TypeLocal.famSix)
    "c09_fam_strict_eq_parse", "c09_fam_six_agree", "c09_fam_struct_six_partial",
    "checked_ptr_irrelevant", "checked_no_checks", "c09_strict_eq_parse",
    "strictParseWith_sound", "strictFast_checks_empty", "run_ok_of_read_only", "pinned_faithful", "runEP_eq_parse", "step_spec",
    "c09_history", "c09_history_pinned", "c09_history_entrypoints_agree", "c09_parses_do_not_matter",
    "memoising_stale_witness", "memoising_not_faithful"]]

def ocls(o):
    if o is None: return "missing"
    if o == "n/a": return "na"
    if o == "ok:nil": return "nil"
    if o.startswith("ok:"): return "ok"
    if o.startswith("panic"): return "panic"
    m = re.match(r"err:\??([a-z_]+)", o)
    if m:
        code = m.group(1)
        if "nonoptional" in o.split(",")[0]: code = "nonoptional"
        # issues raised by the schema's own checks / refinements form one class: which check fired is a
        # property of the generated schema, not of the entry point
        if code in ("too_small", "too_big", "custom", "invalid_format", "not_multiple_of", "checks"): code = "check"
        return "err-" + code
    return "other"

def fields(obs):
    d = {}
    for f in obs.split(";"):
        if "=" in f:
            k, v = f.split("=", 1); d[k] = v
    return d

def key(op, impl, M, S):
    ty = C.op_comment(op).split(" ")[0]
    d = fields(impl)
    p = d.get("P")
    why = (S or "")[len("spec-rejects:"):] if (S or "").startswith("spec-rejects:") else "observation-differs-from-model"
    which = why.split("-")[0]
    if which == "H":
        flags = sorted(set(f.split("-")[0] for f in d.get("H", "").split(",") if f))
        return "%s:history:%s" % (ty, "+".join(flags))
    other = d.get(which) if which in d else None
    extra = ""
    if other is not None and ocls(other) == ocls(p) == "ok": extra = ":other-value"
    if other is not None and ocls(other) == ocls(p) and ocls(p).startswith("err"): extra = ":other-issues"
    return "%s:%s:Parse=%s:%s=%s%s" % (ty, "entrypoints" if S and S.startswith("spec-rejects") else "model", ocls(p), which, ocls(other), extra)

def describe(op):
    return "harness/cmd/c09: 'str' = String()/StringPtr() + checks (message m<pos>) + modifier suffix; 'gen <type> <modifiers applied by reflection>'; 'cpx <family> <GoType> <configuration, engine view of the input, validator answers>' (the schema is named after '#'); input after '|'"

GEN_EP = os.path.join(C.LEAN, "Gozod", "Gen", "EntryPoints.lean")

def translate(res):
    """Regenerate Gen/EntryPoints.lean (go/ast over types/*.go of REPO); rewritten only when the content changes."""
    ok, out = C.build_harness("C09")
    if not ok:
        return "harness does not build against the current tree:\n" + out[-3000:]
    before = open(GEN_EP).read() if os.path.exists(GEN_EP) else ""
    rc, out = C.run([C.harness_bin("C09"), "-out", C.BUILD, "-gen-entrypoints", GEN_EP, "-repo", C.REPO], env=C.goenv(), timeout=600)
    if rc != 0:
        return "translator failed (rc=%d): %s" % (rc, out[-2000:])
    if open(GEN_EP).read() != before:
        res.notes.append("Gen/EntryPoints.lean changed and was rewritten")
    res.coverage["entrypoint_rows"] = open(GEN_EP).read().count("⟨")
    return ""

def table_offenders():
    """Which rows of the regenerated entry-point table the expectation does not cover (asks the driver)."""
    try:
        p = subprocess.run([C.driver_bin("C09")], input="c09 table\n", capture_output=True, text=True, timeout=120)
        return p.stdout.strip().split("\t")[0]
    except Exception as e:
        return "(driver unavailable: %s)" % e

def run(res):
    with C.Lock("c09-gen"):
        return _run(res)

def _run(res):
    err = translate(res)
    if err:
        C.tie_broken(res, "translator C09/EntryPoints", err)
        return res.finish()
    ok, detail = C.prove(res, MODULES, THEOREMS)
    aimed = []
    if not ok:
        if "C09Table" in detail or "c09_table" in detail:
            C.lake_build(["driver_c09"])
            off = table_offenders()
            aimed = sorted(set(re.findall(r"\bZod[A-Za-z0-9]+", off)))
            detail = ("the entry-point table regenerated from types/*.go differs from the expectation in Model/EntryPoints.lean:\n  "
                      + off.replace(" ; ", "\n  ") + "\n(the run below is aimed at: %s)\n\n" % ", ".join(aimed) + detail)
            res.notes.append("entry-point table offenders: " + off)
        C.tie_broken(res, "proof Gozod.Proofs.C09", detail)
    # structure fingerprints of the transcribed Go functions: a changed function aims the run at the types that reach it
    changed = C.fingerprint(res, "C09")
    for k, lean_def, kind, detail in changed:
        if kind == "missing":
            C.tie_broken(res, "fingerprint " + k, "the Go function %s mirrors is gone or renamed" % lean_def)
        if k.startswith("types/slice.go") or "Complex" in k or "validatePointer" in k or "validateValue" in k or "processModifiersCore" in k:
            aimed = sorted(set(aimed) | {"ZodSlice"})
        for f, t in (("array", "ZodArray"), ("map", "ZodMap"), ("object", "ZodObject"), ("record", "ZodRecord"), ("set", "ZodSet"), ("tuple", "ZodTuple"),
                     ("union", "ZodUnion"), ("xor", "ZodXor"), ("intersection", "ZodIntersection")):
            if k.startswith("types/%s.go" % f):
                aimed = sorted(set(aimed) | {t})
        for f, t in (("types/bigint.go", "ZodBigInt"), ("types/file.go", "ZodFile"), ("types/function.go", "ZodFunction"), ("types/struct.go", "ZodStruct")):
            if k.startswith(f):
                aimed = sorted(set(aimed) | {t})
        if k.startswith("types/integer.go"):
            aimed = sorted(set(aimed) | {"ZodIntegerTyped"})
        if k.startswith("types/string.go") or "Primitive" in k or "processModifiersCore" in k:
            aimed = sorted(set(aimed) | {"ZodString", "ZodIntegerTyped"})
    if changed:
        res.notes.append("modelled Go functions edited since the expectation was recorded: " + "; ".join("%s (%s)" % (c[0], c[2]) for c in changed) + "; run aimed at " + ", ".join(aimed))
    data, err = C.correspond(res, "C09", extra_args=["-repo", C.REPO] + (["-aim", ",".join(aimed)] if aimed else []), feed_impl=True)
    if data is None:
        C.tie_broken(res, "correspondence C09/ParsePrimitiveStrict", err)
        return res.finish()
    # every schema type of the regenerated table must be reached by the run (a new type nobody exercises is a broken tie)
    dist = data[3].get("histogram", {})
    table_types = sorted(set(re.findall(r'⟨"(Zod[A-Za-z0-9]+)", "[^"]*", "Parse",', open(GEN_EP).read())))
    unreached = [t for t in table_types if not dist.get("gotype:" + t)]
    res.coverage["schema_types_in_table"] = len(table_types)
    res.coverage["schema_types_reached"] = len(table_types) - len(unreached)
    # every zero-argument constructor of types/*.go must be in the harness' registry (the directed run starts from them)
    missing = data[3].get("unregistered_ctors") or []
    res.coverage["constructors_registered"] = data[3].get("registered_ctors", 0)
    if missing:
        C.tie_broken(res, "coverage C09/constructors", "constructors of types/*.go the directed run does not know (python3 harness/cmd/c09/mkregistry.py <repo>): " + ", ".join(missing))
    if unreached:
        C.tie_broken(res, "coverage C09/entry-point table", "schema types of Gen/EntryPoints.lean no generated case reaches: " + ", ".join(unreached))
    C.decide(res, "C09", data, key, "C09/ParsePrimitive+ParsePrimitiveStrict", describe=describe)
    res.coverage["rule"] = ("(A) String()/StringPtr() with 0-5 random checks (built-ins, Trim/ToLower/ToUpper/custom overwrites, refinements with 35% abort) and 0-3 random modifiers "
        "(Optional/Nilable/Nullish/NonOptional/Default/DefaultFunc/Prefault/PrefaultFunc) on inputs nil, typed nil, value, pointer, foreign kinds; "
        "(B) every other schema type of the entry-point table (57 constructors), bare / with own checks / with a refinement / with an identity Overwrite on top, with 0-3 random modifiers applied by reflection, on every sample input convertible to the StrictParse parameter type plus its nil, and on ill-typed inputs of ten kinds for ParseAny / MustParse / MustParseAny; "
        "(B2) directed: every zero-argument constructor of types/*.go (value / pointer / Coerced) in the variants plain / refined / +overwrite under the empty modifier history and one drawn history of length <= 2 (a type the table or a fingerprint reports as changed: under all 73 histories), and always with a nil-FILLING Overwrite (nil -> the family's default value; identity elsewhere) bare / Optional / Nilable, on every sample of its family as R, as itself, behind a pointer, as the typed nil pointer of its type, on nil-of-R, untyped nil and 36 foreign values incl. netip.Addr, *netip.Addr, net.IP, time.Time, *big.Int, json.Number, []byte, a Stringer, an error, a func; "
        "(C) histories: two relatives A, B of one type; 1-4 warm-up calls of random entry points (half of them strict) on random heap cells with value / nil inputs; one or two derivation routes "
        "(the cell itself, a method discovered by reflection on a warm cell - modifiers, checks, accessors, And/Or wrappers -, CloneFrom between two cells in either direction, a fresh bare schema receiving a warm one); "
        "then the six entry points on the target in two random orders, and Parse / StrictParse on never-parsed twins when the warm ones disagree; one frame line per history; (D) the same histories over Int()/IntPtr() with Min/Max/Overwrite/Refine checks shipped in unary so that the string environment of the Lean machine predicts them with the keepChecks CloneFrom. distinct = distinct op lines.")
    res.coverage["rule"] += (" (E) cpx: the thirteen complex-path types (gentries families incl. the generic constructors) in the variants own-checks / plain+identity-Overwrite under ALL 73 modifier histories of length <= 2, "
        "on <= 3 samples as strict input / as themselves, behind a pointer, the typed nil pointer, nil of R, untyped nil and 3 foreign values; every such case (and every case of (B)/(B2) on a complex-path type) is also a cpx line predicted by the Lean model.")
    # the distribution of the directed runs, in one place
    def _sub(prefix):
        return {k[len(prefix):]: v for k, v in sorted(dist.items()) if k.startswith(prefix)}
    res.coverage["directed_run"] = {
        "lines": sum(_sub("directed:").values()), "by_family": _sub("directed:"), "constructors_exercised": len(_sub("ctor:")),
        "lines_per_constructor_min_max": [min(_sub("ctor:").values() or [0]), max(_sub("ctor:").values() or [0])],
        "by_history_length": _sub("directed-history-len:"), "by_variant": _sub("directed-variant:"), "by_input_class": _sub("directed-input:"),
        "aimed_types": _sub("directed-aimed:")}
    res.coverage["cpx_run"] = {
        "lines_predicted_by_Cpx_model": sum(_sub("cpx:").values()), "by_family": _sub("cpx:"), "by_mechanism": _sub("cpx-fam:"),
        "by_engine_input_kind": _sub("cpx-in="), "directed_lines": sum(_sub("cpxdir:").values()), "directed_by_history_length": _sub("cpxdir-history-len:"),
        "directed_by_variant": _sub("cpxdir-variant:"), "directed_by_input_class": _sub("cpxdir-input:")}
    if not sum(_sub("cpx:").values()):
        C.tie_broken(res, "coverage C09/cpx", "no cpx line was produced: the complex-path model is not compared with the code")
    res.assumptions += ["ASCII strings", "result values compared after dereferencing (pointer identity is C15)"]
    return res.finish()
