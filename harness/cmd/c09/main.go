// C09 harness: Parse vs StrictParse vs ParseAny vs the Must* variants.
//
//	(A) "str": real String()/StringPtr() schemas with check chains (built-ins, overwrites, refinements
//	    ± abort) and modifier suffixes, on nil / typed nil / value / pointer / foreign inputs; every
//	    check carries the message m<pos>, so issue positions are observable. The Lean model predicts
//	    the observation of every entry point.
//	(B) "gen": schemas of many other types with random modifier suffixes (applied by reflection), on
//	    well-typed inputs; entry points are compared with each other in the harness (model echoes).
package main

import (
	"encoding/hex"
	"errors"
	"flag"
	"fmt"
	"os"
	"reflect"
	"regexp"
	"sort"
	"strconv"
	"strings"
	"time"

	"github.com/kaptinlin/gozod"
	"github.com/kaptinlin/gozod/core"

	"verifharness/hx"
)

func hexs(s string) string {
	if s == "" {
		return "-"
	}
	return hex.EncodeToString([]byte(s))
}

// ---------- (A) string schemas ----------

type chk struct {
	kind  string
	n     int
	s     string
	k     int
	abort bool
}

func (c chk) tokens() string {
	switch c.kind {
	case "min", "max", "len":
		return c.kind + " " + strconv.Itoa(c.n)
	case "sw", "ew", "inc":
		return c.kind + " " + hexs(c.s)
	case "ref":
		return fmt.Sprintf("ref %d %s -", c.k, hx.B01(c.abort))
	case "ow":
		return "ow " + strconv.Itoa(c.k)
	}
	return c.kind
}

func customPred(k int, s string) bool {
	switch k % 6 {
	case 0:
		return len(s)%2 == 0
	case 1:
		return strings.IndexByte(s, 'x') >= 0
	case 2:
		return false
	case 3:
		return true
	case 4:
		return len(s) >= 3
	}
	return len(s) > 0 && s[0] == 'a'
}

func reverse(s string) string {
	b := []byte(s)
	for i, j := 0, len(b)-1; i < j; i, j = i+1, j-1 {
		b[i], b[j] = b[j], b[i]
	}
	return string(b)
}

func customOw(k int, s string) string {
	switch k % 4 {
	case 0:
		return s + "!"
	case 1:
		if len(s) == 0 {
			return s
		}
		return s[1:]
	case 2:
		return reverse(s)
	}
	return s + " "
}

func msg(pos int) string { return fmt.Sprintf("m%d", pos) }

func buildVal(cs []chk) *gozod.ZodString[string] {
	s := gozod.String()
	for pos, c := range cs {
		c := c
		m := msg(pos)
		switch c.kind {
		case "min":
			s = s.Min(c.n, m)
		case "max":
			s = s.Max(c.n, m)
		case "len":
			s = s.Length(c.n, m)
		case "sw":
			s = s.StartsWith(c.s, m)
		case "ew":
			s = s.EndsWith(c.s, m)
		case "inc":
			s = s.Includes(c.s, m)
		case "lc":
			s = s.Lowercase(m)
		case "uc":
			s = s.Uppercase(m)
		case "trim":
			s = s.Trim()
		case "lower":
			s = s.ToLowerCase()
		case "upper":
			s = s.ToUpperCase()
		case "ow":
			s = s.Overwrite(func(v string) string { return customOw(c.k, v) })
		case "ref":
			s = s.Refine(func(v string) bool { return customPred(c.k, v) }, core.CustomParams{Error: m, Abort: c.abort})
		}
	}
	return s
}

func buildPtr(cs []chk) *gozod.ZodString[*string] {
	s := gozod.StringPtr()
	d := func(v *string) string {
		if v == nil {
			return ""
		}
		return *v
	}
	for pos, c := range cs {
		c := c
		m := msg(pos)
		switch c.kind {
		case "min":
			s = s.Min(c.n, m)
		case "max":
			s = s.Max(c.n, m)
		case "len":
			s = s.Length(c.n, m)
		case "sw":
			s = s.StartsWith(c.s, m)
		case "ew":
			s = s.EndsWith(c.s, m)
		case "inc":
			s = s.Includes(c.s, m)
		case "lc":
			s = s.Lowercase(m)
		case "uc":
			s = s.Uppercase(m)
		case "trim":
			s = s.Trim()
		case "lower":
			s = s.ToLowerCase()
		case "upper":
			s = s.ToUpperCase()
		case "ow":
			s = s.Overwrite(func(v *string) *string {
				if v == nil {
					return v
				}
				r := customOw(c.k, *v)
				return &r
			})
		case "ref":
			s = s.Refine(func(v *string) bool { return customPred(c.k, d(v)) }, core.CustomParams{Error: m, Abort: c.abort})
		}
	}
	return s
}

var alphabet = []byte("aAxXbZ z!")

func genString(r *hx.Rng, maxLen int) string {
	n := r.Intn(maxLen + 1)
	b := make([]byte, n)
	for i := range b {
		b[i] = hx.Pick(r, alphabet)
	}
	return string(b)
}

func genCheck(r *hx.Rng, in string) chk {
	near := func() int {
		n := len(in) + r.Intn(5) - 2
		if n < 0 {
			n = 0
		}
		return n
	}
	switch r.Intn(12) {
	case 0:
		return chk{kind: "min", n: near()}
	case 1:
		return chk{kind: "max", n: near()}
	case 2:
		return chk{kind: "len", n: near()}
	case 3:
		return chk{kind: "sw", s: hx.Pick(r, []string{"a", "x", " ", ""})}
	case 4:
		return chk{kind: "ew", s: hx.Pick(r, []string{"a", "!", " ", ""})}
	case 5:
		return chk{kind: hx.Pick(r, []string{"lc", "uc"})}
	case 6:
		return chk{kind: "trim"}
	case 7:
		return chk{kind: hx.Pick(r, []string{"lower", "upper"})}
	case 8:
		return chk{kind: "ow", k: r.Intn(4)}
	default:
		return chk{kind: "ref", k: r.Intn(6), abort: r.Chance(35)}
	}
}

var msgRe = regexp.MustCompile(`^m(\d+)$`)

func renderErr(err error) string {
	var ze *gozod.ZodError
	if !errors.As(err, &ze) || len(ze.Issues) == 0 {
		return "err:?notzod"
	}
	var ps []string
	allPos := true
	for _, is := range ze.Issues {
		mm := msgRe.FindStringSubmatch(is.Message)
		if mm == nil {
			allPos = false
			break
		}
		ps = append(ps, mm[1])
	}
	if allPos {
		return "err:checks:" + strings.Join(ps, ",")
	}
	is := ze.Issues[0]
	if is.Code == core.InvalidType {
		if is.Expected == "nonoptional" {
			return "err:nonoptional"
		}
		return "err:type"
	}
	return "err:?" + string(is.Code)
}

func renderStr(res any, err error) string {
	if err != nil {
		return renderErr(err)
	}
	switch v := res.(type) {
	case string:
		return "ok:" + hexs(v)
	case *string:
		if v == nil {
			return "ok:nil"
		}
		return "ok:" + hexs(*v)
	case nil:
		return "ok:nil"
	}
	return fmt.Sprintf("ok:?%T", res)
}

// callAll invokes the six entry points by reflection; strict ones only when `in` has the static type.
func callAll(schema any, in reflect.Value, render func(any, error) string) string {
	rv := reflect.ValueOf(schema)
	// every entry point gets its own copy of the input (an overwrite may write through a pointer - also through a
	// pointer that travels inside an `any`)
	fresh := freshArg
	call := func(name string, arg reflect.Value) string {
		arg = fresh(arg)
		m := rv.MethodByName(name)
		if !m.IsValid() {
			return "n/a"
		}
		var out string
		pm := hx.Safely(func() {
			res := m.Call([]reflect.Value{arg})
			var err error
			if len(res) == 2 && !res[1].IsNil() {
				err = res[1].Interface().(error)
			}
			out = render(res[0].Interface(), err) + errTypeTag(err)
		})
		if pm != "" {
			return "panic:" + strings.ReplaceAll(strings.ReplaceAll(pm, " ", "_"), ";", ",")
		}
		return out
	}
	must := func(name string, arg reflect.Value) string {
		arg = fresh(arg)
		m := rv.MethodByName(name)
		if !m.IsValid() {
			return "n/a"
		}
		var out string
		func() {
			defer func() {
				if p := recover(); p != nil {
					if e, ok := p.(error); ok {
						// "panics with that same error": the panic VALUE is rendered like a returned error, dynamic type included
						out = render(nil, e) + errTypeTag(e)
					} else {
						out = "panic:" + strings.ReplaceAll(fmt.Sprint(p), " ", "_")
					}
				}
			}()
			res := m.Call([]reflect.Value{arg})
			out = render(res[0].Interface(), nil)
		}()
		return out
	}
	anyIn := in
	p := call("Parse", anyIn)
	a := call("ParseAny", anyIn)
	mp := must("MustParse", anyIn)
	ma := must("MustParseAny", anyIn)
	s, ms := "n/a", "n/a"
	if sm := rv.MethodByName("StrictParse"); sm.IsValid() {
		want := sm.Type().In(0)
		if in.IsValid() && in.Type() == want {
			s = call("StrictParse", in)
			ms = must("MustStrictParse", in)
		} else if in.IsValid() && in.Kind() == reflect.Interface && !in.IsNil() && in.Elem().Type() == want {
			s = call("StrictParse", in.Elem())
			ms = must("MustStrictParse", in.Elem())
		}
	}
	return fmt.Sprintf("P=%s;S=%s;A=%s;MP=%s;MS=%s;MA=%s", p, s, a, mp, ms, ma)
}

var anyT = reflect.TypeOf((*any)(nil)).Elem()

// errTypeTag: "" for nil and for a bare *ZodError; otherwise the dynamic type (a wrapper around a ZodError renders like
// the ZodError itself: the tag keeps "returns err" and "panics with a DIFFERENT value that unwraps to the same issues" apart).
func errTypeTag(err error) string {
	if err == nil {
		return ""
	}
	if _, ok := err.(*gozod.ZodError); ok {
		return ""
	}
	return "~as:" + strings.ReplaceAll(fmt.Sprintf("%T", err), " ", "")
}

// deepStr prints a value with every pointer followed (an address would make the line irreproducible and two equal
// results look different), Stringers by their text, funcs / chans by their kind.
func deepStr(rv reflect.Value, depth int) string {
	if !rv.IsValid() {
		return "nil"
	}
	if depth > 8 {
		return "…"
	}
	if rv.CanInterface() {
		switch rv.Kind() {
		case reflect.Pointer, reflect.Interface, reflect.Map, reflect.Slice, reflect.Func, reflect.Chan:
			if rv.IsNil() {
				return "nil"
			}
		}
		if st, ok := rv.Interface().(fmt.Stringer); ok {
			return st.String()
		}
		if e, ok := rv.Interface().(error); ok {
			return e.Error()
		}
	}
	switch rv.Kind() {
	case reflect.Pointer, reflect.Interface:
		if rv.IsNil() {
			return "nil"
		}
		return deepStr(rv.Elem(), depth+1)
	case reflect.Struct:
		var parts []string
		for i := 0; i < rv.NumField(); i++ {
			parts = append(parts, deepStr(rv.Field(i), depth+1))
		}
		return "{" + strings.Join(parts, " ") + "}"
	case reflect.Slice, reflect.Array:
		if rv.Kind() == reflect.Slice && rv.IsNil() {
			return "nil"
		}
		if rv.Type().Elem().Kind() == reflect.Uint8 {
			return fmt.Sprintf("%v", rv)
		}
		var parts []string
		for i := 0; i < rv.Len(); i++ {
			parts = append(parts, deepStr(rv.Index(i), depth+1))
		}
		return "[" + strings.Join(parts, " ") + "]"
	case reflect.Map:
		if rv.IsNil() {
			return "nil"
		}
		var parts []string
		for _, k := range rv.MapKeys() {
			parts = append(parts, deepStr(k, depth+1)+":"+deepStr(rv.MapIndex(k), depth+1))
		}
		sort.Strings(parts)
		return "map[" + strings.Join(parts, " ") + "]"
	case reflect.Func, reflect.Chan, reflect.UnsafePointer:
		return rv.Kind().String()
	}
	return fmt.Sprintf("%v", rv)
}

func runStr(o *hx.Out, r *hx.Rng, n int) {
	for i := 0; i < n; i++ {
		in := genString(r, 7)
		ctorPtr := r.Chance(40)
		var cs []chk
		for j, m := 0, r.Intn(6); j < m; j++ {
			cs = append(cs, genCheck(r, in))
		}
		var schema any
		if ctorPtr {
			schema = buildPtr(cs)
		} else {
			schema = buildVal(cs)
		}
		// modifier suffix
		var mods []string
		for j, m := 0, r.Intn(4); j < m; j++ {
			name := hx.Pick(r, []string{"Optional", "Nilable", "Nullish", "NonOptional", "Default", "DefaultFunc", "Prefault", "PrefaultFunc"})
			rv := reflect.ValueOf(schema)
			meth := rv.MethodByName(name)
			switch name {
			case "Default", "Prefault":
				v := genString(r, 6)
				schema = meth.Call([]reflect.Value{reflect.ValueOf(v)})[0].Interface()
				mods = append(mods, name+":"+hexs(v))
			case "DefaultFunc", "PrefaultFunc":
				v := genString(r, 6)
				schema = meth.Call([]reflect.Value{reflect.ValueOf(func() string { return v })})[0].Interface()
				mods = append(mods, name+":"+hexs(v))
			default:
				schema = meth.Call(nil)[0].Interface()
				mods = append(mods, name)
			}
		}
		_, isPtr := schema.(*gozod.ZodString[*string])
		// inputs
		type inp struct {
			tok string
			v   reflect.Value
		}
		var ins []inp
		sv := in
		ins = append(ins, inp{"nil", reflect.Zero(anyT)})
		if isPtr {
			ins = append(ins, inp{hexs(in) + "*", reflect.ValueOf(&sv)}, inp{"nilptr", reflect.ValueOf((*string)(nil))})
			if r.Chance(30) {
				ins = append(ins, inp{hexs(in), reflect.ValueOf(in)})
			}
		} else {
			ins = append(ins, inp{hexs(in), reflect.ValueOf(in)})
			if r.Chance(30) {
				sv2 := in
				ins = append(ins, inp{hexs(in) + "*", reflect.ValueOf(&sv2)})
			}
		}
		if r.Chance(15) {
			ins = append(ins, inp{"foreign", reflect.ValueOf(hx.Pick(r, []any{42, 1.5, true, []string{"a"}, map[string]any{}}))})
		}
		var ctoks []string
		for _, c := range cs {
			ctoks = append(ctoks, c.tokens())
		}
		for _, x := range ins {
			// fresh pointer per call set: Parse may write through the caller's pointer
			obs := callAll(schema, x.v, renderStr)
			op := fmt.Sprintf("c09 str %s %s ; %d %s | %s #%s", hx.B01(ctorPtr), strings.Join(mods, " "), len(cs), strings.Join(ctoks, " "), x.tok, "string")
			o.Emit(strings.Join(strings.Fields(op), " "), obs)
			o.Count("str:in:" + strings.TrimRight(strings.TrimLeft(x.tok, "0123456789abcdef-"), ""))
			o.Count("str:P:" + strings.SplitN(strings.SplitN(obs, ";", 2)[0], ":", 3)[0] + ":" + pick2(obs))
		}
	}
}

func pick2(obs string) string {
	p := strings.SplitN(obs, ";", 2)[0]
	parts := strings.SplitN(p, ":", 3)
	if len(parts) >= 2 && parts[0] == "P=err" {
		return parts[1]
	}
	return ""
}

// ---------- (B) other schema types ----------

type gentry struct {
	name  string
	mk    func() any // with the type's own checks
	plain func() any // the bare constructor (no checks of its own)
	ins   []any
	dflt  any
}

func gentries() []gentry {
	strMin3 := func() *gozod.ZodString[string] { return gozod.String().Min(3) }
	return []gentry{
		{"int", func() any { return gozod.Int().Min(10) }, func() any { return gozod.Int() }, []any{50, 5}, 42},
		{"int8ptr", func() any { return gozod.Int8Ptr().Min(10) }, func() any { return gozod.Int8Ptr() }, []any{int8(50), int8(5)}, int8(42)},
		{"uint32", func() any { return gozod.Uint32().Max(100) }, func() any { return gozod.Uint32() }, []any{uint32(50), uint32(500)}, uint32(42)},
		{"float64", func() any { return gozod.Float64().Min(10) }, func() any { return gozod.Float64() }, []any{50.5, 5.5}, 42.5},
		{"float32ptr", func() any { return gozod.Float32Ptr().Max(10) }, func() any { return gozod.Float32Ptr() }, []any{float32(50.5), float32(5.5)}, float32(4.5)},
		{"bool", func() any { return gozod.Bool() }, func() any { return gozod.Bool() }, []any{true, false}, true},
		{"stringg", func() any { return gozod.String().Min(3) }, func() any { return gozod.String() }, []any{"hello", "x"}, "dflt"},
		{"time", func() any { return gozod.Time() }, func() any { return gozod.Time() }, []any{time.Unix(1700000000, 0).UTC(), time.Unix(5, 0).UTC()}, time.Unix(1600000000, 0).UTC()},
		{"enum", func() any { return gozod.Enum("a", "b", "c") }, func() any { return gozod.Enum("a", "b", "c") }, []any{"a", "z"}, "b"},
		{"literal", func() any { return gozod.Literal("lit") }, func() any { return gozod.Literal("lit") }, []any{"lit", "z"}, "lit"},
		{"slice", func() any { return gozod.Slice[int](gozod.Int().Min(10)).Min(2) }, func() any { return gozod.Slice[int](gozod.Int().Min(10)) },
			[]any{[]int{11, 12, 13}, []int{11}, []int{1, 2, 3}}, []int{20, 21}},
		{"array", func() any { return gozod.Array(gozod.Int().Min(10), gozod.String()) }, func() any { return gozod.Array(gozod.Int().Min(10), gozod.String()) },
			[]any{[]any{11, "x"}, []any{1, "x"}, []any{11}}, []any{20, "d"}},
		{"object", func() any {
			return gozod.Object(core.ObjectSchema{"a": gozod.Int().Min(10), "b": gozod.String().Optional()}).Min(1)
		}, func() any {
			return gozod.Object(core.ObjectSchema{"a": gozod.Int().Min(10), "b": gozod.String().Optional()})
		},
			[]any{map[string]any{"a": 50}, map[string]any{"a": 5}, map[string]any{"a": 50, "zz": 1}, map[string]any{}}, map[string]any{"a": 42}},
		{"strictobject", func() any { return gozod.StrictObject(core.ObjectSchema{"a": gozod.Int().Min(10)}) }, func() any { return gozod.StrictObject(core.ObjectSchema{"a": gozod.Int().Min(10)}) },
			[]any{map[string]any{"a": 50}, map[string]any{"a": 50, "zz": 1}}, map[string]any{"a": 42}},
		{"record", func() any { return gozod.Record[string, int](gozod.String(), gozod.Int().Min(10)) }, func() any { return gozod.Record[string, int](gozod.String(), gozod.Int().Min(10)) },
			[]any{map[string]int{"k": 50}, map[string]int{"k": 5}}, map[string]int{"d": 42}},
		{"map", func() any { return gozod.Map(gozod.String(), gozod.Int().Min(10)).Min(1) }, func() any { return gozod.Map(gozod.String(), gozod.Int().Min(10)) },
			[]any{map[any]any{"k": 50}, map[any]any{"k": 5}, map[any]any{}}, map[any]any{"d": 42}},
		{"union", func() any { return gozod.Union([]any{gozod.String().Min(3), gozod.Int().Min(10)}) }, func() any { return gozod.Union([]any{gozod.String().Min(3), gozod.Int().Min(10)}) },
			[]any{"hello", "x", 50, 5, true}, "dflt"},
		{"intersection", func() any { return gozod.Intersection(gozod.String().Min(3), gozod.String().Max(8)) }, func() any { return gozod.Intersection(gozod.String().Min(3), gozod.String().Max(8)) },
			[]any{"hello", "x", "waytoolongstring"}, "dflt"},
		{"any", func() any { return gozod.Any() }, func() any { return gozod.Any() }, []any{"x", 1}, "d"},
		{"unknown", func() any { return gozod.Unknown() }, func() any { return gozod.Unknown() }, []any{"x", 1}, "d"},
		{"lazy", func() any { return gozod.Lazy(strMin3) }, func() any { return gozod.Lazy(strMin3) }, []any{"hello", "x"}, "dflt"},
	}
}

func canon(v any) string {
	return strings.ReplaceAll(strings.ReplaceAll(deepStr(reflect.ValueOf(v), 0), " ", "_"), ";", ",")
}

func renderGen(res any, err error) string {
	if err != nil {
		var ze *gozod.ZodError
		if !errors.As(err, &ze) {
			return "err:?notzod"
		}
		var parts []string
		for _, is := range ze.Issues {
			parts = append(parts, fmt.Sprintf("%s@%v~%s", is.Code, is.Path, is.Message))
		}
		sort.Strings(parts)
		return "err:" + strings.ReplaceAll(strings.ReplaceAll(strings.ReplaceAll(strings.Join(parts, ","), " ", "_"), ";", ","), "=", "≈")
	}
	// the Go shape of the result is part of it: a pointer and the value it points to are different answers where R = any
	shape := ""
	if rv := reflect.ValueOf(res); rv.IsValid() && rv.Kind() == reflect.Pointer && !rv.IsNil() {
		shape = "&"
	}
	return "ok:" + shape + strings.ReplaceAll(canon(res), "=", "≈")
}

func conv(v any, t reflect.Type) (reflect.Value, bool) {
	rv := reflect.ValueOf(v)
	if rv.Type() == t {
		return rv, true
	}
	if t.Kind() == reflect.Interface {
		x := reflect.New(t).Elem()
		x.Set(rv)
		return x, true
	}
	if t.Kind() == reflect.Pointer && rv.Type() == t.Elem() {
		p := reflect.New(t.Elem())
		p.Elem().Set(rv)
		return p, true
	}
	if rv.Type().ConvertibleTo(t) && rv.Kind() == t.Kind() {
		return rv.Convert(t), true
	}
	return reflect.Value{}, false
}

func runGen(o *hx.Out, r *hx.Rng, rounds int) {
	es := gentries()
	mods := []string{"Optional", "Nilable", "Nullish", "NonOptional", "Default", "DefaultFunc", "Prefault", "PrefaultFunc"}
	for round := 0; round < rounds; round++ {
		for _, e := range es {
			var schema any
			variant := hx.Pick(r, []string{"checked", "checked", "plain", "refined"})
			applied := []string{variant}
			pm := hx.Safely(func() {
				schema = buildVariant(&e, variant)
				for j, m := 0, r.Intn(4); j < m; j++ {
					name := hx.Pick(r, mods)
					meth := reflect.ValueOf(schema).MethodByName(name)
					if !meth.IsValid() {
						continue
					}
					var args []reflect.Value
					if meth.Type().NumIn() == 1 {
						pt := meth.Type().In(0)
						if pt.Kind() == reflect.Func {
							rt := pt.Out(0)
							dv, ok := conv(e.dflt, rt)
							if !ok {
								continue
							}
							args = []reflect.Value{reflect.MakeFunc(pt, func([]reflect.Value) []reflect.Value { return []reflect.Value{dv} })}
						} else {
							dv, ok := conv(e.dflt, pt)
							if !ok {
								continue
							}
							args = []reflect.Value{dv}
						}
					}
					schema = meth.Call(args)[0].Interface()
					applied = append(applied, name)
				}
			})
			if pm != "" {
				o.Emit(fmt.Sprintf("c09 gen %s %s | build #%s", e.name, strings.Join(applied, " "), e.name), "P=panic:"+strings.ReplaceAll(pm, " ", "_"))
				continue
			}
			sm := reflect.ValueOf(schema).MethodByName("StrictParse")
			if !sm.IsValid() {
				continue
			}
			want := sm.Type().In(0)
			// well-typed inputs: each sample converted to R, plus the nil of R when R is nillable
			var ins []reflect.Value
			var toks []string
			for _, x := range e.ins {
				if v, ok := conv(x, want); ok {
					ins = append(ins, v)
					toks = append(toks, canon(x))
				}
			}
			switch want.Kind() {
			case reflect.Pointer, reflect.Map, reflect.Slice, reflect.Interface:
				ins = append(ins, reflect.Zero(want))
				toks = append(toks, "nil-of-R")
			}
			for k, in := range ins {
				obs := callAll(schema, in, renderGen)
				o.Emit(fmt.Sprintf("c09 gen %s %s | %s #%s", e.name, strings.Join(applied, " "), toks[k], e.name), obs)
				o.Count("gen:" + e.name)
			}
		}
	}
}

func main() {
	genEP := flag.String("gen-entrypoints", "", "write Gen/EntryPoints.lean here and exit")
	repoRoot := flag.String("repo", "/repo", "library source tree (for -gen-entrypoints)")
	aimFlag := flag.String("aim", "", "comma-separated Go type names (ZodString,…) the entry-point table reports as re-routed: extra rounds")
	c := hx.ParseFlags()
	if *genEP != "" {
		if err := genEntryPoints(*repoRoot, *genEP); err != nil {
			fmt.Fprintln(os.Stderr, "gen-entrypoints:", err)
			os.Exit(4)
		}
		return
	}
	o, err := hx.NewOut(c.OutDir)
	if err != nil {
		fmt.Fprintln(os.Stderr, err)
		os.Exit(3)
	}
	r := hx.NewRng(c.Seed)
	nStr, rounds := 12000, 150
	if c.Thorough() {
		nStr, rounds = 300000, 4000
	}
	nHistStr, histRounds := 2500, 220
	if c.Thorough() {
		nHistStr, histRounds = 60000, 5000
	}
	runStr(o, r, nStr)
	runGen(o, r, rounds)
	runHistStr(o, r, nHistStr)
	runHistGen(o, r, histRounds)
	aim := map[string]bool{}
	for _, a := range strings.Split(*aimFlag, ",") {
		if a != "" {
			aim[a] = true
		}
	}
	rounds2 := 40
	if c.Thorough() {
		rounds2 = 1000
	}
	runGen2(o, r, rounds2, aim)
	nHistInt := 1500
	if c.Thorough() {
		nHistInt = 40000
	}
	runHistInt(o, r, nHistInt)
	runDirected(o, r, aim, c.Thorough())
	runCpxDirected(o, r, c.Thorough())
	missing := unregisteredCtors(*repoRoot)
	nCtors := 0
	for _, cs := range zeroArgCtors {
		nCtors += len(cs)
	}
	if err := o.Close(map[string]any{"seed": c.Seed, "tier": c.Tier, "unregistered_ctors": missing, "registered_ctors": nCtors}); err != nil {
		fmt.Fprintln(os.Stderr, err)
		os.Exit(3)
	}
}
