/-
  Transcription of gozodgen's OWN tag splitter and rule parser
  (`cmd/gozodgen/analyzer.go`: `smartSplitTagRules`, `(*StructAnalyzer).parseTagRules`) over strings
  given as lists of code points, next to C06's transcription of `pkg/tagparser` (`Gozod.TagParser`,
  which is what `FromStruct` uses).

  Representation.  `smartSplitTagRules` walks the tag with `for i, char := range tagValue` (runes) and
  looks one BYTE back (`tagValue[i-1] != '\\'`).  The byte before a rune boundary is `0x5C` exactly when
  the previous rune is a backslash (the last byte of every multi-byte encoding and every invalid byte is
  `≥ 0x80`), so the model keeps `prevBS` = "the previous rune was a backslash" (`false` at `i == 0`).
  `current.Len() > 0` = the buffer is non-empty.

  `parseTagRules` returns an error for a rule with `=` and an empty parameter and for an empty rule name:
  `Except.error "param"` / `"name"` here (gozodgen then refuses the whole package with a message).
-/
import Gozod.Model.TagParser
namespace Gozod.GenSplit
open Gozod.TagParser

/-! ### smartSplitTagRules -/

structure GSt where
  parts : List Str := []
  cur : Str := []
  inQuotes : Bool := false
  inBraces : Int := 0
  inBrackets : Int := 0
  prevBS : Bool := false
  deriving Repr, DecidableEq

/-- one iteration of the `for i, char := range tagValue` loop -/
def gstep (g : GSt) (ch : Nat) : GSt :=
  let nb := decide (ch = cBackslash)
  if ch = cDQuote then
    { g with inQuotes := if g.prevBS then g.inQuotes else !g.inQuotes, cur := g.cur ++ [ch], prevBS := nb }
  else if ch = cLBracket then
    { g with inBrackets := if !g.inQuotes then g.inBrackets + 1 else g.inBrackets, cur := g.cur ++ [ch], prevBS := nb }
  else if ch = cRBracket then
    { g with inBrackets := if !g.inQuotes then g.inBrackets - 1 else g.inBrackets, cur := g.cur ++ [ch], prevBS := nb }
  else if ch = cLBrace then
    { g with inBraces := if !g.inQuotes then g.inBraces + 1 else g.inBraces, cur := g.cur ++ [ch], prevBS := nb }
  else if ch = cRBrace then
    { g with inBraces := if !g.inQuotes then g.inBraces - 1 else g.inBraces, cur := g.cur ++ [ch], prevBS := nb }
  else if ch = cComma then
    if !g.inQuotes ∧ g.inBraces = 0 ∧ g.inBrackets = 0 then { g with parts := g.parts ++ [g.cur], cur := [], prevBS := nb }
    else { g with cur := g.cur ++ [ch], prevBS := nb }
  else { g with cur := g.cur ++ [ch], prevBS := nb }

def grun (g : GSt) : Str → GSt
  | [] => g
  | ch :: rest => grun (gstep g ch) rest

/-- `smartSplitTagRules` -/
def genSplit (tag : Str) : List Str :=
  let g := grun {} tag
  if g.cur ≠ [] then g.parts ++ [g.cur] else g.parts

/-! ### parseTagRules -/

def cSpace : Nat := 0x20
def nameEnum : Str := [0x65, 0x6E, 0x75, 0x6D]
def nameRegex : Str := [0x72, 0x65, 0x67, 0x65, 0x78]

/-- `(HasPrefix(p,"[") && HasSuffix(p,"]")) || (HasPrefix(p,"{") && HasSuffix(p,"}"))` -/
def bracketed (p : Str) : Bool :=
  (p.head? = some cLBracket && p.getLast? = some cRBracket) ||
  (p.head? = some cLBrace && p.getLast? = some cRBrace)

/-- the body of the loop of `parseTagRules` for one part (`none` = `continue`) -/
def genParsePart (part : Str) : Except String (Option Rule) :=
  let part := trimSpace part
  if part = [] then .ok none
  else
    let (name, raw, ok) := cutEq part          -- strings.Contains(part,"=") + SplitN(part,"=",2)
    if ok then
      let name := trimSpace name
      let raw := trimSpace raw
      if raw = [] then .error "param"
      else
        let params :=
          if bracketed raw then [raw]
          else if name = nameEnum ∧ raw.contains cSpace then fields raw
          else if raw.contains cSpace ∧ name ≠ nameRegex then fields raw
          else [raw]
        if name = [] then .error "name" else .ok (some ⟨name, some params⟩)
    else
      let name := trimSpace part               -- rule.Name = strings.TrimSpace(part)  (trimmed a second time)
      if name = [] then .error "name" else .ok (some ⟨name, none⟩)

def genParseParts : List Str → Except String (List Rule)
  | [] => .ok []
  | p :: ps =>
    match genParsePart p with
    | .error e => .error e
    | .ok r =>
      match genParseParts ps with
      | .error e => .error e
      | .ok rs => .ok (match r with | some r => r :: rs | none => rs)

/-- `(*StructAnalyzer).parseTagRules` -/
def genParseTag (tag : Str) : Except String (List Rule) :=
  if tag = [] then .ok [] else genParseParts (genSplit tag)

instance : DecidableEq (Except String (List Rule)) := fun a b =>
  match a, b with
  | .ok x, .ok y => if h : x = y then isTrue (by rw [h]) else isFalse (by intro e; cases e; exact h rfl)
  | .error x, .error y => if h : x = y then isTrue (by rw [h]) else isFalse (by intro e; cases e; exact h rfl)
  | .ok _, .error _ => isFalse (by intro e; cases e)
  | .error _, .ok _ => isFalse (by intro e; cases e)

/-! ### where the two parsers provably agree -/

/-- The region of tags on which the two splitters run in lock step, as a scan with tagparser's escape
    state (`esc`: the previous rune was an unescaped backslash) and the generator's look-behind
    (`pbs`: the previous rune was a backslash):
    * no apostrophe outside a backslash escape (tagparser opens a `'…'` quotation, the generator does not),
    * no backslash-escaped `[ ] { } ,` (tagparser skips the escaped rune, the generator counts it / splits),
    * no `"` right after an escaped backslash (`\\"`: tagparser toggles, the generator's look-behind does not). -/
def splitRegionAux : Bool → Bool → Str → Bool
  | _, _, [] => true
  | esc, pbs, ch :: rest =>
    if esc then
      (ch != cLBracket && ch != cRBracket && ch != cLBrace && ch != cRBrace && ch != cComma) &&
        splitRegionAux false (decide (ch = cBackslash)) rest
    else if ch = cBackslash then splitRegionAux (!rest.isEmpty) true rest
    else if ch = cSQuote then false
    else if ch = cDQuote then !pbs && splitRegionAux false false rest
    else splitRegionAux false false rest

def splitRegion (tag : Str) : Bool := splitRegionAux false false tag

/-- why a tag is outside `splitRegion` (for failure-class keys): the first offending rune -/
def splitReasonAux : Bool → Bool → Str → String
  | _, _, [] => "none"
  | esc, pbs, ch :: rest =>
    if esc then
      if ch = cComma then "escaped-comma"
      else if ch = cLBracket ∨ ch = cRBracket ∨ ch = cLBrace ∨ ch = cRBrace then "escaped-bracket"
      else splitReasonAux false (ch == cBackslash) rest
    else if ch = cBackslash then splitReasonAux (!rest.isEmpty) true rest
    else if ch = cSQuote then "apostrophe"
    else if ch = cDQuote then (if pbs then "dquote-after-escaped-backslash" else splitReasonAux false false rest)
    else splitReasonAux false false rest

/-- one part (between top-level commas) on which the two rule parsers agree: with `=`, neither side of it
    blank, and a parameter containing a space is neither bracketed (`[…]`/`{…}`: the generator keeps it
    whole, tagparser cuts it into fields) nor a `regex` parameter (the generator keeps it whole) -/
def partRegion (part : Str) : Bool :=
  let part := trimSpace part
  let (name, raw, ok) := cutEq part
  if part = [] then true
  else if ok then
    let name := trimSpace name
    let raw := trimSpace raw
    raw != [] && name != [] &&
      !(hasPrefixQ raw && hasSuffixQ raw) &&
      (!raw.contains cSpace || (!bracketed raw && name != nameRegex))
  else true

def partReason (part : Str) : String :=
  let part := trimSpace part
  let (name, raw, ok) := cutEq part
  if ok then
    let name := trimSpace name
    let raw := trimSpace raw
    if raw = [] then "empty-parameter"
    else if name = [] then "empty-name"
    else if hasPrefixQ raw && hasSuffixQ raw then "apostrophe"
    else if raw.contains cSpace && bracketed raw then "bracketed-with-space"
    else if raw.contains cSpace && name = nameRegex then "regex-with-space"
    else "none"
  else "none"

def parseRegion (tag : Str) : Bool := splitRegion tag && (splitParts tag).all partRegion

def parseReason (tag : Str) : String :=
  if !splitRegion tag then "split:" ++ splitReasonAux false false tag
  else match (splitParts tag).find? (fun p => !partRegion p) with
    | some p => "rule:" ++ partReason p
    | none => "none"

end Gozod.GenSplit
