"""C01 — primitive schemas accept exactly the values satisfying type and every check."""
import os, subprocess
from . import common as C

MANIFEST = dict(
   technique="Lean 4 proof (ParsePrimitive type dispatch + the C10 check-engine theorems + the C16 exactness theorems) + differential correspondence on real string / integer / float / enum / literal schemas over every Go kind of input",
   text="c01_accept_iff: for every primitive schema, check chain, environment and non-nil input, Parse succeeds iff the input is a value of the schema's type (or a pointer to one) and no check fails on the value threaded through the overwrites before it; c01_result: the returned value is exactly that threaded value; c01_foreign_rejected; c01_num_holds_spec bridges every numeric check to the mathematical relation (via C16); c01_enum_iff. Tie: real String/StringPtr, Int8..Uint64/IntPtr.., Float32/64, Enum/EnumPtr/Literal schemas with boundary-directed check chains on values, pointers, pointers to pointers and 27 foreign Go kinds; the implementation is also judged directly by the documented meaning (spec verdict computed without the model's engine).",
   note="Trusted: Lean kernel; axioms propext/Classical.choice/Quot.sound at most; harness + comparer. String semantics are byte-level (Go len/HasPrefix/Contains); Trim/ToLower/ToUpper modelled on ASCII only (non-ASCII inputs are only generated for chains without them). Regex/format checks are C20's; float MultipleOf/Finite/Safe are not modelled; bool has no checks and is covered through the foreign-kind rejection only.",
   design="DESIGN.md §5 C01")

MODULES = ["Gozod.Proofs.C01", "Gozod.Proofs.C01Methods"]
THEOREMS = ["Gozod.C01." + t for t in ["c01_accept_iff", "c01_result", "c01_foreign_rejected", "c01_num_holds_spec", "c01_enum_iff", "isIntF_eq_spec",
    "c01_methods_classified", "c01_methods_nonempty", "c01_opaque_methods",
    "c01_float_multipleOf", "c01_float_cmp", "c01_float_nan_rejected", "c01_float_finite_iff", "c01_float_safe_iff", "c01_float_int"]] + [
    "Gozod.FloatMul.implMultF_eq_specMultF", "Gozod.FloatMul.ofBits_rep"]

def key(op, impl, M, S):
    kind = C.op_body(op).split(" ")[1]
    how = C.op_comment(op).split(" ")[0]
    if impl.startswith("panic"): return "%s:panic" % kind
    why = (S or "").split(":")[1] if (S or "").startswith("spec-rejects:") else "model-differs"
    obs = "ok" if impl.startswith("ok:") else ":".join(impl.split(":")[:2])
    return "%s:%s:%s:%s" % (kind, how, why, obs)

def describe(op):
    return "harness/cmd/c01: str = String()/StringPtr() + checks; num <kind> <ptr-variant> checks (cmp op bound | mul d); enum/literal value sets; input after '|'"

GEN_METHODS = os.path.join(C.LEAN, "Gozod", "Gen", "PrimMethods.lean")
GEN_CASE = os.path.join(C.LEAN, "Gozod", "Gen", "CaseTable.lean")

def translate(res):
    """Regenerate Gen/PrimMethods.lean (go/ast over the six primitive types of REPO) and Gen/CaseTable.lean
    (the toolchain's unicode tables); the files are rewritten only when their content changes."""
    ok, out = C.build_harness("C01")
    if not ok:
        return "harness does not build against the current tree:\n" + out[-3000:]
    before = [open(f).read() if os.path.exists(f) else "" for f in (GEN_METHODS, GEN_CASE)]
    rc, out = C.run([C.harness_bin("C01"), "-out", C.BUILD, "-gen-methods", GEN_METHODS, "-gen-casetable", GEN_CASE, "-repo", C.REPO], env=C.goenv(), timeout=600)
    if rc != 0:
        return "translator failed (rc=%d): %s" % (rc, out[-2000:])
    for f, b in zip((GEN_METHODS, GEN_CASE), before):
        if open(f).read() != b: res.notes.append("%s changed and was rewritten" % os.path.relpath(f, C.VERIF))
    return ""

def method_offenders():
    """Which entries of the regenerated method table the expectation does not cover (asks the driver)."""
    try:
        p = subprocess.run([C.driver_bin("C01")], input="c01 methods\n", capture_output=True, text=True, timeout=120)
        return p.stdout.strip()
    except Exception as e:
        return "(driver unavailable: %s)" % e

def run(res):
    with C.Lock("c01-gen"):
        return _run(res)

def _run(res):
    err = translate(res)
    if err:
        C.tie_broken(res, "translator C01/PrimMethods", err)
        return res.finish()
    ok, detail = C.prove(res, MODULES, THEOREMS)
    if not ok:
        C.lake_build(["driver_c01"])
        if "C01Methods" in detail or "c01_methods" in detail:
            detail = ("the method table regenerated from the source differs from the expectation in Model/PrimMethodsSpec.lean:\n  "
                      + method_offenders().replace(" ; ", "\n  ") + "\n\n" + detail)
        C.tie_broken(res, "proof Gozod.Proofs.C01", detail)
    data, err = C.correspond(res, "C01", feed_impl=True)
    if data is None:
        C.tie_broken(res, "correspondence C01/ParsePrimitive", err)
        return res.finish()
    C.decide(res, "C01", data, key, "C01/ParsePrimitive+checks", describe=describe)
    res.coverage["rule"] = ("strings: 0-5 checks (Min/Max/Length at len-1..len+1, StartsWith/EndsWith/Includes on fragments of the input, Lowercase/Uppercase, Trim/ToLowerCase/ToUpperCase) on the input as string, *string, **string and foreign kinds; "
        "numerics: 12 kinds x value/pointer constructors, 0-4 checks (Gt/Gte/Lt/Lte/Min/Max/sign shorthands at and next to the input, MultipleOf/Step) on value, pointer and foreign inputs (other widths are foreign); "
        "enum/literal over string and int value sets with inputs in, out, other types, named types, pointers. distinct = distinct op lines.")
    res.assumptions += ["byte-level string semantics", "ASCII-only inputs through Trim/ToLowerCase/ToUpperCase"]
    return res.finish()
