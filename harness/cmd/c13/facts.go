package main

// C13, round 4b — WRITER FACTS.  The Lean transcription of cmd/gozodgen/writer.go (GenEmit.emitChain, ctorF, chainOf,
// importsOf) is parameterised by a record of structure facts read from the source with go/ast on every run
// (lean/Gozod/Gen/WriterFacts.lean, regenerated): which of the known variants of each decision the writer contains.
// Every fact is a conjunction of the syntactic marks of one variant; a variant that is only partly present is a broken
// tie (the transcription has no case for it).  The facts choose among transcriptions — the emitted text of every
// generated struct is still compared with the transcription's output (texpr / wexpr ops).
import (
	"encoding/json"
	"go/ast"
	"go/parser"
	"go/token"
	"os"
	"path/filepath"
	"strconv"
)

type writerFacts struct {
	URLImport            bool `json:"urlImport"`            // generateImports writes "net/url" for a url rule
	SpecialOptNonPtrOnly bool `json:"specialOptNonPtrOnly"` // UUID / Enum paths: .Optional() only when !isPointerType(field.Type)
	OptionalOnEveryPtr   bool `json:"optionalOnEveryPtr"`   // general path: isPointerType(field.Type) || !field.Required
	TimePtr              bool `json:"timePtr"`              // baseConstructor, pointer branch: base == "time.Time" -> gozod.Time()
	SliceTyped           bool `json:"sliceTyped"`           // gozod.Slice[%s](%s); *[]T -> the slice constructor; no .Optional() on slice fields; time import from the emitted code
	MapKeyMatch          bool `json:"mapKeyMatch"`          // mapKeyEnd instead of strings.LastIndex(typeName, "]")
	RecordTyped          bool `json:"recordTyped"`          // gozod.Record[string, %s](gozod.String(), %s) with typedConstructor; RecordPtr; any -> gozod.Any(); no .Optional() on map fields
	URLCtor              bool `json:"urlCtor"`              // URL special case: gozod.URL()
	RuleApplies          bool `json:"ruleApplies"`          // generateValidatorChain asks ruleApplies; the Enum path asks enumRuleApplies
	BoundArg             bool `json:"boundArg"`             // min/max/gt/gte/lt/lte arguments through boundArgument
	ExtraRules           bool `json:"extraRules"`           // cases length, nonempty, positive, negative, nonnegative, nonpositive
	JSONNumKinds         bool `json:"jsonNumKinds"`         // generateSliceValue: a slice literal for every integer / float element kind (not only int, float64)
	MultiName            bool `json:"multiName"`            // analyzer: extractJSONName(field, name)
	TagLiteral           bool `json:"tagLiteral"`           // analyzer: tagText (strconv.Unquote of the tag literal)
	SkipTestFiles        bool `json:"skipTestFiles"`        // analyzer: AnalyzePackage skips files named *_test.go
}

func parseGo(path string) *ast.File {
	f, err := parser.ParseFile(token.NewFileSet(), path, nil, 0)
	if err != nil {
		die("writer facts: %v", err)
	}
	return f
}

func funcDecl(f *ast.File, name string) *ast.FuncDecl {
	for _, d := range f.Decls {
		if fd, ok := d.(*ast.FuncDecl); ok && fd.Name.Name == name {
			return fd
		}
	}
	return nil
}

func hasStringLit(n ast.Node, s string) bool {
	found := false
	if n == nil {
		return false
	}
	ast.Inspect(n, func(x ast.Node) bool {
		if bl, ok := x.(*ast.BasicLit); ok && bl.Kind == token.STRING {
			if v, err := strconv.Unquote(bl.Value); err == nil && v == s {
				found = true
			}
		}
		return !found
	})
	return found
}

// calls counts the calls of a plain function name inside n; negated: only those directly under a `!`
func calls(n ast.Node, name string, negated bool) int {
	c := 0
	if n == nil {
		return 0
	}
	isCall := func(e ast.Expr) bool {
		ce, ok := e.(*ast.CallExpr)
		if !ok {
			return false
		}
		switch fn := ce.Fun.(type) {
		case *ast.Ident:
			return fn.Name == name
		case *ast.SelectorExpr:
			return fn.Sel.Name == name
		}
		return false
	}
	ast.Inspect(n, func(x ast.Node) bool {
		if negated {
			if u, ok := x.(*ast.UnaryExpr); ok && u.Op == token.NOT && isCall(u.X) {
				c++
			}
			return true
		}
		if e, ok := x.(ast.Expr); ok && isCall(e) {
			c++
		}
		return true
	})
	return c
}

// identEqLit: a comparison `<ident> == "<lit>"` inside n
func identEqLit(n ast.Node, ident, lit string) bool {
	found := false
	if n == nil {
		return false
	}
	ast.Inspect(n, func(x ast.Node) bool {
		be, ok := x.(*ast.BinaryExpr)
		if !ok || be.Op != token.EQL {
			return true
		}
		id, ok1 := be.X.(*ast.Ident)
		bl, ok2 := be.Y.(*ast.BasicLit)
		if ok1 && ok2 && id.Name == ident && bl.Kind == token.STRING {
			if v, err := strconv.Unquote(bl.Value); err == nil && v == lit {
				found = true
			}
		}
		return !found
	})
	return found
}

func hasSelector(n ast.Node, pkg, sel string) bool {
	found := false
	if n == nil {
		return false
	}
	ast.Inspect(n, func(x ast.Node) bool {
		if se, ok := x.(*ast.SelectorExpr); ok && se.Sel.Name == sel {
			if id, ok := se.X.(*ast.Ident); ok && id.Name == pkg {
				found = true
			}
		}
		return !found
	})
	return found
}

// caseStrings: the string literals in the case lists of the first switch statement of fn
func caseStrings(fn *ast.FuncDecl) map[string]bool {
	res := map[string]bool{}
	if fn == nil {
		return res
	}
	ast.Inspect(fn, func(x ast.Node) bool {
		cc, ok := x.(*ast.CaseClause)
		if !ok {
			return true
		}
		for _, e := range cc.List {
			if bl, ok := e.(*ast.BasicLit); ok && bl.Kind == token.STRING {
				if v, err := strconv.Unquote(bl.Value); err == nil {
					res[v] = true
				}
			}
		}
		return true
	})
	return res
}

// allOrNone: the marks of one variant are all present (true), all absent (false); anything else is a writer the
// transcription has no case for
func allOrNone(what string, marks ...bool) bool {
	n := 0
	for _, m := range marks {
		if m {
			n++
		}
	}
	if n != 0 && n != len(marks) {
		die("writer facts: the variant %q is only partly present in cmd/gozodgen (marks %v): the Lean transcription GenEmit has no case for this writer", what, marks)
	}
	return n != 0
}

func readWriterFacts(repo string) writerFacts {
	w := parseGo(filepath.Join(repo, "cmd", "gozodgen", "writer.go"))
	a := parseGo(filepath.Join(repo, "cmd", "gozodgen", "analyzer.go"))
	gi, fsc, gvc, bc := funcDecl(w, "generateImports"), funcDecl(w, "generateFieldSchemaCode"), funcDecl(w, "generateValidatorChain"), funcDecl(w, "baseConstructor")
	if gi == nil || fsc == nil || gvc == nil || bc == nil {
		die("writer facts: generateImports / generateFieldSchemaCode / generateValidatorChain / baseConstructor not all found in writer.go (the transcription GenEmit has lost an original)")
	}
	var wf writerFacts
	wf.URLImport = hasStringLit(gi, "net/url")
	neg := calls(fsc, "isPointerType", true)
	all := calls(fsc, "isPointerType", false)
	switch {
	case neg == 2 || neg == 0:
		wf.SpecialOptNonPtrOnly = neg == 2
	default:
		die("writer facts: %d negated isPointerType calls in generateFieldSchemaCode (expected 2: the UUID and Enum paths, or 0)", neg)
	}
	switch all - neg {
	case 0, 1:
		wf.OptionalOnEveryPtr = all-neg == 1
	default:
		die("writer facts: %d plain isPointerType calls in generateFieldSchemaCode (expected 1: the general path, or 0)", all-neg)
	}
	wf.TimePtr = identEqLit(bc, "base", "time.Time")
	wf.SliceTyped = allOrNone("slice-type-argument",
		hasStringLit(bc, "gozod.Slice[%s](%s)"), hasSelector(fsc, "reflect", "Slice"), calls(gi, "baseConstructor", false) > 0, !hasStringLit(bc, "gozod.Slice(%s)")) // the `time` import is read off the constructor (43524fe; before: off the whole emitted code)
	wf.MapKeyMatch = allOrNone("map-value-type", funcDecl(w, "mapKeyEnd") != nil, calls(bc, "mapKeyEnd", false) > 0, calls(bc, "LastIndex", false) == 0)
	wf.RecordTyped = allOrNone("record-arguments",
		hasStringLit(bc, "gozod.Record[string, %s](gozod.String(), %s)"), funcDecl(w, "typedConstructor") != nil, calls(bc, "typedConstructor", false) > 0,
		hasSelector(fsc, "reflect", "Map"), identEqLit(bc, "typeName", "any"), hasStringLit(bc, "gozod.RecordPtr"), !hasStringLit(bc, "gozod.Record(%s)"))
	wf.URLCtor = hasStringLit(fsc, "gozod.URL()")
	wf.RuleApplies = allOrNone("rule-applies", funcDecl(w, "ruleApplies") != nil, calls(gvc, "ruleApplies", false) > 0, funcDecl(w, "enumRuleApplies") != nil, calls(fsc, "enumRuleApplies", false) > 0)
	wf.BoundArg = allOrNone("bound-argument", funcDecl(w, "boundArgument") != nil, calls(gvc, "boundArgument", false) == 6)
	cs := caseStrings(gvc)
	wf.ExtraRules = allOrNone("extra-rules", cs["length"], cs["nonempty"], cs["positive"], cs["negative"], cs["nonnegative"], cs["nonpositive"])
	gsv := funcDecl(w, "generateSliceValue")
	if gsv == nil {
		die("writer facts: generateSliceValue not found in writer.go")
	}
	wf.JSONNumKinds = allOrNone("json-default-kinds", hasSelector(gsv, "reflect", "Int64"), hasSelector(gsv, "reflect", "Uint8"), hasSelector(gsv, "reflect", "Float32"))
	ap := funcDecl(a, "AnalyzePackage")
	if ap == nil {
		die("writer facts: AnalyzePackage not found in analyzer.go")
	}
	wf.SkipTestFiles = hasStringLit(ap, "_test.go")
	ej := funcDecl(a, "extractJSONName")
	if ej == nil {
		die("writer facts: extractJSONName not found in analyzer.go")
	}
	np := 0
	for _, fl := range ej.Type.Params.List {
		np += len(fl.Names)
	}
	wf.MultiName = np == 2
	wf.TagLiteral = allOrNone("tag-literal", funcDecl(a, "tagText") != nil, calls(funcDecl(a, "parseStructFields"), "tagText", false) > 0)
	return wf
}

func writeWriterFacts(path, repo string) writerFacts {
	wf := readWriterFacts(repo)
	b, err := json.Marshal(wf)
	if err != nil {
		die("%v", err)
	}
	if err := os.WriteFile(path, b, 0o644); err != nil {
		die("%v", err)
	}
	return wf
}
