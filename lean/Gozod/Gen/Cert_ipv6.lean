/- GENERATED: no certificate exists for ipv6: the pattern and the specification differ on the byte string (hex) 666538303a2530 (pattern true, specification false). -/
