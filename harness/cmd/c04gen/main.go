// c04gen — source-only (go/ast) translators for property C04.  No gozod import: it reads the working tree of -repo.
//
//	-ctors FILE   every exported package-level constructor of package gozod and package coerce (function declarations and
//	              `var X = pkg.F` aliases) as a Go table the harness links against (harness/cmd/c04/ctors_gen.go); generic
//	              functions cannot be referenced uninstantiated: their names are listed so that the harness's hand-written
//	              instantiation table can be checked for completeness.
//	-lean DIR     Gen/IssueCodes.lean     every constant of type core.IssueCode (core/constants.go)
//	              Gen/IssueCreators.lean  every function of internal/issues/creators.go: what each return statement yields
//	                                      (where the code comes from, whether the path is set, whether the issue went through
//	                                      FinalizeIssue before NewZodError), the facts about FinalizeIssue itself and every
//	                                      return statement of the default message formatter
//	              Gen/PanicSites.lean     (sites.go) every construct that can panic at run time with its guard classification
//
// Files are rewritten only when their content changes.
package main

import (
	"bytes"
	"flag"
	"fmt"
	"go/ast"
	"go/parser"
	"go/printer"
	"go/token"
	"os"
	"path/filepath"
	"sort"
	"strconv"
	"strings"
)

func die(f string, a ...any) {
	fmt.Fprintf(os.Stderr, "c04gen: "+f+"\n", a...)
	os.Exit(1)
}

func writeIfChanged(path, content string) {
	if old, err := os.ReadFile(path); err == nil && string(old) == content {
		return
	}
	if err := os.WriteFile(path, []byte(content), 0o644); err != nil {
		die("%v", err)
	}
}

func parseDir(fset *token.FileSet, dir string) []*ast.File {
	ents, err := os.ReadDir(dir)
	if err != nil {
		die("%v", err)
	}
	var out []*ast.File
	for _, e := range ents {
		n := e.Name()
		if e.IsDir() || !strings.HasSuffix(n, ".go") || strings.HasSuffix(n, "_test.go") {
			continue
		}
		f, err := parser.ParseFile(fset, filepath.Join(dir, n), nil, parser.SkipObjectResolution)
		if err != nil {
			die("%v", err)
		}
		out = append(out, f)
	}
	return out
}

func q(s string) string { return strconv.Quote(s) }

func qlist(xs []string) string {
	ys := make([]string, len(xs))
	for i, x := range xs {
		ys[i] = q(x)
	}
	return "[" + strings.Join(ys, ", ") + "]"
}

func exprStr(fset *token.FileSet, e ast.Expr) string {
	var b bytes.Buffer
	_ = printer.Fprint(&b, fset, e)
	return b.String()
}

func main() {
	repo := flag.String("repo", "/repo", "library working tree")
	ctors := flag.String("ctors", "", "Go file to (re)generate with the constructor table")
	lean := flag.String("lean", "", "lean/Gozod/Gen directory")
	flag.Parse()
	if *ctors != "" {
		genCtors(*repo, *ctors)
	}
	if *lean != "" {
		genIssueTables(*repo, *lean)
		genPanicSites(*repo, *lean)
	}
}

// ---------------------------------------------------------------------------------------------------------------
// constructors

func paramNames(ft *ast.FuncType) []string {
	var ps []string
	if ft.Params == nil {
		return ps
	}
	for _, f := range ft.Params.List {
		if len(f.Names) == 0 {
			ps = append(ps, "_")
		}
		for _, n := range f.Names {
			ps = append(ps, n.Name)
		}
	}
	return ps
}

func genCtors(repo, out string) {
	fset := token.NewFileSet()
	// parameter names of the functions an alias may point at
	decl := map[string][]string{} // "types.String" -> names
	for _, pkg := range []string{"types", "core", "coerce", "jsonschema", "internal/checks", "internal/issues", "internal/utils"} {
		dir := filepath.Join(repo, pkg)
		if _, err := os.Stat(dir); err != nil {
			continue
		}
		for _, f := range parseDir(fset, dir) {
			for _, d := range f.Decls {
				if fd, ok := d.(*ast.FuncDecl); ok && fd.Recv == nil && fd.Name.IsExported() {
					decl[f.Name.Name+"."+fd.Name.Name] = paramNames(fd.Type)
				}
			}
		}
	}
	type row struct {
		name, ref string
		params    []string
	}
	var rows []row
	var generic []string
	for _, p := range []struct{ dir, pkg string }{{".", "gozod"}, {"coerce", "coerce"}} {
		for _, f := range parseDir(fset, filepath.Join(repo, p.dir)) {
			if f.Name.Name != p.pkg {
				continue
			}
			for _, d := range f.Decls {
				switch d := d.(type) {
				case *ast.FuncDecl:
					if d.Recv != nil || !d.Name.IsExported() {
						continue
					}
					if d.Type.TypeParams != nil && len(d.Type.TypeParams.List) > 0 {
						generic = append(generic, p.pkg+"."+d.Name.Name)
						continue
					}
					rows = append(rows, row{p.pkg + "." + d.Name.Name, p.pkg + "." + d.Name.Name, paramNames(d.Type)})
				case *ast.GenDecl:
					if d.Tok != token.VAR {
						continue
					}
					for _, s := range d.Specs {
						vs := s.(*ast.ValueSpec)
						if len(vs.Names) != 1 || len(vs.Values) != 1 || !vs.Names[0].IsExported() {
							continue
						}
						var ps []string
						switch v := vs.Values[0].(type) {
						case *ast.SelectorExpr:
							if x, ok := v.X.(*ast.Ident); ok {
								ps = decl[x.Name+"."+v.Sel.Name]
							}
						case *ast.Ident:
						default:
							continue // a computed value, not a function reference
						}
						rows = append(rows, row{p.pkg + "." + vs.Names[0].Name, p.pkg + "." + vs.Names[0].Name, ps})
					}
				}
			}
		}
	}
	sort.Slice(rows, func(i, j int) bool { return rows[i].name < rows[j].name })
	sort.Strings(generic)
	if len(rows) < 100 {
		die("only %d constructors found in %s: the translator no longer finds what it looks for", len(rows), repo)
	}
	var b strings.Builder
	b.WriteString("// Code generated by harness/cmd/c04gen from gozod.go and coerce/coerce.go of the library working tree. DO NOT EDIT.\n")
	b.WriteString("package main\n\nimport (\n\t\"github.com/kaptinlin/gozod\"\n\t\"github.com/kaptinlin/gozod/coerce\"\n)\n\n")
	b.WriteString("// genCtors: every exported non-generic package-level function value (the harness keeps those that return a schema).\n")
	b.WriteString("var genCtors = []ctor{\n")
	for _, r := range rows {
		ps := make([]string, len(r.params))
		for i, p := range r.params {
			ps[i] = q(p)
		}
		fmt.Fprintf(&b, "\t{%s, %s, []string{%s}},\n", q(r.name), r.ref, strings.Join(ps, ", "))
	}
	b.WriteString("}\n\n// genericCtors: exported generic functions (instantiated by hand in ctors.go; completeness is checked).\n")
	b.WriteString("var genericCtors = []string{\n")
	for _, g := range generic {
		fmt.Fprintf(&b, "\t%s,\n", q(g))
	}
	b.WriteString("}\n")
	writeIfChanged(out, b.String())
}

// ---------------------------------------------------------------------------------------------------------------
// issue codes, creators, FinalizeIssue, default messages

func findFunc(files []*ast.File, name string) *ast.FuncDecl {
	for _, f := range files {
		for _, d := range f.Decls {
			if fd, ok := d.(*ast.FuncDecl); ok && fd.Name.Name == name {
				return fd
			}
		}
	}
	return nil
}

func isSel(e ast.Expr, x, sel string) bool {
	s, ok := e.(*ast.SelectorExpr)
	if !ok {
		return false
	}
	id, ok := s.X.(*ast.Ident)
	return ok && id.Name == x && (sel == "" || s.Sel.Name == sel)
}

func callName(e ast.Expr) string {
	c, ok := e.(*ast.CallExpr)
	if !ok {
		return ""
	}
	switch f := c.Fun.(type) {
	case *ast.Ident:
		return f.Name
	case *ast.SelectorExpr:
		if id, ok := f.X.(*ast.Ident); ok {
			return id.Name + "." + f.Sel.Name
		}
	}
	return ""
}

// defOf finds the expression a local variable is defined with (its first `x := e`, `x = e` or `var x = e`).
func defOf(body *ast.BlockStmt, name string) ast.Expr {
	var found ast.Expr
	ast.Inspect(body, func(n ast.Node) bool {
		if found != nil {
			return false
		}
		if as, ok := n.(*ast.AssignStmt); ok && len(as.Lhs) == len(as.Rhs) {
			for i, l := range as.Lhs {
				if id, ok := l.(*ast.Ident); ok && id.Name == name {
					found = as.Rhs[i]
					return false
				}
			}
		}
		return true
	})
	return found
}

type rawSrc struct {
	kind    string // via | lit | unknown
	callee  string // via: the creator called
	code    string // const:<Name> | param | inherit | callee | unknown
	path    string // nonnil | param | missing | callee
	escapes bool   // the address of the issue is handed to a caller-supplied function before it is returned
}

// classifyRaw says what a ZodRawIssue-valued expression yields.
func classifyRaw(fd *ast.FuncDecl, e ast.Expr, codeConsts map[string]bool, depth int) rawSrc {
	if depth > 4 {
		return rawSrc{kind: "unknown", code: "unknown", path: "unknown"}
	}
	switch e := e.(type) {
	case *ast.CallExpr:
		n := callName(e)
		if n == "" || strings.Contains(n, ".") {
			return rawSrc{kind: "unknown", code: "unknown", path: "unknown"}
		}
		r := rawSrc{kind: "via", callee: n, code: "callee", path: "callee"}
		// a callee that takes the code as its first argument (CreateIssue, extractFirstRawIssue's fallback)
		for _, a := range e.Args {
			if s, ok := a.(*ast.SelectorExpr); ok && isSel(s, "core", "") && codeConsts[s.Sel.Name] {
				r.code = "const:" + s.Sel.Name
			} else if id, ok := a.(*ast.Ident); ok && isCodeParam(fd, id.Name) {
				r.code = "param"
			} else if id, ok := a.(*ast.Ident); ok {
				// a local that is only ever assigned code constants
				var cs []string
				all := true
				ast.Inspect(fd.Body, func(n ast.Node) bool {
					if as, ok := n.(*ast.AssignStmt); ok && len(as.Lhs) == len(as.Rhs) {
						for i, l := range as.Lhs {
							if li, ok := l.(*ast.Ident); ok && li.Name == id.Name {
								if s, ok := as.Rhs[i].(*ast.SelectorExpr); ok && isSel(s, "core", "") && codeConsts[s.Sel.Name] {
									cs = append(cs, s.Sel.Name)
								} else {
									all = false
								}
							}
						}
					}
					return true
				})
				if all && len(cs) > 0 {
					r.code = "const:" + strings.Join(cs, "+")
				}
			}
		}
		return r
	case *ast.CompositeLit:
		r := rawSrc{kind: "lit", code: "unknown", path: "missing"}
		for _, el := range e.Elts {
			kv, ok := el.(*ast.KeyValueExpr)
			if !ok {
				continue
			}
			k, _ := kv.Key.(*ast.Ident)
			if k == nil {
				continue
			}
			switch k.Name {
			case "Code":
				switch v := kv.Value.(type) {
				case *ast.SelectorExpr:
					if isSel(v, "core", "") && codeConsts[v.Sel.Name] {
						r.code = "const:" + v.Sel.Name
					} else if v.Sel.Name == "Code" {
						r.code = "inherit"
					}
				case *ast.Ident:
					if isCodeParam(fd, v.Name) {
						r.code = "param"
					}
				}
			case "Path":
				switch v := kv.Value.(type) {
				case *ast.CompositeLit:
					r.path = "nonnil"
				case *ast.Ident:
					r.path = "param"
					_ = v
				default:
					r.path = "param"
				}
			}
		}
		return r
	case *ast.Ident:
		d := defOf(fd.Body, e.Name)
		if d == nil {
			return rawSrc{kind: "unknown", code: "unknown", path: "unknown"}
		}
		r := classifyRaw(fd, d, codeConsts, depth+1)
		// later writes to x.Path, and &x escaping to a callback
		ast.Inspect(fd.Body, func(n ast.Node) bool {
			switch n := n.(type) {
			case *ast.AssignStmt:
				for i, l := range n.Lhs {
					if isSel(l, e.Name, "Path") && i < len(n.Rhs) {
						if _, ok := n.Rhs[i].(*ast.CompositeLit); ok {
							r.path = "nonnil"
						} else {
							r.path = "param"
						}
					}
					if isSel(l, e.Name, "Code") {
						r.code = "unknown"
					}
				}
			case *ast.UnaryExpr:
				if id, ok := n.X.(*ast.Ident); ok && n.Op == token.AND && id.Name == e.Name {
					r.escapes = true
				}
			}
			return true
		})
		return r
	}
	return rawSrc{kind: "unknown", code: "unknown", path: "unknown"}
}

func isCodeParam(fd *ast.FuncDecl, name string) bool {
	for _, f := range fd.Type.Params.List {
		if isSel(f.Type, "core", "IssueCode") {
			for _, n := range f.Names {
				if n.Name == name {
					return true
				}
			}
		}
	}
	return false
}

func resultKind(fd *ast.FuncDecl) string {
	if fd.Type.Results == nil || len(fd.Type.Results.List) != 1 {
		return "other"
	}
	t := fd.Type.Results.List[0].Type
	switch {
	case isSel(t, "core", "ZodRawIssue"):
		return "raw"
	case func() bool { id, ok := t.(*ast.Ident); return ok && id.Name == "error" }():
		return "error"
	}
	return "other"
}

var (
	creatorIdx = map[string]int{}
	codeIdx    = map[string]int{}
)

func leanCode(c string) string {
	if strings.HasPrefix(c, "const:") {
		var ix []string
		for _, n := range strings.Split(strings.TrimPrefix(c, "const:"), "+") {
			i, ok := codeIdx[n]
			if !ok {
				return ".unknown"
			}
			ix = append(ix, strconv.Itoa(i))
		}
		return ".consts [" + strings.Join(ix, ", ") + "]"
	}
	return "." + c
}

func leanRaw(r rawSrc) string {
	kind := "." + r.kind
	if r.kind == "via" {
		i, ok := creatorIdx[r.callee]
		if !ok {
			i = 9999
		}
		kind = fmt.Sprintf(".via %d", i)
	}
	return fmt.Sprintf("{ kind := %s, calleeName := %s, code := %s, path := .%s, escapes := %v }", kind, q(r.callee), leanCode(r.code), r.path, r.escapes)
}

func genIssueTables(repo, dir string) {
	fset := token.NewFileSet()
	// ---- issue codes
	cf, err := parser.ParseFile(fset, filepath.Join(repo, "core", "constants.go"), nil, parser.SkipObjectResolution)
	if err != nil {
		die("%v", err)
	}
	type code struct{ name, lit string }
	var codes []code
	codeConsts := map[string]bool{}
	for _, d := range cf.Decls {
		gd, ok := d.(*ast.GenDecl)
		if !ok || gd.Tok != token.CONST {
			continue
		}
		for _, s := range gd.Specs {
			vs := s.(*ast.ValueSpec)
			if id, ok := vs.Type.(*ast.Ident); ok && id.Name == "IssueCode" && len(vs.Names) == 1 && len(vs.Values) == 1 {
				if bl, ok := vs.Values[0].(*ast.BasicLit); ok {
					v, _ := strconv.Unquote(bl.Value)
					codeIdx[vs.Names[0].Name] = len(codes)
					codes = append(codes, code{vs.Names[0].Name, v})
					codeConsts[vs.Names[0].Name] = true
				}
			}
		}
	}
	if len(codes) == 0 {
		die("no IssueCode constants found in core/constants.go")
	}
	var b strings.Builder
	b.WriteString("-- REGENERATED by harness/cmd/c04gen (go/ast over core/constants.go): every constant of type core.IssueCode\nnamespace Gozod.Gen.IssueCodes\n")
	b.WriteString("/-- (Go constant name, string value) -/\ndef codes : List (String × String) := [\n")
	for i, c := range codes {
		fmt.Fprintf(&b, "  (%s, %s)%s\n", q(c.name), q(c.lit), map[bool]string{true: ",", false: ""}[i < len(codes)-1])
	}
	b.WriteString("]\nend Gozod.Gen.IssueCodes\n")
	writeIfChanged(filepath.Join(dir, "IssueCodes.lean"), b.String())

	// ---- creators
	files := parseDir(fset, filepath.Join(repo, "internal", "issues"))
	var creators *ast.File
	for _, f := range files {
		if strings.HasSuffix(fset.Position(f.Pos()).Filename, "creators.go") {
			creators = f
		}
	}
	if creators == nil {
		die("internal/issues/creators.go not found")
	}
	b.Reset()
	b.WriteString("-- REGENERATED by harness/cmd/c04gen (go/ast over internal/issues/creators.go, finalize.go, formatters.go)\n")
	b.WriteString("namespace Gozod.Gen.IssueCreators\n\n")
	b.WriteString("/-- where an issue's code comes from: declared constants (indices into IssueCodes.codes), the caller's core.IssueCode\n    parameter, copied from an existing issue, whatever the callee yields, or not recognised. -/\n")
	b.WriteString("inductive CodeSrc\n  | consts (idx : List Nat) | param | inherit | callee | unknown\n  deriving Repr, DecidableEq\n\n")
	b.WriteString("/-- the Path of the issue: a composite literal (non-nil), an expression handed in, absent from the literal, the callee's. -/\n")
	b.WriteString("inductive PathSrc\n  | nonnil | param | missing | callee | unknown\n  deriving Repr, DecidableEq\n\n")
	b.WriteString("/-- via i: the result of creator number i of this table (9999: not in the table); lit: a core.ZodRawIssue literal. -/\n")
	b.WriteString("inductive Kind\n  | via (callee : Nat) | lit | unknown\n  deriving Repr, DecidableEq\n\n")
	b.WriteString("/-- what a ZodRawIssue-valued expression yields; escapes: its address is handed to a caller-supplied function. -/\n")
	b.WriteString("structure Raw where\n  kind : Kind\n  calleeName : String\n  code : CodeSrc\n  path : PathSrc\n  escapes : Bool\n  deriving Repr\n\n")
	b.WriteString("/-- one return statement of an error-valued creator. nilRet: `return nil`; via: the result of creator number i (none: not a\n    creator call); issues: the elements handed to NewZodError, each with `finalized` (defined by a FinalizeIssue call) and its\n    raw source; loopFinalized: NewZodError gets a slice filled by `xs[i] = FinalizeIssue(..)`, behind `if len(..) == 0 { return nil }`. -/\n")
	b.WriteString("structure ErrRet where\n  nilRet : Bool\n  via : Option Nat\n  viaName : String\n  newZodError : Bool\n  issues : List (Bool × Raw)\n  loopFinalized : Bool\n  deriving Repr\n\n")
	b.WriteString("/-- isError: the function returns `error` (else core.ZodRawIssue) -/\n")
	b.WriteString("structure Creator where\n  name : String\n  isError : Bool\n  raws : List Raw\n  errs : List ErrRet\n  deriving Repr\n\n")
	b.WriteString("def creators : List Creator := [\n")
	var rows []string
	for _, d := range creators.Decls {
		if fd, ok := d.(*ast.FuncDecl); ok && fd.Recv == nil && fd.Body != nil && resultKind(fd) != "other" {
			creatorIdx[fd.Name.Name] = len(creatorIdx)
		}
	}
	for _, d := range creators.Decls {
		fd, ok := d.(*ast.FuncDecl)
		if !ok || fd.Recv != nil || fd.Body == nil {
			continue
		}
		rk := resultKind(fd)
		if rk == "other" {
			continue
		}
		var raws, errs []string
		ast.Inspect(fd.Body, func(n ast.Node) bool {
			if _, ok := n.(*ast.FuncLit); ok {
				return false
			}
			rs, ok := n.(*ast.ReturnStmt)
			if !ok || len(rs.Results) != 1 {
				return true
			}
			e := rs.Results[0]
			if rk == "raw" {
				raws = append(raws, leanRaw(classifyRaw(fd, e, codeConsts, 0)))
				return true
			}
			// error-valued
			er := struct {
				nilRet, nz, loop bool
				via              string
				issues           []string
			}{}
			if id, ok := e.(*ast.Ident); ok && id.Name == "nil" {
				er.nilRet = true
			} else if cn := callName(e); cn == "NewZodError" {
				er.nz = true
				arg := e.(*ast.CallExpr).Args[0]
				if cl, ok := arg.(*ast.CompositeLit); ok {
					for _, el := range cl.Elts {
						fin := false
						src := rawSrc{kind: "unknown", code: "unknown", path: "unknown"}
						if id, ok := el.(*ast.Ident); ok {
							if dd := defOf(fd.Body, id.Name); dd != nil && callName(dd) == "FinalizeIssue" {
								fin = true
								src = classifyRaw(fd, dd.(*ast.CallExpr).Args[0], codeConsts, 0)
							}
						}
						er.issues = append(er.issues, fmt.Sprintf("(%v, %s)", fin, leanRaw(src)))
					}
				} else if id, ok := arg.(*ast.Ident); ok {
					// xs := make(..., len(ys)); for i, y := range ys { xs[i] = FinalizeIssue(y, ...) }   with  if len(ys) == 0 { return nil }
					filled, guarded := false, false
					ast.Inspect(fd.Body, func(m ast.Node) bool {
						switch m := m.(type) {
						case *ast.AssignStmt:
							if ix, ok := m.Lhs[0].(*ast.IndexExpr); ok && len(m.Rhs) == 1 {
								if x, ok := ix.X.(*ast.Ident); ok && x.Name == id.Name && callName(m.Rhs[0]) == "FinalizeIssue" {
									filled = true
								}
							}
						case *ast.IfStmt:
							if be, ok := m.Cond.(*ast.BinaryExpr); ok && be.Op == token.EQL && callName(be.X) == "len" {
								if bl, ok := be.Y.(*ast.BasicLit); ok && bl.Value == "0" {
									guarded = true
								}
							}
						}
						return true
					})
					er.loop = filled && guarded
				}
			} else if cn != "" && !strings.Contains(cn, ".") {
				er.via = cn
			}
			via := "none"
			if i, ok := creatorIdx[er.via]; ok {
				via = fmt.Sprintf("some %d", i)
			}
			errs = append(errs, fmt.Sprintf("{ nilRet := %v, via := %s, viaName := %s, newZodError := %v, issues := [%s], loopFinalized := %v }",
				er.nilRet, via, q(er.via), er.nz, strings.Join(er.issues, ", "), er.loop))
			return true
		})
		rows = append(rows, fmt.Sprintf("  { name := %s, isError := %v,\n    raws := [%s],\n    errs := [%s] }", q(fd.Name.Name), rk == "error", strings.Join(raws, ",\n             "), strings.Join(errs, ",\n             ")))
	}
	if len(rows) < 20 {
		die("only %d creators found", len(rows))
	}
	b.WriteString(strings.Join(rows, ",\n"))
	b.WriteString("\n]\n\n")

	// ---- FinalizeIssue facts
	fin := findFunc(files, "FinalizeIssue")
	if fin == nil {
		die("FinalizeIssue not found")
	}
	pathNilFix, litPath, litMsg, litCode := false, "", "", ""
	type massign struct {
		rhs     string
		guarded bool
	}
	var massigns []massign
	var walk func(n ast.Node, guards []string)
	walk = func(n ast.Node, guards []string) {
		switch n := n.(type) {
		case *ast.BlockStmt:
			for _, s := range n.List {
				walk(s, guards)
			}
		case *ast.IfStmt:
			g := guards
			if n.Init != nil {
				walk(n.Init, guards)
			}
			conds := splitAnd(n.Cond)
			for _, c := range conds {
				g = append(append([]string(nil), g...), exprStr(fset, c))
			}
			if be, ok := n.Cond.(*ast.BinaryExpr); ok && be.Op == token.EQL && exprStr(fset, be.X) == "path" && exprStr(fset, be.Y) == "nil" {
				for _, s := range n.Body.List {
					if as, ok := s.(*ast.AssignStmt); ok && exprStr(fset, as.Lhs[0]) == "path" {
						if _, ok := as.Rhs[0].(*ast.CompositeLit); ok {
							pathNilFix = true
						}
					}
				}
			}
			walk(n.Body, g)
			if n.Else != nil {
				walk(n.Else, guards)
			}
		case *ast.AssignStmt:
			for i, l := range n.Lhs {
				if exprStr(fset, l) == "message" && i < len(n.Rhs) && n.Tok == token.ASSIGN {
					rhs := exprStr(fset, n.Rhs[i])
					guarded := false
					for _, g := range guards {
						if g == rhs+` != ""` {
							guarded = true
						}
					}
					massigns = append(massigns, massign{rhs, guarded})
				}
				if n.Tok == token.DEFINE && exprStr(fset, l) == "issue" {
					ast.Inspect(n.Rhs[i], func(m ast.Node) bool {
						if kv, ok := m.(*ast.KeyValueExpr); ok {
							switch exprStr(fset, kv.Key) {
							case "Path":
								litPath = exprStr(fset, kv.Value)
							case "Message":
								litMsg = exprStr(fset, kv.Value)
							case "Code":
								litCode = exprStr(fset, kv.Value)
							}
						}
						return true
					})
				}
			}
		}
	}
	walk(fin.Body, nil)
	b.WriteString("/-- FinalizeIssue: `if path == nil { path = []any{} }` is present; the issue literal's Path / Message / Code expressions;\n    every assignment `message = e` with whether it sits under the guard `e != \"\"`. -/\n")
	fmt.Fprintf(&b, "def finalizePathNilFix : Bool := %v\ndef finalizeLitPath : String := %s\ndef finalizeLitMessage : String := %s\ndef finalizeLitCode : String := %s\n", pathNilFix, q(litPath), q(litMsg), q(litCode))
	b.WriteString("def finalizeMessageAssigns : List (String × Bool) := [\n")
	for i, m := range massigns {
		fmt.Fprintf(&b, "  (%s, %v)%s\n", q(m.rhs), m.guarded, map[bool]string{true: ",", false: ""}[i < len(massigns)-1])
	}
	b.WriteString("]\n\n")

	// ---- default messages: every return statement of GenerateDefaultMessage's formatter and the helpers it returns through
	type ret struct{ fn, kind, text string }
	var rets []ret
	seenFn := map[string]bool{}
	var visitFn func(name string)
	visitFn = func(name string) {
		if seenFn[name] {
			return
		}
		seenFn[name] = true
		fd := findFunc(files, name)
		if fd == nil || fd.Body == nil {
			rets = append(rets, ret{name, "missing", ""})
			return
		}
		var w func(n ast.Node, guards []string)
		w = func(n ast.Node, guards []string) {
			switch n := n.(type) {
			case *ast.BlockStmt:
				for _, s := range n.List {
					w(s, guards)
				}
			case *ast.IfStmt:
				g := append([]string(nil), guards...)
				for _, c := range splitAnd(n.Cond) {
					g = append(g, exprStr(fset, c))
				}
				w(n.Body, g)
				if n.Else != nil {
					w(n.Else, guards)
				}
			case *ast.SwitchStmt:
				w(n.Body, guards)
			case *ast.TypeSwitchStmt:
				w(n.Body, guards)
			case *ast.CaseClause:
				for _, s := range n.Body {
					w(s, guards)
				}
			case *ast.ForStmt:
				w(n.Body, guards)
			case *ast.RangeStmt:
				w(n.Body, guards)
			case *ast.ReturnStmt:
				if len(n.Results) != 1 {
					return
				}
				e := n.Results[0]
				switch v := e.(type) {
				case *ast.BasicLit:
					s, _ := strconv.Unquote(v.Value)
					rets = append(rets, ret{name, "lit", s})
				case *ast.CallExpr:
					cn := callName(v)
					switch {
					case cn == "fmt.Sprintf" && len(v.Args) > 0:
						if bl, ok := v.Args[0].(*ast.BasicLit); ok {
							s, _ := strconv.Unquote(bl.Value)
							rets = append(rets, ret{name, "sprintf", s})
						} else {
							rets = append(rets, ret{name, "unknown", exprStr(fset, e)})
						}
					case strings.HasPrefix(cn, "f."):
						h := strings.TrimPrefix(cn, "f.")
						rets = append(rets, ret{name, "helper", h})
						visitFn(h)
					case cn == "defaultFormatter.FormatMessage":
						rets = append(rets, ret{name, "helper", "FormatMessage"})
						visitFn("FormatMessage")
					default:
						rets = append(rets, ret{name, "unknown", exprStr(fset, e)})
					}
				case *ast.BinaryExpr:
					// "lit" + x + "lit"
					lit := ""
					ast.Inspect(v, func(m ast.Node) bool {
						if bl, ok := m.(*ast.BasicLit); ok && bl.Kind == token.STRING {
							s, _ := strconv.Unquote(bl.Value)
							lit += s
						}
						return true
					})
					rets = append(rets, ret{name, "concat", lit})
				default:
					s := exprStr(fset, e)
					guarded := false
					for _, g := range guards {
						if g == s+` != ""` {
							guarded = true
						}
					}
					if guarded {
						rets = append(rets, ret{name, "guarded", s})
					} else if d := defOf(fd.Body, s); d != nil && (callName(d) == "f.FormatMessage") {
						rets = append(rets, ret{name, "helper", "FormatMessage"})
					} else {
						rets = append(rets, ret{name, "unknown", s})
					}
				}
			}
		}
		w(fd.Body, nil)
	}
	visitFn("GenerateDefaultMessage")
	b.WriteString("/-- every return statement reachable from GenerateDefaultMessage: (function, kind, text, literal length). kind: 0 lit (string\n    literal) | 1 sprintf (literal format; length = characters outside %-verbs) | 2 concat (string concatenation; the literal parts) |\n    3 guarded (a variable returned under `v != \"\"`) | 4 helper (result of the named function, whose returns are listed too) |\n    5 unknown | 6 missing (function not found). -/\n")
	b.WriteString("def defaultMessageReturns : List (String × Nat × String × Nat) := [\n")
	kindTag := map[string]int{"lit": 0, "sprintf": 1, "concat": 2, "guarded": 3, "helper": 4, "unknown": 5, "missing": 6}
	for i, r := range rets {
		n := len([]rune(r.text))
		if r.kind == "sprintf" {
			n = 0
			rs := []rune(r.text)
			for j := 0; j < len(rs); j++ {
				if rs[j] == '%' && j+1 < len(rs) {
					j++ // the verb (all verbs used are single letters)
					continue
				}
				n++
			}
		}
		fmt.Fprintf(&b, "  (%s, %d, %s, %d)%s\n", q(r.fn), kindTag[r.kind], q(r.text), n, map[bool]string{true: ",", false: ""}[i < len(rets)-1])
	}
	b.WriteString("]\n\nend Gozod.Gen.IssueCreators\n")
	writeIfChanged(filepath.Join(dir, "IssueCreators.lean"), b.String())
}

func splitAnd(e ast.Expr) []ast.Expr {
	if be, ok := e.(*ast.BinaryExpr); ok && be.Op == token.LAND {
		return append(splitAnd(be.X), splitAnd(be.Y)...)
	}
	if p, ok := e.(*ast.ParenExpr); ok {
		return splitAnd(p.X)
	}
	return []ast.Expr{e}
}
