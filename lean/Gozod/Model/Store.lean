/-
  Store model of the reference-typed state of gozod schemas (DESIGN §3.4) — used by C08, C12, C15, C14.

  A value-semantics model cannot see aliasing, so this model represents exactly the parts of a schema that
  are Go references: the backing array of `Checks` (slice header = (ptr,len,cap), Go `append` semantics),
  the `Bag`, `Values` and `Shape` maps, the registry entry keyed by the schema's identity, and
  `DefaultValue` (a pointer into a value graph that Parse may hand to callers).  Everything else in
  `core.ZodTypeInternals` is a value-typed field that a struct copy duplicates; it is folded into `flags`.

  Mirrors (core/interfaces.go, types/*.go, jsonschema/to.go, internal/engine/modifiers.go):
    clone            ZodTypeInternals.Clone            (cfg.cloneBagAlways = false: today's "only when non-empty")
    withInternals    the per-type withInternals helpers (new schema identity, registry entry copied)
    derive           withCheck / modifier methods / Describe on non-string types: Clone, set fields, append checks
    copyMeta         ZodString.withMeta (Describe/Meta on string-based types): struct copy, NO Clone
    metaSelf         Meta() on the other types: GlobalRegistry.Add(z, meta); return z
    bagWrite         ZodRecord.Partial: Clone, then Bag["partial"] = true on the clone
    rebuild          Extend/Pick/Omit/Merge/And/Or/Transform/…: a constructor builds a fresh schema
    convert          jsonschema.ToJSONSchema: OnAttach callbacks of every check write the Bag, the converter
                     reads it and deletes consumed keys (cfg.convScratch = false: on the live schema)
    parseNil / parsePtr / mutate   Parse handing out defaults / pointers, caller mutating results (C15)
-/
namespace Gozod.Store

abbrev Loc := Nat

/-- Go slice header. `cap = 0` means no backing array (nil or empty literal); `loc` is then meaningless. -/
structure Hdr where
  loc : Loc
  len : Nat
  cap : Nat
deriving DecidableEq, Repr, Inhabited

/-- Values stored in a Bag: scalars (`minLength`, `partial`, …) or a `[]string` (`patterns`) slice header. -/
inductive BagVal
  | num (n : Nat)
  | strs (h : Hdr)
deriving DecidableEq, Repr

/-- A node of a Go value graph (inputs, results, defaults): scalar or reference to a map/slice/pointee cell. -/
inductive UVal
  | scalar (n : Nat)
  | ref (l : Loc)
deriving DecidableEq, Repr

inductive Cell
  | arr (cells : List Nat)              -- backing array ([]ZodCheck as check ids, []string as string ids); length = cap
  | bag (kv : List (Nat × BagVal))      -- map[string]any; keys are key ids
  | vals (vs : List Nat)                -- Values map[any]struct{}
  | shape (fs : List (Nat × Loc))       -- object Shape: field id ↦ identity of the field schema
  | reg (m : Option Nat)               -- GlobalRegistry entry of the schema whose identity is this location
  | node (kv : List (Nat × UVal))       -- a user-visible map / slice / pointee: key ↦ value
deriving DecidableEq, Repr

structure Store where
  heap : Loc → Option Cell
  next : Loc

def upd (h : Loc → Option Cell) (l : Loc) (c : Cell) : Loc → Option Cell :=
  fun x => if x = l then some c else h x

def alloc (σ : Store) (c : Cell) : Store × Loc :=
  ({ heap := upd σ.heap σ.next c, next := σ.next + 1 }, σ.next)

def write (σ : Store) (l : Loc) (c : Cell) : Store := { σ with heap := upd σ.heap l c }

/-- A schema: identity + value-typed fields + references into the store. -/
structure Schema where
  self : Loc
  kind : Nat
  flags : Nat
  checks : Hdr
  bag : Option Loc
  values : Option Loc
  shape : Option Loc
  dflt : Option UVal
deriving DecidableEq, Repr

structure Cfg where
  cloneBagAlways : Bool      -- pending/C08-clone-bag.diff applied
  convScratch : Bool         -- pending/C12-convert-scratch-bag.diff applied
  deepDefault : Bool         -- pending/C15-deep-clone-default.diff applied
  grow : Nat → Nat           -- runtime.growslice capacity rule (any function; append uses max (grow cap) (len+1))

/-- Go's growslice for 16-byte elements appended one at a time (double below 256, then size classes). -/
def goGrow (cap : Nat) : Nat :=
  let want := if cap = 0 then 1 else 2 * cap
  let bytes := want * 16
  let classes := [16, 32, 48, 64, 80, 96, 112, 128, 144, 160, 176, 192, 208, 224, 240, 256, 288, 320, 352,
                  384, 416, 448, 480, 512, 576, 640, 704, 768, 896, 1024, 1152, 1280, 1408, 1536, 1792, 2048]
  match classes.find? (fun c => bytes ≤ c) with
  | some c => c / 16
  | none => want

def today : Cfg := { cloneBagAlways := false, convScratch := false, deepDefault := false, grow := goGrow }
def fixed : Cfg := { cloneBagAlways := true, convScratch := true, deepDefault := true, grow := goGrow }

/-! ### reading -/

def readArr (h : Loc → Option Cell) (hd : Hdr) : List Nat :=
  match h hd.loc with
  | some (.arr cs) => cs.take hd.len
  | _ => []

inductive BagObs
  | num (n : Nat)
  | strs (xs : List Nat)
deriving DecidableEq, Repr

def obsBagVal (h : Loc → Option Cell) : BagVal → BagObs
  | .num n => .num n
  | .strs hd => .strs (readArr h hd)

def readBag (h : Loc → Option Cell) : Option Loc → Option (List (Nat × BagVal))
  | none => none
  | some l => match h l with
    | some (.bag kv) => some kv
    | _ => some []

def readVals (h : Loc → Option Cell) : Option Loc → Option (List Nat)
  | none => none
  | some l => match h l with
    | some (.vals v) => some v
    | _ => some []

def readShape (h : Loc → Option Cell) : Option Loc → Option (List (Nat × Loc))
  | none => none
  | some l => match h l with
    | some (.shape v) => some v
    | _ => some []

def readMeta (h : Loc → Option Cell) (l : Loc) : Option Nat :=
  match h l with
  | some (.reg m) => m
  | _ => none

/-- Everything that determines a schema's behaviour (Parse verdicts and results, flags, ToJSONSchema
    document): the contents reachable from it.  Locations themselves are *not* part of the observation
    except for Shape (identities of the field schemas, which are immutable references). -/
structure Obs where
  kind : Nat
  flags : Nat
  checks : List Nat
  bag : Option (List (Nat × BagObs))
  values : Option (List Nat)
  shape : Option (List (Nat × Loc))
  reg : Option Nat
  dflt : Option UVal
  dfltKids : List (Nat × UVal)        -- first level of the default value (deeper levels: `reachN` in C15)
deriving DecidableEq, Repr

def readNode (h : Loc → Option Cell) (l : Loc) : List (Nat × UVal) :=
  match h l with
  | some (.node kv) => kv
  | _ => []

def dfltKids (h : Loc → Option Cell) : Option UVal → List (Nat × UVal)
  | some (.ref l) => readNode h l
  | _ => []

def obs (h : Loc → Option Cell) (s : Schema) : Obs :=
  { kind := s.kind, flags := s.flags,
    checks := readArr h s.checks,
    bag := (readBag h s.bag).map (fun kv => kv.map (fun p => (p.1, obsBagVal h p.2))),
    values := readVals h s.values,
    shape := readShape h s.shape,
    reg := readMeta h s.self,
    dflt := s.dflt,
    dfltKids := dfltKids h s.dflt }

/-! ### locations a schema's observation depends on -/

def optLoc : Option Loc → List Loc
  | none => []
  | some l => [l]

def bagValLocs : BagVal → List Loc
  | .num _ => []
  | .strs hd => [hd.loc]

def bagLocs (h : Loc → Option Cell) (b : Option Loc) : List Loc :=
  match readBag h b with
  | none => []
  | some kv => kv.flatMap (fun p => bagValLocs p.2)

def dfltLocs : Option UVal → List Loc
  | some (.ref l) => [l]
  | _ => []

def direct (s : Schema) : List Loc :=
  s.self :: s.checks.loc :: (optLoc s.bag ++ optLoc s.values ++ optLoc s.shape ++ dfltLocs s.dflt)

def locs (h : Loc → Option Cell) (s : Schema) : List Loc := direct s ++ bagLocs h s.bag

/-! ### Go `append` and `Internals.Clone` -/

/-- `append(s, x)`: in place when `len < cap`, else a new backing array of capacity `max (grow cap) (len+1)`. -/
def appendOne (g : Nat → Nat) (σ : Store) (hd : Hdr) (x : Nat) : Store × Hdr :=
  if hd.len < hd.cap then
    match σ.heap hd.loc with
    | some (.arr cs) => (write σ hd.loc (.arr (cs.set hd.len x)), { hd with len := hd.len + 1 })
    | _ => (σ, hd)
  else
    let c := max (g hd.cap) (hd.len + 1)
    let cells := readArr σ.heap hd ++ [x] ++ List.replicate (c - (hd.len + 1)) 0
    let (σ', l) := alloc σ (.arr cells)
    (σ', ⟨l, hd.len + 1, c⟩)

def appendAll (g : Nat → Nat) (σ : Store) (hd : Hdr) : List Nat → Store × Hdr
  | [] => (σ, hd)
  | x :: xs => let (σ', hd') := appendOne g σ hd x; appendAll g σ' hd' xs

def cloneChecks (σ : Store) (hd : Hdr) : Store × Hdr :=
  if hd.len > 0 then
    let (σ', l) := alloc σ (.arr (readArr σ.heap hd))     -- make([]ZodCheck, len) + copy: cap = len
    (σ', ⟨l, hd.len, hd.len⟩)
  else (σ, hd)                                            -- cp.Checks = z.Checks (header shared)

def cloneValues (σ : Store) (v : Option Loc) : Store × Option Loc :=
  match v with
  | none => (σ, none)
  | some l => match σ.heap l with
    | some (.vals vs) => if vs.isEmpty then (σ, some l) else let (σ', l') := alloc σ (.vals vs); (σ', some l')
    | _ => (σ, some l)

/-- `maps.Clone(z.Bag)` is shallow: a `[]string` value keeps its backing array. Today only when non-empty. -/
def cloneBag (always : Bool) (σ : Store) (b : Option Loc) : Store × Option Loc :=
  match b with
  | none => (σ, none)
  | some l => match σ.heap l with
    | some (.bag kv) =>
      if always || !kv.isEmpty then let (σ', l') := alloc σ (.bag kv); (σ', some l') else (σ, some l)
    | _ => (σ, some l)

/-- `ZodTypeInternals.Clone` (struct copy, then the three reference fields). Identity is set by `withInternals`. -/
def clone (cfg : Cfg) (σ : Store) (s : Schema) : Store × Schema :=
  let (σ1, ch) := cloneChecks σ s.checks
  let (σ2, vs) := cloneValues σ1 s.values
  let (σ3, bg) := cloneBag cfg.cloneBagAlways σ2 s.bag
  (σ3, { s with checks := ch, values := vs, bag := bg })

/-- The per-type `withInternals`: a new schema object; the receiver's registry entry (if any) is copied. -/
def withInternals (σ : Store) (recv : Schema) (s : Schema) (m : Option Nat) : Store × Schema :=
  let inherited := readMeta σ.heap recv.self
  let (σ', l) := alloc σ (.reg (match m with | some x => some x | none => inherited))
  (σ', { s with self := l })

/-! ### API operations (each: `Store → Store × Schema`) -/

inductive Op
  | derive (flags : Nat) (cks : List Nat) (reg : Option Nat)   -- Clone; set value fields; append checks
  | copyMeta (reg : Nat)                                       -- string withMeta: struct copy (all refs shared)
  | metaSelf (reg : Nat)                                       -- Meta() on non-string types
  | bagWrite (key : Nat) (v : Nat)                              -- Record.Partial
  | rebuild (kind flags : Nat) (cks : List Nat) (cap : Nat) (bag vals shape : Bool)  -- constructor-built result
deriving DecidableEq, Repr

def Op.isMetaSelf : Op → Bool
  | .metaSelf _ => true
  | _ => false

def bagSet (kv : List (Nat × BagVal)) (k : Nat) (v : BagVal) : List (Nat × BagVal) :=
  if kv.any (fun p => p.1 == k) then kv.map (fun p => if p.1 == k then (k, v) else p) else kv ++ [(k, v)]

def bagGet (kv : List (Nat × BagVal)) (k : Nat) : Option BagVal :=
  (kv.find? (fun p => p.1 == k)).map (·.2)

def bagDel (kv : List (Nat × BagVal)) (k : Nat) : List (Nat × BagVal) :=
  kv.filter (fun p => p.1 != k)

/-- `bag[k] = v` on the map at `b` (allocating it when nil, as `ensureBag` / Record.Partial do). -/
def bagStore (σ : Store) (b : Option Loc) (k : Nat) (v : BagVal) : Store × Option Loc :=
  match b with
  | none => let (σ', l) := alloc σ (.bag [(k, v)]); (σ', some l)
  | some l => match σ.heap l with
    | some (.bag kv) => (write σ l (.bag (bagSet kv k v)), some l)
    | _ => (σ, some l)

def optAlloc (σ : Store) (want : Bool) (c : Cell) : Store × Option Loc :=
  if want then let (σ', l) := alloc σ c; (σ', some l) else (σ, none)

def applyOp (cfg : Cfg) (σ : Store) (recv : Schema) : Op → Store × Schema
  | .derive fl cks m =>
    let (σ1, c) := clone cfg σ recv
    let (σ2, hd) := appendAll cfg.grow σ1 c.checks cks
    withInternals σ2 recv { c with flags := fl, checks := hd } m
  | .copyMeta m => withInternals σ recv recv (some m)
  | .metaSelf m => (write σ recv.self (.reg (some m)), recv)
  | .bagWrite k v =>
    let (σ1, c) := clone cfg σ recv
    let (σ2, b) := bagStore σ1 c.bag k (.num v)
    withInternals σ2 recv { c with bag := b } none
  | .rebuild kind fl cks cap wb wv ws =>
    let (σ1, a) := alloc σ (.arr (cks ++ List.replicate (cap - cks.length) 0))
    let (σ2, b) := optAlloc σ1 wb (.bag [])
    let (σ3, v) := optAlloc σ2 wv (.vals [])
    let (σ4, sh) := optAlloc σ3 ws (.shape [])
    let (σ5, l) := alloc σ4 (.reg none)
    (σ5, { self := l, kind := kind, flags := fl, checks := ⟨a, cks.length, max cap cks.length⟩,
           bag := b, values := v, shape := sh, dflt := none })

/-- A history: each step applies an op to the `i`-th live schema; the result joins the live list. -/
def runHist (cfg : Cfg) : Store → List Schema → List (Nat × Op) → Store × List Schema
  | σ, live, [] => (σ, live)
  | σ, live, (i, op) :: rest =>
    match live[i]? with
    | none => runHist cfg σ live rest
    | some recv =>
      let (σ', r) := applyOp cfg σ recv op
      runHist cfg σ' (live ++ [r]) rest

/-- Base schema as a constructor makes it (`Checks: []ZodCheck{}`, `Bag: make(map)`; enum/literal: Values). -/
def mkBase (kind : Nat) (cks : List Nat) (cap : Nat) (wb wv ws : Bool) : Store × Schema :=
  applyOp fixed { heap := fun _ => none, next := 1 }
    { self := 0, kind := 0, flags := 0, checks := ⟨0, 0, 0⟩, bag := none, values := none, shape := none, dflt := none }
    (.rebuild kind 0 cks cap wb wv ws)

/-! ### ToJSONSchema (C12)

  Key ids: 1 = minLength-like (merge = max), 2 = maxLength-like (merge = min), 3 = patterns ([]string, append
  unless present, deleted by the converter after use), 4 = partial (never touched by the converter),
  ≥ 5 = plain `SetBagProperty` keys.  A check id `c` annotates key `c % 8`, value `c / 8` (the harness
  uses the same encoding), ids with `c % 8 = 0` have no OnAttach. -/

def keyOf (c : Nat) : Nat := c % 8
def valOf (c : Nat) : Nat := c / 8

/-- One `OnAttach` callback against the bag at `b` (`ensureBag` allocates a nil bag). -/
def onAttach (g : Nat → Nat) (σ : Store) (b : Option Loc) (c : Nat) : Store × Option Loc :=
  let k := keyOf c
  let v := valOf c
  if k = 0 then (σ, b) else
  let cur := (readBag σ.heap b).bind (fun kv => bagGet kv k)
  if k = 1 then
    match cur with
    | some (.num o) => bagStore σ b k (.num (max o v))
    | _ => bagStore σ b k (.num v)
  else if k = 2 then
    match cur with
    | some (.num o) => bagStore σ b k (.num (min o v))
    | _ => bagStore σ b k (.num v)
  else if k = 3 then
    let hd := match cur with | some (.strs hd) => hd | _ => ⟨0, 0, 0⟩
    if (readArr σ.heap hd).contains v then (σ, b) else
    let (σ1, hd') := appendOne g σ hd v
    bagStore σ1 b k (.strs hd')
  else bagStore σ b k (.num v)

def onAttachAll (g : Nat → Nat) (σ : Store) (b : Option Loc) : List Nat → Store × Option Loc
  | [] => (σ, b)
  | c :: cs => let (σ', b') := onAttach g σ b c; onAttachAll g σ' b' cs

/-! #### the repaired converter: OnAttach runs against a private scratch copy

  `annotatedInternals` (pending/C12-convert-scratch-bag.diff) copies the Bag — `[]string` values included —
  into a map nothing else can reach, runs the callbacks against it and reads it. A private copy is modelled
  as a value: `VBag`. The live store is not touched at all. -/

abbrev VBag := List (Nat × BagObs)

def vget (b : VBag) (k : Nat) : Option BagObs := (b.find? (fun p => p.1 == k)).map (·.2)

def vset (b : VBag) (k : Nat) (v : BagObs) : VBag :=
  if b.any (fun p => p.1 == k) then b.map (fun p => if p.1 == k then (k, v) else p) else b ++ [(k, v)]

/-- value-level mirror of `onAttach` (same key conventions) -/
def onAttachV (b : VBag) (c : Nat) : VBag :=
  let k := keyOf c
  let v := valOf c
  if k = 0 then b
  else if k = 1 then
    match vget b k with
    | some (.num o) => vset b k (.num (max o v))
    | _ => vset b k (.num v)
  else if k = 2 then
    match vget b k with
    | some (.num o) => vset b k (.num (min o v))
    | _ => vset b k (.num v)
  else if k = 3 then
    let xs := match vget b k with | some (.strs xs) => xs | _ => []
    if xs.contains v then b else vset b k (.strs (xs ++ [v]))
  else vset b k (.num v)

/-- The annotated scratch bag: a function of the schema's observation only. -/
def entriesOf (o : Obs) : VBag := o.checks.foldl onAttachV (o.bag.getD [])

/-- `jsonschema.ToJSONSchema(s)`: run every check's OnAttach, read the bag, delete the consumed `patterns`.
    Today this happens on the live schema's Bag; with the repair, on a scratch copy (no store effect).
    Returns the store, the (possibly re-pointed, when the live Bag was nil) schema and the annotated entries. -/
def convert (cfg : Cfg) (σ : Store) (s : Schema) : Store × Schema × VBag :=
  if cfg.convScratch then (σ, s, entriesOf (obs σ.heap s))
  else
    let cks := readArr σ.heap s.checks
    let (σ1, b) := onAttachAll cfg.grow σ s.bag cks
    let entries := ((readBag σ1.heap b).getD []).map (fun p => (p.1, obsBagVal σ1.heap p.2))
    -- applyStringBag: delete(internals.Bag, "patterns")
    let σ2 := match b with
      | some l => match σ1.heap l with
        | some (.bag kv) => write σ1 l (.bag (bagDel kv 3))
        | _ => σ1
      | none => σ1
    (σ2, { s with bag := b }, entries)

/-! #### from the annotated bag to the document (`applyBag`)

  `for k, v := range bag` visits the entries in an arbitrary order and assigns the keyword(s) of each key.
  Keyword fields: key 1 ↦ minLength (11), key 2 ↦ maxLength (12), key 6 (`size`) ↦ both, key 4 (`partial`) ↦
  none, any other key k ↦ its own keyword (100 + k).  Today `size` is assigned inside the loop, so with
  `minSize`/`maxSize` present the result depends on the visiting order; the repair assigns it after the loop. -/

def fieldsOf (k : Nat) : List Nat :=
  if k = 4 then [] else if k = 1 then [11] else if k = 2 then [12] else if k = 6 then [11, 12] else [100 + k]

abbrev DocKw := Nat → Option BagObs

def setFields (d : DocKw) (fs : List Nat) (v : BagObs) : DocKw := fun f => if fs.contains f then some v else d f

/-- `applyBag` over the entries in visiting order `ord`. -/
def applyBag (sizeLast : Bool) (ord : VBag) : DocKw :=
  let loop := ord.foldl (fun d p => if sizeLast && p.1 == 6 then d else setFields d (fieldsOf p.1) p.2) (fun _ => none)
  if sizeLast then
    match vget ord 6 with
    | some v => setFields loop [11, 12] v
    | none => loop
  else loop

/-- The emitted document: value-typed parts, registry metadata, Values/Shape, and the keywords. -/
structure Doc where
  kind : Nat
  flags : Nat
  reg : Option Nat
  values : Option (List Nat)
  shape : Option (List (Nat × Loc))
  kw : DocKw

def docOfObs (sizeLast : Bool) (o : Obs) (ord : VBag) : Doc :=
  { kind := o.kind, flags := o.flags, reg := o.reg, values := o.values, shape := o.shape, kw := applyBag sizeLast ord }

/-! ### Parse and caller-visible value graphs (C15)

  Inputs, results and `DefaultValue`/`PrefaultValue` are value graphs: `UVal.ref l` points at a `node` cell (a map,
  slice or pointee), whose entries are scalars or further references.  `ser` is what a caller can see of a value
  down to a depth (no addresses), `reach` the locations it sees through.

    parseNil   Parse(nil) on a schema with a default: `resolveDefault` hands out a copy of DefaultValue —
               today `cloneDefaultValue` copies the top level only, the repair copies the whole graph
    parsePtr   Parse(p) on a pointer-typed / optional / nilable schema: `validatePointer` writes the validated value
               back through p (`*ptr = v`) and returns p
    mutate     the caller assigning into a map / slice / pointee it holds -/

def reach : Nat → (Loc → Option Cell) → UVal → List Loc
  | 0, _, _ => []
  | _ + 1, _, .scalar _ => []
  | f + 1, h, .ref l => l :: (readNode h l).flatMap (fun p => reach f h p.2)

/-- serialisation of the visible graph: scalar n ↦ [0,n]; node ↦ [1] ++ (key :: ser child)* ++ [3]; depth cut ↦ [2] -/
def ser : Nat → (Loc → Option Cell) → UVal → List Nat
  | 0, _, _ => [2]
  | _ + 1, _, .scalar n => [0, n]
  | f + 1, h, .ref l => [1] ++ (readNode h l).flatMap (fun p => p.1 :: ser f h p.2) ++ [3]

/-- deep copy of a value graph down to depth `fuel` (below that the original is shared) -/
def copyVal : Nat → Store → UVal → Store × UVal
  | 0, σ, v => (σ, v)
  | _ + 1, σ, .scalar n => (σ, .scalar n)
  | f + 1, σ, .ref l =>
    let acc := (readNode σ.heap l).foldl
      (fun (acc : Store × List (Nat × UVal)) p => let r := copyVal f acc.1 p.2; (r.1, acc.2 ++ [(p.1, r.2)])) (σ, [])
    let r := alloc acc.1 (.node acc.2)
    (r.1, .ref r.2)

/-- depth to which values are followed (the harness builds graphs of depth ≤ 4) -/
def depth : Nat := 6

/-- `resolveDefault`: the value Parse(nil) returns for a schema with a DefaultValue. -/
def parseNil (cfg : Cfg) (σ : Store) (s : Schema) : Store × Option UVal :=
  match s.dflt with
  | none => (σ, none)
  | some (.scalar n) => (σ, some (.scalar n))
  | some (.ref l) =>
    if cfg.deepDefault then
      let r := copyVal depth σ (.ref l)
      (r.1, some r.2)
    else
      let r := alloc σ (.node (readNode σ.heap l))       -- mapx.Copy / reflect.Copy: entries shared
      (r.1, some (.ref r.2))

/-- Parse(p) through `validatePointer`: `*ptr = v` with v the validated value (`ow = none`: no overwrite check,
    v is the value p already points at), result p. -/
def parsePtr (σ : Store) (p : Loc) (ow : Option (List (Nat × UVal))) : Store × UVal :=
  match ow with
  | none => (write σ p (.node (readNode σ.heap p)), .ref p)
  | some kv => (write σ p (.node kv), .ref p)

def setKey (kv : List (Nat × UVal)) (k : Nat) (v : UVal) : List (Nat × UVal) :=
  if kv.any (fun p => p.1 == k) then kv.map (fun p => if p.1 == k then (k, v) else p) else kv ++ [(k, v)]

/-- the caller assigns `m[k] = v` on a map/slice/pointee it holds a reference to -/
def mutate (σ : Store) (l : Loc) (k : Nat) (v : UVal) : Store :=
  write σ l (.node (setKey (readNode σ.heap l) k v))

/-! ### Describe / Meta CHECKS: the registry-writing OnAttach callbacks (C12)

  `gozod.Describe(d)` / `gozod.Meta(m)` build checks whose OnAttach is a read-modify-write of the target schema's
  `core.GlobalRegistry` entry (internal/checks/metadata.go).  `AddCheck` does not run OnAttach; the converter does
  (`jsonschema.annotatedInternals`), and for these two check kinds against the LIVE schema — every other callback
  gets the scratch copy.  So a conversion writes the registry.  The entry is modelled in full (the coarse `Cell.reg`
  code of the store only says whether there is one): strings and example values are ids, `0` = the empty string. -/

structure GMeta where
  id : Nat
  title : Nat
  descr : Nat
  examples : List Nat
deriving DecidableEq, Repr

def GMeta.empty : GMeta := ⟨0, 0, 0, []⟩

inductive MetaCheck
  | describe (d : Nat)       -- checks.Describe: `existing.Description = description` (also when empty)
  | gmeta (m : GMeta)        -- checks.Meta: non-empty ID/Title/Description replace; non-empty Examples replace
deriving DecidableEq, Repr

/-- what one callback assigns: per field of the entry, `some v` = assigned, `none` = left as it is -/
structure MetaSet where
  id : Option Nat
  title : Option Nat
  descr : Option Nat
  examples : Option (List Nat)
deriving DecidableEq, Repr

def nz (n : Nat) : Option Nat := if n = 0 then none else some n

def MetaCheck.sets : MetaCheck → MetaSet
  | .describe d => ⟨none, none, some d, none⟩
  | .gmeta m => ⟨nz m.id, nz m.title, nz m.descr, if m.examples.isEmpty then none else some m.examples⟩

def GMeta.apply (e : GMeta) (s : MetaSet) : GMeta :=
  ⟨s.id.getD e.id, s.title.getD e.title, s.descr.getD e.descr, s.examples.getD e.examples⟩

/-- one OnAttach callback: `existing, _ := GlobalRegistry.Get(s)`; assign; `GlobalRegistry.Add(s, existing)` -/
def attachMeta (e : Option GMeta) (c : MetaCheck) : Option GMeta :=
  some ((e.getD GMeta.empty).apply c.sets)

/-- the registry-writing callbacks of one schema's checks, in check order, as `annotatedInternals` runs them -/
def annotateEntry (pre : Option GMeta) (cks : List MetaCheck) : Option GMeta := cks.foldl attachMeta pre

/-- `core.GlobalRegistry` content: schema identity ↦ entry -/
abbrev MReg := Loc → Option GMeta

/-- The registry part of `ToJSONSchema(s)` for one visited schema `s` whose checks are `readArr σ.heap s.checks`
    (`mc` tells which check ids are Describe/Meta checks and what they carry). -/
def convertReg (mc : Nat → Option MetaCheck) (σ : Store) (r : MReg) (s : Schema) : MReg :=
  fun l => if l = s.self then annotateEntry (r l) ((readArr σ.heap s.checks).filterMap mc) else r l

/-- The variant of the callback that MERGES examples (appends those not yet listed; values that cannot be compared
    with `==` — ids ≥ `cmpBound` — are always appended).  Not what the code does: kept to show what idempotence
    of `attachMeta` excludes (`Proofs/C12.lean`, `merging_examples_not_idempotent`). -/
def mergeExamples (cmpBound : Nat) (have_ add : List Nat) : List Nat :=
  add.foldl (fun out x => if x < cmpBound && out.contains x then out else out ++ [x]) have_

/-! ### type-local reference state of object / struct / union types (C08)

  Besides `core.ZodTypeInternals` these types keep reference-typed fields of their own: `Shape` (the `shape` slot of
  `Schema`), `PartialExceptions map[string]bool` (types/object.go, types/struct.go) and the option list of unions.
  `newObjectInternals` copies the REFERENCES into every derived schema; `Partial(keys)` / `Required(keys)` make a
  fresh key set (`make(map[string]bool)`, filled before the result exists); `Partial()` / `Required()` drop it.
  `LSchema` adds the slot to `Schema`, `LOp` the behaviours on top of the `Op` the call performs on the common part. -/

structure LSchema where
  s : Schema
  exc : Option Loc          -- PartialExceptions / option list: a `vals` cell (key ids)
deriving DecidableEq, Repr

structure LObs where
  base : Obs
  exc : Option (List Nat)
deriving DecidableEq, Repr

def obsL (h : Loc → Option Cell) (x : LSchema) : LObs := ⟨obs h x.s, readVals h x.exc⟩

inductive LOp
  | share (op : Op)                     -- any other chaining call: the reference is copied (`newObjectInternals`)
  | keyed (op : Op) (keys : List Nat)   -- Partial(keys) / Required(keys): a fresh key set
  | drop (op : Op)                      -- Partial() / Required(): `PartialExceptions = nil`
  | inPlace (op : Op) (key : Nat)       -- NOT what the code does: delete `key` from the receiver's key set and share
                                        -- it (a Required that edits `z.internals.PartialExceptions`) — the excluded shape
deriving DecidableEq, Repr

def LOp.base : LOp → Op
  | .share op => op
  | .keyed op _ => op
  | .drop op => op
  | .inPlace op _ => op

def LOp.isInPlace : LOp → Bool
  | .inPlace _ _ => true
  | _ => false

def applyLOp (cfg : Cfg) (σ : Store) (recv : LSchema) : LOp → Store × LSchema
  | .share op => let r := applyOp cfg σ recv.s op; (r.1, ⟨r.2, recv.exc⟩)
  | .keyed op ks =>
    let r := applyOp cfg σ recv.s op
    let a := alloc r.1 (.vals ks)
    (a.1, ⟨r.2, some a.2⟩)
  | .drop op => let r := applyOp cfg σ recv.s op; (r.1, ⟨r.2, none⟩)
  | .inPlace op k =>
    let r := applyOp cfg σ recv.s op
    match recv.exc with
    | some l => (write r.1 l (.vals (((readVals r.1.heap (some l)).getD []).filter (fun x => x != k))), ⟨r.2, some l⟩)
    | none => (r.1, ⟨r.2, none⟩)

end Gozod.Store
