/-
  Gozod.Model.Dispatch — the target language of the C16/C17 translator (`harness/numgen`).

  `harness/numgen` walks the go/ast of `pkg/coerce/coerce.go` and `pkg/validate/validate.go`
  and writes, for every function the models `Gozod.Model.Coerce` / `Gozod.Model.Num`
  transcribe, a *table*: the ordered `case` clauses of its type switch (the Go source types of
  each clause), the guards of the clause (`if cond { return …error… }`, with every constant
  evaluated: `math.MaxInt8`, `1<<63`, `math.MaxFloat32` …) and what the clause returns (a
  conversion, a helper call, a library call with its literal arguments).  The tables are
  `Gozod.Gen.CoerceDispatch` / `Gozod.Gen.NumDispatch`, regenerated on every run.

  This file gives those tables a meaning: an interpreter from a table and a coercion source
  (`Coerce.Src`) to the result, built from the *primitive* operations only (IEEE comparison on
  `F`, `cvtI64`, `roundF32`, the string-library parameters).  `Proofs/C17Dispatch.lean` proves
  that the interpreter run on the regenerated tables computes exactly the hand-written model
  functions that the exactness theorems (`c17_int64_sound`, `c17_integer_sound`, …) speak about —
  for every source kind — so adding, deleting or re-routing a `case`, or editing a constant,
  changes a proof obligation.

  Core-only (no Mathlib).
-/
import Gozod.Model.Coerce
namespace Gozod.Dispatch
open Gozod Gozod.Coerce

/-- A numeric term over the scrutinee `x` of a clause. Value-preserving wrappers
    (`uint64(x)` of an unsigned, `float64(x)` of a float32, `reflect.ValueOf(x).Int()`) are
    translated to `x` itself. -/
inductive Term where
  | self
  | trunc                      -- math.Trunc(x)
  | abs                        -- math.Abs(x)
  | back (p : Nat)             -- float64(int64(x)) (p = 53) / float32(int64(x)) (p = 24)
  | c (a : Int) (k : Nat)      -- the constant a / 2^k (evaluated by go/constant)
  | unknown (go : String)
  deriving Repr, Inhabited

inductive Rel where
  | lt | le | gt | ge | eq | ne
  deriving Repr, Inhabited, DecidableEq

inductive Cond where
  | rel (r : Rel) (l t : Term)
  | isNaN                      -- math.IsNaN(x)
  | isInf                      -- math.IsInf(x, 0)
  | isPInf                     -- math.IsInf(x, 1)
  | isNInf                     -- math.IsInf(x, -1)
  | isTrue                     -- x (a bool)
  | isBlank                    -- trimmed == ""
  | isNil                      -- x == nil (a typed nil pointer; the model's `big` source is never nil)
  | or (a b : Cond)
  | and (a b : Cond)
  | not (a : Cond)
  | unknown (go : String)
  deriving Repr, Inhabited

/-- What a clause returns. -/
inductive Res where
  | self                        -- the scrutinee itself (also T(x) where that cannot change the value)
  | toI64                      -- int64(x) of a float (CVTTSD2SI)
  | toF (p : Nat)              -- float64(x) / float32(x) of an integer: rounding to p bits
  | narrow32                   -- float32(x) of a float64
  | ne0                        -- x != 0
  | lit (n : Int)              -- an integer constant
  | ifTrue (a b : Int)         -- if x { return a }; return b
  | litF (n : Int)             -- the constant n returned as a float
  | ifTrueF (a b : Int)        -- the same, returning floats
  | call (fn : String)         -- return fn(x) (or fn(float64(x)) for a float32: exact widening)
  | lib (fn : String) (args : List Int)   -- a library call on the trimmed text, with its literal arguments
                                          --   ("…!NaN": a NaN result is turned into a format error)
  | fmt (fn : String) (args : List Int)   -- a formatting call on x, with its literal arguments
  | raw (go : String)          -- statements outside the structured language, as canonical Go text
  | fail (e : CErr)
  | fall                       -- the clause does not return: control goes on to `after`
  | unknown (go : String)      -- the translator did not recognise the statement(s)
  deriving Repr, Inhabited

structure Guard where
  cond : Cond
  out : Res
  deriving Repr, Inhabited

/-- One `case` clause. `after` names the function the clause's value is handed to when the
    clause does not return itself (`ToInteger`: `checkIntegerTypeBounds`; `toFloat32`'s
    fall-through: the `ToFloat64` tail). -/
structure Branch where
  types : List String
  guards : List Guard
  res : Res
  after : String := ""
  deriving Repr, Inhabited

structure Table where
  name : String
  deref : Bool                 -- begins with `d, ok := reflectx.Deref(v); if !ok { return …NewNilPointerError… }`
  branches : List Branch
  dflt : Branch                -- the `default:` clause (or what follows the switch)
  deriving Repr, Inhabited

/-! ## meaning -/

/-- The scrutinee as an extended real, when it is a number. -/
def num : Src → Option F
  | .int _ v => some (.fin v 0)
  | .f32 x => some x
  | .f64 x => some x
  | .big v => some (.fin v 0)
  | _ => none

def fAbs : F → F
  | .fin a k => .fin (a.natAbs : Int) k
  | .ninf => .pinf
  | x => x

def fTrunc : F → F
  | .fin a k => .fin (F.truncInt a k) 0
  | x => x

def backInt (p : Nat) (v : Int) : Int :=
  if v < 0 then -((roundTo p v.natAbs : Nat) : Int) else ((roundTo p v.natAbs : Nat) : Int)

def Term.eval (s : Src) : Term → Option F
  | .self => num s
  | .trunc => (num s).map fTrunc
  | .abs => (num s).map fAbs
  | .back p => (num s).map (fun x => F.fin (backInt p (cvtI64 x)) 0)
  | .c a k => some (.fin a k)
  | .unknown _ => none

/-- Go's comparison operators on float64 / integers: every ordered relation is false when a
    NaN is involved, `!=` is true. -/
def Rel.holds (r : Rel) (o : Option Ordering) : Bool :=
  match r, o with
  | .lt, some .lt => true
  | .le, some .lt => true
  | .le, some .eq => true
  | .gt, some .gt => true
  | .ge, some .gt => true
  | .ge, some .eq => true
  | .eq, some .eq => true
  | .ne, some .eq => false
  | .ne, _ => true
  | _, _ => false

/-- On integers `Rel.holds ∘ compare` is the relation itself. -/
theorem holds_compare (r : Rel) (a b : Int) :
    r.holds (some (compare a b)) = (match r with
      | .lt => decide (a < b) | .le => decide (a ≤ b) | .gt => decide (a > b)
      | .ge => decide (a ≥ b) | .eq => decide (a = b) | .ne => decide (a ≠ b)) := by
  rcases Int.lt_trichotomy a b with h | h | h
  · rw [Int.compare_eq_lt.mpr h]; cases r <;> simp [Rel.holds] <;> omega
  · subst h; rw [Int.compare_eq_eq.mpr rfl]; cases r <;> simp [Rel.holds]
  · rw [Int.compare_eq_gt.mpr h]; cases r <;> simp [Rel.holds] <;> omega

def Cond.eval (s : Src) : Cond → Option Bool
  | .rel r l t => do
    let a ← l.eval s
    let b ← t.eval s
    pure (r.holds (F.cmp a b))
  | .isNaN => (num s).map F.isNaN
  | .isInf => (num s).map (fun x => match x with | .pinf => true | .ninf => true | _ => false)
  | .isPInf => (num s).map (fun x => match x with | .pinf => true | _ => false)
  | .isNInf => (num s).map (fun x => match x with | .ninf => true | _ => false)
  | .isTrue => match s with
    | .bool b => some b
    | _ => none
  | .isBlank => match s with
    | .str i => some i.blank
    | _ => none
  | .isNil => match s with
    | .big _ => some false
    | .nilptr => some true
    | _ => none
  | .or a b => do
    let p ← a.eval s
    if p then pure true else b.eval s            -- short-circuit, like Go
  | .and a b => do
    let p ← a.eval s
    if p then b.eval s else pure false
  | .not a => (a.eval s).map (!·)
  | .unknown _ => none

/-- What a table is interpreted against: the functions a clause may hand its scrutinee to, the
    meaning of the `.raw` texts that are known, and the two `strconv.FormatFloat` parameters.
    `none` = no such function / text known. -/
structure Env where
  fns : String → Option (Src → R Val)
  raws : String → Option (Src → R Val)
  fmt32 : F → List Nat
  fmt64 : F → List Nat

/-- The library calls on text, answered from the shipped parameters (`StrInfo`) — only for the
    very argument lists the parameters were computed with. -/
def libCall (fn : String) (args : List Int) (i : StrInfo) : Option (R Val) :=
  let opt (o : Option Val) : R Val := match o with
    | some v => .ok v
    | none => .error .format
  match fn, args with
  | "strconv.ParseInt", [10, 64] => some (opt (i.pInt.map Val.int))
  | "strconv.ParseFloat!NaN", [64] => some (Val.flt <$> stringToFloat false i.pFloat)
  | "strconv.ParseFloat!NaN", [32] => some (Val.flt <$> stringToFloat false i.pFloat32)
  | "big.SetString", [10] => some (opt (i.pBig10.map Val.int))
  | "big.SetString[2:]", [16] => some (opt (i.pBig16.map Val.int))
  | _, _ => none

/-- The formatting calls of `ToString`, for the very argument lists the model speaks about
    (`'g'` = 103, precision −1, bit size; base 10). -/
def fmtCall (env : Env) (fn : String) (args : List Int) (s : Src) : Option (R Val) :=
  match fn, args, s with
  | "strconv.FormatBool", [], .bool b => some (.ok (.str (strBytes (if b then "true" else "false"))))
  | "strconv.Itoa", [], .int _ v => some (.ok (.str (decBytes v)))
  | "strconv.FormatInt", [10], .int _ v => some (.ok (.str (decBytes v)))
  | "strconv.FormatUint", [10], .int _ v => some (.ok (.str (decBytes v)))
  | "strconv.FormatFloat", [103, -1, 32], .f32 x => some (.ok (.str (env.fmt32 x)))
  | "strconv.FormatFloat", [103, -1, 64], .f64 x => some (.ok (.str (env.fmt64 x)))
  | "x.String", [], .big v => some (.ok (.str (decBytes v)))
  | _, _, _ => none

def Res.eval (env : Env) (s : Src) : Res → Option (R Val)
  | .self => match s with
    | .int _ v => some (.ok (.int v))
    | .big v => some (.ok (.int v))
    | .f32 x => some (.ok (.flt x))
    | .f64 x => some (.ok (.flt x))
    | .bool b => some (.ok (.bool b))
    | .str i => some (.ok (.str i.bytes))
    | _ => none
  | .toI64 => match s with
    | .f32 x => some (.ok (.int (Coerce.cvtI64 x)))
    | .f64 x => some (.ok (.int (Coerce.cvtI64 x)))
    | _ => none
  | .toF p => match s with
    | .int _ v => some (.ok (.flt (.fin (backInt p v) 0)))
    | _ => none
  | .narrow32 => match s with
    | .f64 x => some (.ok (.flt (roundF32 x)))
    | .f32 x => some (.ok (.flt (roundF32 x)))
    | _ => none
  | .ne0 => match s with
    | .int _ v => some (.ok (.bool (v != 0)))
    | .f32 x => some (.ok (.bool (!isZero x)))
    | .f64 x => some (.ok (.bool (!isZero x)))
    | _ => none
  | .lit n => some (.ok (.int n))
  | .ifTrue a b => match s with
    | .bool t => some (.ok (.int (if t then a else b)))
    | _ => none
  | .litF n => some (.ok (.flt (.fin n 0)))
  | .ifTrueF a b => match s with
    | .bool t => some (.ok (.flt (.fin (if t then a else b) 0)))
    | _ => none
  | .call fn => (env.fns fn).map (fun f => f s)
  | .raw go => (env.raws go).map (fun f => f s)
  | .fmt fn args => fmtCall env fn args s
  | .lib fn args => match s with
    | .str i => libCall fn args i
    | _ => none
  | .fail e => some (.error e)
  | .fall => some (.ok (.str []))
  | .unknown _ => none

def runGuards (env : Env) (s : Src) : List Guard → Res → Option (R Val)
  | [], r => r.eval env s
  | g :: gs, r => do
    let c ← g.cond.eval s
    if c then g.out.eval env s else runGuards env s gs r

/-- Evaluate a clause; when it has an `after` function, the value goes on to it. -/
def Branch.run (env : Env) (s : Src) (b : Branch) (next : Val → Option (R Val)) : Option (R Val) := do
  let r ← runGuards env s b.guards b.res
  if b.after = "" then pure r else
    match r with
    | .ok v => next v
    | .error e => pure (.error e)

def find (ty : String) : List Branch → Option Branch
  | [] => none
  | b :: bs => if b.types.contains ty then some b else find ty bs

/-- The Go dynamic types a source stands for (after `reflectx.Deref`). -/
def IntTy.goName : IntTy → String
  | .i8 => "int8" | .i16 => "int16" | .i32 => "int32" | .i64 => "int64" | .int => "int"
  | .u8 => "uint8" | .u16 => "uint16" | .u32 => "uint32" | .u64 => "uint64" | .uint => "uint"

def goTypes : Src → List String
  | .int t _ => [IntTy.goName t]
  | .f32 _ => ["float32"]
  | .f64 _ => ["float64"]
  | .bool _ => ["bool"]
  | .str _ => ["string"]
  | .big _ => ["big.Int"]
  | .cplx _ _ _ => ["complex64", "complex128"]
  | .nilptr => []
  | .other => ["struct{}"]

/-- Run a table on a source whose dynamic Go type is `ty`. -/
def Table.run (env : Env) (t : Table) (ty : String) (s : Src) (next : Val → Option (R Val)) : Option (R Val) :=
  match s with
  | .nilptr => if t.deref then some (.error .nilPtr) else none
  | s => match find ty t.branches with
    | some b => b.run env s next
    | none => t.dflt.run env s next

def noNext : Val → Option (R Val) := fun _ => none

/-! ## `checkIntegerTypeBounds`, `To[T]`, word tables -/

/-- One clause of `checkIntegerTypeBounds`: the guards over the int64 `v`, in order. -/
structure Bounds where
  ty : String
  guards : List Guard
  deriving Repr, Inhabited

def Bounds.run (b : Bounds) (v : Int) : Option (R Int) :=
  match runGuards ⟨fun _ => none, fun _ => none, fun _ => [], fun _ => []⟩ (.int .i64 v) b.guards .self with
  | some (.ok (.int n)) => some (.ok n)
  | some (.error e) => some (.error e)
  | _ => none

def findBounds (ty : String) : List Bounds → Option Bounds
  | [] => none
  | b :: bs => if b.ty = ty then some b else findBounds ty bs

/-- One clause of `coerce.To[T]`: target Go types → the helper called. -/
structure Route where
  types : List String
  helper : String
  deriving Repr, Inhabited

def findRoute (ty : String) : List Route → Option String
  | [] => none
  | r :: rs => if r.types.contains ty then some r.helper else findRoute ty rs

/-- An argument of a call inside a schema method / check constructor / `validate` shorthand, as an
    EXPRESSION over the enclosing function's parameters (round 4c, audit M10: the translator used to
    record every non-constant argument as "the method's own bound", so `checks.Gt(value+1)` produced
    the same table row as `checks.Gt(value)`):
    `.param i` = the i-th parameter passed unchanged, `.rest` = the variadic parameter forwarded
    (`params...`), `.lit n` = an integer constant (evaluated by go/constant), `.raw "<go>"` = anything
    else — it has no meaning, the table theorems fail on it. -/
inductive Arg where
  | param (i : Nat)
  | rest
  | lit (n : Int)
  | raw (go : String)
  deriving DecidableEq, Repr, Inhabited

/-- The coercion branch of `engine.parsePrimitiveValue` as the translator finds it:
    `if GUARD { if BOUND, err := HELPER(ARGS); SUCCESS { return VALIDATE(VALIDATEARGS) } }`. -/
structure CoerceStep where
  guard : String
  helper : String
  args : List Arg
  bound : String
  success : String
  validate : String
  validateArgs : List String
  deriving DecidableEq, Repr, Inhabited

/-- The `Parse` method of a primitive schema type: which engine entry point it calls, on which input, with
    which validator; `base` = the engine's `T`. -/
structure ParseRoute where
  recv : String
  entry : String
  input : Arg
  validator : String
  base : String
  pre : String            -- the statements of `Parse` before that call ("" = none)
  deriving DecidableEq, Repr, Inhabited

end Gozod.Dispatch
