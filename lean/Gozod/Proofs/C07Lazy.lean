/-
  C07 for `Lazy` schemas (Model/JsonSchemaLazy.lean): the property on the fragment `reprX`, and the witnesses for the
  region it excludes — above all `lazy-typed-inner-unvalidated`: a Lazy whose inner schema's Go `Parse` result type is
  not one of the eight `(*schemaWrapper).Parse` knows (every object, slice, array, tuple, record, sized integer,
  pointer other than *string/*bool) validates NOTHING, while its document is the inner schema's.
-/
import Gozod.Proofs.C07
import Gozod.Model.JsonSchemaLazy
namespace Gozod.C07
open Gozod.Jsc

/-- full statement for lazy schemas; FALSE on the current code (`c07_lazy_full_false`). -/
def c07_lazy_full : Prop :=
  ∀ (x : X) (v : Json),
    (∀ r, parseX x v = some r → jsValid (toDocX x) r = true)
    ∧ (jsValid (toDocX x) v = true → (parseX x v).isSome = true)

theorem anyOf_null (j : JS) (v : Json) :
    jsValid (.node (KwList.ofList [.anyOf (.cons j (.cons nullJS .nil))])) v = (jsValid j v || v.isNull) := by
  simp [jsValid_node, kwValid, anyValid, nullJS_valid]

/-- validity of the emitted document = Parse verdict, for every lazy nesting over the base fragment. -/
theorem eqvX : (x : X) → (top : Bool) → (v : Json) → reprX top x = true → instOK v = true →
    jsValid (toJSX top x) v = acceptsX x v
  | .base s, top, v, h, hv => by simpa [toJSX, acceptsX] using eqv s top false false v h hv
  | .lazy o n x, top, v, h, hv => by
    simp only [reprX, Bool.and_eq_true] at h
    obtain ⟨⟨hc, hr⟩, hn⟩ := h
    have ih := eqvX x false v hr hv
    cases n with
    | true =>
      by_cases hnull : v.isNull = true
      · simp [toJSX, acceptsX, anyOf_null, hnull]
      · simp [toJSX, acceptsX, anyOf_null, hnull, hc, ih]
    | false =>
      simp only [Bool.false_eq_true, if_false, Bool.and_eq_true, Bool.not_eq_true'] at hn
      by_cases hnull : v.isNull = true
      · have hv0 : v = .null := (isNull_iff v).1 hnull
        subst hv0
        simp [toJSX, acceptsX, Json.isNull, ih, hn.1, hn.2]
      · simp [toJSX, acceptsX, hnull, hc, ih]

/-- … and Parse returns its input there. -/
theorem presX : (x : X) → (top : Bool) → (v : Json) → reprX top x = true → acceptsX x v = true → outX x v = v
  | .base s, top, v, h, ha => by simpa [outX] using pres s top v (by simpa [reprX] using h) (by simpa [acceptsX] using ha)
  | .lazy o n x, top, v, h, ha => by
    simp only [reprX, Bool.and_eq_true] at h
    obtain ⟨⟨hc, hr⟩, _⟩ := h
    by_cases hnull : v.isNull = true
    · simp [outX, hnull]
    · have ha' : acceptsX x v = true := by simpa [acceptsX, hnull, hc] using ha
      simp [outX, hnull, hc, presX x false v hr ha']

theorem c07_lazy_equiv_partial (x : X) (v : Json) (h : reprX true x = true) (hv : instOK v = true) :
    jsValid (toDocX x) v = acceptsX x v := eqvX x true v h hv

theorem c07_lazy_sound (x : X) (v r : Json) (h : reprX true x = true) (hv : instOK v = true)
    (hp : parseX x v = some r) : jsValid (toDocX x) r = true := by
  unfold parseX at hp
  split at hp
  · rename_i ha
    cases hp
    rw [presX x true v h ha, toDocX, eqvX x true v h hv, ha]
  · simp at hp

theorem c07_lazy_complete (x : X) (v : Json) (h : reprX true x = true) (hv : instOK v = true)
    (hd : jsValid (toDocX x) v = true) : (parseX x v).isSome = true := by
  have ha : acceptsX x v = true := by rw [← eqvX x true v h hv]; exact hd
  simp [parseX, ha]

/-- well-formedness carries over: a lazy node adds at most a two-element `anyOf`. -/
theorem wfX : (x : X) → (top : Bool) → reprX top x = true → wfJS (toJSX top x) = true
  | .base s, top, h => by simpa [toJSX] using wf s top false false (by simpa [reprX] using h)
  | .lazy o n x, top, h => by
    simp only [reprX, Bool.and_eq_true] at h
    have ih := wfX x false h.1.2
    cases n <;> simp [toJSX, wfJS, wfKws, wfKw, wfList, KwList.ofList, JSList.length, nullJS, ih]

theorem c07_lazy_wellformed (x : X) (h : reprX true x = true) : wfJS (toDocX x) = true := wfX x true h

/-- the hypotheses are inhabited by non-trivial values: Lazy over a union, Nilable, nested in another Lazy. -/
example : reprX true (.lazy false true (.lazy false false (.base (.union (.cons (.str [.min 2]) (.cons (.int .int [.gte 0]) .nil)))))) = true
    ∧ instOK (.str [109, 109]) = true := by decide

/-! ### witnesses -/

def IncompleteX (x : X) (v : Json) : Prop := jsValid (toDocX x) v = true ∧ acceptsX x v = false
def UnsoundX (x : X) (v : Json) : Prop := acceptsX x v = true ∧ jsValid (toDocX x) (outX x v) = false
instance (x : X) (v : Json) : Decidable (IncompleteX x v) := by unfold IncompleteX; infer_instance
instance (x : X) (v : Json) : Decidable (UnsoundX x v) := by unfold UnsoundX; infer_instance

/-- `Lazy(func() { return StrictObject({a: String()}) })` accepts the string "x", the number 3 and `{a: 1}`;
    `Lazy(Int8())` accepts "x"; `Lazy(Slice(Bool()))` accepts `[1]` — none validates against the emitted document. -/
theorem witness_lazy_typed_inner_unvalidated :
    UnsoundX (.lazy false false (.base (.obj .strict .none false [] (.cons [97] (.str []) .nil)))) (.str [120])
    ∧ UnsoundX (.lazy false false (.base (.obj .strict .none false [] (.cons [97] (.str []) .nil)))) (o1 [97] (.num 4))
    ∧ UnsoundX (.lazy false false (.base (.int .i8 []))) (.str [120])
    ∧ UnsoundX (.lazy false false (.base (.slice .bool []))) (.arr (.cons (.num 4) .nil))
    ∧ UnsoundX (.lazy false false (.lazy true false (.base (.str [.min 2])))) (.num 4) := by decide

/-- null: a plain `.Optional()` lazy accepts null (document: the inner schema's); a lazy over a Nilable schema rejects
    null (validateLazy's nil test precedes the inner schema), the document admits it. -/
theorem witness_lazy_null :
    UnsoundX (.lazy true false (.base (.str []))) .null
    ∧ IncompleteX (.lazy false false (.base (.nul (.str [])))) .null := by decide

theorem c07_lazy_full_false : ¬ c07_lazy_full := by
  intro h
  have h1 := (h (.lazy false false (.base (.int .i8 []))) (.str [120])).1 (.str [120])
    (by simp [parseX, acceptsX, outX, X.consults, S.lazyConsults, Json.isNull])
  exact absurd h1 (by decide)

end Gozod.C07
