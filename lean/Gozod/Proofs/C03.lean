/-
  C03 — nil handling follows Default > Prefault > NonOptional > Optional/Nilable,
        for every sequence of modifier calls.
-/
import Gozod.Model.Modifiers

namespace Gozod.C03
open Gozod.Mods

/-! ### what a history does to the internals (by induction over the history, any start state) -/

theorem applyAll_cons (rule : RefineRule) (i : I) (op : Op) (h : List Op) :
    applyAll rule i (op :: h) = applyAll rule (apply rule i op) h := rfl

theorem dv_applyAll (rule : RefineRule) (h : List Op) : ∀ i : I,
    (applyAll rule i h).dv = (lastDv h).orElse fun _ => i.dv := by
  induction h with
  | nil => intro i; simp [applyAll, lastDv]
  | cons op h ih =>
    intro i; rw [applyAll_cons, ih]
    cases op <;> simp [apply, lastDv] <;> cases lastDv h <;> simp

theorem df_applyAll (rule : RefineRule) (h : List Op) : ∀ i : I,
    (applyAll rule i h).df = (lastDf h).orElse fun _ => i.df := by
  induction h with
  | nil => intro i; simp [applyAll, lastDf]
  | cons op h ih =>
    intro i; rw [applyAll_cons, ih]
    cases op <;> simp [apply, lastDf] <;> cases lastDf h <;> simp

theorem pv_applyAll (rule : RefineRule) (h : List Op) : ∀ i : I,
    (applyAll rule i h).pv = (lastPv h).orElse fun _ => i.pv := by
  induction h with
  | nil => intro i; simp [applyAll, lastPv]
  | cons op h ih =>
    intro i; rw [applyAll_cons, ih]
    cases op <;> simp [apply, lastPv] <;> cases lastPv h <;> simp

theorem pf_applyAll (rule : RefineRule) (h : List Op) : ∀ i : I,
    (applyAll rule i h).pf = (lastPf h).orElse fun _ => i.pf := by
  induction h with
  | nil => intro i; simp [applyAll, lastPf]
  | cons op h ih =>
    intro i; rw [applyAll_cons, ih]
    cases op <;> simp [apply, lastPf] <;> cases lastPf h <;> simp

theorem nonOptional_applyAll (rule : RefineRule) (h : List Op) : ∀ i : I,
    (applyAll rule i h).nonOptional = (i.nonOptional || h.any isNonOptionalOp) := by
  induction h with
  | nil => intro i; simp [applyAll]
  | cons op h ih =>
    intro i; rw [applyAll_cons, ih]
    cases op <;> simp [apply, isNonOptionalOp]

/-- Without a `NonOptional` call, Optional/Nilable are in force iff one of
    Optional/Nilable/Nullish was called (or they were set initially). -/
theorem optnil_applyAll (rule : RefineRule) (h : List Op) : ∀ i : I,
    h.any isNonOptionalOp = false →
    ((applyAll rule i h).optional || (applyAll rule i h).nilable) =
      (i.optional || i.nilable || h.any isOptionalOp) := by
  induction h with
  | nil => intro i _; simp [applyAll]
  | cons op h ih =>
    intro i hn
    simp only [List.any_cons, Bool.or_eq_false_iff] at hn
    rw [applyAll_cons, ih _ hn.2]
    cases op <;> simp [apply, isOptionalOp, isNonOptionalOp] at hn ⊢ <;>
      cases i.optional <;> cases i.nilable <;> simp

/-- A history is *clean* when it attaches no overwrite and no refinement (the two features
    today's code wrongly consults on the nil path; see the witnesses below). -/
def clean (h : List Op) : Bool := h.all fun op => !isCheckOp op

theorem overwrite_applyAll (rule : RefineRule) (h : List Op) : ∀ i : I, clean h = true →
    (applyAll rule i h).hasOverwrite = i.hasOverwrite ∧ (applyAll rule i h).refines = i.refines := by
  induction h with
  | nil => intro i _; exact ⟨rfl, rfl⟩
  | cons op h ih =>
    intro i hc
    simp only [clean, List.all_cons, Bool.and_eq_true] at hc
    rw [applyAll_cons]
    have := ih (apply rule i op) (by simpa [clean] using hc.2)
    rw [this.1, this.2]
    cases op <;> simp [apply, isCheckOp] at hc ⊢

theorem any_default_iff (h : List Op) :
    h.any isDefaultOp = ((lastDv h).isSome || (lastDf h).isSome) := by
  induction h with
  | nil => rfl
  | cons op h ih =>
    cases op <;> simp [isDefaultOp, lastDv, lastDf, ih] <;>
      cases lastDv h <;> cases lastDf h <;> simp

theorem any_prefault_iff (h : List Op) :
    h.any isPrefaultOp = ((lastPv h).isSome || (lastPf h).isSome) := by
  induction h with
  | nil => rfl
  | cons op h ih =>
    cases op <;> simp [isPrefaultOp, lastPv, lastPf, ih] <;>
      cases lastPv h <;> cases lastPf h <;> simp

/-! ## The property -/

/-- The full statement: after *every* history of modifier and check-attaching calls the nil
    outcome is the documented one. (False today: see `c03_witness_*`.) -/
def c03_history_full (rule : RefineRule) (admitsNil : Bool) : Prop :=
  ∀ h : List Op, specNil admitsNil h (nilOutcome admitsNil (applyAll rule {} h)) = true

/-- **C03, engine path.** For every history of Optional/Nilable/Nullish/NonOptional/Default/
    DefaultFunc/Prefault/PrefaultFunc calls, of any length and in any order, a nil input yields:
    the default if one was set (unchecked, whether or not it satisfies the checks), else the
    prefault through the full pipeline, else the nonoptional error, else nil if
    Optional/Nilable/Nullish was called or the type admits nil, else a type error. -/
theorem c03_history_partial (rule : RefineRule) (admitsNil : Bool) (h : List Op) (hc : clean h = true) :
    specNil admitsNil h (nilOutcome admitsNil (applyAll rule {} h)) = true := by
  have hdv := dv_applyAll rule h {}
  have hdf := df_applyAll rule h {}
  have hpv := pv_applyAll rule h {}
  have hpf := pf_applyAll rule h {}
  have hno := nonOptional_applyAll rule h {}
  have how := overwrite_applyAll rule h {} hc
  simp only [Bool.false_or] at hno
  have hon := optnil_applyAll rule h {}
  simp only [Bool.false_or] at hon
  unfold nilOutcome specNil
  rw [hdv, hdf, hpv, hpf, hno, how.1, how.2, any_default_iff, any_prefault_iff]
  generalize ((applyAll rule {} h).optional || (applyAll rule {} h).nilable) = X at hon ⊢
  generalize h.any isNonOptionalOp = A at hon ⊢
  generalize h.any isOptionalOp = B at hon ⊢
  generalize lastDv h = d1
  generalize lastDf h = d2
  generalize lastPv h = p1
  generalize lastPf h = p2
  cases A with
  | true =>
    rcases d1 with _ | _ | _ <;> rcases d2 with _ | _ | _ <;> rcases p1 with _ | _ | _ <;>
      rcases p2 with _ | _ | _ <;> rfl
  | false =>
    have := hon rfl; subst this
    rcases d1 with _ | _ | _ <;> rcases d2 with _ | _ | _ <;> rcases p1 with _ | _ | _ <;>
      rcases p2 with _ | _ | _ <;> cases X <;> cases admitsNil <;> rfl

/-- **A non-nil input is not affected by the modifiers**: `processModifiersCore` returns
    "not handled" for every non-nil input, so the same value parser runs (modifiers.go:49). The
    model expresses this by `nilOutcome` being the only place the modifier fields are read. -/
theorem c03_outcome_reads_only_modifiers (admitsNil : Bool) (i j : I)
    (h : i.dv = j.dv ∧ i.df = j.df ∧ i.pv = j.pv ∧ i.pf = j.pf ∧ i.nonOptional = j.nonOptional ∧
         i.optional = j.optional ∧ i.nilable = j.nilable ∧ i.hasOverwrite = j.hasOverwrite ∧
         i.refines = j.refines) : nilOutcome admitsNil i = nilOutcome admitsNil j := by
  obtain ⟨h1, h2, h3, h4, h5, h6, h7, h8, h9⟩ := h
  unfold nilOutcome; rw [h1, h2, h3, h4, h5, h6, h7, h8, h9]

/-! ### Witnesses: the full statement is false today (known findings) -/

/-- `String().Trim().Default(bad).Parse(nil)`: with an overwrite attached the default value is
    run through all checks, so a default that does not satisfy them is an error. -/
theorem c03_witness_default_checked : ¬ c03_history_full .ptrTy false := by
  intro hfull
  have := hfull [.overwrite, .dflt false]
  revert this; decide

/-- `String().Refine(f).Optional().Parse(nil)`: refinements run on the nil value and a wrapper
    attached before `Optional()` rejects nil. -/
theorem c03_witness_refine_on_nil : ¬ c03_history_full .ptrTy false := by
  intro hfull
  have := hfull [.refine, .optional]
  revert this; decide

/-- `Int().Refine(f).Nilable().Parse(nil)` likewise for the Nilable-flag rule. -/
theorem c03_witness_refine_on_nil_int : ¬ c03_history_full .nilableFlag false := by
  intro hfull
  have := hfull [.refine, .nilable]
  revert this; decide

/-- Non-vacuity: clean histories of every shape exist and exercise every branch. -/
example : clean [.optional, .dflt false, .nonOptional, .prefaultFn true] = true ∧
    nilOutcome false (applyAll .ptrTy {} [.optional, .dflt false, .nonOptional, .prefaultFn true]) = .dflt false ∧
    nilOutcome false (applyAll .ptrTy {} [.nilable, .nonOptional, .optional]) = .nonOptional ∧
    nilOutcome false (applyAll .ptrTy {} [.prefault false, .nullish]) = .checkError ∧
    nilOutcome false (applyAll .ptrTy {} []) = .typeError := by decide

end Gozod.C03
