import Gozod.Drv.Loop
import Gozod.Drv.C19
def main : IO Unit := Gozod.Drv.runTokens Gozod.Drv.C19.handle
