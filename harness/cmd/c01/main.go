// C01 harness: primitive schemas (string, every integer/float width, bool, enum, literal; value and
// pointer constructors) with chains of built-in checks at boundary constants, on inputs of the schema's
// own type, pointers to it, pointers to pointers, and every other Go kind.
// Observation: ok:<value token> | rej:type | rej:checks:<positions> | rej:value.
package main

import (
	"encoding/hex"
	"errors"
	"flag"
	"fmt"
	"math"
	"os"
	"reflect"
	"regexp"
	"strconv"
	"strings"
	"unicode/utf8"

	"github.com/kaptinlin/gozod"
	"github.com/kaptinlin/gozod/core"
	"github.com/kaptinlin/gozod/types"

	"verifharness/hx"
)

func hexs(s string) string {
	if s == "" {
		return "-"
	}
	return hex.EncodeToString([]byte(s))
}

var msgRe = regexp.MustCompile(`^m(\d+)$`)

func classifyErr(err error) string {
	var ze *gozod.ZodError
	if !errors.As(err, &ze) || len(ze.Issues) == 0 {
		return "rej:?notzod"
	}
	var ps []string
	for _, is := range ze.Issues {
		mm := msgRe.FindStringSubmatch(is.Message)
		if mm == nil {
			ps = nil
			break
		}
		// one method may attach several checks sharing its message (Safe = Gte + Lte): report the method once
		if len(ps) == 0 || ps[len(ps)-1] != mm[1] {
			ps = append(ps, mm[1])
		}
	}
	if ps != nil {
		return "rej:checks:" + strings.Join(ps, ",")
	}
	switch ze.Issues[0].Code {
	case core.InvalidType:
		return "rej:type"
	case core.InvalidValue:
		return "rej:value"
	}
	return "rej:?" + string(ze.Issues[0].Code)
}

func parseVia(schema any, in reflect.Value) (res any, err error, pm string) {
	pm = hx.Safely(func() {
		out := reflect.ValueOf(schema).MethodByName("Parse").Call([]reflect.Value{in})
		res = out[0].Interface()
		if !out[1].IsNil() {
			err = out[1].Interface().(error)
		}
	})
	return
}

func derefAll(v any) any {
	rv := reflect.ValueOf(v)
	for rv.IsValid() && rv.Kind() == reflect.Pointer {
		if rv.IsNil() {
			return nil
		}
		rv = rv.Elem()
	}
	if !rv.IsValid() {
		return nil
	}
	return rv.Interface()
}

// foreign values: every other Go kind
type myStr string
type myInt int

func foreignValues() []any {
	ch := make(chan int)
	s := "x"
	ps := &s
	n := 5
	pn := &n
	return []any{true, 7, int8(7), int64(7), uint(7), uint8(7), 1.5, float32(1.5), "str", []byte("ab"), []string{"a"}, []int{1},
		map[string]any{"a": 1}, struct{ A int }{1}, struct{ I any }{nil}, func() {}, ch, complex(1, 2), myStr("m"), myInt(3),
		&ps, &pn, [2]int{1, 2}, math.NaN(), math.Inf(1), uintptr(3), any(nil)}
}

// ---------- strings ----------

type chk struct {
	kind string
	n    int
	s    string
}

func (c chk) tokens() string {
	switch c.kind {
	case "min", "max", "len":
		return c.kind + " " + strconv.Itoa(c.n)
	case "sw", "ew", "inc":
		return c.kind + " " + hexs(c.s)
	case "re":
		return "re " + strconv.Itoa(c.n)
	case "rel":
		return "rel " + strconv.Itoa(c.n) + " " + hexs(c.s)
	}
	return c.kind
}

var regexFamily = []string{`^[a-z]+$`, `[0-9]`, `^a.*z$`, `^(ab)*$`}

func applyStrCheck(s any, pos int, c chk) any {
	m := fmt.Sprintf("m%d", pos)
	rv := reflect.ValueOf(s)
	call := func(name string, args ...any) any {
		var as []reflect.Value
		for _, a := range args {
			as = append(as, reflect.ValueOf(a))
		}
		return rv.MethodByName(name).Call(as)[0].Interface()
	}
	switch c.kind {
	case "min":
		return call("Min", c.n, m)
	case "max":
		return call("Max", c.n, m)
	case "len":
		return call("Length", c.n, m)
	case "sw":
		return call("StartsWith", c.s, m)
	case "ew":
		return call("EndsWith", c.s, m)
	case "inc":
		return call("Includes", c.s, m)
	case "re":
		return call("RegexString", regexFamily[c.n%4], m)
	case "rel":
		return call("RegexString", literalPattern(c.n, c.s), m)
	case "lc":
		return call("Lowercase", m)
	case "uc":
		return call("Uppercase", m)
	case "trim":
		return call("Trim")
	case "lower":
		return call("ToLowerCase")
	case "upper":
		return call("ToUpperCase")
	}
	panic("check " + c.kind)
}

// literalPattern: a pure-literal pattern in one of six anchoring shapes.
func literalPattern(mode int, lit string) string {
	q := regexp.QuoteMeta(lit)
	switch mode {
	case 0:
		return q
	case 1:
		return "^" + q
	case 2:
		return q + "$"
	case 3:
		return "^" + q + "$"
	case 4:
		return `\A` + q + `\z`
	}
	return "^(?:" + q + ")$"
}

// asciiFrag: a fragment of the input usable as a pattern literal (the regexp parser wants valid UTF-8).
func asciiFrag(r *hx.Rng, in string, where int) string {
	f := pickFrag(r, in, where)
	for i := 0; i < len(f); i++ {
		if f[i] >= 0x80 || f[i] == '\n' {
			return hx.Pick(r, []string{"a", "ab", "z", "v1.2", "", "a b", "x+"})
		}
	}
	if r.Chance(15) {
		return in[:min(len(in), 3)] + "" // maybe the whole (short) input
	}
	return f
}

var alphabet = []byte("aAxXbZ z!7é")

func genString(r *hx.Rng, maxLen int, ascii bool) string {
	n := r.Intn(maxLen + 1)
	var b []byte
	for i := 0; i < n; i++ {
		if !ascii && r.Chance(18) {
			b = append(b, nonASCII(r)...)
			continue
		}
		b = append(b, hx.Pick(r, alphabet[:10]))
	}
	return string(b)
}

// nonASCII: cased and caseless runes of every UTF-8 width, every Unicode white-space rune, invalid and
// truncated sequences, and (1 in 4) a random rune below U+20000 (all case-mapped ranges are there).
func nonASCII(r *hx.Rng) string {
	if r.Chance(25) {
		c := rune(0x80 + r.Intn(0x20000-0x80))
		if c >= 0xD800 && c <= 0xDFFF {
			c = 0x1E9E
		}
		return string(c)
	}
	return hx.Pick(r, []string{"é", "É", "ß", "İ", "ı", "\u212a", "ſ", "Σ", "σ", "ς", "\u01c5", "日", "\u00a0", "\u2003", "\u3000", "\u0085",
		"\u1680", "\u2028", "\u205f", "\u202f", "\ufffd", "\U00010400", "\U00010428", "\xff", "\xc3", "\xe3\x80", "\xc2", "\x85", "\xa0", "\xf0\x90\x90", "\xed\xa0\x80", "\xc0\xaf"})
}

func runStrings(o *hx.Out, r *hx.Rng, n int) {
	fv := foreignValues()
	for i := 0; i < n; i++ {
		nchecks := r.Intn(9)
		var cs []chk
		unicodeSensitive := false
		for j := 0; j < nchecks; j++ {
			k := hx.Pick(r, []string{"min", "max", "len", "sw", "ew", "inc", "lc", "uc", "trim", "lower", "upper", "re", "rel"})
			if k == "trim" || k == "lower" || k == "upper" {
				unicodeSensitive = true
			}
			cs = append(cs, chk{kind: k})
		}
		_ = unicodeSensitive
		in := genString(r, 8, r.Chance(45))
		if r.Chance(12) {
			// white space (ASCII and Unicode) at both ends, for Trim
			in = hx.Pick(r, []string{" ", "\u00a0", "\u3000", "\t", "\u0085", "\u2003 "}) + in + hx.Pick(r, []string{" ", "\u00a0", "\u3000", "\n", "\u2029", " \u1680"})
		}
		if r.Chance(25) {
			in = hx.Pick(r, []string{"abz", "az", "a\nz", "abab", "aba", "abc", "a1z", "", "ab", "zebra"})
		}
		for j := range cs {
			switch cs[j].kind {
			case "min", "max", "len":
				cs[j].n = len(in) + r.Intn(3) - 1
				if cs[j].n < 0 {
					cs[j].n = 0
				}
			case "re":
				cs[j].n = r.Intn(4)
			case "rel":
				cs[j].n = r.Intn(6)
				cs[j].s = asciiFrag(r, in, r.Intn(3))
				if !utf8.ValidString(cs[j].s) {
					cs[j].s = "ab"
				}
			case "sw":
				cs[j].s = pickFrag(r, in, 0)
			case "ew":
				cs[j].s = pickFrag(r, in, 1)
			case "inc":
				cs[j].s = pickFrag(r, in, 2)
			}
		}
		ctorPtr := r.Chance(40)
		var schema any = gozod.String()
		family, ctorName := "str", "String"
		if ctorPtr {
			schema, ctorName = gozod.StringPtr(), "StringPtr"
		}
		switch {
		case r.Chance(5):
			schema, ctorPtr, family, ctorName = types.StringTyped[myStr](), false, "strN", "types.StringTyped[myStr]"
		case !ctorPtr && r.Chance(10):
			schema, ctorName = types.StringTyped[string](), "types.StringTyped[string]"
		case ctorPtr && r.Chance(10):
			schema, ctorName = types.StringTyped[*string](), "types.StringTyped[*string]"
		}
		var toks []string
		parents := []any{schema}
		for pos, c := range cs {
			schema = applyStrCheck(schema, pos, c)
			parents = append(parents, schema)
			toks = append(toks, c.tokens())
		}
		// Derive decoy siblings from every intermediate schema AFTER the chain exists: deriving must not
		// change an existing schema (a shared check slice would let the decoy overwrite the chain's check).
		if r.Chance(60) {
			for pos, par := range parents {
				applyStrCheck(par, 90+pos, chk{kind: "len", n: 77})
				applyStrCheck(par, 90+pos, chk{kind: "sw", s: "decoy"})
			}
		}
		head := fmt.Sprintf("c01 %s %s %d %s", family, hx.B01(ctorPtr), len(cs), strings.Join(toks, " "))
		emit := func(tok string, v any, how string) {
			how += " " + ctorName
			res, err, pm := parseVia(schema, reflect.ValueOf(v))
			obs := ""
			switch {
			case pm != "":
				obs = "panic:" + pm
			case err != nil:
				obs = classifyErr(err)
			default:
				if d, ok := underlying(derefAll(res)).(string); ok {
					obs = "ok:" + hexs(d)
				} else {
					obs = fmt.Sprintf("ok:?%T", res)
				}
			}
			o.Emit(strings.Join(strings.Fields(head+" | "+tok+" #"+how), " "), obs)
			o.Count("str:" + strings.SplitN(obs, ":", 3)[0] + ":" + strings.SplitN(how, " ", 2)[0])
		}
		if family == "strN" {
			emit(hexs(in), myStr(in), "named-value")
			np := myStr(in)
			emit(hexs(in)+"*", &np, "named-pointer")
			emit("foreign", in, "foreign string")
			continue
		}
		emit(hexs(in), in, "string")
		p := in
		emit(hexs(in)+"*", &p, "*string")
		if r.Chance(20) {
			q := in
			pq := &q
			emit(hexs(in)+"**", &pq, "**string")
		}
		if r.Chance(40) {
			f := hx.Pick(r, fv)
			if _, isStr := f.(string); !isStr && f != nil {
				emit("foreign", f, fmt.Sprintf("foreign %T", f))
			}
		}
	}
}

func pickFrag(r *hx.Rng, in string, where int) string {
	if len(in) == 0 || r.Chance(25) {
		return hx.Pick(r, []string{"", "a", "x", " ", "zz", "A"})
	}
	n := 1 + r.Intn(min(3, len(in)))
	switch where {
	case 0:
		return in[:n]
	case 1:
		return in[len(in)-n:]
	}
	i := r.Intn(len(in) - n + 1)
	return in[i : i+n]
}

// ---------- numerics ----------

type numKind struct {
	name   string
	signed bool
	bits   int
	float  bool
}

var numKinds = []numKind{
	{"i8", true, 8, false}, {"i16", true, 16, false}, {"i32", true, 32, false}, {"i64", true, 64, false}, {"int", true, 64, false},
	{"u8", false, 8, false}, {"u16", false, 16, false}, {"u32", false, 32, false}, {"u64", false, 64, false}, {"uint", false, 64, false},
	{"f32", true, 32, true}, {"f64", true, 64, true},
}

// numCtor: one exported constructor of a numeric schema (package gozod, and the aliases / generic constructors that
// only package types exports).
type numCtor struct {
	name string
	ptr  bool
	mk   func() any
}

func vp(name string, v, p func() any) []numCtor {
	return []numCtor{{name, false, v}, {name + "Ptr", true, p}}
}

var numCtors = map[string][]numCtor{
	"i8":  vp("Int8", func() any { return gozod.Int8() }, func() any { return gozod.Int8Ptr() }),
	"i16": vp("Int16", func() any { return gozod.Int16() }, func() any { return gozod.Int16Ptr() }),
	"i32": append(vp("Int32", func() any { return gozod.Int32() }, func() any { return gozod.Int32Ptr() }),
		append(vp("types.Rune", func() any { return types.Rune() }, func() any { return types.RunePtr() }),
			numCtor{"types.IntegerTyped[int32]", false, func() any { return types.IntegerTyped[int32]() }})...),
	"i64": append(vp("Int64", func() any { return gozod.Int64() }, func() any { return gozod.Int64Ptr() }),
		numCtor{"types.Integer", false, func() any { return types.Integer() }},
		numCtor{"types.IntegerTyped[int64]", false, func() any { return types.IntegerTyped[int64]() }}),
	"int": append(vp("Int", func() any { return gozod.Int() }, func() any { return gozod.IntPtr() }),
		numCtor{"types.IntegerTyped[int]", false, func() any { return types.IntegerTyped[int]() }}),
	"u8": append(vp("Uint8", func() any { return gozod.Uint8() }, func() any { return gozod.Uint8Ptr() }),
		vp("types.Byte", func() any { return types.Byte() }, func() any { return types.BytePtr() })...),
	"u16":  vp("Uint16", func() any { return gozod.Uint16() }, func() any { return gozod.Uint16Ptr() }),
	"u32":  vp("Uint32", func() any { return gozod.Uint32() }, func() any { return gozod.Uint32Ptr() }),
	"u64":  vp("Uint64", func() any { return gozod.Uint64() }, func() any { return gozod.Uint64Ptr() }),
	"uint": vp("Uint", func() any { return gozod.Uint() }, func() any { return gozod.UintPtr() }),
	"f32": append(vp("Float32", func() any { return gozod.Float32() }, func() any { return gozod.Float32Ptr() }),
		numCtor{"types.FloatTyped[float32]", false, func() any { return types.FloatTyped[float32]() }}),
	"f64": append(vp("Float64", func() any { return gozod.Float64() }, func() any { return gozod.Float64Ptr() }),
		append(vp("Float", func() any { return gozod.Float() }, func() any { return gozod.FloatPtr() }),
			append(vp("Number", func() any { return gozod.Number() }, func() any { return gozod.NumberPtr() }),
				numCtor{"types.FloatTyped[float64]", false, func() any { return types.FloatTyped[float64]() }})...)...),
}

// named Go types with the underlying type of a schema type (type Celsius float64): the generic constructors of package
// types admit them (`~int | …`). A value of the named type is the schema's own Go type there; for the constructors of
// the predeclared types it is a foreign kind (README "strict type semantics": String() only accepts string).
type myI32 int32
type myU8 uint8
type myF64 float64
type myBool bool

var namedCtors = map[string]numCtor{
	"int": {"types.IntegerTyped[myInt]", false, func() any { return types.IntegerTyped[myInt]() }},
	"i32": {"types.IntegerTyped[myI32]", false, func() any { return types.IntegerTyped[myI32]() }},
	"u8":  {"types.IntegerTyped[myU8]", false, func() any { return types.IntegerTyped[myU8]() }},
	"f64": {"types.FloatTyped[myF64]", false, func() any { return types.FloatTyped[myF64]() }},
}

var namedTypes = map[string]reflect.Type{
	"int": reflect.TypeOf(myInt(0)), "i32": reflect.TypeOf(myI32(0)), "u8": reflect.TypeOf(myU8(0)), "f64": reflect.TypeOf(myF64(0)),
}

// underlying converts a value of a named numeric type back to its predeclared type (for the value token).
func underlying(v any) any {
	rv := reflect.ValueOf(v)
	switch rv.Kind() {
	case reflect.Int:
		return int(rv.Int())
	case reflect.Int32:
		return int32(rv.Int())
	case reflect.Uint8:
		return uint8(rv.Uint())
	case reflect.Float64:
		return rv.Float()
	case reflect.String:
		return rv.String()
	case reflect.Bool:
		return rv.Bool()
	}
	return v
}

func goNum(k numKind, i int64, u uint64, f float64) any {
	switch k.name {
	case "i8":
		return int8(i)
	case "i16":
		return int16(i)
	case "i32":
		return int32(i)
	case "i64":
		return i
	case "int":
		return int(i)
	case "u8":
		return uint8(u)
	case "u16":
		return uint16(u)
	case "u32":
		return uint32(u)
	case "u64":
		return u
	case "uint":
		return uint(u)
	case "f32":
		return float32(f)
	}
	return f
}

func numTok(k numKind, v any) string {
	switch x := v.(type) {
	case float32:
		return k.name + " " + strconv.FormatUint(math.Float64bits(float64(x)), 10)
	case float64:
		return k.name + " " + strconv.FormatUint(math.Float64bits(x), 10)
	}
	return k.name + " " + fmt.Sprint(v)
}

func randNum(r *hx.Rng, k numKind) any {
	if k.float {
		f := hx.Pick(r, []float64{0, 1, -1, 0.5, 2.5, -2.5, 10, 1e10, -1e10, 16777216, 16777217, 9007199254740992, 9007199254740993, -9007199254740992, 9007199254740991, math.MaxFloat32, 100.25, 3, math.Inf(1), math.Inf(-1), math.NaN(), math.Copysign(0, -1)})
		if r.Chance(30) {
			f += float64(r.Intn(5) - 2)
		}
		if r.Chance(35) {
			f = nearMultiple(r)
		}
		if k.bits == 32 {
			f = float64(float32(f))
		}
		return goNum(k, 0, 0, f)
	}
	if k.signed {
		lo, hi := int64(-1)<<(k.bits-1), int64(1)<<(k.bits-1)-1
		x := hx.Pick(r, []int64{0, 1, -1, 2, 10, -10, 100, lo, lo + 1, hi, hi - 1, 1 << 53, 1<<53 + 1, 1 << 62, 7, 12})
		if r.Chance(40) {
			x += int64(r.Intn(5) - 2)
		}
		if x < lo {
			x = lo
		}
		if x > hi {
			x = hi
		}
		return goNum(k, x, 0, 0)
	}
	hi := uint64(math.MaxUint64)
	if k.bits < 64 {
		hi = 1<<k.bits - 1
	}
	x := hx.Pick(r, []uint64{0, 1, 2, 10, 100, hi, hi - 1, 1 << 53, 1<<53 + 1, 1 << 63, 7, 12})
	if r.Chance(40) {
		x += uint64(r.Intn(3))
	}
	if x > hi {
		x = hi
	}
	return goNum(k, 0, x, 0)
}

var i64k = numKind{"i64", true, 64, false}
var f64k = numKind{"f64", true, 64, true}

func runNums(o *hx.Out, r *hx.Rng, n int) {
	fv := foreignValues()
	for it := 0; it < n; it++ {
		k := hx.Pick(r, numKinds)
		ctor := hx.Pick(r, numCtors[k.name])
		family := "num"
		if nc, ok := namedCtors[k.name]; ok && r.Chance(8) {
			ctor, family = nc, "numN"
		}
		variant := 0
		if ctor.ptr {
			variant = 1
		}
		var schema any = ctor.mk()
		in := randNum(r, k)
		nchecks := r.Intn(8)
		var toks []string
		numParents := []any{schema}
		for pos := 0; pos < nchecks; pos++ {
			numParents = append(numParents, schema)
			m := fmt.Sprintf("m%d", pos)
			rv := reflect.ValueOf(schema)
			op := hx.Pick(r, []string{"lt", "lte", "gt", "gte"})
			if !k.float && r.Chance(20) {
				// MultipleOf / Step
				d := int64(r.Intn(9) - 2)
				if r.Chance(30) {
					d = hx.Pick(r, []int64{1 << 53, 1<<53 + 1, 10000000, 3})
				}
				meth := hx.Pick(r, []string{"MultipleOf", "Step"})
				schema = rv.MethodByName(meth).Call([]reflect.Value{reflect.ValueOf(d), reflect.ValueOf(m)})[0].Interface()
				toks = append(toks, "mul i64 "+strconv.FormatInt(d, 10))
				continue
			}
			if k.float && r.Chance(22) {
				// Float MultipleOf / Step (the ε-rule) and Int
				if r.Chance(20) {
					schema = rv.MethodByName("Int").Call([]reflect.Value{reflect.ValueOf(m)})[0].Interface()
					toks = append(toks, "isint")
					continue
				}
				d := pickDivisor(r, toF64(in))
				meth := hx.Pick(r, []string{"MultipleOf", "Step"})
				schema = rv.MethodByName(meth).Call([]reflect.Value{reflect.ValueOf(d), reflect.ValueOf(m)})[0].Interface()
				toks = append(toks, "mulf "+strconv.FormatUint(math.Float64bits(d), 10))
				continue
			}
			if r.Chance(10) {
				if k.float && r.Chance(50) {
					schema = rv.MethodByName("Finite").Call([]reflect.Value{reflect.ValueOf(m)})[0].Interface()
					toks = append(toks, "finite")
				} else {
					schema = rv.MethodByName("Safe").Call([]reflect.Value{reflect.ValueOf(m)})[0].Interface()
					toks = append(toks, "safe")
				}
				continue
			}
			if r.Chance(15) {
				meth := map[string]string{"lt": "Negative", "lte": "NonPositive", "gt": "Positive", "gte": "NonNegative"}[op]
				schema = rv.MethodByName(meth).Call([]reflect.Value{reflect.ValueOf(m)})[0].Interface()
				toks = append(toks, "cmp "+op+" int 0")
				continue
			}
			meth := hx.Pick(r, map[string][]string{"lt": {"Lt"}, "lte": {"Lte", "Max"}, "gt": {"Gt"}, "gte": {"Gte", "Min"}}[op])
			var bound any
			var btok string
			if k.float {
				b := randNum(r, f64k).(float64)
				if r.Chance(40) {
					b = toF64(in) + float64(r.Intn(3)-1)
				}
				bound, btok = b, numTok(f64k, b)
			} else {
				b := randNum(r, i64k).(int64)
				if r.Chance(50) {
					b = nearInt(in, int64(r.Intn(3)-1))
				}
				bound, btok = b, numTok(i64k, b)
			}
			schema = rv.MethodByName(meth).Call([]reflect.Value{reflect.ValueOf(bound), reflect.ValueOf(m)})[0].Interface()
			toks = append(toks, "cmp "+op+" "+btok)
		}
		if r.Chance(60) {
			for _, par := range numParents {
				rvp := reflect.ValueOf(par)
				if k.float {
					rvp.MethodByName("Gt").Call([]reflect.Value{reflect.ValueOf(1e300), reflect.ValueOf("decoy")})
					rvp.MethodByName("Lt").Call([]reflect.Value{reflect.ValueOf(-1e300), reflect.ValueOf("decoy")})
				} else {
					rvp.MethodByName("Gt").Call([]reflect.Value{reflect.ValueOf(int64(math.MaxInt64)), reflect.ValueOf("decoy")})
					rvp.MethodByName("MultipleOf").Call([]reflect.Value{reflect.ValueOf(int64(1<<40 + 1)), reflect.ValueOf("decoy")})
				}
			}
		}
		head := fmt.Sprintf("c01 %s %s %d %d %s", family, k.name, variant, nchecks, strings.Join(toks, " "))
		emit := func(tok string, v any, how string) {
			how += " " + ctor.name
			if family == "numN" && reflect.TypeOf(v) == reflect.TypeOf(in) {
				v = reflect.ValueOf(v).Convert(namedTypes[k.name]).Interface() // the schema's own (named) Go type
			} else if family == "numN" && reflect.TypeOf(v) == reflect.PointerTo(reflect.TypeOf(in)) {
				nv := reflect.New(namedTypes[k.name])
				nv.Elem().Set(reflect.ValueOf(v).Elem().Convert(namedTypes[k.name]))
				v = nv.Interface()
			}
			res, err, pm := parseVia(schema, reflect.ValueOf(v))
			obs := ""
			switch {
			case pm != "":
				obs = "panic:" + pm
			case err != nil:
				obs = classifyErr(err)
			default:
				d := derefAll(res)
				if family == "numN" && d != nil && reflect.TypeOf(d) == namedTypes[k.name] {
					d = underlying(d)
				}
				if reflect.TypeOf(d) == reflect.TypeOf(in) {
					obs = "ok:" + strings.Replace(numTok(k, d), " ", ":", 1)
				} else {
					obs = fmt.Sprintf("ok:?%T", res)
				}
			}
			o.Emit(strings.Join(strings.Fields(head+" | "+tok+" #"+how), " "), obs)
			o.Count(family + ":" + k.name + ":" + strings.SplitN(obs, ":", 3)[0])
			o.Count("ctor:" + ctor.name)
		}
		emit(numTok(k, in), in, "value")
		pv := reflect.New(reflect.TypeOf(in))
		pv.Elem().Set(reflect.ValueOf(in))
		emit(numTok(k, in)+" *", pv.Interface(), "pointer")
		if r.Chance(15) {
			ppv := reflect.New(pv.Type())
			ppv.Elem().Set(pv)
			emit("foreign", ppv.Interface(), "foreign pointer-to-pointer")
		}
		if r.Chance(50) {
			f := hx.Pick(r, fv)
			if f != nil && reflect.TypeOf(f) != reflect.TypeOf(in) {
				emit("foreign", f, fmt.Sprintf("foreign %T", f))
			}
		}
	}
}

var divisors = []float64{0.1, 0.25, 0.5, 1, 3, 2.5, -0.1, 1e-7, 1e-11, 3e-10, 0.01, 7, 1e300, 1e-300, 0.3}

// pickDivisor: a divisor from the fixed family, or one derived from the input so that the input sits at,
// just inside or just outside the ε-band around a multiple (val = k·d·(1 ± δ), δ around 1e-6).
func pickDivisor(r *hx.Rng, val float64) float64 {
	switch r.Intn(10) {
	case 0:
		return hx.Pick(r, []float64{0, math.Copysign(0, -1), math.Inf(1), math.Inf(-1), math.NaN()})
	case 1, 2, 3:
		if val != 0 && !math.IsInf(val, 0) && !math.IsNaN(val) {
			k := float64(1 + r.Intn(4))
			delta := hx.Pick(r, []float64{0, 1e-6, 0.999e-6, 1.001e-6, -1e-6, -0.999e-6, -1.001e-6, 1e-7, 1e-16, 0.5, 0.4999999})
			return val / k * (1 + delta)
		}
	}
	return hx.Pick(r, divisors)
}

// nearMultiple: an input at / next to / ε away from a multiple of a divisor of the fixed family.
func nearMultiple(r *hx.Rng) float64 {
	d := hx.Pick(r, divisors)
	k := float64(r.Intn(12) - 3)
	v := k * d
	switch r.Intn(8) {
	case 0:
		v = math.Nextafter(v, math.Inf(1))
	case 1:
		v = math.Nextafter(v, math.Inf(-1))
	case 2:
		v += math.Abs(d) * hx.Pick(r, []float64{1e-6, 0.999e-6, 1.001e-6, -1e-6, -0.999e-6, -1.001e-6})
	case 3:
		v += hx.Pick(r, []float64{1e-10, 0.99e-10, 1.01e-10, -1e-10, -0.99e-10})
	case 4:
		v += d / 2
	}
	return v
}

func toF64(v any) float64 {
	switch x := v.(type) {
	case float32:
		return float64(x)
	case float64:
		return x
	}
	return 0
}

func nearInt(v any, d int64) int64 {
	rv := reflect.ValueOf(v)
	if rv.CanInt() {
		x := rv.Int()
		if (d > 0 && x == math.MaxInt64) || (d < 0 && x == math.MinInt64) {
			return x
		}
		return x + d
	}
	u := rv.Uint()
	if u > math.MaxInt64-1 {
		return math.MaxInt64
	}
	return int64(u) + d
}

// ---------- enum / literal ----------

// dynTok: a Go value as (dynamic type, value) — what interface equality compares.
func dynTok(v any) string {
	switch x := v.(type) {
	case string:
		return "string:" + hexs(x)
	case myStr:
		return "main.myStr:" + hexs(string(x))
	case float64:
		return "float64:" + strconv.FormatUint(math.Float64bits(x), 10)
	case float32:
		return "float32:" + strconv.FormatUint(math.Float64bits(float64(x)), 10)
	}
	return strings.ReplaceAll(fmt.Sprintf("%T:%v", v, v), " ", "_")
}

func mkEnum[T comparable](vs []T, literal, ctorPtr bool, r *hx.Rng) (any, string) {
	switch {
	case literal && ctorPtr:
		if len(vs) == 1 {
			return gozod.LiteralPtr(vs[0]), "LiteralPtr"
		}
		return gozod.LiteralPtrOf(vs), "LiteralPtrOf"
	case literal:
		if len(vs) == 1 {
			return gozod.Literal(vs[0]), "Literal"
		}
		return gozod.LiteralOf(vs), "LiteralOf"
	case ctorPtr:
		if r.Chance(30) {
			return gozod.EnumSlicePtr(vs), "EnumSlicePtr"
		}
		return gozod.EnumPtr(vs...), "EnumPtr"
	}
	if r.Chance(30) {
		return gozod.EnumSlice(vs), "EnumSlice"
	}
	return gozod.Enum(vs...), "Enum"
}

// runEnums: enum / literal schemas over string, int, bool, float64 and mixed (`any`) member types, value and
// pointer constructors; inputs: members, non-members, equal values of other dynamic types (int64(1) vs 1, named
// string types), pointers to them.
func runEnums(o *hx.Out, r *hx.Rng, n int) {
	cands := []any{"a", "b", "", "c", "A", "aa", "z", "zz", 0, 1, 3, 7, -1, int64(1), int8(-1), uint(3), 1.0, 2.5, float32(1), true, false, myStr("a"), myInt(1),
		0.0, math.Copysign(0, -1), math.NaN(), math.Inf(1), 0.5}
	for it := 0; it < n; it++ {
		ctorPtr := r.Chance(30)
		literal := r.Chance(35)
		nvals := 1 + r.Intn(3)
		var schema any
		var ctor string
		var members []any
		family := hx.Pick(r, []string{"string", "string", "int", "int", "bool", "float64", "any"})
		switch family {
		case "string":
			vs := []string{hx.Pick(r, []string{"a", "b", ""}), hx.Pick(r, []string{"c", "A", "aa"}), "z"}[:nvals]
			schema, ctor = mkEnum(vs, literal, ctorPtr, r)
			for _, v := range vs {
				members = append(members, v)
			}
		case "int":
			vs := []int{r.Intn(5), 5 + r.Intn(5), -1}[:nvals]
			schema, ctor = mkEnum(vs, literal, ctorPtr, r)
			for _, v := range vs {
				members = append(members, v)
			}
		case "bool":
			vs := []bool{r.Bool(), true}[:min(nvals, 2)]
			schema, ctor = mkEnum(vs, literal, ctorPtr, r)
			for _, v := range vs {
				members = append(members, v)
			}
		case "float64":
			// IEEE equality: a listed NaN equals nothing, +0 and -0 are the same member
			vs := []float64{hx.Pick(r, []float64{1, 2.5, 0, math.Copysign(0, -1), math.NaN()}), hx.Pick(r, []float64{0.5, math.Inf(1), math.NaN()}), -1}[:nvals]
			schema, ctor = mkEnum(vs, literal, ctorPtr, r)
			for _, v := range vs {
				members = append(members, v)
			}
		default:
			vs := []any{hx.Pick(r, []any{1, "a", true}), hx.Pick(r, []any{"z", 2.5, int64(1)}), false}[:nvals]
			ctorPtr = false // a pointer to an `any` member is itself an `any`: not a C01 question
			schema, ctor = mkEnum(vs, literal, false, r)
			members = append(members, vs...)
		}
		var vals []string
		for _, m := range members {
			vals = append(vals, dynTok(m))
		}
		head := fmt.Sprintf("c01 enum %s %d %s", hx.B01(ctorPtr), len(vals), strings.Join(vals, " "))
		for j := 0; j < 4; j++ {
			v := hx.Pick(r, cands)
			if r.Chance(30) {
				v = hx.Pick(r, members)
			}
			tok := dynTok(v)
			asPtr := family != "any" && r.Chance(25)
			var in any = v
			if asPtr {
				p := reflect.New(reflect.TypeOf(v))
				p.Elem().Set(reflect.ValueOf(v))
				in = p.Interface()
				tok += "*"
			}
			res, err, pm := parseVia(schema, reflect.ValueOf(in))
			obs := ""
			switch {
			case pm != "":
				obs = "panic:" + pm
			case err != nil:
				obs = "rej:value"
			default:
				obs = "ok:" + dynTok(derefAll(res))
			}
			o.Emit(strings.Join(strings.Fields(head+" | "+tok+" #"+fmt.Sprintf("%s[%s] in=%T", ctor, family, in)), " "), obs)
			o.Count("enum:" + family + ":" + strings.SplitN(obs, ":", 2)[0])
		}
	}
}

func boolPred(k int, v bool) bool {
	switch k % 3 {
	case 0:
		return v
	case 1:
		return !v
	}
	return true
}

// runBools: Bool()/BoolPtr() with 0-2 refinements of a fixed family on bool, *bool, **bool and every foreign kind;
// the model is Prim.parse itself (type dispatch + the check engine), no coercion.
func runBools(o *hx.Out, r *hx.Rng, n int) {
	fv := foreignValues()
	for it := 0; it < n; it++ {
		variant := r.Intn(2)
		nref := r.Intn(3)
		var toks []string
		var schema any
		if variant == 0 {
			s := gozod.Bool()
			for pos := 0; pos < nref; pos++ {
				k := r.Intn(3)
				prev := s
				s = s.Refine(func(v bool) bool { return boolPred(k, v) }, fmt.Sprintf("m%d", pos))
				_ = prev.Refine(func(bool) bool { return false }, "decoy")
				toks = append(toks, "ref "+strconv.Itoa(k))
			}
			schema = s
		} else {
			s := gozod.BoolPtr()
			for pos := 0; pos < nref; pos++ {
				k := r.Intn(3)
				prev := s
				s = s.Refine(func(v *bool) bool { return v != nil && boolPred(k, *v) }, fmt.Sprintf("m%d", pos))
				_ = prev.Refine(func(*bool) bool { return false }, "decoy")
				toks = append(toks, "ref "+strconv.Itoa(k))
			}
			schema = s
		}
		family := "bool"
		if r.Chance(6) {
			// BoolTyped[myBool]: the named type is the schema's own Go type
			s := types.BoolTyped[myBool]()
			toks, variant = nil, 0
			for pos := 0; pos < nref; pos++ {
				k := r.Intn(3)
				s = s.Refine(func(v myBool) bool { return boolPred(k, bool(v)) }, fmt.Sprintf("m%d", pos))
				toks = append(toks, "ref "+strconv.Itoa(k))
			}
			schema, family = s, "boolN"
		} else if r.Chance(10) {
			if variant == 0 && nref == 0 {
				schema = types.BoolTyped[bool]()
			}
		}
		head := fmt.Sprintf("c01 %s %d %d %s", family, variant, nref, strings.Join(toks, " "))
		try := func(tok string, v any, how string) {
			res, err, pm := parseVia(schema, reflect.ValueOf(v))
			obs := ""
			switch {
			case pm != "":
				obs = "panic:" + pm
			case err != nil:
				obs = classifyErr(err)
			default:
				if b, ok := underlying(derefAll(res)).(bool); ok {
					obs = "ok:bool:" + strconv.FormatBool(b)
				} else {
					obs = fmt.Sprintf("ok:?%T", res)
				}
			}
			o.Emit(strings.Join(strings.Fields(head+" | "+tok+" #"+how), " "), obs)
			o.Count("bool:" + strings.SplitN(obs, ":", 2)[0] + ":" + strings.SplitN(how, " ", 2)[0])
		}
		b := r.Bool()
		if family == "boolN" {
			try("bool:"+strconv.FormatBool(b), myBool(b), "named-value")
			nb := myBool(b)
			try("bool:"+strconv.FormatBool(b)+"*", &nb, "named-pointer")
			try("foreign", b, "foreign bool")
			continue
		}
		try("bool:"+strconv.FormatBool(b), b, "bool")
		bb := b
		try("bool:"+strconv.FormatBool(b)+"*", &bb, "*bool")
		if r.Chance(30) {
			pb := &bb
			try("bool:"+strconv.FormatBool(b)+"**", &pb, "**bool")
		}
		if r.Chance(60) {
			f := hx.Pick(r, fv)
			if _, isB := f.(bool); f != nil && !isB {
				try("foreign", f, "foreign "+strings.ReplaceAll(fmt.Sprintf("%T", f), " ", ""))
			}
		}
	}
}

func main() {
	genMethods := flag.String("gen-methods", "", "write Gen/PrimMethods.lean here and exit")
	genCase := flag.String("gen-casetable", "", "write Gen/CaseTable.lean here and exit")
	repoRoot := flag.String("repo", "/repo", "library source tree (for -gen-methods)")
	c := hx.ParseFlags()
	if *genMethods != "" || *genCase != "" {
		if *genMethods != "" {
			src, err := genPrimMethods(*repoRoot)
			if err == nil {
				err = writeIfChanged(*genMethods, src)
			}
			if err != nil {
				fmt.Fprintln(os.Stderr, "gen-methods:", err)
				os.Exit(4)
			}
		}
		if *genCase != "" {
			if err := writeIfChanged(*genCase, genCaseTable()); err != nil {
				fmt.Fprintln(os.Stderr, "gen-casetable:", err)
				os.Exit(4)
			}
		}
		return
	}
	o, err := hx.NewOut(c.OutDir)
	if err != nil {
		fmt.Fprintln(os.Stderr, err)
		os.Exit(3)
	}
	r := hx.NewRng(c.Seed)
	ns, nn, ne, nb := 15000, 25000, 6000, 1500
	if c.Thorough() {
		ns, nn, ne, nb = 400000, 700000, 150000, 30000
	}
	runStrings(o, r, ns)
	runNums(o, r, nn)
	runEnums(o, r, ne)
	runBools(o, r, nb)
	if err := o.Close(map[string]any{"seed": c.Seed, "tier": c.Tier}); err != nil {
		fmt.Fprintln(os.Stderr, err)
		os.Exit(3)
	}
}
