/-
  Line handler for C18.
    c18 wire <site> <kind> <wrapper> <applicable> <configured>   → "<model> <spec>"
        model = Site.winner of the site's entry in the regenerated Gen.sites (FinalizeIssue applied to
                the sources the site passes), spec = firstConfigured (what the property demands)
    c18 silent <site> <kind> <wrapper> <applicable> <configured> <silent>   → the same with the sources in
        <silent> configured to answer "": model/spec are evaluated on configured \ silent
    c18 hist <site> <call,call,…>                               → the global configuration is reached by a HISTORY of
        SetConfig calls (R = SetConfig(nil); S<c><l> = SetConfig(&ZodConfig{CustomError: c, LocaleError: l}) with
        c ∈ - A B a b, l ∈ - L M l m; "-" = nil field, lower case = a map that answers ""); model = Config.run
        (SetConfig statement by statement) then the site's wiring, spec = Config.spec (last non-nil value per
        field since the last reset) then firstConfigured; the winner carries the tag of the map (gA, lM, d)
    c18 dep <site> <spec>                                       → issue-dependent maps: spec = the map kinds of c,s,p,g,l
        (K T N I O Z F E, - = not configured); model = Site.winnerDep (FinalizeIssue on the sources the site passes, applied
        to the features of the raw issue from Gen.leafSeen), spec = specDep (first configured source that has an answer)
    c18 reach <outer file:line> <fin file:line> <cell> <applicable> <source>   → leaf coverage of the static catalogue: the
        cell (constructor family x variant x input) resolved a message at these two calls; with only <source> configured the
        model = siteMessage on the sources neither static row drops, spec = the source
    c18 loc <locale> <kind>                                      → "<model> <spec>"
        model = the entry of the regenerated Gen.localeTable, spec = 1
-/
import Gozod.Model.Msg
import Gozod.Model.Config
import Gozod.Gen.MsgWiring
import Gozod.Gen.LocaleTable
import Gozod.Gen.IssueSites
namespace Gozod.Drv.C18
open Gozod.Msg

/-- `leaf@wrapper`; a two-level site `leaf@outer>inner` (thorough tier) is predicted from the entry of
    `leaf@inner`: an outer container must not change which sources reach the leaf's issue. -/
def findSite (id : String) : Option Site :=
  match id.splitOn "@" with
  | [leaf, w] =>
    let chain := w.splitOn ">"
    let inner := chain.getLast?.getD w
    -- a position of the chain that does not forward the context loses the per-parse map for everything below it
    let lost := chain.dropLast.any fun n =>
      match Gozod.Gen.positions.find? (fun p => p.name == n) with
      | some p => !p.forwardsCtx
      | none => false
    (Gozod.Gen.sites.find? (fun s => s.leaf == leaf && s.wrapper == inner)).map fun s =>
      if lost then { s with passes := { s.passes with parse := false }, passesSilentCheck := { s.passesSilentCheck with parse := false } } else s
  | _ => none

def setOf (s : String) : SrcSet := if s == "-" then SrcSet.empty else SrcSet.ofString s

open Gozod.Config in
def parseCall (t : String) : Option (Call String) :=
  match t.toList with
  | ['R'] => some .reset
  | ['S', c, l] =>
    let f : Char → Option String := fun x => if x == '-' then none else some (String.singleton x)
    some (.set (f c) (f l))
  | _ => none

def answers (m : Option String) : Bool :=
  match m with
  | some t => t.toList.all Char.isUpper
  | none => false

/-- winner under a stored global configuration: "g"/"l" + the tag of the answering map, or the base -/
def histWinner (passes : SrcSet) (base : String) (cfg : Gozod.Config.Cfg String) : String :=
  let w := siteMessage passes ⟨false, false, false, answers cfg.custom, answers cfg.locale⟩
  if w = "g" then "g" ++ cfg.custom.getD "" else if w = "l" then "l" ++ cfg.locale.getD "" else base

def all5 : SrcSet := ⟨true, true, true, true, true⟩

/-- the finalising row of the static table that contains `file:line` (the innermost call when calls nest) -/
def findRow (loc : String) : Option IssueSite :=
  match loc.splitOn ":" with
  | [file, ln] =>
    let n := ln.toNat?.getD 0
    let cands := Gozod.Gen.issueSites.filter fun s =>
      s.reaches && s.key.startsWith (file ++ ":") && s.line ≤ n && n ≤ s.lineEnd
    cands.foldl (fun best s =>
      match best with
      | none => some s
      | some b => if s.lineEnd - s.line < b.lineEnd - b.line then some s else some b) none
  | _ => none

def srcUnion (a b : SrcSet) : SrcSet :=
  ⟨a.check || b.check, a.schema || b.schema, a.parse || b.parse, a.custom || b.custom, a.locale || b.locale⟩

def handle : List String → String
  | ["wire", site, _kind, _wrapper, _appl, cfg] =>
    match findSite site with
    | some s => s!"{s.winner (setOf cfg)} {firstConfigured (setOf cfg)}"
    | none => "no-such-site -"
  | ["silent", site, _kind, _wrapper, _appl, cfg, silent] =>
    -- a source that answers "" is as good as not configured (finalize_silent_*)
    let eff := (setOf cfg).diff (setOf silent)
    match findSite site with
    | some s => s!"{s.winnerSilent (setOf cfg) (setOf silent)} {firstConfigured eff}"
    | none => "no-such-site -"
  | ["hist", site, h] =>
    match findSite site, (h.splitOn ",").mapM parseCall with
    | some s, some calls =>
      s!"{histWinner s.passes s.base (Gozod.Config.run calls)} {histWinner all5 "d" (Gozod.Config.spec calls)}"
    | _, _ => "bad-op -"
  | ["dep", site, spec] =>
    -- issue-dependent maps: the raw issue's features come from the regenerated `Gen.leafSeen`
    match findSite site with
    | some s =>
      match Gozod.Gen.leafSeen.lookup (s.leaf ++ "@" ++ s.wrapper) with
      | some f => s!"{s.winnerDep spec.toList f} {specDep spec.toList f}"
      | none => "no-such-leaf -"
    | none => "no-such-site -"
  | ["reach", outer, fin, _cell, _appl, src] =>
    -- leaf coverage: one source configured alone at a cell that reaches the static rows `outer` (first frame outside
    -- internal/issues) and `fin` (the caller of FinalizeIssue); model = FinalizeIssue on the sources neither row drops
    match findRow outer, findRow fin with
    | some ro, some rf =>
      let passes := (srcUnion ro.drops rf.drops).compl
      s!"{siteMessage passes (setOf src)} {firstConfigured (setOf src)}"
    | _, _ => "no-such-row -"
  | ["loc", loc, kind] =>
    match Gozod.Gen.localeRows.lookup loc, Gozod.Gen.localeKinds.idxOf? kind with
    | some row, some i =>
      match row[i]? with
      | some b => (if b then "1" else "0") ++ " 1"
      | none => "no-such-cell 1"
    | some _, none => "no-such-kind 1"
    | none, _ => "no-such-locale 1"
  | _ => "bad-op"

end Gozod.Drv.C18
