"""C16 — numeric bounds and multiples are exact."""
from . import common as C
from . import numgen

MANIFEST = dict(
   technique="Lean 4 proof (exactness of compareNumeric/cmpIntFloat/cmpInts/multipleOfInts over all of Int and all dyadic floats; the float epsilon rule bounded on both sides) + translator (go/ast over pkg/validate, internal/checks, types/integer.go, types/float.go -> Gen/NumDispatch.lean, regenerated on every run: switch tables, guards, constants, method wiring, and the BODIES of cmpInts/multipleOfInts/cmpFloats as terms of a small expression language with Go's int64/uint64 machine semantics; the model is proved equal to the interpreted tables) + differential correspondence of the model against pkg/validate and real numeric schemas",
   text="Theorems c16_cmp / c16_int_cmp / c16_int_float_cmp / c16_multiple_int prove, for every operand pair of every Go numeric kind, that the transcribed comparison and integer-multiple algorithms equal the mathematical relation (NaN unordered). C16M.c16_float_methods_exact / c16_int_methods_exact state it method by method over the regenerated method tables (Min, Max, Gt, Gte, Lt, Lte, Positive, Negative, NonNegative, NonPositive, Safe) for every input, negative zero, infinities and NaN included (c16_float_specials); C16M.c16_int_methods_multiple_exact does the same for MultipleOf / Step of the integer schemas (exact divisibility). The method tables record the bound ARGUMENT as an expression (the method's own parameter passed unchanged / a constant / raw text: checks.Gt(value+1) is raw text and fails methods_table). C16B.c16_big_cmp / c16_xcmp_exact / c16_big_multiple prove that the model of the *big.Int path (Model/NumBig.lean: xcmp, xmul - the definitions driver_c16 runs) decides the order / divisibility of the denoted integers of any size, and the exact order of a big integer against a float64. The model is tied to /repo (a) by translation: toNum_table, compareNumeric_table, cmpIntFloat_table, cmpOps_table, methods_table and C16A.cmpFloats_table / cmpInts_table / multipleOfInts_table (the regenerated bodies, interpreted, compute the model for every operand pair) are proved over what the translator extracts from the source, so a re-routed arm, an edited range constant, a changed sign test, a dropped conversion or a re-wired schema method changes a proof obligation; (b) by running both on exhaustive 8-bit (thorough: 16-bit) enumerations and a 2^k-boundary grid over all 169 kind pairs (uintptr included), directly and through real schemas, plus *big.Int operands and the BigInt schema (every comparison method, sign shorthands, MultipleOf; values and bounds around 2^53, 2^63, 2^64, 2^1024, 10^30) judged exactly, and named-type / complex operands through the coerce.ToFloat64 path.",
   note="Trusted: Lean kernel; axioms propext/Classical.choice/Quot.sound only; the Go harness, the translator harness/numgen and the comparer; Go float64 operators and math.Trunc being IEEE-754. Float MultipleOf (documented epsilon rule) is modelled exactly on dyadic floats (Model/NumFloat.lean) and held to C16F: never rejects an exact multiple (c16_float_multiple_complete), and whatever it accepts is within eps (up to one rounding: relative 2^-53, absolute 2^-1075) of a multiple (c16_float_multiple_sound_bound, remainder_is_distance) - not to exact divisibility. Big integers (*big.Int operands, the BigInt schema's Min/Max/Gt/Gte/Lt/Lte, sign shorthands and MultipleOf) are judged against the comparison / divisibility of the integers (spec oracle specXcmp / specXmul; the code compares them with big.Int.Cmp / big.Float.Cmp / big.Int.Rem since 4945548; the model of that path is Model/NumBig.lean (toBig / cmpBig / bigVsFloat / MultipleOf's big branch), proved exact in C16B and tied to the code by generated cases and the text frame of compareNumeric / MultipleOf, not by a translator of cmpBig's body). Complex and named-type operands follow the code's coerce.ToFloat64 path and have no specification (model observation only).",
   design="DESIGN.md §5 C16; notes/C16.md")

MODULES = ["Gozod.Proofs.C16", "Gozod.Proofs.C16Dispatch", "Gozod.Proofs.C16Float", "Gozod.Proofs.C16Arms", "Gozod.Proofs.C16FloatBound", "Gozod.Proofs.C16Methods", "Gozod.Proofs.C16Big"]
THEOREMS = [
    "Gozod.C16.c16_cmp", "Gozod.C16.c16_int_cmp", "Gozod.C16.c16_sign", "Gozod.C16.c16_float_cmp",
    "Gozod.C16.c16_nan_left", "Gozod.C16.c16_nan_right", "Gozod.C16.c16_neg_zero", "Gozod.C16.c16_zero_eq",
    "Gozod.C16.c16_int_float_cmp", "Gozod.C16.c16_multiple_int", "Gozod.C16.cmpInts_exact",
    "Gozod.C16.multipleOfInts_exact", "Gozod.C16.legacy_cmp_inexact", "Gozod.C16.legacy_multiple_eps",
    # over the tables regenerated from the source (Gen/NumDispatch.lean)
    "Gozod.C16D.toNum_table", "Gozod.C16D.toNum_types_known", "Gozod.C16D.compareNumeric_table", "Gozod.C16D.cmpIntFloat_table",
    "Gozod.C16D.cmpOps_table", "Gozod.C16D.c16_cmp_table", "Gozod.C16D.sign_ops", "Gozod.C16D.check_ctors",
    "Gozod.C16D.multipleOf_consts",
    "Gozod.C16D.frames", "Gozod.C16D.methods_table",
    # the float branch of MultipleOf (documented epsilon rule, Model/NumFloat.lean)
    "Gozod.C16F.c16_float_multiple_complete", "Gozod.C16F.c16_float_multiple_zero", "Gozod.C16F.c16_float_multiple_nan",
    "Gozod.C16F.float_multiple_not_exact", "Gozod.C16F.float_multiple_inf_divisor", "Gozod.C16F.zero_lt_eps",
    # cmpFloats / cmpInts / multipleOfInts: bodies translated clause by clause into Model/Arms.lean terms and interpreted
    "Gozod.C16A.cmpFloats_table", "Gozod.C16A.cmpInts_table", "Gozod.C16A.multipleOfInts_table",
    "Gozod.C16A.cmpInts_table_exact", "Gozod.C16A.multipleOfInts_table_exact",
    # the epsilon rule, soundness side: an accepted value is within eps (up to one rounding) of a multiple
    "Gozod.C16F.c16_float_multiple_sound_bound", "Gozod.C16F.remainder_is_distance", "Gozod.C16F.roundMag_lower", "Gozod.C16F.epsOf_pos",
    # method by method over the regenerated method tables: every float input (-0, +-Inf, NaN), every integer input
    "Gozod.C16M.c16_float_methods_exact", "Gozod.C16M.c16_int_methods_exact", "Gozod.C16M.c16_float_specials", "Gozod.C16M.specCmp_int",
    # round 4c: method-level MultipleOf / Step over the regenerated tables
    "Gozod.C16M.c16_int_methods_multiple_exact", "Gozod.C16M.c16_float_methods_multiple",
    # round 4c: big operands (*big.Int, uintptr, the BigInt schema) — Model/NumBig.lean is what driver_c16 runs on xcmp/xmul lines
    "Gozod.C16B.c16_big_cmp", "Gozod.C16B.c16_xcmp_exact", "Gozod.C16B.c16_xcmp_spec", "Gozod.C16B.c16_big_multiple",
    "Gozod.C16B.bigRemZero_exact", "Gozod.C16B.xcmp_num", "Gozod.C16B.xmul_num",
]

def key(op, impl, M, S):
    t = C.op_body(op).split(" ")
    how = C.op_comment(op).split(":")[0]
    if impl.startswith("panic"): return "panic:" + t[1]
    # c16 cmp <op> ka a kb b | c16 mul ka a kb b
    if t[1] in ("cmp", "xcmp"):
        ka, a, kb, b = t[3], t[4], t[5], t[6]
    else:
        ka, a, kb, b = t[2], t[3], t[4], t[5]
    fl = lambda k: "float" if k.startswith("f") else ("big" if k == "big" else ("ext" if k in ("nx", "cx") else "int"))
    big = ""
    if fl(ka) == "int" and fl(kb) == "int":
        big = ":above2^53" if max(abs(int(a)), abs(int(b))) > 2 ** 53 else ":small"
    return "%s:%s-vs-%s%s:%s" % (t[1], fl(ka), fl(kb), big, how)

def describe(op):
    t = C.op_body(op).split(" ")
    if t[1] in ("xcmp", "xmul") and "big" in t:
        return ("big <n> = a *big.Int; direct = validate.<Op>(value, bound) / validate.MultipleOf(value, divisor); "
                "schema:<variant>:false:<Method> = gozod.BigInt[Ptr]().<Method>(bound *big.Int).Parse(value *big.Int) (sign shorthands: bound 0)")
    return "see harness/c16.go; direct = validate.<Op>(value, bound); schema:<variant>:<ptrInput>:<Method> = gozod.<Kind>[Ptr]().<Method>(bound).Parse(value)"

def run(res):
    # translator: regenerate Gen/NumDispatch.lean from the working tree, then the proofs over it
    gok, gdetail, gdiff = numgen.regenerate(res, "C16", "NumDispatch.lean")
    if not gok:
        C.tie_broken(res, "translator C16/NumDispatch", gdetail)
    ok, detail = C.prove(res, MODULES, THEOREMS)
    if not ok:
        C.tie_broken(res, "proof Gozod.Proofs.C16 + C16Dispatch over the regenerated NumDispatch", detail + numgen.explain(gdiff))
    data, err = C.correspond(res, "C16")
    if data is None:
        C.tie_broken(res, "correspondence C16/compareNumeric", err)
        return res.finish()
    C.decide(res, "C16", data, key, "C16/compareNumeric+multipleOfInts", describe=describe)
    res.coverage["rule"] = ("exhaustive int8/uint8 inputs x int64 bounds in [-130,260] x 4 operators and divisors in [-17,17]; "
        "grid x grid (0, +-1, +-2^k, +-2^k+-1, type limits and neighbours, float neighbours of 2^k, +-0, +-Inf, NaN) over all 13x13 kind pairs (uintptr included) "
        "directly against pkg/validate; and through real schemas (value/pointer constructors, value/pointer inputs, "
        "Gt/Gte/Lt/Lte/Min/Max/Positive/Negative/NonNegative/NonPositive/MultipleOf/Step); xcmp/xmul: named-type, complex64/128 and *big.Int operands "
        "against every built-in kind, both orders, every operator and MultipleOf; BigInt schemas (value/pointer constructor) with a *big.Int bound next to the value, "
        "every method incl. sign shorthands and MultipleOf, values 2^e+-{0,1,2} for e up to 2000. distinct = distinct op lines.")
    res.assumptions += [
        "Go's float64 <, > and math.Trunc are IEEE-754 (F.cmp / truncInt model them on exact dyadic rationals)",
        "float MultipleOf keeps the documented epsilon rule and is outside C16's exact-divisibility clause; it is modelled exactly (Model/NumFloat.lean: fmod exact, product and difference rounded to nearest-even) and compared case by case (fmul lines: the model observation is the oracle)",
        "amd64: int/uint are 64-bit",
    ]
    return res.finish()
