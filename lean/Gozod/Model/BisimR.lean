/-
  Gozod.Model.BisimR — certificates over a restricted alphabet, for big patterns (IPv6).

  * `buildD`   the list of derivative states is computed by the kernel from a list of (parent, byte) pairs
               instead of being spelled out (the terms are big); the checker verifies it like any claim.
  * `checkR`   the bisimulation explored only over the bytes of the format's alphabet that are not in `B`;
               `bisim_sound_R` (Proofs/C20Bisim.lean): `accepts r0 s = S.run s` for every string without a byte of `B`.

  Core-only.
-/
import Gozod.Model.Bisim
namespace Gozod

/-! ## the derivative states of a big pattern, computed by the kernel instead of spelled out

  `buildD r0 parents`: state 0 is the pattern; state j+1 is `deriv b D[i]` for the j-th entry `(i, b)`.
  The checker verifies the resulting list like any other (`D` is only a claim). -/

def buildRev : List (Nat × Nat) → Nat → List Re → List Re
  | [], _, acc => acc.reverse
  | (i, b) :: ps, cnt, acc =>
    match nth acc (cnt - 1 - i) with
    | some r => buildRev ps (cnt + 1) (Re.deriv b r :: acc)
    | none => acc.reverse

def buildD (r0 : Re) (parents : List (Nat × Nat)) : List Re := buildRev parents 1 [r0]

/-! ## certificates over a restricted alphabet

  `checkR B L r0 cert`: the same bisimulation, explored only over the bytes of the format's alphabet that are
  not in `B`.  It proves `accepts r0 s = S.run s` for every string that contains no byte of `B`
  (`bisim_sound_R`).  `L` lists bytes outside the format's alphabet that the pattern mentions somewhere
  (a class of a branch that cannot be reached without a byte of `B`): for them the checker verifies directly
  that every reachable derivative dies. -/

/-- no byte of `B` occurs in `s` -/
def avoids (B : List Nat) (s : List Nat) : Bool := s.all (fun c => !B.elem c)

namespace Cert
variable {S E : Spec}

def alphaR (S : Spec) (B : List Nat) : List Nat := S.support.filter (fun c => !B.elem c)

def deadAt (r : Re) (c : Nat) : Bool := Re.isNone (Re.deriv c r)

def checkDfaR (sup A L : List Nat) (D : List Re) : List Re → List (List Nat) → Bool :=
  zipAll (fun r row => Re.covered sup r && zipAll (derivAt D r) A row && L.all (deadAt r))

def checkNodeR (A : List Nat) (c : Cert S E) (n : PNode S E) : Bool :=
  match nth c.D n.i, nth c.tbl n.i with
  | some r, some row =>
    (E.accO n.e || (Re.nullable r == S.accO n.q)) &&
      zipAll (fun b j => inTree c.tree ⟨j, S.stepO n.q b, E.gstep n.e b⟩) A row
  | _, _ => false

def checkR (B L : List Nat) (r0 : Re) (c : Cert S E) : Bool :=
  (match nth c.D 0 with | some r => Re.beq r r0 | none => false) &&
  L.all (fun b => !S.support.elem b) &&
  checkDfaR (S.support ++ (B ++ L)) (alphaR S B) L c.D c.D c.tbl &&
  inTree c.tree ⟨0, some S.init, some E.init⟩ &&
  c.tree.all (c.checkNodeR (alphaR S B))

end Cert
end Gozod
