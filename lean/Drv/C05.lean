import Gozod.Drv.Loop
import Gozod.Drv.C05
def main : IO Unit := Gozod.Drv.runTokens Gozod.Drv.C05.handle
