"""C03 — nil handling follows Default > Prefault > NonOptional > Optional/Nilable."""
import os, re, shutil
from . import common as C

GEN = os.path.join(C.LEAN, "Gozod", "Gen", "C03Tables.lean")
PMC_EXPECTED_FIRST = "if !isNilInput(input)"

def regenerate(res):
    """translator: harness/cmd/c03 `gen` (go/ast over REPO's sources) -> Gozod/Gen/C03Tables.lean, rewritten only when changed.
    Returns (error, hints): error = the translator could not run / find what it looks for; hints = which expectation of
    Proofs/C03.lean the new table falsifies (aims the failing-input search when the `decide` theorems stop checking)."""
    ok, out = C.build_harness("C03")
    if not ok:
        return "translator (harness/cmd/c03) does not build against the tree:\n" + out[-3000:], []
    d = os.path.join(C.BUILD, "run", "C03-gen-%d" % os.getpid())
    shutil.rmtree(d, ignore_errors=True); os.makedirs(d)
    rc, out = C.run([C.harness_bin("C03"), "-out", d, "gen", C.REPO], env=C.goenv(), timeout=300)
    if rc != 0:
        return "translator failed: " + out[-3000:], []
    new = open(os.path.join(d, "C03Tables.lean")).read()
    shutil.rmtree(d, ignore_errors=True)
    old = open(GEN).read() if os.path.exists(GEN) else ""
    if new != old:
        with open(GEN, "w") as f: f.write(new)
        res.notes.append("Gen/C03Tables.lean regenerated (content changed)")
    sites = re.findall(r'⟨"([^"]*)", "([^"]*)", "([^"]*)", "([^"]*)"⟩', new)
    hints = []
    for f, fn, field, kind in sites:
        allowed = field == "ReportInput" and ((f == "core/context.go" and kind in ("init", "read")) or (f == "internal/issues/finalize.go" and fn == "FinalizeIssue" and kind == "read"))
        if not allowed:
            hints.append("%s: %s %ss ParseContext.%s" % (f, fn, kind, field))
    types_ = re.findall(r'^  \("(Zod\w+)", \[', new, re.M)
    m = re.search(r"def harnessTypes : List String := \[(.*)\]", new)
    covered = set(re.findall(r'"(\w+)"', m.group(1))) if m else set()
    for t in types_:
        if t not in covered: hints.append("schema type %s declares modifier methods and is not in the harness table" % t)
    drops = re.findall(r'^  \("([\w-]+)", "([\w:]+)", "([\w,]*)"\)', new[new.find("def cfgDrops"):], re.M) if "def cfgDrops" in new else []
    for row, opn, fields in drops:
        hints.append("%s: %s() returns a schema without the receiver's %s" % (row, opn.split(":")[0], fields))
    res.coverage["config_drops_in_table"] = len(drops)
    res.coverage["schema_types_in_package"] = len(types_)
    res.coverage["schema_types_in_harness_table"] = len(covered)
    res.coverage["parsecontext_sites"] = len(sites)
    return None, hints

MANIFEST = dict(
   technique="Lean 4 proof by induction over modifier histories (internals = abstraction of the history; processModifiersCore transcribed), over chains of Transform/Pipe wrappers (ZodTransform.Parse / ZodPipe.Parse transcribed, callback log included), over sequences of parses through one explicit ParseContext (context threaded as state; outcome independent of the context's history) and, for the last clause, over histories applied to a schema with an arbitrary type-local configuration and an arbitrary value parser (frame theorem) + translators regenerating Gen/C03Tables.lean on every run (go/ast: ParseContext fields and every read/write site of its state, processModifiersCore's branch skeleton, the schema types declaring modifier methods vs the harness table; behavioural, by reflection on real schemas: which configuration fields each of the twelve modifier methods of each of the 70 table rows carries), decided over the whole table + exhaustive short / random longer histories applied by reflection to real schemas of all 54 schema types and 12 constructor variants, bare, under every wrapper chain up to length 3 with logging sentinel callbacks, in sequences through one caller-supplied context (Parse/ParseAny/MustParse/StrictParse) and as (possibly wrapped) children of one tuple/object/array parse, judged by the history-only specification",
   text="c03_history proves at full strength, for every history (any length, any order) of Optional/Nilable/Nullish/NonOptional/Default/DefaultFunc/Prefault/PrefaultFunc with Overwrite and Refine calls in between, that the engine's nil outcome is the documented one (default unchecked > prefault validated > nonoptional error > nil > type error); c03_legacy_witness_* prove that the nil pass as it was before fixes 4f7c1d7 / 7db47f1 (default checked when an overwrite is attached, refinements run on an accepted nil) falsifies the statement. c03_nonnil_frame proves the last clause: for every type, every value parser and type-local configuration, every start state and context and EVERY history, a non-nil input is validated exactly as by the schema without the modifiers (verdict and value; the context is left as it was). In the MODEL the non-nil path does not read the modifier state by construction (processModifiers_nonNil and ctxStepX_nonNil are rfl), so the theorem reduces to 'the configuration is not dropped'; that the REAL non-nil path does not read it either is a table fact, decided on every run over the go/ast extraction of internal/engine: c03_pmc_nonnil_returns_first (processModifiersCore's first statement is `if !isNilInput(input) { return nil, false, nil }`, no initialiser, no else, and neither it nor isNilInput mentions internals, ctx or expectedType) and c03_modifier_reads_off_nonnil_path (every read of a modifier field in internal/engine lies after that return, under an isNilInput(input) conjunct, in resolveDefault — called by processModifiersCore only — or in the schema-building MergeInternalsState; the ONE read on a non-nil path is listed: ParsePrimitiveStrict's fast-path test, which only chooses between returning the input at once and the general path — their agreement is decided by the run's StrictParse steps). The type-local non-nil paths of package types are tied by the run (val lines: every row's non-nil inputs against the unmodified schema). The frame theorem's other premise — no modifier method rebuilds a schema without part of its type's configuration — is c03_cfg_drops_as_modelled, decided over the table regenerated by reflection on the real schemas of every row (c03_legacy_frame_witness_record/_struct: the table before fixes 66ed2d6 / ef151cb falsifies the statement). For the schema wrapped in any chain of .Transform(f_i) / .Pipe(target_i) calls, c03_wrapped_default proves that with a default set a nil input returns what the bare schema returned and calls no transform function however many are chained (pipe targets, being second schemas, receive the default: C10's reading of Pipe), c03_wrapped_plain that without a default and for every non-nil input each wrapper runs exactly once, in order, and c03_wrapped combines them with the history theorem into the full statement over result and callback log for every history and every chain. c03_ctx_history proves, with the ParseContext threaded as explicit state, that after any sequence of earlier parses through a context in any initial state the next parse yields what it yields through a fresh context, and c03_ctx_seq that every parse of every such sequence meets the statement for its own history and input. The models are tied to /repo by applying every history up to length 2 (thorough: 3) plus random longer ones to real schemas of 70 table rows through reflection: nil / typed-nil inputs classified by sentinel default/prefault values, every non-nil input of the row (including inputs whose verdict depends on the key schema, Partial, Strict, catch-all, rest, word lists, coercion) compared with the unmodified schema, the type's own internals compared field by field after every history; wrapped cases observed as result term plus callback log; sequences of 1-5 parses (StrictParse steps judged by the same specification) through one context, each step also through a fresh context and the context's fields compared after every step; the same steps as children (bare or under a wrapper chain) of one tuple / object / array.",
   note="Round 4c (audit A M10/LOW): the last clause's rfl lemmas are now backed by the two table theorems above (translator: pmcFirst*, isNilInputIdents, modifierReads, resolveDefaultCallers in Gen/C03Tables.lean); pmcBranchesExpected follows /repo 6d3c407 (the final statement hands the schema on for its own message; error class unchanged); the driver's 'echo the implementation' branches for ownNilPath = 1 are deleted — such a line is refused (bad-op), so one harness line can no longer turn model = impl. Trusted: Lean kernel; axioms propext/Classical.choice/Quot.sound at most; harness + comparer + the translators (context write detection is syntactic, cross-checked by per-step context snapshots; configuration comparison covers exported fields of the type's own internals, member schemas by identity). Values are abstracted to valid/invalid w.r.t. the schema's own check; which non-nil inputs depend on the configuration is declared per row (a wrong declaration shows as model drift). When both a value default and a function default are set the spec accepts either (lenient reading). Overwrite callbacks still run on a default and on an accepted nil (pinned by the library's tests; modelled: overwriteRunsOnDefault, c03_witness_overwrite_on_default; not observable with the identity overwrite the harness attaches). Pipe targets and transform callbacks always succeed; array children show verdicts only (an array returns its input slice). Callback arguments are compared up to numeric representation and nil-pointer vs zero value (a type's Transform wrapper dereferences).",
   design="DESIGN.md §5 C03")

MODULES = ["Gozod.Proofs.C03"]
THEOREMS = ["Gozod.C03." + t for t in [
    "dv_applyAll", "df_applyAll", "pv_applyAll", "pf_applyAll", "nonOptional_applyAll", "optnil_applyAll",
    "hasOverwrite_applyAll", "c03_history", "c03_outcome_reads_only_modifiers",
    "c03_legacy_witness_default_checked", "c03_default_runs_no_check_partial", "c03_witness_overwrite_on_default",
    "c03_legacy_witness_refine_on_nil", "c03_legacy_witness_refine_on_nil_int",
    "internals_wrapFrom", "internals_wrap", "parse_wrapFrom_plain", "parse_wrapFrom_default",
    "c03_wrapped_plain", "c03_wrapped_default", "c03_default_skips_all_transforms", "pipeCalls_noPipe", "pipeCalls_only_pipes",
    "hasDefault_applyAll", "pipeCalls_eq_spec", "c03_wrapped", "c03_wrapped_nonnil",
    "step_ctx", "step_eq_parseBase", "runSeq_ctx", "runSeq_results", "c03_ctx_history", "c03_ctx_history_discriminates",
    "specStep_parseBase", "c03_ctx_seq",
    "c03_ctx_fields_as_modelled", "c03_ctx_never_written", "c03_ctx_state_read_only_for_messages", "c03_pmc_structure_as_transcribed",
    "c03_pmc_nonnil_returns_first", "c03_modifier_reads_off_nonnil_path",
    "c03_harness_covers_every_schema_type",
    "applyAllC_i", "applyAllC_cfg", "processModifiers_nonNil", "ctxStepX_nonNil", "c03_nonnil_frame_of", "c03_nonnil_frame",
    "c03_frame_nil_side", "c03_legacy_frame_witness_record", "c03_legacy_frame_witness_struct",
    "c03_cfg_drops_as_modelled", "c03_cfg_table_covers_modifiers"]]

# harness table entries that run the same Parse function as another entry: one class name for one defect
# (ZodLazyTyped.Parse is `return z.ZodLazy.Parse(input, ctx...)`, types/lazy.go)
SAME_PARSE = {"lazyany": "lazy"}

def type_of_row(row):
    """constructor-variant rows (record-enum, struct-partial, object-strict, …) are the same schema type, hence the same
    Parse and the same modifier methods, as the plain row: one class name for one defect"""
    row = SAME_PARSE.get(row, row)
    return row.split("-")[0]

def cls(s):
    s = s.strip()
    for a, b in (("err:notzod", "notzod-error"), ("default", "default"), ("prefault", "prefault"), ("err:checks", "checks-error"), ("err:nonoptional", "nonoptional"),
                 ("err:type", "type-error"), ("err:custom", "custom-error"), ("nil", "nil")):
        if s.startswith(a): return b
    return re.sub(r"[^A-Za-z0-9:._-]+", "_", s)[:40]

def base_of(obs):
    """Wrapped observation '<ok:term|err:class> log=…' → the bare schema's outcome inside it."""
    r = obs.strip().split(" ")[0]
    if r.startswith("ok:"):
        r = r[3:]
        while re.match(r"f\d+\(", r) and r.endswith(")"):
            r = r[r.index("(") + 1:-1]
    return r

def seq_key(op, impl, M, S):
    """cseq / csib: the class of the first deviating step. A step whose outcome through the shared context differs from
    the same parse through a fresh context is a context-history dependence; otherwise the deviation is the bare
    schema's own and keeps the bare line's class name."""
    body = C.op_body(op)
    kind = body.split(" ")[1]
    segs = body.split(" / ")[1:]
    tys = [type_of_row(t) for t in C.op_comment(op).split(" ")[0].split(",")]
    if " ctx=" not in impl: return "ctx:%s-unreadable-observation" % kind
    isteps, ictx = impl.rsplit(" ctx=", 1)
    if "!fresh" in isteps: return "ctx:outcome-depends-on-context-history"
    if "!ctx-changed" in isteps: return "ctx:context-left-changed"
    if ictx != "same": return "ctx:context-left-changed"
    a = isteps.split(" / ")
    s = (S or M).rsplit(" ctx=", 1)[0].split(" / ")
    m = M.rsplit(" ctx=", 1)[0].split(" / ")
    j = next((x for x in range(len(a)) if x >= len(s) or a[x] != s[x]), None)
    if j is None:
        j = next((x for x in range(len(a)) if x >= len(m) or a[x] != m[x]), None)
        if j is None: return "ctx:%s-context-state" % kind
        return "%s:%s-model-differs" % (tys[j] if j < len(tys) else "?", kind)
    ty = tys[j] if j < len(tys) else "?"
    toks = segs[j].split(" ") if j < len(segs) else []
    ops, inp = toks[5:], (toks[1] if len(toks) > 1 else "?")
    ij, sj, mj = a[j], (s[j] if j < len(s) else "?"), (m[j] if j < len(m) else "?")
    if ij.startswith("panic"): return "%s:panic" % ty
    if ty == "record" and any(o in ("Optional", "Nilable", "Nullish") for o in ops):
        return "record:pointer-variant-conversion"
    if inp in ("ok", "bad"): return "%s:nonnil-input-diff-verdict" % ty
    exp = sj[len("spec-rejects:expected "):] if sj.startswith("spec-rejects:expected ") else sj
    if ij == mj and ij in ("err:checks", "err") and "Overwrite" in ops and exp.startswith("default"):
        return "%s:default-checked-when-overwrite-attached" % ty
    if ij == mj and ij in ("err:custom", "err") and "Refine" in ops:
        return "%s:refinement-runs-on-nil" % ty
    got = "success" if ij == "ok" else cls(ij)
    return "%s:%s-instead-of-%s" % (ty, got, cls(exp.split("|")[0]))

def key(op, impl, M, S):
    body = C.op_body(op).split(" ")
    if body[1] in ("cseq", "csib"): return seq_key(op, impl, M, S)
    ty = type_of_row(C.op_comment(op).split(" ")[0])
    ops = {"nil": body[5:], "val": body[6:], "cfg": body[3:], "wnil": body[6:], "wval": body[4:]}.get(body[1], body[2:])
    if impl.startswith("panic"): return "%s:panic" % ty
    if body[1] == "cfg":
        # a modifier method returned a schema without (part of) the receiver's type-local configuration
        drop = [o for o in ops if o == "NonOptional"]
        return "%s:%s-drops-config" % (ty, "nonoptional" if drop and impl == M else "modifier")
    if body[1] == "val":
        if impl.startswith("table:"): return "table:%s:%s" % (C.op_comment(op).split(" ")[0], impl.split(" ")[0][6:])
        # model = impl = diff: the deviation the model of today's code predicts (a dropping method in the history and an
        # input whose verdict depends on the configuration)
        if impl == M and impl.startswith("diff") and "NonOptional" in ops:
            return "%s:nonoptional-drops-config" % ty
        return "%s:nonnil-input-%s" % (ty, impl.split(" ")[0].replace(":", "-"))
    if body[1] == "wval":
        # same class names as the bare lines: does the modified schema differ from the base in verdict / value / callbacks
        r, b = impl.split(" ")[0], (impl.split(" base=") + ["?"])[1]
        if b != "same":
            kind = "verdict" if r.startswith("ok:") != b.startswith("ok:") else ("value" if r != b.split("_log=")[0] else "callbacks")
            return "%s:nonnil-input-diff-%s" % (ty, kind)
        return "%s:wrapped-nonnil-%s" % (ty, "rejected" if r == "err" else "callbacks")
    exp = (S or "")[len("spec-rejects:expected "):] if (S or "").startswith("spec-rejects:expected ") else (S or "?")
    if body[1] == "wnil":
        # a deviation of the bare schema seen through the wrappers keeps the bare schema's class name
        # (when several outcomes are admissible, the one closest to what the implementation's bare schema did)
        ib, exps = base_of(impl), exp.split(" | ")
        eb = base_of(next((x for x in exps if base_of(x) == ib), exps[0]))
        if ty == "record" and any(o in ("Optional", "Nilable", "Nullish") for o in ops):
            return "record:pointer-variant-conversion"
        if ib == "err:checks" and "Overwrite" in ops and eb.startswith("default") and impl == M:
            return "%s:default-checked-when-overwrite-attached" % ty
        if ib == "err:custom" and "Refine" in ops and impl == M:
            return "%s:refinement-runs-on-nil" % ty
        if cls(ib) != cls(eb):
            return "%s:%s-instead-of-%s" % (ty, cls(ib), cls(eb))
        # the bare outcome is the documented one: the deviation is in what the wrappers did
        log = impl.split(" log=")[1] if " log=" in impl else "?"
        calls = [] if log == "-" else log.split(";")
        res = impl.split(" ")[0]
        if eb.startswith("default"):
            if res.startswith("ok:f") or any(c.startswith("f") for c in calls):
                return "wrapped:transform-ran-on-default"
            return "wrapped:default-other"
        return "wrapped:%s-callbacks-differ" % cls(eb)
    if ty == "record" and any(o in ("Optional", "Nilable", "Nullish") for o in ops):
        return "record:pointer-variant-conversion"
    if impl == M and impl == "err:checks" and "Overwrite" in ops and exp.startswith("default"):
        return "%s:default-checked-when-overwrite-attached" % ty
    if impl == M and impl == "err:custom" and "Refine" in ops:
        return "%s:refinement-runs-on-nil" % ty
    return "%s:%s-instead-of-%s" % (ty, cls(impl), cls(exp.split("|")[0]))

def describe(op):
    return "harness/cmd/c03: schema type after '#'; ops applied left to right by reflection (':v'/':i' = argument that does / does not satisfy the schema's check); in=nil|nilptr. wnil/wval: then wrapped in the chain <stack> (T = .Transform(f_i), P = .Pipe(logging target_i), innermost first, i = position); observation = result term + callback log"

def run(res):
    err, hints = regenerate(res)
    if err:
        C.tie_broken(res, "translator C03 (go/ast -> Gen/C03Tables.lean)", err)
        return res.finish()
    ok, detail = C.prove(res, MODULES, THEOREMS)
    if not ok:
        # the failing-input search is the correspondence run below (its cseq/csib classes exercise exactly what the
        # table theorems are the premise of); the hints say which extracted fact changed
        C.tie_broken(res, "proof Gozod.Proofs.C03", ("regenerated table no longer meets the expectation: " + "; ".join(hints) + "\n\n" if hints else "") + detail)
    data, err = C.correspond(res, "C03", feed_impl=True)
    if data is None:
        C.tie_broken(res, "correspondence C03/processModifiersCore", err)
        return res.finish()
    C.decide(res, "C03", data, key, "C03/processModifiersCore+modifier-methods+ZodTransform/ZodPipe", describe=describe)
    res.coverage["rule"] = ("every history of length <=2 (thorough <=3) over 14 ops (4 flags, Default/DefaultFunc/Prefault/PrefaultFunc x valid/invalid argument, "
        "identity Overwrite, always-true Refine) plus random histories up to length 5, x 58 table rows covering all 54 schema types of package types that declare modifier methods (string, stringptr, int, int8, int64ptr, uint16, float64, float32, bool, "
        "slice, object, record, array, enum, literal, any, unknown, union, intersection, discriminated union, lazy, lazyany, tuple, set, map, xor, struct, time, stringbool, email, never, nil, complex, bigint, file, function, iso and 21 string formats) x inputs {nil, typed nil pointer, valid, invalid, and the row's further non-nil inputs whose verdict depends on the configuration}; after every history the type's own internals are compared field by field with the unmodified schema's (cfg lines); "
        "each applicable history additionally under chains of .Transform(f_i)/.Pipe(logging target_i) (every chain of length <=3 for histories of length <=1 (thorough <=2), every chain of length <=2 for the other exhaustive histories, "
        "two random chains per random history), observing result term and callback log; "
        "cseq: every ordered pair of (8 types (thorough 16) x 13 histories of length <=1) nil parses through one fresh context + 12000 (thorough 150000) random sequences of 1-5 parses "
        "(random row, history <=3, input, entry point Parse/ParseAny/MustParse/StrictParse) through one context in one of 5 caller-made states, every step re-run through a fresh context; "
        "csib: the same pairs as items of one tuple + 8000 (100000) random tuples/objects/arrays of 2-4 children, a third of the nil children under a random wrapper chain, with and without an explicit context. distinct = distinct op lines.")
    res.assumptions += ["sentinel default/prefault values identify the source of a returned value", "lenient reading when both default kinds are set",
                        "'default without running checks or transforms' speaks about the schema owning the default (its checks and Transform callbacks); a Pipe target is a second schema and receives whatever its source stage returns, a default included (C10's definition of Pipe)",
                        "callback arguments compared up to numeric representation and nil pointer vs zero value",
                        "a container's error tells a child's nonoptional error from its type error only by message text, so both count as invalid_type there"]
    return res.finish()
