// C03 harness, round 4b: the LAST clause of the statement — "a non-nil input is validated exactly as by the same schema
// without those modifiers".
//
//   - constructor-variant rows (`variantEntries`): the same schema types built with their type-local configuration set
//     (record with an exhaustive / pattern key schema, loose, partial; partial / partially required struct; strict,
//     catch-all, partial object; tuple with a rest schema; string-bool with its own word lists; coercing string), each
//     with further non-nil inputs whose verdict DEPENDS on that configuration (`dep` inputs);
//   - `cfg` lines: after every history of length <= 2 the exported fields of the schema's own `internals` struct (all but
//     the embedded core.ZodTypeInternals, which holds the modifier state) are compared with the unmodified schema's, by
//     reflection: a modifier method that rebuilds the internals without one of them has changed the schema a non-nil input
//     is validated by. The same comparison, for the single-op histories, is what `gen` writes into Gen/C03Tables.lean
//     (`cfgDrops`), so that the Lean statement `c03_cfg_drops_as_modelled` is about the whole (row x op) table.
package main

import (
	"fmt"
	"reflect"
	"regexp"
	"sort"
	"strings"

	"github.com/kaptinlin/gozod"
	"github.com/kaptinlin/gozod/core"
	"github.com/kaptinlin/gozod/types"

	"verifharness/hx"
)

type recP struct {
	Name string `gozod:"min=3"`
	Age  int    `gozod:"min=1"`
}

// nonNil is one further non-nil input of a row: ok = the unmodified schema accepts it; dep = its verdict depends on the
// row's type-local configuration (so it flips when a modifier drops that configuration).
type nonNil struct {
	v   any
	ok  bool
	dep bool
}

// nonNilA: auto = ok is not declared: the unmodified schema's verdict is taken as it comes (zero-valued inputs).
type nonNilA struct {
	nonNil
	auto bool
}

func mapsSI(vs ...int) [4]any {
	var out [4]any
	for i, v := range vs {
		out[i] = map[string]int{"a": v, "b": v}
	}
	return out
}

func variantEntries() []entry {
	ab := func(v int) map[string]any { return map[string]any{"a": v, "b": v} }
	obj := func() *gozod.ZodObject[map[string]any, map[string]any] {
		return gozod.Object(core.ObjectSchema{"a": gozod.Int().Min(10)})
	}
	objV := [4]any{map[string]any{"a": 11}, map[string]any{"a": 12}, map[string]any{"a": 13}, map[string]any{"a": 14}}
	objI := [4]any{map[string]any{"a": 1}, map[string]any{"a": 2}, map[string]any{"a": 3}, map[string]any{"a": 4}}
	return []entry{
		// an exhaustive key schema: every key required, no other key admitted
		{name: "record-enum", kind: "record", light: true, rule: "nilable",
			mk:    func() any { return gozod.Record[string, int](gozod.Enum("a", "b"), gozod.Int().Min(10)) },
			valid: mapsSI(11, 12, 13, 14), invalid: mapsSI(1, 2, 3, 4),
			okIn: map[string]int{"a": 50, "b": 50}, badIn: map[string]int{"a": 5, "b": 50},
			more: []nonNil{{map[string]int{"a": 50}, false, true}, {map[string]int{"a": 50, "b": 50, "zzz": 50}, false, true}}},
		// a key schema with a check of its own
		{name: "record-keymin", kind: "record", light: true, rule: "nilable",
			mk:      func() any { return gozod.Record[string, int](gozod.String().Min(2), gozod.Int().Min(10)) },
			valid:   [4]any{map[string]int{"kk": 11}, map[string]int{"kk": 12}, map[string]int{"kk": 13}, map[string]int{"kk": 14}},
			invalid: [4]any{map[string]int{"kk": 1}, map[string]int{"kk": 2}, map[string]int{"kk": 3}, map[string]int{"kk": 4}},
			okIn:    map[string]int{"kk": 50}, badIn: map[string]int{"kk": 5},
			more:    []nonNil{{map[string]int{"k": 50}, false, true}}},
		// loose: keys the key schema does not match pass through unvalidated
		{name: "record-loose", kind: "record", light: true, rule: "nilable",
			mk:      func() any { return types.LooseRecord(gozod.String().Regex(regexp.MustCompile(`^S_`)), gozod.Int().Min(10)) },
			valid:   [4]any{map[string]any{"S_a": 11}, map[string]any{"S_a": 12}, map[string]any{"S_a": 13}, map[string]any{"S_a": 14}},
			invalid: [4]any{map[string]any{"S_a": 1}, map[string]any{"S_a": 2}, map[string]any{"S_a": 3}, map[string]any{"S_a": 4}},
			okIn:    map[string]any{"S_a": 50}, badIn: map[string]any{"S_a": 5},
			more:    []nonNil{{map[string]any{"S_a": 50, "other": "kept"}, true, true}}},
		// partial: an exhaustive key schema whose keys may be missing (the flag lives in the Bag, which Clone copies)
		{name: "record-partial", kind: "record", light: true, rule: "nilable",
			mk:    func() any { return types.PartialRecord(gozod.Enum("a", "b"), gozod.Int().Min(10)) },
			valid: [4]any{ab(11), ab(12), ab(13), ab(14)}, invalid: [4]any{ab(1), ab(2), ab(3), ab(4)},
			okIn: ab(50), badIn: ab(5),
			more: []nonNil{{map[string]any{"a": 50}, true, false}, {map[string]any{"a": 50, "zzz": 50}, false, true}}},
		// partial struct: zero-valued fields are not validated
		{name: "struct-partial", kind: "structp", light: true, rule: "nilable",
			mk:      func() any { return gozod.FromStruct[recP]().Partial() },
			valid:   [4]any{recP{"dvOK", 1}, recP{"dfOK", 1}, recP{"pvOK", 1}, recP{"pfOK", 1}},
			invalid: [4]any{recP{"d", 1}, recP{"f", 1}, recP{"p", 1}, recP{"q", 1}},
			okIn:    recP{"hello", 2}, badIn: recP{"x", 2},
			more:    []nonNil{{recP{}, true, true}, {recP{Name: "hello"}, true, true}, {recP{Age: 3}, true, true}}},
		// partial with one field required again
		{name: "struct-required", kind: "structp", light: true, rule: "nilable",
			mk:      func() any { return gozod.FromStruct[recP]().Partial().Required([]string{"Name"}) },
			valid:   [4]any{recP{"dvOK", 1}, recP{"dfOK", 1}, recP{"pvOK", 1}, recP{"pfOK", 1}},
			invalid: [4]any{recP{"d", 1}, recP{"f", 1}, recP{"p", 1}, recP{"q", 1}},
			okIn:    recP{"hello", 2}, badIn: recP{"x", 2},
			more:    []nonNil{{recP{Name: "hello"}, true, true}, {recP{Age: 3}, false, false}}},
		{name: "object-strict", kind: "plain", light: true, rule: "nilable",
			mk:    func() any { return obj().Strict() },
			valid: objV, invalid: objI, okIn: map[string]any{"a": 50}, badIn: map[string]any{"a": 5},
			more: []nonNil{{map[string]any{"a": 50, "x": 1}, false, true}}},
		{name: "object-catchall", kind: "plain", light: true, rule: "nilable",
			mk:    func() any { return obj().Passthrough().WithCatchall(gozod.String().Min(3)) },
			valid: objV, invalid: objI, okIn: map[string]any{"a": 50}, badIn: map[string]any{"a": 5},
			more: []nonNil{{map[string]any{"a": 50, "x": "long"}, true, false}, {map[string]any{"a": 50, "x": "s"}, false, true}}},
		{name: "object-partial", kind: "plain", light: true, rule: "nilable",
			mk:    func() any { return obj().Partial() },
			valid: objV, invalid: objI, okIn: map[string]any{"a": 50}, badIn: map[string]any{"a": 5},
			more: []nonNil{{map[string]any{}, true, true}}},
		{name: "tuple-rest", kind: "plain", light: true, rule: "nilable",
			mk: func() any {
				return types.TupleWithRest([]core.ZodSchema{gozod.String().Min(3)}, gozod.Int().Min(10))
			},
			valid:   [4]any{[]any{"dvOK", 11}, []any{"dfOK", 11}, []any{"pvOK", 11}, []any{"pfOK", 11}},
			invalid: [4]any{[]any{"d", 11}, []any{"f", 11}, []any{"p", 11}, []any{"q", 11}},
			okIn:    []any{"hello"}, badIn: []any{"x"},
			more:    []nonNil{{[]any{"hello", 50, 60}, true, true}, {[]any{"hello", 5}, false, true}}},
		{name: "stringbool-words", kind: "plain", light: true, rule: "nilable",
			mk:    func() any { return gozod.StringBool(&types.StringBoolOptions{Truthy: []string{"yes"}, Falsy: []string{"no"}}) },
			valid: [4]any{true, true, false, false}, invalid: [4]any{true, true, false, false}, okIn: "yes", badIn: "true",
			more: []nonNil{{"no", true, true}},
			only: append([]string{"Default:v"}, flagOps...)},
		{name: "string-coerce", kind: "plain", light: true, rule: "ptrTy",
			mk:    func() any { return types.CoercedString().Min(3) },
			valid: strs("dvOK", "dfOK", "pvOK", "pfOK"), invalid: strs("d", "f", "p", "q"), okIn: 12345, badIn: 7,
			more: []nonNil{{"hello", true, false}, {true, true, true}}},
	}
}

// ---- the schema's own configuration, by reflection ------------------------------------------------------------------

// internalsOf: the struct behind the schema's (unexported) `internals` pointer.
func internalsOf(s any) (reflect.Value, bool) {
	v := reflect.ValueOf(s)
	for v.IsValid() && v.Kind() == reflect.Pointer {
		if v.IsNil() {
			return reflect.Value{}, false
		}
		v = v.Elem()
	}
	if !v.IsValid() || v.Kind() != reflect.Struct {
		return reflect.Value{}, false
	}
	var f reflect.Value
	if hx.Safely(func() { f = v.FieldByName("internals") }) != "" || !f.IsValid() {
		return reflect.Value{}, false
	}
	for f.Kind() == reflect.Pointer {
		if f.IsNil() {
			return reflect.Value{}, false
		}
		f = f.Elem()
	}
	return f, f.Kind() == reflect.Struct
}

// sig: a comparable rendering of a (possibly unexported, hence not interfaceable) value: scalars by value, schemas and
// other references by identity, maps with scalar keys by content.
func sig(v reflect.Value, depth int) string {
	if !v.IsValid() {
		return "invalid"
	}
	switch v.Kind() {
	case reflect.Bool:
		return fmt.Sprint(v.Bool())
	case reflect.Int, reflect.Int8, reflect.Int16, reflect.Int32, reflect.Int64:
		return fmt.Sprint(v.Int())
	case reflect.Uint, reflect.Uint8, reflect.Uint16, reflect.Uint32, reflect.Uint64:
		return fmt.Sprint(v.Uint())
	case reflect.String:
		return fmt.Sprintf("%q", v.String())
	case reflect.Interface:
		if v.IsNil() {
			return "nil"
		}
		return sig(v.Elem(), depth)
	case reflect.Map:
		if v.IsNil() {
			return "nil"
		}
		if depth > 2 {
			return fmt.Sprintf("map@%x", v.Pointer())
		}
		var parts []string
		it := v.MapRange()
		for it.Next() {
			parts = append(parts, sig(it.Key(), depth+1)+":"+sig(it.Value(), depth+1))
		}
		sort.Strings(parts)
		return "map{" + strings.Join(parts, ",") + "}"
	case reflect.Slice:
		if v.IsNil() {
			return "nil"
		}
		if depth > 2 {
			return fmt.Sprintf("slice@%x/%d", v.Pointer(), v.Len())
		}
		parts := make([]string, v.Len())
		for i := range parts {
			parts[i] = sig(v.Index(i), depth+1)
		}
		return "[" + strings.Join(parts, ",") + "]"
	case reflect.Pointer, reflect.Func, reflect.Chan, reflect.UnsafePointer:
		if v.IsNil() {
			return "nil"
		}
		return fmt.Sprintf("%s@%x", v.Kind(), v.Pointer())
	case reflect.Struct:
		parts := make([]string, v.NumField())
		for i := range parts {
			parts[i] = sig(v.Field(i), depth+1)
		}
		return "{" + strings.Join(parts, ",") + "}"
	}
	return v.Kind().String()
}

// cfgOf: exported field name -> (signature, is zero) of the schema's own internals, the embedded modifier state and the
// definition record (`Def`: the constructor's arguments, shared by every derived schema) left out.
func cfgOf(s any) (map[string]string, map[string]bool, bool) {
	st, ok := internalsOf(s)
	if !ok {
		return nil, nil, false
	}
	sigs, zero := map[string]string{}, map[string]bool{}
	t := st.Type()
	for i := 0; i < t.NumField(); i++ {
		f := t.Field(i)
		if f.Name == "ZodTypeInternals" || f.Name == "Def" || !f.IsExported() {
			continue
		}
		sigs[f.Name] = sig(st.Field(i), 0)
		zero[f.Name] = st.Field(i).IsZero()
	}
	return sigs, zero, true
}

// cfgDiff: which configuration fields of `base` the schema `s` no longer has (dropped: now the zero value) or has with
// another value (changed).
func cfgDiff(base, s any) (dropped, changed []string, ok bool) {
	b, bz, ok1 := cfgOf(base)
	m, mz, ok2 := cfgOf(s)
	if !ok1 || !ok2 {
		return nil, nil, false
	}
	for name, bs := range b {
		ms, has := m[name]
		switch {
		case !has:
			dropped = append(dropped, name)
		case ms == bs:
		case mz[name] && !bz[name]:
			dropped = append(dropped, name)
		default:
			changed = append(changed, name)
		}
	}
	sort.Strings(dropped)
	sort.Strings(changed)
	return dropped, changed, true
}

func cfgObs(dropped, changed []string) string {
	switch {
	case len(dropped) > 0:
		return "dropped"
	case len(changed) > 0:
		return "changed"
	}
	return "carried"
}

func kindOf(e *entry) string {
	if e.kind != "" {
		return e.kind
	}
	if e.name == "record" {
		return "record"
	}
	return "plain"
}

// runCfg: one `cfg` line for the history h on row e (false: not applicable).
func runCfg(o *hx.Out, e *entry, h []string) {
	if len(h) == 0 {
		return
	}
	if !applicable(e, h) {
		return
	}
	// derived from ONE base value, so that member schemas are compared by identity
	var base, s any
	if pm := hx.Safely(func() {
		base = e.mk()
		s = base
		for _, op := range h {
			if s = applyOp(e, s, op); s == nil {
				return
			}
		}
	}); pm != "" || s == nil {
		return
	}
	dropped, changed, ok := cfgDiff(base, s)
	if !ok {
		return
	}
	obs := cfgObs(dropped, changed)
	detail := ""
	if obs != "carried" {
		detail = " dropped=" + strings.Join(dropped, ",") + " changed=" + strings.Join(changed, ",")
	}
	o.Emit(fmt.Sprintf("c03 cfg %s %s #%s%s", kindOf(e), strings.Join(h, " "), e.name, detail), obs)
	o.Count("cfg:" + obs)
}

// nonNilInputs: every non-nil input of the row: okIn, badIn, the further ones, and the zero value of the input's type.
func nonNilInputs(e *entry) []nonNilA {
	var out []nonNilA
	if e.okIn != nil {
		out = append(out, nonNilA{nonNil{e.okIn, true, false}, false})
	}
	if e.badIn != nil {
		out = append(out, nonNilA{nonNil{e.badIn, false, false}, false})
	}
	for _, m := range e.more {
		out = append(out, nonNilA{m, false})
	}
	// the zero value of the input's type ("", 0, false, an empty map / slice / struct): non-nil, but the value a
	// modifier leaking into the non-nil path would most likely mistake for "absent"
	if e.okIn != nil {
		t := reflect.TypeOf(e.okIn)
		var z reflect.Value
		switch t.Kind() {
		case reflect.Map:
			z = reflect.MakeMap(t)
		case reflect.Slice:
			z = reflect.MakeSlice(t, 0, 0)
		case reflect.Pointer, reflect.Func, reflect.Interface, reflect.Chan:
		default:
			z = reflect.Zero(t)
		}
		if z.IsValid() {
			dup := false
			for _, x := range out {
				dup = dup || reflect.DeepEqual(x.v, z.Interface())
			}
			if !dup {
				out = append(out, nonNilA{nonNil{v: z.Interface()}, true})
			}
		}
	}
	return out
}

// cfgTable (for `gen`): every row with its declared kind, and every (row, op) whose method — called on the schema as
// constructed or on its Optional() variant — returns a schema without some configuration field of the receiver.
func cfgTable() (rows [][2]string, drops [][3]string) {
	es := entries()
	for ei := range es {
		e := &es[ei]
		rows = append(rows, [2]string{e.name, kindOf(e)})
		for _, op := range opNames[:12] {
			fields := map[string]bool{}
			for _, pre := range [][]string{nil, {"Optional"}} {
				if !applicable(e, append(append([]string{}, pre...), op)) {
					continue
				}
				hx.Safely(func() {
					var recv any = e.mk()
					for _, p := range pre {
						if recv = applyOp(e, recv, p); recv == nil {
							return
						}
					}
					res := applyOp(e, recv, op)
					if res == nil {
						return
					}
					if d, _, ok := cfgDiff(recv, res); ok {
						for _, f := range d {
							fields[f] = true
						}
					}
				})
			}
			if len(fields) > 0 {
				var fs []string
				for f := range fields {
					fs = append(fs, f)
				}
				sort.Strings(fs)
				drops = append(drops, [3]string{e.name, op, strings.Join(fs, ",")})
			}
		}
	}
	return
}
