/-
  C14 — schemas, the registry and global config are safe under concurrent use.   (PARTIAL)

  Two parts:
   * shared schema state: by the C08/C12/C15 frame theorems every operation class on schemas (chaining call,
     ToJSONSchema, Parse handing out a default) writes only locations it allocated itself, which no other goroutine
     can reach before the call returns; every access to a location that existed before the call is a read.
   * process-wide and lazily written state (registry, config, priority counter, regex caches, lazy cache, locale
     table): the access table regenerated from the sources (`Gozod.Gen.LockSets.table`) is race-free — any two
     accesses to one location are both reads, both atomic, ordered by one sync.Once, or inside critical sections
     of one mutex (`knownRacy` is empty since the lazy cache became an atomic.Pointer).
  Not modelled (trusted): the Go memory model, sync primitives, the scheduler; deadlock freedom and
  "result equals the run-alone result" are checked only by the -race harness.
-/
import Gozod.Model.LockSet
import Gozod.Gen.LockSets
import Gozod.Proofs.C12
import Gozod.Proofs.C15

namespace Gozod.C14
open Gozod.LockSet Gozod.Store

/-- locations with an unsynchronised conflict today (open known findings) -/
def knownRacy : List String := LockSet.knownRacy

/-- **c14_racefree** over the regenerated access table. -/
theorem c14_racefree_table : raceFree (without knownRacy Gen.LockSets.table) = true := by decide

theorem c14_racefree (a b : Access)
    (ha : a ∈ without knownRacy Gen.LockSets.table) (hb : b ∈ without knownRacy Gen.LockSets.table)
    (hl : a.loc = b.loc) : ok a b = true := by
  have h := c14_racefree_table
  simp only [raceFree, List.all_eq_true] at h
  have := h a ha b hb
  simpa [hl] using this

/-- `conflicts` (what the driver reports when the table proof breaks, to aim the race harness) is complete:
    a table without conflicts is race-free. -/
theorem conflicts_complete (t : List Access) (h : conflicts t = []) : raceFree t = true := by
  simp only [raceFree, List.all_eq_true]
  intro a ha b hb
  by_cases hl : a.loc = b.loc
  · have key : ∀ x ∈ t, ∀ y ∈ t, x.loc = y.loc → x.fn ≤ y.fn → ok x y = true := by
      intro x hx y hy hxy hle
      cases hok : ok x y with
      | true => rfl
      | false =>
        exfalso
        have hm : (x.loc, x.fn, y.fn) ∈ conflicts t := by
          unfold conflicts
          rw [List.mem_eraseDups]
          refine List.mem_flatMap.2 ⟨x, hx, List.mem_map.2 ⟨y, List.mem_filter.2 ⟨hy, ?_⟩, ?_⟩⟩
          · simp [hxy, hok, hle]
          · simp [hxy]
        rw [h] at hm
        simp at hm
    have oksymm : ∀ x y : Access, ok x y = ok y x := by
      intro x y
      have hs : sameOnce x.sync y.sync = sameOnce y.sync x.sync := by
        cases x.sync <;> cases y.sync <;> simp only [sameOnce]
        exact BEq.comm
      unfold ok
      rw [hs]
      cases mutexOf x.sync with
      | none => cases mutexOf y.sync <;> simp only [] <;> ac_rfl
      | some m =>
        cases mutexOf y.sync with
        | none => simp only []; ac_rfl
        | some n => simp only []; rw [BEq.comm (a := n) (b := m)]; ac_rfl
    rcases String.le_total a.fn b.fn with hle | hle
    · simp [key a ha b hb hl hle]
    · have := key b hb a ha hl.symm hle
      rw [oksymm] at this
      simp [this]
  · simp [hl]

/-- the table is not empty after the exclusion (the theorem is not vacuous) -/
example : (without knownRacy Gen.LockSets.table).length ≥ 10 := by decide

/-- the access table of the locale map before `fix: guard DefaultLocales with a RWMutex` -/
def legacyLocales : List Access := [
  ⟨"locales.AvailableLocales", "locales.DefaultLocales", false, .none⟩,
  ⟨"locales.LocaleFormatter", "locales.DefaultLocales", false, .none⟩,
  ⟨"locales.RegisterLocale", "locales.DefaultLocales", true, .none⟩,
  ⟨"locales.ValidateLocaleList", "locales.DefaultLocales", false, .none⟩]

/-- **Witness** (legacy code): `locales.RegisterLocale` wrote the global locale table with no lock while the formatters read it. -/
theorem locales_unsynchronised : raceFree legacyLocales = false := by decide

/-- the locale table is now accessed under one RWMutex, writers in W mode -/
theorem locales_synchronised : raceFree (only "locales.DefaultLocales" Gen.LockSets.table) = true ∧
    (only "locales.DefaultLocales" Gen.LockSets.table).length ≥ 4 := by decide

/-- the access rows of the lazy cache before `fix: the lazy schema's cached inner schema is an atomic.Pointer` -/
def legacyLazy : List Access := [
  ⟨"types.ZodLazy.cloneState", "types.ZodLazyInternals.innerType", false, .none⟩,
  ⟨"types.ZodLazy.resolveInner", "types.ZodLazyInternals.innerType", false, .once "types.ZodLazyInternals.once"⟩,
  ⟨"types.ZodLazy.resolveInner", "types.ZodLazyInternals.innerType", true, .once "types.ZodLazyInternals.once"⟩]

/-- two accesses under DIFFERENT sync.Once objects are not ordered: `ok` asks for the same Once (round 4b) -/
theorem once_needs_same_once :
    ok ⟨"f", "x", true, .once "p.A.once"⟩ ⟨"g", "x", false, .once "p.B.once"⟩ = false ∧
    ok ⟨"f", "x", true, .once "p.A.once"⟩ ⟨"g", "x", false, .once "p.A.once"⟩ = true := by decide

/-- **Witness** (legacy code): every chaining call on a lazy schema read the lazily resolved inner schema (`cloneState`)
    with no synchronisation, while the first Parse wrote it inside `once.Do`. -/
theorem lazy_cache_unsynchronised : raceFree legacyLazy = false := by decide

/-- the lazy cache is now an atomic.Pointer: stored inside `once.Do`, loaded atomically by `cloneState`, `CloneFrom` and
    `resolveInner` — every access in the regenerated table is atomic -/
theorem lazy_cache_synchronised : raceFree (only "types.ZodLazyInternals.innerType" Gen.LockSets.table) = true ∧
    (only "types.ZodLazyInternals.innerType" Gen.LockSets.table).length ≥ 3 := by decide

/-! ### schema state: every operation class writes only what it allocated -/

inductive SOp
  | chain (op : Op)        -- any chaining method (Meta() on non-string types excluded: it writes the registry, under its lock)
  | conv                   -- ToJSONSchema
  | parseNil               -- Parse(nil) resolving a default (the only Parse path that allocates schema-derived data)

def runS (cfg : Cfg) (σ : Store) (s : Schema) : SOp → Store
  | .chain op => (applyOp cfg σ s op).1
  | .conv => (convert cfg σ s).1
  | .parseNil => (Store.parseNil cfg σ s).1

/-- **c14_schema_ops_read_only**: on the repaired code, whatever operation a goroutine runs on a shared schema,
    every location that existed when it started still holds the same contents when it ends: its writes all go to
    locations ≥ σ.next, which it allocated itself. Concurrent operations therefore conflict on no schema location. -/
theorem c14_schema_ops_read_only (cfg : Cfg) (h1 : cfg.cloneBagAlways = true) (h2 : cfg.convScratch = true)
    (h3 : cfg.deepDefault = true) (σ : Store) (s : Schema) (o : SOp)
    (hc : BagClosed σ) (hw : WfS σ s) (hd : C15.WfD σ.next σ.heap s)
    (hok : match o with | .chain op => Op.ok op ∧ op.isMetaSelf = false | _ => True) :
    ExtFrom σ.next σ (runS cfg σ s o) := by
  cases o with
  | chain op => exact (C08.applyOp_spec cfg h1 σ s op hc hw hok.1 hok.2).1
  | conv => simp only [runS]; rw [(C12.c12_pure cfg h2 σ s).1]; exact ExtFrom.refl _ _
  | parseNil => exact (C15.c15_result_fresh cfg h3 σ s hd).1

end Gozod.C14
