/-
  C19 — the entry points.  Statements decided over the WHOLE table regenerated from gozod.go and
  internal/issues/errors.go on every run (lean/Gozod/Gen/C19Exports.lean, written by
  `harness/cmd/c19 -gen`): an edit that re-routes an exported formatter, gives a thin entry point a
  body of its own, or adds a function to errors.go changes one of these proof obligations.
-/
import Gozod.Gen.C19Exports
import Gozod.Proofs.C19
namespace Gozod.C19
open Gozod.Issues Gozod.Gen.C19Exports

/-- the entry points of the property (observe_at) and the advanced variants gozod.go offers -/
def formatterEntryPoints : List String :=
  ["FlattenError", "TreeifyError", "FormatError", "PrettifyError",
   "FlattenErrorWithMapper", "FlattenErrorWithFormatter", "TreeifyErrorWithMapper",
   "PrettifyErrorWithFormatter", "ToDotPath"]

/-- **every re-exported name of gozod.go IS the internal object of the same name** (`X = issues.X`,
    `X = utils.X`): `gozod.FlattenError` is `issues.FlattenError`, not a look-alike -/
theorem c19_exports_are_internal :
    reexports.all (fun r => r.1 == r.2.2.1 && (r.2.1 == "issues" || r.2.1 == "utils")) = true := by decide

/-- … and every formatter entry point is among them, as a package-level `var` bound to the function
    of internal/issues (ToDotPath: of internal/utils, which is the function the model transcribes) -/
theorem c19_exports_cover :
    formatterEntryPoints.all (fun n =>
      reexports.contains (n, (if n == "ToDotPath" then "utils" else "issues"), n, "var")) = true := by decide

/-- the thin entry points of internal/issues/errors.go, as the transcription assumes them:
    each hands the error, unchanged, to the function the Lean model transcribes, with
    `defaultIssueMapper` of the error's own (or the given) formatter — the `Issue.msg` of the model -/
def expectedWrappers : List (String × String × List String) := [
  ("FlattenError", "FlattenErrorWithMapper", ["zodErr", "defaultIssueMapper(zodErr.formatter)"]),
  ("FlattenErrorWithFormatter", "FlattenErrorWithMapper", ["zodErr", "defaultIssueMapper(formatter)"]),
  ("FormatError", "FormatErrorWithMapper", ["zodErr", "defaultIssueMapper(zodErr.formatter)"]),
  ("PrettifyError", "PrettifyErrorWithFormatter", ["zodErr", "zodErr.formatter"]),
  ("ToDotPath", "utils.ToDotPath", ["path"]),
  ("TreeifyError", "TreeifyErrorWithMapper", ["zodErr", "defaultIssueMapper(zodErr.formatter)"])]

/-- the guard a thin entry point may carry for a nil `*ZodError` (since e8b2b50): the
    transcribed function is called on nil, which it reads as an error without issues
    (`reportsCfg … none`, Model/IssuesGo.lean) -/
def expectedGuard (callee : String) : String :=
  "if zodErr == nil { return " ++ callee ++ "(nil, nil) }"

/-- **the whole wrapper table is as expected** -/
theorem c19_wrappers_as_expected : wrappers.map (fun w => (w.1, w.2.1, w.2.2.1)) = expectedWrappers := by decide

/-- … and a guard in front of the call, where there is one, is the nil guard -/
theorem c19_wrapper_guards_as_expected :
    wrappers.all (fun w => w.2.2.2 == "" || w.2.2.2 == expectedGuard w.2.1) = true := by decide

/-- the functions of errors.go the Lean model transcribes statement by statement
    (Model/Issues.lean: flatten, treeify + Tree.insert, formatError, prettify) -/
def transcribed : List String :=
  ["FlattenErrorWithMapper", "TreeifyErrorWithMapper", "processIssueInTree", "FormatErrorWithMapper",
   "PrettifyErrorWithFormatter"]

/-- functions of errors.go that build or inspect a ZodError and produce no report; `defaultIssueMapper`
    and `convertZodIssueToProperties` compute mapper(issue), which the model takes as `Issue.msg` -/
def noReport : List String :=
  ["NewZodError", "NewZodErrorWithFormatter", "IsZodError", "ZodError.Formatter", "ZodError.SetFormatter",
   "defaultIssueMapper", "convertZodIssueToProperties"]

/-- **every function of errors.go is accounted for**: transcribed, a thin entry point of the table,
    the Error method, or one that produces no report.  A new helper (a "fast path") is none of these. -/
theorem c19_errors_go_accounted :
    errorsGoFuncs.all (fun f => transcribed.contains f || (wrappers.map (·.1)).contains f
      || f == "ZodError.Error" || noReport.contains f) = true := by decide

/-- and nothing the transcription names has disappeared -/
theorem c19_transcribed_present : transcribed.all (fun f => errorsGoFuncs.contains f) = true := by decide

/-! ### err.Error() -/

/-- `func (e *ZodError) Error() string` as the source has it -/
def expectedErrorMethod : List String := [
  "if e == nil { return \"\" }",
  "if slicex.IsEmpty(e.Issues) { return \"Validation failed\" }",
  "return PrettifyErrorWithFormatter(e, e.formatter)"]

theorem c19_error_method_as_expected : errorMethod = expectedErrorMethod := by decide

/-- the method on a non-nil error, transcribed -/
def errorString (is : List Issue) : String :=
  if is.isEmpty then "Validation failed" else prettify is

/-- **err.Error() is PrettifyError(err)** for every (non-nil) error: the early return for an empty
    error yields what PrettifyErrorWithFormatter yields for it.  So everything proved of the pretty
    report (`c19_prettify_count`, `c19_prettify_place`, the injectivity theorems of Proofs/C19Dot.lean)
    holds of `err.Error()`. -/
theorem c19_error_eq_prettify (is : List Issue) : errorString is = prettify is := by
  cases is with
  | nil => simp [errorString, prettify, prettySegs]
  | cons i r => simp [errorString]

end Gozod.C19
