/-
  C11 — FromJSONSchema.
  * `fromJS`: a transcription of /repo/jsonschema/from.go over the keyword AST `JS` of
    Model/JsonSchema (documents are judged by its `jsValid`).
  * `J1`: the structured fragment of documents (canonical keyword order) on which the produced
    schema is proved equivalent to the document; `J1.doc` embeds it into `JS`, `fromJ1` is the
    schema FromJSONSchema produces for it.
  * instances reach the produced schema through plain `encoding/json` decoding: every number
    is a float64, so an `Int()` schema rejects every instance (`plainify`).
-/
import Gozod.Model.JsonSchema
namespace Gozod.Jsc

def optL {α β : Type} (o : Option α) (f : α → β) : List β := match o with | some a => [f a] | none => []

/-- keywords of the strict-mode table: (keyword, documented as supported, rejected in strict mode) -/
structure KwRow where
  kw : String
  documented : Bool
  strictRejects : Bool
  deriving Repr, DecidableEq

/-! ## the general converter: `fromJS`, a transcription of jsonschema/from.go over the keyword AST -/

inductive E
  | panic                      -- the conversion panics (Literal(nil))
  | unsupported (kw : Str)     -- strict mode: unsupported keyword
  deriving Repr, DecidableEq

abbrev R := Except E S

/-- which library fixes the modelled tree carries — one flag per `pending/C11-<slug>.diff` (false = the code of /repo
    792c820, true = the code with that patch).  Every definition and theorem below is stated for an arbitrary `Fx`; the
    driver runs `cur`.  When a patch lands in /repo its flag flips in `cur` (that one line is the patch's `.lean.diff`). -/
structure Fx where
  nullUnion : Bool := false     -- C11-nullable-union: a Union / Xor with a null-admitting member is made Nilable
  nullAnd : Bool := false       -- C11-nullable-intersection: an Intersection whose members all admit null is made Nilable
  fmtSib : Bool := false        -- C11-format-siblings: minLength / maxLength / pattern next to a known format are kept
  openObj : Bool := false       -- C11-open-object: an object without additionalProperties:false is passthrough
  reqAddl : Bool := false       -- C11-required-additional: required names outside properties are judged by additionalProperties
  intBounds : Bool := false     -- C11-integer-bounds: fractional bounds of an integer schema are rounded inwards
  tupOpen : Bool := false       -- C11-tuple-open: prefixItems without items leaves the tail unconstrained
  strictProp : Bool := false    -- C11-strict-property-error (/repo 1871965): StrictMode returns the error of a property / additionalProperties conversion
  deriving DecidableEq, Repr

/-- /repo 792c820. -/
def Fx.legacy : Fx := {}
/-- every pending patch applied. -/
def Fx.all : Fx := ⟨true, true, true, true, true, true, true, true⟩

/-- the tree `./check C11` runs against: /repo HEAD (the seven round-4b patches landed as 8dd0167, 5c46085, cafc472,
    5ed05fc, 611f7ab, 654995f, 18be159; `strictProp` as 1871965).  PINNED by hand, never probed: the driver runs this
    value only, and the property-level theorems of Proofs/C11.lean are stated for it. -/
def cur : Fx :=
  { nullUnion := true
    nullAnd := true
    fmtSib := true
    openObj := true
    reqAddl := true
    intBounds := true
    tupOpen := true
    strictProp := true }

/-- what `convert` reads off one schema object; sub-schemas are kept as conversion RESULTS so
    that an error in a sibling the dispatch ignores is ignored as well. -/
structure Parts where
  ref : Option R := none
  others : List Str := []
  allOf : Option (List R) := none
  anyOf : Option (List R) := none
  oneOf : Option (List R) := none
  const : Option Prim := none
  enum : Option (List Prim) := none
  types : List TypeName := []
  format : Option (Str × List Str) := none
  minLength : Option Nat := none
  maxLength : Option Nat := none
  pattern : Option Pat := none
  minimum : Option Int := none
  maximum : Option Int := none
  exMin : Option Int := none
  exMax : Option Int := none
  mul : Option Int := none
  items : Option R := none
  prefixItems : Option (List R) := none
  minItems : Option Nat := none
  maxItems : Option Nat := none
  properties : Option (List (Str × R)) := none
  required : List Str := []
  addl : Option (Option Bool × R) := none      -- (boolean-schema value if boolean, conversion result)

def slistOf : List S → SList
  | [] => .nil
  | s :: ss => .cons s (slistOf ss)

def shapeOf : List (Str × S) → Shape
  | [] => .nil
  | (k, s) :: r => .cons k s (shapeOf r)

/-- `convertSchemaList`: the first error wins. -/
def seqR : List R → Except E (List S)
  | [] => .ok []
  | r :: rs => match r with
      | .error e => .error e
      | .ok s => match seqR rs with
          | .error e => .error e
          | .ok ss => .ok (s :: ss)

def patCk : Pat → StrCk
  | .pre s => .sw s
  | .suf s => .ew s
  | .has s => .inc s
  | .noUp => .lower
  | .noLow => .upper
  | .rx r => .re r

/-- `constrainedString` (the tail of `convertString` before C11-format-siblings). -/
def strCks (p : Parts) : List StrCk := optL p.minLength .min ++ optL p.maxLength .max ++ optL p.pattern patCk

def convString (fx : Fx) (p : Parts) : S :=
  match p.format with
  | some (name, good) =>
      if knownFormats.contains name then
        -- dedicated schema; legacy: minLength/maxLength/pattern ignored; fixed: Intersection(format, constrained string)
        if fx.fmtSib && !(strCks p).isEmpty then .and (.enum good) (.str (strCks p)) else .enum good
      else .str (strCks p)
  | none => .str (strCks p)

def convNumber (p : Parts) : S :=
  .flt (optL p.minimum .gte ++ optL p.maximum .lte ++ optL p.exMin .gt ++ optL p.exMax .lt ++ optL p.mul .mul)

/-- `int64(val)` of a bound given in quarters: truncation toward zero. -/
def truncQ (q : Int) : Int := Int.tdiv q 4

/-- `MultipleOf(m)` on an Int schema.  A divisor truncated to 0 (`multipleOf: 0.5`) gives `MultipleOf(0)`, which holds for
    NO value (validate.MultipleOf: a zero divisor divides nothing, 0 included; the round-trip document's `multipleOf: 0`
    validates nothing either).  `NumCk.holds (.mul 0)` of Model/JsonSchema would accept 0, so that check is written as the
    unsatisfiable pair of bounds. -/
def mulCk (m : Int) : List NumCk := if m = 0 then [.gt 0, .lt 0] else [.mul m]

/-- `int64(math.Floor(val))` / `int64(math.Ceil(val))` of a bound given in quarters. -/
def floorQ (q : Int) : Int := Int.fdiv q 4
def ceilQ (q : Int) : Int := -(Int.fdiv (-q) 4)
/-- `s.MultipleOf.Num()`: the numerator of q/4 in lowest terms. -/
def numQ (q : Int) : Int := q / (Int.gcd q 4 : Int)

def convInteger (fx : Fx) (p : Parts) : S :=
  if fx.intBounds then
    .int .int (optL p.minimum (fun q => .gte (ceilQ q)) ++ optL p.maximum (fun q => .lte (floorQ q))
      ++ optL p.exMin (fun q => .gt (floorQ q)) ++ optL p.exMax (fun q => .lt (ceilQ q))
      ++ (match p.mul with | some q => mulCk (numQ q) | none => []))
  else
  .int .int (optL p.minimum (fun q => .gte (truncQ q)) ++ optL p.maximum (fun q => .lte (truncQ q))
    ++ optL p.exMin (fun q => .gt (truncQ q)) ++ optL p.exMax (fun q => .lt (truncQ q))
    ++ (match p.mul with | some q => mulCk (truncQ q) | none => []))

/-- `convertTuple` without `items`: legacy — no rest element; C11-tuple-open — `Unknown()` unless `maxItems` closes
    the tuple at the prefix. -/
def tupRest (fx : Fx) (maxItems : Option Nat) (n : Nat) : SOpt :=
  if fx.tupOpen then (match maxItems with
    | none => .some .any
    | some m => if n < m then .some .any else .none)
  else .none

def convArray (fx : Fx) (p : Parts) : R :=
  match p.prefixItems with
  | some (r :: rs) =>                    -- convertTuple: minItems is not read (maxItems only to decide the rest element)
      match seqR (r :: rs) with
      | .error e => .error e
      | .ok items =>
          match p.items with
          | some (.error e) => .error e
          | some (.ok rest) => .ok (.tup (.some rest) [] (slistOf items))
          | none => .ok (.tup (tupRest fx p.maxItems items.length) [] (slistOf items))
  | _ =>
      match (match p.items with | some r => r | none => .ok .any) with
      | .error e => .error e
      | .ok it => .ok (.slice it (optL p.minItems .min ++ optL p.maxItems .max))

/-- `makeOptional` (after pending fix C11-object-properties): every schema type is wrapped
    through its `Optional()` method. -/
def makeOptional (s : S) : S := .opt s

/-- properties whose conversion returns an error are skipped (`continue`); a panic is not an error.
    `se` = "strict errors": C11-strict-property-error applied AND StrictMode — then the error is returned. -/
def convProps (se : Bool) (req : List Str) : List (Str × R) → Except E (List (Str × S))
  | [] => .ok []
  | (k, .ok s) :: r =>
      match convProps se req r with
      | .ok rest => .ok ((k, if req.contains k then s else makeOptional s) :: rest)
      | .error e => .error e
  | (_, .error .panic) :: _ => .error .panic
  | (_, .error (.unsupported kw)) :: r => if se then .error (.unsupported kw) else convProps se req r

/-- required names without a (converted) property get an entry `v` (legacy: `Unknown()`). -/
def addRequired (v : S) (req : List Str) (fields : List (Str × S)) : List (Str × S) :=
  fields ++ ((req.filter (fun k => !(fields.map (·.1)).contains k)).eraseDups.map (fun k => (k, v)))

/-- `additionalValue` (C11-required-additional): the schema of a value whose key is not listed in `properties` —
    the converted `additionalProperties`, `Unknown()` when absent or not convertible.  Legacy: always `Unknown()`. -/
def addlValue (fx : Fx) (p : Parts) : S :=
  if fx.reqAddl then (match p.addl with | some (_, .ok c) => c | _ => .any) else .any

/-- the mode of an object that `additionalProperties` does not close: legacy strip, C11-open-object passthrough. -/
def openMode (fx : Fx) : Mode := if fx.openObj then .loose else .strip

/-- the object path of `convertObject` once the properties are converted. -/
def objOf (fx : Fx) (se : Bool) (p : Parts) (fields : List (Str × S)) : R :=
  let shape := shapeOf (addRequired (addlValue fx p) p.required fields)
  match p.addl with
  | some (some false, _) => .ok (.obj .strict .none false [] shape)
  | some (none, .ok c) => .ok (.obj .loose (.some c) false [] shape)     -- Passthrough().WithCatchall(c)
  | some (none, .error .panic) => .error .panic
  | some (none, .error (.unsupported kw)) =>                               -- `if err == nil { … }`: the catch-all is dropped
      if se then .error (.unsupported kw) else .ok (.obj (openMode fx) .none false [] shape)
  | _ => .ok (.obj (openMode fx) .none false [] shape)

def convObject (fx : Fx) (se : Bool) (p : Parts) : R :=
  match p.properties with
  | some (kv :: kvs) =>
      match convProps se p.required (kv :: kvs) with
      | .error e => .error e
      | .ok fields => objOf fx se p fields
  | _ =>
      match p.addl with
      | some (_, r) =>
          if fx.reqAddl && !p.required.isEmpty then objOf fx se p []      -- a Record cannot require keys
          else (match r with
            | .error e => .error e
            | .ok v => .ok (.record (.str []) v []))      -- legacy: `required` is not read on this path
      | none => .ok (.obj (openMode fx) .none false [] (shapeOf (addRequired .any p.required [])))

def convOneType (fx : Fx) (se : Bool) (p : Parts) : TypeName → R
  | .string => .ok (convString fx p)
  | .number => .ok (convNumber p)
  | .integer => .ok (convInteger fx p)
  | .boolean => .ok .bool
  | .null => .ok .nil
  | .array => convArray fx p
  | .object => convObject fx se p

/-- `admitsNil`: `schema.ParseAny(nil)` succeeds. -/
def admitsNil (s : S) : Bool := accepts s .null

def nilIf (b : Bool) (s : S) : S := if b then .nul s else s

/-- `unionOf` (C11-nullable-union): a Union decides a nil input before its members are asked, so it is made Nilable
    when a member admits null.  Legacy: the bare Union. -/
def unionOf (fx : Fx) (ss : List S) : S := nilIf (fx.nullUnion && ss.any admitsNil) (.union (slistOf ss))

/-- `convertOneOf`'s result: Nilable when exactly one member admits null. -/
def xorOf (fx : Fx) (ss : List S) : S := nilIf (fx.nullUnion && (ss.countP admitsNil == 1)) (.xor (slistOf ss))

/-- `convertAllOf`'s result (C11-nullable-intersection): Nilable when every member admits null. -/
def andOf (fx : Fx) (a : S) (rest : List S) (chain : S) : S := nilIf (fx.nullAnd && (a :: rest).all admitsNil) chain

def typeOrder : List TypeName := [.string, .number, .integer, .boolean, .null, .array, .object]

def convByType (fx : Fx) (se : Bool) (p : Parts) : R :=
  match p.types with
  | [] => .ok .any
  | [t] => convOneType fx se p t
  | ts =>
      match seqR ((typeOrder.filter (fun t => ts.contains t)).map (convOneType fx se p)) with
      | .error e => .error e
      | .ok [] => .ok .any
      | .ok [s] => .ok s
      | .ok ss => .ok (unionOf fx ss)

def chainAnd : S → List S → S
  | a, [] => a
  | a, b :: rest => chainAnd (.and a b) rest

/-- `literalSchema` (after pending fix C11-literal-null): JSON null is the Nil schema. -/
def litOf (v : Prim) : R := match v with | .null => .ok .nil | v => .ok (.lit [v])

def allStrs : List Prim → Option (List Str)
  | [] => some []
  | .str s :: r => (allStrs r).map (s :: ·)
  | _ => none

/-- `convert` after the sub-schemas have been converted.  `rejects` = the strict-mode table. -/
def assemble (fx : Fx) (rejects : Str → Bool) (strict : Bool) (p : Parts) : R :=
  match p.ref with
  | some r => r                                   -- `$ref` first: siblings are not looked at
  | none =>
  match (if strict then p.others.find? rejects else none) with
  | some kw => .error (.unsupported kw)
  | none =>
  match p.allOf, p.anyOf, p.oneOf with
  | some (r :: rs), _, _ =>
      match seqR (r :: rs) with
      | .error e => .error e
      | .ok [] => .ok .any
      | .ok (a :: rest) => .ok (andOf fx a rest (chainAnd a rest))
  | _, some (r :: rs), _ =>
      match seqR (r :: rs) with
      | .error e => .error e
      | .ok [] => .ok .any
      | .ok [a] => .ok a
      | .ok ss => .ok (unionOf fx ss)
  | _, _, some (r :: rs) =>
      match seqR (r :: rs) with
      | .error e => .error e
      | .ok [] => .ok .any
      | .ok [a] => .ok a
      | .ok ss => .ok (xorOf fx ss)
  | _, _, _ =>
  match p.const with
  | some v => litOf v
  | none =>
  match p.enum with
  | some (v :: vs) =>
      match allStrs (v :: vs) with
      | some strs => .ok (.enum strs)
      | none =>
          match seqR ((v :: vs).map litOf) with
          | .error e => .error e
          | .ok ss => .ok (unionOf fx ss)
  | _ => convByType fx (fx.strictProp && strict) p

/-- the value of a boolean schema. -/
def boolOf : JS → Option Bool
  | .bool b => some b
  | _ => none

mutual
def fromJS (fx : Fx) (rejects : Str → Bool) (strict : Bool) : JS → R
  | .bool true => .ok .any
  | .bool false => .ok .never
  | .node kws => assemble fx rejects strict (collect fx rejects strict kws {})

def collect (fx : Fx) (rejects : Str → Bool) (strict : Bool) : KwList → Parts → Parts
  | .nil, p => p
  | .cons k ks, p => collect fx rejects strict ks (addKw fx rejects strict k p)

def addKw (fx : Fx) (rejects : Str → Bool) (strict : Bool) : Kw → Parts → Parts
  | .type t, p => { p with types := [t] }
  | .types ts, p => { p with types := ts }
  | .minLength n, p => { p with minLength := some n }
  | .maxLength n, p => { p with maxLength := some n }
  | .pattern q, p => { p with pattern := some q }
  | .minimum q, p => { p with minimum := some q }
  | .maximum q, p => { p with maximum := some q }
  | .exclusiveMinimum q, p => { p with exMin := some q }
  | .exclusiveMaximum q, p => { p with exMax := some q }
  | .multipleOf q, p => { p with mul := some q }
  | .enum vs, p => { p with enum := some vs }
  | .const v, p => { p with const := some v }
  | .items j, p => { p with items := some (fromJS fx rejects strict j) }
  | .prefixItems js, p => { p with prefixItems := some (fromList fx rejects strict js) }
  | .minItems n, p => { p with minItems := some n }
  | .maxItems n, p => { p with maxItems := some n }
  | .properties ps, p => { p with properties := some (fromProps fx rejects strict ps) }
  | .required ks, p => { p with required := ks }
  | .additionalProperties j, p =>
      { p with addl := some (boolOf j, fromJS fx rejects strict j) }
  | .propertyNames _, p => { p with others := p.others ++ ["propertyNames".toList.map Char.toNat] }
  | .minProperties _, p => { p with others := p.others ++ ["minProperties".toList.map Char.toNat] }
  | .maxProperties _, p => { p with others := p.others ++ ["maxProperties".toList.map Char.toNat] }
  | .anyOf js, p => { p with anyOf := some (fromList fx rejects strict js) }
  | .oneOf js, p => { p with oneOf := some (fromList fx rejects strict js) }
  | .allOf js, p => { p with allOf := some (fromList fx rejects strict js) }
  | .not _, p => { p with others := p.others ++ ["not".toList.map Char.toNat] }
  | .format n g, p => { p with format := some (n, g) }
  | .ref j, p => { p with ref := some (fromJS fx rejects strict j) }
  | .other n, p => { p with others := p.others ++ [n] }

def fromList (fx : Fx) (rejects : Str → Bool) (strict : Bool) : JSList → List R
  | .nil => []
  | .cons j js => fromJS fx rejects strict j :: fromList fx rejects strict js

def fromProps (fx : Fx) (rejects : Str → Bool) (strict : Bool) : JSProps → List (Str × R)
  | .nil => []
  | .cons k j ps => (k, fromJS fx rejects strict j) :: fromProps fx rejects strict ps
end

/-! ## const / enum whose members are arbitrary JSON values

`Kw.const` / `Kw.enum` of Model/JsonSchema carry primitive members.  A document may list any JSON value, and JSON Schema
compares an instance with a member by JSON EQUALITY, never by text.  This section has the members as `Json` values:
`jsonEq` (the specification), `fromConstJ` / `fromEnumJ` (what `convertConst` / `convertEnum` build) and `parsePanicsJ`
(when `ParseAny` of the result panics).  On primitive members they coincide with `fromJS` (Proofs/C11 `fromEnumJ_prims`). -/

def Json.ofPrim : Prim → Json
  | .null => .null
  | .bool b => .bool b
  | .num q => .num q
  | .str s => .str s

def Json.toPrim? : Json → Option Prim
  | .null => some .null
  | .bool b => some (.bool b)
  | .num q => some (.num q)
  | .str s => some (.str s)
  | _ => none

mutual
/-- JSON equality, Draft 2020-12 §4.2.2: both null; both true / both false; both strings with the same code points;
    both numbers with the same mathematical value (`Json.num` IS the value: 1, 1.0 and 1e0 are one term); both arrays of
    the same length with equal items in order; both objects with the same keys and equal values, member order
    irrelevant (keys of an object are unique).  A string is never equal to the value its text spells. -/
def jsonEq : Json → Json → Bool
  | .null, y => (match y with | .null => true | _ => false)
  | .bool a, y => (match y with | .bool b => a == b | _ => false)
  | .num a, y => (match y with | .num b => a == b | _ => false)
  | .str a, y => (match y with | .str b => a == b | _ => false)
  | .arr xs, y => (match y with | .arr ys => jsonEqL xs ys | _ => false)
  | .obj fs, y => (match y with | .obj gs => fs.size == gs.size && fieldsIn fs gs | _ => false)
def jsonEqL : JsonList → JsonList → Bool
  | .nil, ys => (match ys with | .nil => true | _ => false)
  | .cons x xs, ys => (match ys with | .cons y ys => jsonEq x y && jsonEqL xs ys | .nil => false)
def fieldsIn : JsonFields → JsonFields → Bool
  | .nil, _ => true
  | .cons k v fs, gs => (match gs.find k with | some w => jsonEq v w | none => false) && fieldsIn fs gs
end

/-- validity against `{"enum": vs}` / `{"const": v}` (the specification side). -/
def enumValidJ (vs : List Json) (x : Json) : Bool := vs.any (fun v => jsonEq x v)
def constValidJ (v : Json) (x : Json) : Bool := jsonEq x v

/-! ### Go values: what `encoding/json` decodes a member / an instance into, and how types/literal.go compares them

A `Json` term doubles as the decoded Go value held in an `any`: `null` = nil, `bool` = bool, `num` = float64 (the value),
`str` = string, `arr` = []any (never a nil slice), `obj` = map[string]any. -/

/-- `reflect.Value.Comparable()` of a decoded value: false for []any / map[string]any. -/
def Json.goComparable : Json → Bool
  | .arr _ => false
  | .obj _ => false
  | _ => true

mutual
/-- `reflect.DeepEqual` on decoded values: different dynamic types are unequal; nil, bool, float64, string by `==`;
    []any: the same length and the items deeply equal in order; map[string]any: the same length and every key of the
    FIRST map present in the second with a deeply equal value (`deepValueEqual`, case Map: `range v1.MapKeys()`). -/
def deepEqual : Json → Json → Bool
  | .null, y => (match y with | .null => true | _ => false)
  | .bool a, y => (match y with | .bool b => a == b | _ => false)
  | .num a, y => (match y with | .num b => a == b | _ => false)
  | .str a, y => (match y with | .str b => a == b | _ => false)
  | .arr xs, y => (match y with | .arr ys => deepEqualL xs ys | _ => false)
  | .obj fs, y => (match y with | .obj gs => fs.size == gs.size && deepFields fs gs | _ => false)
def deepEqualL : JsonList → JsonList → Bool
  | .nil, ys => (match ys with | .nil => true | _ => false)
  | .cons x xs, ys => (match ys with | .cons y ys => deepEqual x y && deepEqualL xs ys | .nil => false)
def deepFields : JsonFields → JsonFields → Bool
  | .nil, _ => true
  | .cons k v fs, gs => (match gs.find k with | some w => deepEqual v w | none => false) && deepFields fs gs
end

/-- `a == b` on two `any` values.  `none` = the run-time panic "comparing uncomparable type": both operands hold the
    same uncomparable dynamic type.  Different dynamic types are unequal without a panic. -/
def ifaceEq : Json → Json → Option Bool
  | .arr _, .arr _ => none
  | .obj _, .obj _ => none
  | .null, .null => some true
  | .bool a, .bool b => some (a == b)
  | .num a, .num b => some (a == b)
  | .str a, .str b => some (a == b)
  | _, _ => some false

/-- `literalEqual(a, b)` of types/literal.go (after e48d4b1): two valid (non-nil) values of which at least one is not
    comparable are compared with `reflect.DeepEqual`, everything else with `==`. -/
def literalEqual (a b : Json) : Option Bool :=
  if !a.isNull && !b.isNull && (!a.goComparable || !b.goComparable) then some (deepEqual a b) else ifaceEq a b

/-- `slices.ContainsFunc(values, func(x) bool { return eq(x, v) })`: members in order, the first equal one ends the
    search, a panic propagates. -/
def containsBy (eq : Json → Json → Option Bool) : List Json → Json → Option Bool
  | [], _ => some false
  | m :: ms, v =>
      match eq m v with
      | none => none
      | some true => some true
      | some false => containsBy eq ms v

/-- the schema `literalSchema` builds for one const / enum member. -/
inductive LitZ
  | nil                    -- types.Nil()
  | lit (v : Json)         -- types.Literal(v): `Values = [v]`, v the decoded Go value (scalar, []any or map[string]any)

/-- `literalSchema`. -/
def literalSchemaJ : Json → LitZ
  | .null => .nil
  | v => .lit v

/-- the schemas `convertConst` / `convertEnum` return. -/
inductive CE
  | one (l : LitZ)             -- convertConst
  | enum (strs : List Str)     -- all members strings: types.Enum(strs…)
  | union (ls : List LitZ)     -- types.Union of the members' literal schemas, in the listed order, repeats included
  | any                        -- empty enum: Unknown()

def allStrsJ : List Json → Option (List Str)
  | [] => some []
  | .str s :: r => (allStrsJ r).map (s :: ·)
  | _ => none

/-- `convertConst`. -/
def fromConstJ (v : Json) : CE := .one (literalSchemaJ v)

/-- `convertEnum`. -/
def fromEnumJ : List Json → CE
  | [] => .any
  | v :: vs =>
      match allStrsJ (v :: vs) with
      | some strs => .enum strs
      | none => .union ((v :: vs).map literalSchemaJ)

/-- Parse verdict of one literal schema, `eq` being `Contains`' comparison (`none` = ParseAny panics).  Nil accepts nil
    only; `ParsePrimitive` rejects a nil input of a non-nilable Literal before `validateLiteral` / `Contains` runs. -/
def LitZ.parseBy (eq : Json → Json → Option Bool) : LitZ → Json → Option Bool
  | .nil, x => some x.isNull
  | .lit v, x => if x.isNull then some false else containsBy eq [v] x

/-- union members are tried in the listed order; the first success ends the search, a panic propagates. -/
def unionParseBy (eq : Json → Json → Option Bool) : List LitZ → Json → Option Bool
  | [], _ => some false
  | l :: ls, x =>
      match l.parseBy eq x with
      | none => none
      | some true => some true
      | some false => unionParseBy eq ls x

/-- ParseAny verdict (`some true` accepted, `some false` rejected, `none` panic) of a const / enum schema on a decoded
    instance.  A Union rejects nil before its members are asked (finding nullable-union). -/
def CE.parseBy (eq : Json → Json → Option Bool) : CE → Json → Option Bool
  | .one l, x => l.parseBy eq x
  | .enum strs, x => some (match x with | .str s => strs.contains s | _ => false)
  | .union ls, x => if x.isNull then some false else unionParseBy eq ls x
  | .any, _ => some true

/-- the code as it stands. -/
def CE.parse (c : CE) (x : Json) : Option Bool := c.parseBy literalEqual x

/-- the code before e48d4b1 (`slices.Contains`, i.e. `==`). -/
def CE.legacyParse (c : CE) (x : Json) : Option Bool := c.parseBy ifaceEq x

/-- the `S` term of the same schema, where every literal member is a scalar (how `fromJS` sees these documents). -/
def LitZ.toS? : LitZ → Option S
  | .nil => some .nil
  | .lit v => v.toPrim?.map (fun p => .lit [p])

def litsToS? : List LitZ → Option (List S)
  | [] => some []
  | l :: ls => match l.toS?, litsToS? ls with
      | some s, some ss => some (s :: ss)
      | _, _ => none

def CE.toS? : CE → Option S
  | .one l => l.toS?
  | .enum strs => some (.enum strs)
  | .union ls => (litsToS? ls).map (fun ss => .union (slistOf ss))
  | .any => some .any

/-! ### the round-trip document of a const / enum schema (`convertLiteral` / `convertEnum` / `convertUnion` of to.go) -/

/-- the `type` keyword `convertLiteral` derives from the FIRST value (`switch values[0].(type)`): string / number /
    boolean; no `type` for anything else. -/
def litTypeOK (first x : Json) : Bool :=
  match first with
  | .str _ => (match x with | .str _ => true | _ => false)
  | .num _ => (match x with | .num _ => true | _ => false)
  | .bool _ => (match x with | .bool _ => true | _ => false)
  | _ => true

/-- validity against the document `convertLiteral` emits for a one-value `Literal(v)`.  A value that is a slice is
    FLATTENED into its items ("a single slice literal represents multiple literal values"): `[1]` becomes
    `{const: 1, type: number}`, `[1,"a"]` becomes `{enum: [1,"a"], type: number}`, `[]` becomes `{}`. -/
def rtLitValid (v x : Json) : Bool :=
  let values := match v with | .arr xs => xs.toList | v => [v]
  match values with
  | [] => true
  | a :: _ => litTypeOK a x && values.any (fun w => jsonEq x w)

def LitZ.rtValid : LitZ → Json → Bool
  | .nil, x => x.isNull                       -- {type: null}
  | .lit v, x => rtLitValid v x

/-- validity against `ToJSONSchema` of the const / enum schema: a Union is the `anyOf` of its members' documents. -/
def CE.rtValid : CE → Json → Bool
  | .one l, x => l.rtValid x
  | .enum strs, x => (match x with | .str s => strs.contains s | _ => false)
  | .union ls, x => ls.any (fun l => l.rtValid x)
  | .any, _ => true

/-! ### C11-nullable-union on the `CE` view

`convertEnum`'s Union of literal schemas goes through `unionOf`: with the patch it is Nilable when a member is JSON null
(`literalSchema(nil)` = `Nil()`, the only literal schema that admits nil).  `CE` stays the schema without the flag. -/

def enumNilable (fx : Fx) (vs : List Json) : Bool := fx.nullUnion && (allStrsJ vs).isNone && vs.any (fun v => v.isNull)

/-- ParseAny verdict of `convertEnum`'s result on the tree `fx`. -/
def parseEnumFx (fx : Fx) (vs : List Json) (x : Json) : Option Bool :=
  if enumNilable fx vs && x.isNull then some true else (fromEnumJ vs).parse x

/-- validity against its round-trip document (`anyOf [<the union's document>, {type: null}]` when Nilable). -/
def rtEnumFx (fx : Fx) (vs : List Json) (x : Json) : Bool := (enumNilable fx vs && x.isNull) || (fromEnumJ vs).rtValid x

def Json.isArr : Json → Bool
  | .arr _ => true
  | _ => false

/-- objects of a JSON value have unique keys (a Go map has; `Json.obj` is an association list). -/
def uniqList : List Str → Bool
  | [] => true
  | k :: ks => !ks.contains k && uniqList ks

def JsonFields.keys : JsonFields → List Str
  | .nil => []
  | .cons k _ fs => k :: fs.keys

mutual
def uniqKeys : Json → Bool
  | .arr xs => uniqKeysL xs
  | .obj fs => uniqList fs.keys && uniqKeysF fs
  | _ => true
def uniqKeysL : JsonList → Bool
  | .nil => true
  | .cons x xs => uniqKeys x && uniqKeysL xs
def uniqKeysF : JsonFields → Bool
  | .nil => true
  | .cons _ v fs => uniqKeys v && uniqKeysF fs
end

/-! ## plain decoding: every JSON number reaches the schema as a float64 -/

mutual
def plainify : S → S
  | .int _ _ => .never
  | .opt s => .opt (plainify s)
  | .nul s => .nul (plainify s)
  | .obj m ca pt cks sh => .obj m (plainifyO ca) pt cks (plainifySh sh)
  | .slice e cks => .slice (plainify e) cks
  | .arr r cks it => .arr (plainifyO r) cks (plainifyL it)
  | .tup r cks it => .tup (plainifyO r) cks (plainifyL it)
  | .record k v cks => .record (plainify k) (plainify v) cks
  | .union ms => .union (plainifyL ms)
  | .xor ms => .xor (plainifyL ms)
  | .and l r => .and (plainify l) (plainify r)
  | s => s
def plainifyO : SOpt → SOpt
  | .none => .none
  | .some s => .some (plainify s)
def plainifyL : SList → SList
  | .nil => .nil
  | .cons s ss => .cons (plainify s) (plainifyL ss)
def plainifySh : Shape → Shape
  | .nil => .nil
  | .cons k s r => .cons k (plainify s) (plainifySh r)
end

/-- Parse verdict of the produced schema on an `encoding/json`-decoded instance. -/
def acceptsDecoded (s : S) (x : Json) : Bool := accepts (plainify s) x

/-! ## `J1` — the structured fragment of documents the equivalence theorem speaks about -/

mutual
inductive J1
  | str (mn mx : Option Nat) (pat : Option Pat)
  | num (mn mx emn emx mul : Option Int)               -- quarters
  | bool | null | any | tru | fls
  | arr (items : J1) (mn mx : Option Nat)
  | tup (items : J1List)                               -- prefixItems with minItems = maxItems = their number
  | obj (props : J1Props) (closed : Bool)              -- every property required; additionalProperties false / absent
  | objC (props : J1Props) (ca : J1)                   -- additionalProperties: <schema>
  | rcd (v : J1)                                       -- {type: object, additionalProperties: v}
  | const (p : Prim)
  | enumS (vs : List Str)
  | enumP (ps : List Prim)
  | anyOf (ms : J1List) | oneOf (ms : J1List) | allOf2 (a b : J1)
  | ref (d : J1)
  | fmt (name : Str) (good : List Str)
inductive J1List
  | nil | cons (d : J1) (ds : J1List)
inductive J1Props
  | nil | cons (k : Str) (d : J1) (r : J1Props)
end

def J1List.length : J1List → Nat
  | .nil => 0
  | .cons _ ds => ds.length + 1

def J1Props.keys : J1Props → List Str
  | .nil => []
  | .cons k _ r => k :: r.keys

mutual
/-- the JSON Schema document (canonical keyword order). -/
def J1.doc : J1 → JS
  | .str mn mx pat => .node (.ofList ([.type .string] ++ optKw mn .minLength ++ optKw mx .maxLength ++ optKw pat .pattern))
  | .num mn mx emn emx mul =>
      .node (.ofList ([.type .number] ++ optKw mn .minimum ++ optKw mx .maximum ++ optKw emn .exclusiveMinimum
        ++ optKw emx .exclusiveMaximum ++ optKw mul .multipleOf))
  | .bool => .node (.ofList [.type .boolean])
  | .null => .node (.ofList [.type .null])
  | .any => .node .nil
  | .tru => .bool true
  | .fls => .bool false
  | .arr it mn mx => .node (.ofList ([.type .array, .items it.doc] ++ optKw mn .minItems ++ optKw mx .maxItems))
  | .tup items =>
      .node (.ofList [.type .array, .prefixItems (docList items), .minItems items.length, .maxItems items.length])
  | .obj props closed =>
      .node (.ofList ([.type .object, .properties (docProps props), .required props.keys]
        ++ (if closed then [.additionalProperties (.bool false)] else [])))
  | .objC props ca =>
      .node (.ofList [.type .object, .properties (docProps props), .required props.keys, .additionalProperties ca.doc])
  | .rcd v => .node (.ofList [.type .object, .additionalProperties v.doc])
  | .const p => .node (.ofList [.const p])
  | .enumS vs => .node (.ofList [.enum (vs.map .str)])
  | .enumP ps => .node (.ofList [.enum ps])
  | .anyOf ms => .node (.ofList [.anyOf (docList ms)])
  | .oneOf ms => .node (.ofList [.oneOf (docList ms)])
  | .allOf2 a b => .node (.ofList [.allOf (.cons a.doc (.cons b.doc .nil))])
  | .ref d => .node (.ofList [.ref d.doc])
  | .fmt name good => .node (.ofList [.type .string, .format name good])
def docList : J1List → JSList
  | .nil => .nil
  | .cons d ds => .cons d.doc (docList ds)
def docProps : J1Props → JSProps
  | .nil => .nil
  | .cons k d r => .cons k d.doc (docProps r)
end

def litsOf : List Prim → SList
  | [] => .nil
  | p :: ps => .cons (.lit [p]) (litsOf ps)

mutual
/-- the schema FromJSONSchema produces for the document (what `fromJS` computes — theorem `c11_conv`). -/
def fromJ1 (fx : Fx) : J1 → S
  | .str mn mx pat => .str (optL mn .min ++ optL mx .max ++ optL pat patCk)
  | .num mn mx emn emx mul => .flt (optL mn .gte ++ optL mx .lte ++ optL emn .gt ++ optL emx .lt ++ optL mul .mul)
  | .bool => .bool
  | .null => .nil
  | .any => .any
  | .tru => .any
  | .fls => .never
  | .arr it mn mx => .slice (fromJ1 fx it) (optL mn .min ++ optL mx .max)
  | .tup items => .tup .none [] (fromJ1L fx items)
  | .obj props closed => .obj (if closed then .strict else openMode fx) .none false [] (fromJ1P fx props)
  | .objC props ca => .obj .loose (.some (fromJ1 fx ca)) false [] (fromJ1P fx props)
  | .rcd v => .record (.str []) (fromJ1 fx v) []
  | .const p => match p with | .null => .nil | p => .lit [p]
  | .enumS vs => .enum vs
  | .enumP ps => .union (litsOf ps)
  | .anyOf ms => .union (fromJ1L fx ms)
  | .oneOf ms => .xor (fromJ1L fx ms)
  | .allOf2 a b => .and (fromJ1 fx a) (fromJ1 fx b)
  | .ref d => fromJ1 fx d
  | .fmt _ good => .enum good
def fromJ1L (fx : Fx) : J1List → SList
  | .nil => .nil
  | .cons d ds => .cons (fromJ1 fx d) (fromJ1L fx ds)
def fromJ1P (fx : Fx) : J1Props → Shape
  | .nil => .nil
  | .cons k d r => .cons k (fromJ1 fx d) (fromJ1P fx r)
end

mutual
/-- the fragment on which the produced schema accepts exactly the valid instances.  Outside it:
    `integer` (not in `J1` at all), null-admitting union members, optional properties, open tuples,
    sibling keywords, … — the finding classes of notes/C11.md. -/
def good (fx : Fx) : J1 → Bool
  | .str _ _ _ => true
  | .num _ _ _ _ mul => (match mul with | some m => decide (0 < m) | none => true)
  | .arr it _ _ => good fx it
  | .tup items => goodL fx items && decide (0 < items.length)
  | .obj props _ => goodP fx props && !props.keys.isEmpty
  | .objC props ca => goodP fx props && !props.keys.isEmpty && good fx ca && !(isBoolDoc ca)
  | .rcd v => good fx v
  | .const _ => true
  | .enumS vs => !vs.isEmpty
  | .enumP ps => !ps.isEmpty && (allStrs ps).isNone && !ps.contains .null
  | .anyOf ms => goodM fx ms && decide (2 ≤ ms.length)
  | .oneOf ms => goodM fx ms && decide (2 ≤ ms.length)
  | .allOf2 a b =>
      good fx a && good fx b && !(fromJ1 fx a).acceptsNull && !(fromJ1 fx b).acceptsNull
      && !(fromJ1 fx a).isStrictObj && !(fromJ1 fx b).isStrictObj
  | .ref d => good fx d
  | .fmt name good => knownFormats.contains name && !good.isEmpty
  | _ => true
def goodL (fx : Fx) : J1List → Bool
  | .nil => true
  | .cons d ds => good fx d && goodL fx ds
/-- union members: the union rejects nil before its members are asked. -/
def goodM (fx : Fx) : J1List → Bool
  | .nil => true
  | .cons d ds => good fx d && !(fromJ1 fx d).acceptsNull && goodM fx ds
def goodP (fx : Fx) : J1Props → Bool
  | .nil => true
  | .cons _ d r => good fx d && goodP fx r
/-- `additionalProperties: true/false` take other paths of convertObject. -/
def isBoolDoc : J1 → Bool
  | .tru => true
  | .fls => true
  | _ => false
end

end Gozod.Jsc
