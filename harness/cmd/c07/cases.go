package main

// Translator (go/ast): jsonschema/to.go + core/constants.go  →  lean/Gozod/Gen/ToJsonCases.lean
//
// What is extracted (source facts only — nothing is executed except the rendering of the numeric defaults, which goes
// through the same lib.NewRat the converter uses):
//
//   * every ZodTypeCode constant of core/constants.go                                     → `inductive Code`, `Code.all`
//   * every `case` clause of `switch internals.Type` in (*converter).doConvert            → `branches : List Branch`
//     with, per clause: the codes, the "type" / "format" of the lib.Schema literal it assigns, the converter methods it
//     calls, whether it mentions ErrUnrepresentableType, whether it recurses into Inner()/Output(), `fallthrough`
//   * the `numericRangeDefaults` map (key → inclusive range as the document shows it)       → `rangeDefaults`
//   * the `switch k` of (*converter).applyBag (Bag key → lib.Schema field written)         → `bagTable`
//   * the `compositeTypes` set (what Reused:"ref" moves to $defs)                          → `compositeTypes`
//   * the option strings the converter compares against (c.opts.X == "…")                   → `optionTests`
//
// The file is rewritten only when its content changes.  lean/Gozod/Proofs/C07Cases.lean proves, over the WHOLE tables,
// that every branch is either the one the transcription `toJS` assumes for that code or belongs to a code explicitly
// listed as unmodelled, that the range defaults are `IntKind.defaults` / `fltDefault`, and that the Bag keys the
// modelled checks write are copied to the keywords `numKws` / `lengthKws` / `itemsKws` / `propsKws` emit.

import (
	"encoding/json"
	"fmt"
	"go/ast"
	"go/constant"
	"go/parser"
	"go/token"
	"math"
	"math/big"
	"os"
	"path/filepath"
	"sort"
	"strconv"
	"strings"

	lib "github.com/kaptinlin/jsonschema"
)

type branch struct {
	Codes       []string
	Types       []string // "type" strings of the lib.Schema literal(s) assigned in the clause
	Format      string
	Calls       []string // methods of the converter called in the clause, source order, no repeats
	Unrep       bool     // mentions ErrUnrepresentableType
	Inner       bool     // recurses into .Inner() / .Output()
	Not         bool     // assigns a schema with a Not field
	Fallthrough bool
	Default     bool
}

func selName(e ast.Expr) string {
	if s, ok := e.(*ast.SelectorExpr); ok {
		return s.Sel.Name
	}
	if i, ok := e.(*ast.Ident); ok {
		return i.Name
	}
	return ""
}

func strLit(e ast.Expr) (string, bool) {
	if b, ok := e.(*ast.BasicLit); ok && b.Kind == token.STRING {
		s, err := strconv.Unquote(b.Value)
		return s, err == nil
	}
	return "", false
}

func findFunc(f *ast.File, recv, name string) *ast.FuncDecl {
	for _, d := range f.Decls {
		fd, ok := d.(*ast.FuncDecl)
		if !ok || fd.Name.Name != name {
			continue
		}
		if recv == "" && fd.Recv == nil {
			return fd
		}
		if recv != "" && fd.Recv != nil && len(fd.Recv.List) == 1 {
			t := fd.Recv.List[0].Type
			if st, ok := t.(*ast.StarExpr); ok {
				t = st.X
			}
			if selName(t) == recv {
				return fd
			}
		}
	}
	return nil
}

func addUnique(xs []string, x string) []string {
	for _, y := range xs {
		if y == x {
			return xs
		}
	}
	return append(xs, x)
}

// analyseClause: the facts of one case clause of doConvert's switch.
func analyseClause(cc *ast.CaseClause) branch {
	var b branch
	if cc.List == nil {
		b.Default = true
	}
	for _, e := range cc.List {
		b.Codes = append(b.Codes, strings.TrimPrefix(selName(e), "ZodType"))
	}
	for _, st := range cc.Body {
		if br, ok := st.(*ast.BranchStmt); ok && br.Tok == token.FALLTHROUGH {
			b.Fallthrough = true
		}
		ast.Inspect(st, func(n ast.Node) bool {
			switch x := n.(type) {
			case *ast.CompositeLit:
				if selName(x.Type) != "Schema" {
					return true
				}
				for _, el := range x.Elts {
					kv, ok := el.(*ast.KeyValueExpr)
					if !ok {
						continue
					}
					switch selName(kv.Key) {
					case "Type":
						if cl, ok := kv.Value.(*ast.CompositeLit); ok {
							for _, t := range cl.Elts {
								if s, ok := strLit(t); ok {
									b.Types = addUnique(b.Types, s)
								}
							}
						}
					case "Format":
						if call, ok := kv.Value.(*ast.CallExpr); ok && len(call.Args) == 1 {
							if s, ok := strLit(call.Args[0]); ok {
								b.Format = s
							}
						}
					case "Not":
						b.Not = true
					}
				}
			case *ast.CallExpr:
				if s, ok := x.Fun.(*ast.SelectorExpr); ok {
					if id, ok := s.X.(*ast.Ident); ok && id.Name == "c" {
						b.Calls = addUnique(b.Calls, s.Sel.Name)
					}
					if s.Sel.Name == "Inner" || s.Sel.Name == "Output" {
						b.Inner = true
					}
				}
			case *ast.Ident:
				if x.Name == "ErrUnrepresentableType" {
					b.Unrep = true
				}
			}
			return true
		})
	}
	return b
}

// evalConst: the constant expressions used in numericRangeDefaults.
func evalConst(e ast.Expr) (constant.Value, error) {
	switch x := e.(type) {
	case *ast.BasicLit:
		return constant.MakeFromLiteral(x.Value, x.Kind, 0), nil
	case *ast.ParenExpr:
		return evalConst(x.X)
	case *ast.UnaryExpr:
		v, err := evalConst(x.X)
		if err != nil {
			return nil, err
		}
		return constant.UnaryOp(x.Op, v, 0), nil
	case *ast.CallExpr:
		if selName(x.Fun) == "float64" && len(x.Args) == 1 {
			v, err := evalConst(x.Args[0])
			if err != nil {
				return nil, err
			}
			f, _ := constant.Float64Val(constant.ToFloat(v))
			return constant.MakeFloat64(f), nil
		}
	case *ast.SelectorExpr:
		if id, ok := x.X.(*ast.Ident); ok && id.Name == "math" {
			switch x.Sel.Name {
			case "MinInt", "MinInt64":
				return constant.MakeInt64(math.MinInt64), nil
			case "MaxInt", "MaxInt64":
				return constant.MakeInt64(math.MaxInt64), nil
			case "MaxUint", "MaxUint64":
				return constant.MakeUint64(math.MaxUint64), nil
			case "MaxFloat32":
				return constant.MakeFloat64(math.MaxFloat32), nil
			case "MaxFloat64":
				return constant.MakeFloat64(math.MaxFloat64), nil
			}
		}
	}
	return nil, fmt.Errorf("cannot evaluate constant expression %T", e)
}

// asDocumentInt: float64 → lib.NewRat → JSON text → exact integer (how the default shows up in the document).
func asDocumentInt(v constant.Value) (string, error) {
	f, _ := constant.Float64Val(constant.ToFloat(v))
	raw, err := json.Marshal(lib.NewRat(f))
	if err != nil {
		return "", err
	}
	r, ok := new(big.Rat).SetString(strings.Trim(string(raw), `"`))
	if !ok || !r.IsInt() {
		return "", fmt.Errorf("range default %s is not an integer in the document", raw)
	}
	return r.Num().String(), nil
}

func leanIdent(s string) string {
	var b strings.Builder
	for _, r := range s {
		if r == '_' || r >= '0' && r <= '9' || r >= 'a' && r <= 'z' || r >= 'A' && r <= 'Z' {
			b.WriteRune(r)
		} else {
			b.WriteRune('_')
		}
	}
	out := b.String()
	if out == "" || out[0] >= '0' && out[0] <= '9' {
		out = "x" + out
	}
	return out
}

func leanEnum(name string, ctors []string) string {
	var b strings.Builder
	fmt.Fprintf(&b, "inductive %s\n", name)
	for _, c := range ctors {
		fmt.Fprintf(&b, "  | %s\n", c)
	}
	fmt.Fprintf(&b, "  deriving DecidableEq, Repr\n\ndef %s.all : List %s := [%s]\n\n", name, name, joinPrefixed(ctors, "."))
	return b.String()
}

func joinPrefixed(xs []string, p string) string {
	ys := make([]string, len(xs))
	for i, x := range xs {
		ys[i] = p + x
	}
	return strings.Join(ys, ", ")
}

func leanBool(b bool) string {
	if b {
		return "true"
	}
	return "false"
}

func genCases(repo, target string) error {
	fset := token.NewFileSet()
	toGo, err := parser.ParseFile(fset, filepath.Join(repo, "jsonschema", "to.go"), nil, 0)
	if err != nil {
		return err
	}
	consts, err := parser.ParseFile(fset, filepath.Join(repo, "core", "constants.go"), nil, 0)
	if err != nil {
		return err
	}
	// --- all type codes
	var codes []string
	for _, d := range consts.Decls {
		gd, ok := d.(*ast.GenDecl)
		if !ok || gd.Tok != token.CONST {
			continue
		}
		for _, sp := range gd.Specs {
			vs := sp.(*ast.ValueSpec)
			if selName(vs.Type) != "ZodTypeCode" {
				continue
			}
			for _, n := range vs.Names {
				codes = append(codes, strings.TrimPrefix(n.Name, "ZodType"))
			}
		}
	}
	if len(codes) == 0 {
		return fmt.Errorf("no ZodTypeCode constants found in core/constants.go")
	}
	known := map[string]bool{}
	for _, c := range codes {
		known[c] = true
	}
	// --- doConvert's switch
	dc := findFunc(toGo, "converter", "doConvert")
	if dc == nil {
		return fmt.Errorf("(*converter).doConvert not found")
	}
	var branches []branch
	ast.Inspect(dc.Body, func(n ast.Node) bool {
		sw, ok := n.(*ast.SwitchStmt)
		if !ok || branches != nil {
			return true
		}
		if s, ok := sw.Tag.(*ast.SelectorExpr); !ok || s.Sel.Name != "Type" {
			return true
		}
		for _, st := range sw.Body.List {
			branches = append(branches, analyseClause(st.(*ast.CaseClause)))
		}
		return false
	})
	if len(branches) == 0 {
		return fmt.Errorf("`switch internals.Type` not found in doConvert")
	}
	for _, b := range branches {
		for _, c := range b.Codes {
			if !known[c] {
				return fmt.Errorf("doConvert: case %s is not a ZodTypeCode constant of core/constants.go", c)
			}
		}
	}
	// what follows the switch in doConvert (applyBag on every surviving branch)
	var tailCalls []string
	for _, st := range dc.Body.List {
		if _, ok := st.(*ast.SwitchStmt); ok {
			tailCalls = nil
			continue
		}
		ast.Inspect(st, func(n ast.Node) bool {
			if call, ok := n.(*ast.CallExpr); ok {
				if s, ok := call.Fun.(*ast.SelectorExpr); ok {
					if id, ok := s.X.(*ast.Ident); ok && id.Name == "c" {
						tailCalls = addUnique(tailCalls, s.Sel.Name)
					}
				}
			}
			return true
		})
	}
	// --- numericRangeDefaults, compositeTypes
	type rng struct{ Code, Lo, Hi string }
	var ranges []rng
	var composite []string
	for _, d := range toGo.Decls {
		gd, ok := d.(*ast.GenDecl)
		if !ok || gd.Tok != token.VAR {
			continue
		}
		for _, sp := range gd.Specs {
			vs := sp.(*ast.ValueSpec)
			if len(vs.Names) != 1 || len(vs.Values) != 1 {
				continue
			}
			cl, ok := vs.Values[0].(*ast.CompositeLit)
			if !ok {
				continue
			}
			switch vs.Names[0].Name {
			case "numericRangeDefaults":
				for _, el := range cl.Elts {
					kv := el.(*ast.KeyValueExpr)
					pair, ok := kv.Value.(*ast.CompositeLit)
					if !ok || len(pair.Elts) != 2 {
						return fmt.Errorf("numericRangeDefaults: entry %s is not a pair", selName(kv.Key))
					}
					var txt [2]string
					for i := 0; i < 2; i++ {
						v, err := evalConst(pair.Elts[i])
						if err != nil {
							return fmt.Errorf("numericRangeDefaults[%s]: %v", selName(kv.Key), err)
						}
						if txt[i], err = asDocumentInt(v); err != nil {
							return err
						}
					}
					ranges = append(ranges, rng{strings.TrimPrefix(selName(kv.Key), "ZodType"), txt[0], txt[1]})
				}
			case "compositeTypes":
				for _, el := range cl.Elts {
					composite = append(composite, strings.TrimPrefix(selName(el.(*ast.KeyValueExpr).Key), "ZodType"))
				}
			}
		}
	}
	if len(ranges) == 0 {
		return fmt.Errorf("numericRangeDefaults not found")
	}
	if len(composite) == 0 {
		return fmt.Errorf("compositeTypes not found")
	}
	// depth test of applyNumericRangeDefaults: `if c.depth != N { return }`
	depth := ""
	if fn := findFunc(toGo, "converter", "applyNumericRangeDefaults"); fn != nil {
		ast.Inspect(fn.Body, func(n ast.Node) bool {
			if be, ok := n.(*ast.BinaryExpr); ok && be.Op == token.NEQ {
				if s, ok := be.X.(*ast.SelectorExpr); ok && s.Sel.Name == "depth" {
					if bl, ok := be.Y.(*ast.BasicLit); ok {
						depth = bl.Value
					}
				}
			}
			return true
		})
	}
	if depth == "" {
		return fmt.Errorf("applyNumericRangeDefaults: `c.depth != N` test not found")
	}
	// --- applyBag: switch k { case "key": … js.Field = … }
	type bagRow struct{ Key, Field string }
	var bag []bagRow
	ab := findFunc(toGo, "converter", "applyBag")
	if ab == nil {
		return fmt.Errorf("(*converter).applyBag not found")
	}
	ast.Inspect(ab.Body, func(n ast.Node) bool {
		sw, ok := n.(*ast.SwitchStmt)
		if !ok {
			return true
		}
		if id, ok := sw.Tag.(*ast.Ident); !ok || id.Name != "k" {
			return true
		}
		for _, st := range sw.Body.List {
			cc := st.(*ast.CaseClause)
			var fields []string
			ast.Inspect(cc, func(m ast.Node) bool {
				if as, ok := m.(*ast.AssignStmt); ok {
					for _, l := range as.Lhs {
						if s, ok := l.(*ast.SelectorExpr); ok {
							if id, ok := s.X.(*ast.Ident); ok && id.Name == "js" {
								fields = addUnique(fields, s.Sel.Name)
							}
						}
					}
				}
				return true
			})
			for _, e := range cc.List {
				if k, ok := strLit(e); ok {
					bag = append(bag, bagRow{k, strings.Join(fields, "+")})
				}
			}
		}
		return false
	})
	if len(bag) == 0 {
		return fmt.Errorf("applyBag: `switch k` not found")
	}
	// --- option strings compared in to.go: c.opts.X == "lit" / != "lit"
	optSet := map[string]bool{}
	ast.Inspect(toGo, func(n ast.Node) bool {
		be, ok := n.(*ast.BinaryExpr)
		if !ok || (be.Op != token.EQL && be.Op != token.NEQ) {
			return true
		}
		s, ok := be.X.(*ast.SelectorExpr)
		if !ok {
			return true
		}
		in, ok := s.X.(*ast.SelectorExpr)
		if !ok || in.Sel.Name != "opts" {
			return true
		}
		if lit, ok := strLit(be.Y); ok {
			optSet[s.Sel.Name+"="+lit] = true
		}
		return true
	})
	var optTests []string
	for k := range optSet {
		optTests = append(optTests, k)
	}
	sort.Strings(optTests)

	// ---------------------------------------------------------------- render
	var w strings.Builder
	w.WriteString("/- REGENERATED on every `./check C07` run by harness/cmd/c07/cases.go (go/ast) from\n   <repo>/jsonschema/to.go and <repo>/core/constants.go.  DO NOT EDIT. -/\nnamespace Gozod.Gen.ToJsonCases\n\n")
	w.WriteString("/-- every `ZodTypeCode` constant of core/constants.go (prefix `ZodType` dropped). -/\n")
	w.WriteString(leanEnum("Code", codes))
	// enums of the strings that occur
	typeSet, fmtSet, callSet := []string{}, []string{}, []string{}
	for _, b := range branches {
		for _, t := range b.Types {
			typeSet = addUnique(typeSet, t)
		}
		if b.Format != "" {
			fmtSet = addUnique(fmtSet, b.Format)
		}
		for _, c := range b.Calls {
			callSet = addUnique(callSet, c)
		}
	}
	for _, c := range tailCalls {
		callSet = addUnique(callSet, c)
	}
	ident := func(xs []string) []string {
		ys := make([]string, len(xs))
		for i, x := range xs {
			ys[i] = leanIdent(x)
		}
		return ys
	}
	w.WriteString("/-- the `\"type\"` strings of the lib.Schema literals assigned in doConvert. -/\n")
	w.WriteString(leanEnum("JType", ident(typeSet)))
	w.WriteString("/-- the `\"format\"` strings assigned in doConvert. -/\n")
	w.WriteString(leanEnum("JFormat", ident(fmtSet)))
	w.WriteString("/-- the converter methods called from doConvert. -/\n")
	w.WriteString(leanEnum("Call", ident(callSet)))
	w.WriteString("structure Branch where\n  codes : List Code\n  types : List JType\n  format : Option JFormat\n  calls : List Call\n  unrep : Bool\n  inner : Bool\n  notKw : Bool\n  fallsThrough : Bool\n  isDefault : Bool\n  deriving DecidableEq, Repr\n\n")
	w.WriteString("/-- the case clauses of `switch internals.Type` in (*converter).doConvert, in source order. -/\ndef branches : List Branch := [\n")
	for i, b := range branches {
		f := "none"
		if b.Format != "" {
			f = "some ." + leanIdent(b.Format)
		}
		sep := ","
		if i == len(branches)-1 {
			sep = ""
		}
		fmt.Fprintf(&w, "  { codes := [%s], types := [%s], format := %s, calls := [%s], unrep := %s, inner := %s, notKw := %s, fallsThrough := %s, isDefault := %s }%s\n",
			joinPrefixed(b.Codes, "."), joinPrefixed(ident(b.Types), "."), f, joinPrefixed(ident(b.Calls), "."),
			leanBool(b.Unrep), leanBool(b.Inner), leanBool(b.Not), leanBool(b.Fallthrough), leanBool(b.Default), sep)
	}
	w.WriteString("]\n\n")
	fmt.Fprintf(&w, "/-- converter methods called in doConvert after the switch (on every branch that did not return). -/\ndef tailCalls : List Call := [%s]\n\n", joinPrefixed(ident(tailCalls), "."))
	w.WriteString("/-- `numericRangeDefaults`: inclusive range per code, as the emitted document shows it\n    (Go constant → float64 → lib.NewRat → JSON text → exact integer). -/\ndef rangeDefaults : List (Code × Int × Int) := [\n")
	for i, r := range ranges {
		sep := ","
		if i == len(ranges)-1 {
			sep = ""
		}
		fmt.Fprintf(&w, "  (.%s, %s, %s)%s\n", r.Code, leanInt(r.Lo), leanInt(r.Hi), sep)
	}
	w.WriteString("]\n\n")
	fmt.Fprintf(&w, "/-- applyNumericRangeDefaults returns at once unless `c.depth` equals this. -/\ndef rangeDefaultsDepth : Nat := %s\n\n", depth)
	fmt.Fprintf(&w, "/-- `compositeTypes`: what Reused:\"ref\" moves to `$defs`. -/\ndef compositeTypes : List Code := [%s]\n\n", joinPrefixed(composite, "."))
	keySet, fieldSet := []string{}, []string{}
	for _, r := range bag {
		keySet = addUnique(keySet, r.Key)
		fieldSet = addUnique(fieldSet, r.Field)
	}
	w.WriteString("/-- the Bag keys applyBag's `switch k` knows. -/\n")
	w.WriteString(leanEnum("BagKey", ident(keySet)))
	w.WriteString("/-- the lib.Schema fields its clauses assign (`A+B` = both). -/\n")
	w.WriteString(leanEnum("KwField", ident(fieldSet)))
	w.WriteString("def bagTable : List (BagKey × KwField) := [\n")
	for i, r := range bag {
		sep := ","
		if i == len(bag)-1 {
			sep = ""
		}
		fmt.Fprintf(&w, "  (.%s, .%s)%s\n", leanIdent(r.Key), leanIdent(r.Field), sep)
	}
	w.WriteString("]\n\n")
	w.WriteString("/-- option values the converter tests (`c.opts.<Field> ==/!= \"<value>\"`), sorted. -/\n")
	w.WriteString(leanEnum("OptTest", ident(optTests)))
	w.WriteString("end Gozod.Gen.ToJsonCases\n")

	text := w.String()
	if old, err := os.ReadFile(target); err == nil && string(old) == text {
		fmt.Println("unchanged", target)
		return nil
	}
	if err := os.WriteFile(target, []byte(text), 0o644); err != nil {
		return err
	}
	fmt.Println("rewritten", target)
	return nil
}

func leanInt(s string) string {
	if strings.HasPrefix(s, "-") {
		return "(" + s + ")"
	}
	return s
}
