// C10, universal value domain (round 4): the same engine run against integer, slice and object
// schemas' check chains, multi-issue Check functions, and Transform/Pipe chains across types.
// Mirrors lean/Gozod/Model/UVal.lean (callback families) and lean/Gozod/Drv/C10U.lean (line protocol).
package main

import (
	"fmt"
	"sort"
	"strconv"
	"strings"

	"github.com/kaptinlin/gozod"
	"github.com/kaptinlin/gozod/core"

	"verifharness/hx"
)

// encU renders a Go value of the four kinds (and pointers to them) as the driver's value token.
func encU(v any) string {
	if v == nil {
		return "n"
	}
	switch x := v.(type) {
	case string:
		return hexs(x)
	case *string:
		if x == nil {
			return "nilptr"
		}
		return hexs(*x)
	case int:
		return "i" + strconv.Itoa(x)
	case *int:
		if x == nil {
			return "nilptr"
		}
		return "i" + strconv.Itoa(*x)
	case *[]int:
		if x == nil {
			return "nilptr"
		}
		return encU(*x)
	case *map[string]any:
		if x == nil {
			return "nilptr"
		}
		return encU(*x)
	case []int:
		ss := make([]string, len(x))
		for i, e := range x {
			ss[i] = strconv.Itoa(e)
		}
		return "l" + strings.Join(ss, ",")
	case map[string]any:
		a, aok := x["a"].(int)
		b, bok := x["b"].(int)
		if !aok || !bok || len(x) != 2 {
			keys := make([]string, 0, len(x))
			for k := range x {
				keys = append(keys, k)
			}
			sort.Strings(keys)
			return "?map[" + strings.Join(keys, "+") + "]"
		}
		return fmt.Sprintf("o%d:%d", a, b)
	}
	return fmt.Sprintf("?%T", v)
}

func plain(v any) any {
	switch x := v.(type) {
	case *string:
		if x != nil {
			return *x
		}
		return ""
	case *int:
		if x != nil {
			return *x
		}
		return 0
	case *[]int:
		if x != nil {
			return *x
		}
		return []int(nil)
	case *map[string]any:
		if x != nil {
			return *x
		}
		return map[string]any(nil)
	}
	return v
}

func objAB(m map[string]any) (int, int) {
	a, _ := m["a"].(int)
	b, _ := m["b"].(int)
	return a, b
}

func customPredU(k int, v any) bool {
	switch x := plain(v).(type) {
	case string:
		return customPred(k, x)
	case int:
		switch k % 6 {
		case 0:
			return x%2 == 0
		case 1:
			return x > 0
		case 2:
			return false
		case 3:
			return true
		case 4:
			return x >= 3
		}
		return x == 1
	case []int:
		switch k % 6 {
		case 0:
			return len(x)%2 == 0
		case 1:
			for _, e := range x {
				if e == 7 {
					return true
				}
			}
			return false
		case 2:
			return false
		case 3:
			return true
		case 4:
			return len(x) >= 3
		}
		return len(x) > 0 && x[0] == 1
	case map[string]any:
		a, b := objAB(x)
		switch k % 6 {
		case 0:
			return (a+b)%2 == 0
		case 1:
			return a < b
		case 2:
			return false
		case 3:
			return true
		case 4:
			return a >= 3
		}
		return b == 1
	}
	return false
}

func issueCountU(k int, v any) int {
	switch k % 4 {
	case 0:
		if customPredU(0, v) {
			return 0
		}
		return 2
	case 1:
		if customPredU(4, v) {
			return 0
		}
		return 1
	case 2:
		return 3
	}
	return 0
}

func customOwU(k int, v any) any {
	switch x := plain(v).(type) {
	case string:
		return customOw(k, x)
	case int:
		switch k % 4 {
		case 0:
			return x + 1
		case 1:
			return x * 2
		case 2:
			return -x
		}
		return x - 3
	case []int:
		c := append([]int{}, x...)
		switch k % 4 {
		case 0:
			return append(c, 7)
		case 1:
			if len(c) == 0 {
				return c
			}
			return c[1:]
		case 2:
			for i, j := 0, len(c)-1; i < j; i, j = i+1, j-1 {
				c[i], c[j] = c[j], c[i]
			}
			return c
		}
		return append(c, 0)
	case map[string]any:
		a, b := objAB(x)
		switch k % 4 {
		case 0:
			a = a + 1
		case 1:
			a, b = b, a
		case 2:
			b = b * 2
		default:
			a = a - 3
		}
		return map[string]any{"a": a, "b": b}
	}
	return v
}

func customTrU(k int, v any) any {
	if k == 105 || v == nil {
		return nil
	}
	switch x := plain(v).(type) {
	case string:
		switch k {
		case 100:
			return len(x)
		case 103:
			return []int{len(x), 1}
		}
		return customTr(k, x)
	case int:
		switch k {
		case 101:
			return strconv.Itoa(x)
		case 103:
			return []int{x, x}
		case 104:
			return map[string]any{"a": x, "b": 1}
		}
		switch k % 3 {
		case 0:
			return x + 10
		case 1:
			return x * 3
		}
		return -x
	case []int:
		switch k {
		case 100:
			return len(x)
		case 102:
			s := 0
			for _, e := range x {
				s += e
			}
			return s
		}
		c := append([]int{}, x...)
		switch k % 3 {
		case 0:
			return append(c, 9)
		case 1:
			return append([]int{5}, c...)
		}
		for i, j := 0, len(c)-1; i < j; i, j = i+1, j-1 {
			c[i], c[j] = c[j], c[i]
		}
		return c
	case map[string]any:
		a, b := objAB(x)
		if k == 102 {
			return a + b
		}
		switch k % 3 {
		case 0:
			return map[string]any{"a": a + 10, "b": b}
		case 1:
			return map[string]any{"a": a, "b": b + 1}
		}
		return map[string]any{"a": b, "b": a}
	}
	return v
}

// trKinds: which transform ids apply to a value kind, and the kind they produce.
func trChoices(kind string) []struct {
	k   int
	out string
} {
	same := []struct {
		k   int
		out string
	}{{0, kind}, {1, kind}, {2, kind}, {105, "n"}}
	switch kind {
	case "s":
		return append(same, struct {
			k   int
			out string
		}{100, "i"}, struct {
			k   int
			out string
		}{103, "l"})
	case "i":
		return append(same, struct {
			k   int
			out string
		}{101, "s"}, struct {
			k   int
			out string
		}{103, "l"}, struct {
			k   int
			out string
		}{104, "o"})
	case "l":
		return append(same, struct {
			k   int
			out string
		}{100, "i"}, struct {
			k   int
			out string
		}{102, "i"})
	}
	return append(same, struct {
		k   int
		out string
	}{102, "i"})
}

func (l *logger) addU(kind string, tag, pos int, v any) {
	if l.mute {
		return
	}
	l.evs = append(l.evs, fmt.Sprintf("%s%d.%d=%s", kind, tag, pos, encU(v)))
}

// customParams builds the CustomParams of a refinement / Check: message only for refinements
// (a Check function sets the message of each issue it pushes itself).
func customParams(p *pipe, pos int, c chk, l *logger, withMsg bool) core.CustomParams {
	cp := core.CustomParams{Abort: c.abort}
	if withMsg {
		cp.Error = msg(p.tag, pos)
	}
	if c.when >= 0 {
		cp.When = func(pl *core.ParsePayload) bool {
			l.addU("w", p.tag, pos, pl.Value())
			return customPredU(c.when, pl.Value())
		}
	}
	return cp
}

func pushIssues(p *pipe, pos int, c chk, l *logger, v any, pl *core.ParsePayload) {
	l.addU("c", p.tag, pos, v)
	for i := 0; i < issueCountU(c.k, v); i++ {
		pl.AddIssueWithMessage(msg(p.tag, pos))
	}
}

// intSchema: the methods buildInt uses, shared by *ZodIntegerTyped[int, int] and *ZodIntegerTyped[int, *int].
func buildInt(p *pipe, l *logger) core.ZodType[int] {
	return buildIntOn(p, l, gozod.Int(tyMsg(p.tag)), func(v int, f func(any)) { f(v) })
}

func buildIntPtr(p *pipe, l *logger) core.ZodType[*int] {
	return buildIntOn(p, l, gozod.IntPtr(tyMsg(p.tag)), func(v *int, f func(any)) { f(v) })
}

func buildIntOn[R any](p *pipe, l *logger, s *gozod.ZodInteger[int, R], _ func(R, func(any))) *gozod.ZodInteger[int, R] {
	for pos, c := range p.cs {
		pos, c := pos, c
		m := msg(p.tag, pos)
		prev := s
		defer func() { _ = prev.Gt(1<<40, "decoy") }()
		switch c.kind {
		case "igte":
			if p.rng.Chance(50) {
				s = s.Gte(int64(c.n), m)
			} else {
				s = s.Min(int64(c.n), m)
			}
		case "ilte":
			if p.rng.Chance(50) {
				s = s.Lte(int64(c.n), m)
			} else {
				s = s.Max(int64(c.n), m)
			}
		case "igt":
			s = s.Gt(int64(c.n), m)
		case "ilt":
			s = s.Lt(int64(c.n), m)
		case "imul":
			s = s.MultipleOf(int64(c.n), m)
		case "ow":
			s = s.Overwrite(func(v int) int { l.addU("o", p.tag, pos, v); return customOwU(c.k, v).(int) })
		case "ref":
			// ZodIntegerTyped.Refine documents (fn, message); abort / when go through RefineAny. api 2 = the
			// directed family handing CustomParams to Refine as ZodString / ZodSlice / ZodObject.Refine accept it.
			switch {
			case c.api == 2:
				s = s.Refine(func(v int) bool { l.addU("c", p.tag, pos, v); return customPredU(c.k, v) }, customParams(p, pos, c, l, true))
			case c.api == 1 || c.abort || c.when >= 0:
				s = s.RefineAny(func(v any) bool { l.addU("c", p.tag, pos, v); return customPredU(c.k, v) }, customParams(p, pos, c, l, true))
			default:
				s = s.Refine(func(v int) bool { l.addU("c", p.tag, pos, v); return customPredU(c.k, v) }, m)
			}
		case "chk":
			s = s.Check(func(v R, pl *core.ParsePayload) { pushIssues(p, pos, c, l, any(v), pl) }, customParams(p, pos, c, l, false))
		}
		warm[R](l, s)
	}
	return s
}

func buildSlice(p *pipe, l *logger) core.ZodType[[]int] {
	s := gozod.Slice[int](gozod.Int(), tyMsg(p.tag))
	for pos, c := range p.cs {
		pos, c := pos, c
		m := msg(p.tag, pos)
		prev := s
		defer func() { _ = prev.Length(77, "decoy") }()
		switch c.kind {
		case "lmin":
			s = s.Min(c.n, m)
		case "lmax":
			s = s.Max(c.n, m)
		case "llen":
			s = s.Length(c.n, m)
		case "ow":
			s = s.Overwrite(func(v []int) []int { l.addU("o", p.tag, pos, v); return customOwU(c.k, v).([]int) })
		case "ref":
			s = s.Refine(func(v []int) bool { l.addU("c", p.tag, pos, v); return customPredU(c.k, v) }, customParams(p, pos, c, l, true))
		case "chk":
			s = s.Check(func(v []int, pl *core.ParsePayload) { pushIssues(p, pos, c, l, v, pl) }, customParams(p, pos, c, l, false))
		}
		warm[[]int](l, s)
	}
	return s
}

func buildObj(p *pipe, l *logger) core.ZodType[map[string]any] {
	s := gozod.Object(core.ObjectSchema{"a": gozod.Int(), "b": gozod.Int()}, tyMsg(p.tag))
	for pos, c := range p.cs {
		pos, c := pos, c
		prev := s
		defer func() { _ = prev.Refine(func(map[string]any) bool { return false }, "decoy") }()
		switch c.kind {
		case "ow":
			s = s.Overwrite(func(v map[string]any) map[string]any {
				l.addU("o", p.tag, pos, v)
				return customOwU(c.k, v).(map[string]any)
			})
		case "ref":
			s = s.Refine(func(v map[string]any) bool { l.addU("c", p.tag, pos, v); return customPredU(c.k, v) }, customParams(p, pos, c, l, true))
		case "chk":
			s = s.Check(func(v map[string]any, pl *core.ParsePayload) { pushIssues(p, pos, c, l, v, pl) }, customParams(p, pos, c, l, false))
		}
		warm[map[string]any](l, s)
	}
	return s
}

// buildU: the parser of a whole pipeline over the universal domain.
func buildU(p *pipe, l *logger) core.ZodType[any] {
	switch p.kind {
	case "B":
		switch p.vk {
		case "i":
			if p.ptr {
				return anyAdapter[*int]{buildIntPtr(p, l), p.tag}
			}
			return anyAdapter[int]{buildInt(p, l), p.tag}
		case "l":
			return anyAdapter[[]int]{buildSlice(p, l), p.tag}
		case "o":
			return anyAdapter[map[string]any]{buildObj(p, l), p.tag}
		}
		if p.ptr {
			return anyAdapter[*string]{buildBasePtr(p, l), p.tag}
		}
		return anyAdapter[string]{buildBaseVal(p, l), p.tag}
	case "T":
		src := buildU(p.a, l)
		warm[any](l, src)
		return core.NewZodTransform[any, any](src, func(in any, _ *core.RefinementContext) (any, error) {
			l.raw(fmt.Sprintf("t%d=%s", p.id, encU(in)))
			return customTrU(p.k, in), nil
		})
	}
	dst := buildU(p.b, l)
	warm[any](l, dst)
	if p.mp && p.a.kind == "B" && p.a.vk == "i" {
		// the integer type's own Pipe method (types/integer.go) instead of core.NewZodPipe
		if p.a.ptr {
			return buildIntOn(p.a, l, gozod.IntPtr(tyMsg(p.a.tag)), nil).Pipe(dst)
		}
		return buildIntOn(p.a, l, gozod.Int(tyMsg(p.a.tag)), nil).Pipe(dst)
	}
	src := buildU(p.a, l)
	warm[any](l, src)
	return core.NewZodPipe[any, any](src, dst, func(in any, pc *core.ParseContext) (any, error) {
		return dst.Parse(in, pc)
	})
}

func (p *pipe) tokensU() string {
	switch p.kind {
	case "B":
		parts := []string{"B", strconv.Itoa(p.tag), p.vk, hx.B01(p.ptr), strconv.Itoa(len(p.cs))}
		for _, c := range p.cs {
			parts = append(parts, c.tokensU())
		}
		return strings.Join(parts, " ")
	case "T":
		return fmt.Sprintf("T %d %d %s", p.id, p.k, p.a.tokensU())
	}
	if p.mp {
		return "PM " + p.a.tokensU() + " " + p.b.tokensU()
	}
	return "P " + p.a.tokensU() + " " + p.b.tokensU()
}

func (c chk) tokensU() string {
	switch c.kind {
	case "igte", "ilte", "igt", "ilt", "imul", "lmin", "lmax", "llen":
		return c.kind + " " + strconv.Itoa(c.n)
	case "chk":
		w := "-"
		if c.when >= 0 {
			w = strconv.Itoa(c.when)
		}
		return fmt.Sprintf("chk %d %s %s", c.k, hx.B01(c.abort), w)
	}
	return c.tokens()
}

func (p *pipe) howU() string {
	switch p.kind {
	case "B":
		name := map[string]string{"s": "String", "i": "Int", "l": "Slice[int]", "o": "Object{a,b}"}[p.vk]
		if p.ptr {
			name += "Ptr"
		}
		if p.vk == "i" {
			for _, c := range p.cs {
				if c.kind == "ref" && c.api == 2 {
					name += "[Refine(CustomParams)]"
					break
				}
			}
		}
		return name
	case "T":
		return "T(" + p.a.howU() + ")"
	}
	if p.mp {
		return "Int.Pipe(" + p.a.howU() + "," + p.b.howU() + ")"
	}
	return "P(" + p.a.howU() + "," + p.b.howU() + ")"
}

// ---- generation ----

func genValue(r *hx.Rng, kind string) any {
	switch kind {
	case "i":
		return hx.Pick(r, []int{0, 1, 2, 3, -1, 7, 10, -4, 6, 12, 100})
	case "l":
		n := r.Intn(5)
		v := make([]int, n)
		for i := range v {
			v[i] = hx.Pick(r, []int{1, 7, 0, 3, -2})
		}
		return v
	case "o":
		return map[string]any{"a": hx.Pick(r, []int{0, 1, 3, 4, -2}), "b": hx.Pick(r, []int{1, 0, 2, 5})}
	}
	return genString(r, 8)
}

func genCheckU(r *hx.Rng, kind string, in any) chk {
	custom := func() chk {
		switch r.Intn(10) {
		case 0, 1, 2:
			return chk{kind: "ow", k: r.Intn(4), when: -1}
		case 3, 4:
			c := chk{kind: "chk", k: r.Intn(4), abort: r.Chance(35), when: -1}
			if r.Chance(30) {
				c.when = r.Intn(6)
			}
			return c
		}
		c := chk{kind: "ref", k: r.Intn(6), abort: r.Chance(35), when: -1, api: r.Intn(2)}
		if r.Chance(35) {
			c.when = r.Intn(6)
		}
		if kind == "i" && r.Chance(3) {
			c.api = 2
		}
		return c
	}
	switch kind {
	case "i":
		if r.Chance(45) {
			x := in.(int)
			k := hx.Pick(r, []string{"igte", "ilte", "igt", "ilt", "imul"})
			n := x + r.Intn(5) - 2
			if k == "imul" {
				n = hx.Pick(r, []int{2, 3, 5, 1, -2, 0})
			}
			return chk{kind: k, n: n, when: -1}
		}
	case "l":
		if r.Chance(45) {
			n := len(in.([]int)) + r.Intn(5) - 2
			if n < 0 {
				n = 0
			}
			return chk{kind: hx.Pick(r, []string{"lmin", "lmax", "llen"}), n: n, when: -1}
		}
	case "s":
		if r.Chance(60) {
			c := genCheck(r, in.(string))
			if c.kind != "ref" {
				return c
			}
		}
	}
	return custom()
}

func genPipeU(r *hx.Rng, depth int, kind string, in any, st *genState) (*pipe, string) {
	if depth > 0 && r.Chance(50) {
		if r.Chance(50) {
			a, ka := genPipeU(r, depth-1, kind, in, st)
			if ka == "n" {
				return a, ka // nothing is stacked on a nil result but a Pipe target
			}
			st.tid++
			ch := hx.Pick(r, trChoices(ka))
			if ch.k == 105 && !r.Chance(30) {
				ch = trChoices(ka)[0]
			}
			return &pipe{kind: "T", id: st.tid, k: ch.k, a: a}, ch.out
		}
		a, ka := genPipeU(r, depth-1, kind, in, st)
		kt := ka
		if ka == "n" || r.Chance(8) {
			// the target receives a nil / a value of another kind: its type dispatch must reject it
			kt = hx.Pick(r, []string{"s", "i", "l", "o"})
		}
		b, kb := genPipeU(r, depth-1, kt, genValue(r, kt), st)
		return &pipe{kind: "P", a: a, b: b}, kb
	}
	p := &pipe{kind: "B", tag: st.tag, vk: kind, rng: r}
	if kind == "s" || kind == "i" {
		p.ptr = r.Chance(25)
	}
	st.tag++
	n := r.Intn(7)
	for i := 0; i < n; i++ {
		p.cs = append(p.cs, genCheckU(r, kind, in))
	}
	return p, kind
}

func observeU(p *pipe, input any, hist []func() any) string {
	l := &logger{hist: hist}
	var head string
	pm := hx.Safely(func() {
		sch := buildU(p, l)
		res, err := sch.Parse(input)
		if err == nil {
			head = "ok " + encU(res)
			return
		}
		head = errHead(err)
	})
	if pm != "" {
		return "panic " + strings.ReplaceAll(pm, "\n", " ")
	}
	if l.warmPanic != "" {
		return "panic in-a-history-parse " + strings.ReplaceAll(l.warmPanic, "\n", " ")
	}
	return head + ";" + strings.Join(l.evs, ";")
}

func runUniversal(o *hx.Out, r *hx.Rng, n int) {
	for i := 0; i < n; i++ {
		kind := hx.Pick(r, []string{"i", "i", "l", "o", "s"})
		in := genValue(r, kind)
		st := &genState{}
		depth := 0
		if r.Chance(45) {
			depth = 1 + r.Intn(3)
		}
		p, _ := genPipeU(r, depth, kind, in, st)
		if p.kind == "P" && p.a.kind == "B" && p.a.vk == "i" && r.Chance(50) {
			p.mp = true // root pipe from an Int base: through ZodIntegerTyped.Pipe
		}
		star := ""
		isPtr := false
		// (the class of every check kind on a raw pointer payload is read from Gen/RawClass.lean, Check(fn) of the
		// string types included: no line is kept free of pointers any more)
		noPtr := false
		if !noPtr && r.Chance(35) {
			isPtr = true
			star = "*"
		}
		mk := func() any {
			v := fresh(in)
			if !isPtr {
				return v
			}
			switch x := v.(type) {
			case string:
				return &x
			case int:
				return &x
			case []int:
				return &x
			case map[string]any:
				return &x
			}
			return v
		}
		how := p.howU()
		var hist []func() any
		if r.Chance(40) {
			hist = genHist(r, in, func() any { return genValue(r, kind) })
			how += " history=parse-after-every-prefix"
		}
		obs := observe(p, mk, hist, observeU)
		o.Emit(fmt.Sprintf("c10u %s | %s%s #%s", p.tokensU(), encU(in), star, how), obs)
		o.Count("u:kind:" + kind + star)
		o.Count("u:depth:" + strconv.Itoa(depth))
		o.Count("u:outcome:" + strings.SplitN(obs, " ", 2)[0])
	}
}

// emitShapes: one op per fingerprinted engine function (see fingerprint.go / Model/ChecksShape.lean).
func emitShapes(o *hx.Out, repo string) {
	for _, sf := range shapeFuncs {
		lines, err := fingerprint(repo, sf.File, sf.Func)
		if err != nil {
			o.Emit(fmt.Sprintf("c10shape %s ¦ !! %v #%s", sf.Func, err, sf.File), "shape-ok")
			continue
		}
		o.Emit(fmt.Sprintf("c10shape %s ¦ %s #%s", sf.Func, strings.Join(lines, " ¦ "), sf.File), "shape-ok")
		o.Count("shape:functions")
	}
}
