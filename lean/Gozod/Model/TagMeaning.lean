/-
  C06 — what a tag means on a field of kind K, as a function of the field's VALUE (all values, not probes).

  * `Code.accepts` — transcription of the rule loop of `applyParsedTagRules` and of `applyParameterizedRule` /
    `applyMinConstraint` / `applyMaxConstraint` / `applyNumericTagRule` / `applyStringFormat` in types/struct.go as
    they stand since the generic dispatch landed (9a4a316 … 6071bfe): the rule name selects a branch, the branch
    asserts a dispatch interface — `numericTagSchema` (ZodIntegerTyped[T,R], ZodFloatTyped[T,R]: every width,
    unsigned, float32/64, value and pointer output), `stringTagSchema` (*ZodString[T] and its wrappers),
    `sizedTagSchema` (ZodSlice, ZodMap, ZodRecord) — and adds ONE check to the schema; a rule whose branch does
    not match the schema's family is dropped; after the loop a pointer field is made optional unless `required`.
    The schema is therefore the list of checks `rules.flatMap (ruleChecks fam)`, and it accepts a present value
    iff every check holds.  That the family is all the dispatch looks at (not the width, signedness or
    pointer-ness) is what `Gen.tagFacts` / `c06_switches_reach` establish statically.
  * `Spec.accepts` — the documented meaning (docs/tags.md rule tables, by field class), written per rule and
    class, independently of the branch structure above: a present value satisfies every rule of the tag; a nil
    pointer is accepted iff the tag has no `required`.
  * Formats and regular expressions are a parameter `Lang` of both (which strings are e-mail addresses is C20's
    business); numbers are exact rationals `num / (den+1)` (every finite float and every integer is one; the
    numeric checks compare exactly, C16).

  Scope (hypotheses of `c06_tag_meaning`, all decidable): every rule of the tag is documented for the field's
  class or is a no-op name (`Docd`); a numeric bound is a decimal integer literal that the code parses exactly
  (`boundExact`: 64-bit for integer fields, |n| ≤ 2^53 for float fields, Go `int` for lengths and counts).
-/
import Gozod.Model.TagParser
import Gozod.Model.TagRules
namespace Gozod.Tags.Mean
open Gozod.TagParser
open Gozod.Tags.Rules (nm atoi? isInfix isPrefix isSuffix)

/-- the schema family of the field's base type: which dispatch interface its schema implements -/
inductive Fam | str | int | float | coll | other
  deriving DecidableEq, Repr

def Fam.numeric : Fam → Bool | .int | .float => true | _ => false

structure FKind where
  ptr : Bool
  fam : Fam
  deriving DecidableEq, Repr

/-- the value of a field -/
inductive Val
  | nil                         -- nil pointer
  | str (s : Str)               -- a string of these bytes
  | num (n : Int) (d : Nat)     -- the number n / (d+1): any integer (d = 0), any finite float
  | coll (k : Nat)              -- a non-nil slice / map with k (valid) elements
  | other (ok : Bool)           -- a present value of a family the rules say nothing about (bool, nested struct: `ok` = its own fields are valid)
  deriving DecidableEq, Repr

/-- a value a field of this kind can hold -/
def typed (K : FKind) : Val → Bool
  | .nil => K.ptr
  | .str _ => K.fam == .str
  | .num _ d => (K.fam == .int && d == 0) || K.fam == .float
  | .coll _ => K.fam == .coll
  | .other _ => K.fam == .other

/-- which strings belong to a named format / match a pattern — a parameter of code and documented meaning alike -/
structure Lang where
  fmt : Str → Str → Bool
  re : Str → Str → Bool

inductive Cmp | gte | lte | gt | lt
  deriving DecidableEq, Repr

/-- `b ⋈ n/(d+1)` evaluated exactly -/
def Cmp.holds (c : Cmp) (b : Int) (n : Int) (d : Nat) : Bool :=
  match c with
  | .gte => decide (b * (d + 1) ≤ n)
  | .lte => decide (n ≤ b * (d + 1))
  | .gt => decide (b * (d + 1) < n)
  | .lt => decide (n < b * (d + 1))

/-- recognised rule names -/
inductive RN
  | required | optional | coerce
  | min | max | length | gt | gte | lt | lte
  | email | url | uuid | regex | includes | startswith | endswith
  | positive | negative | nonnegative | nonpositive | nonempty
  | other
  deriving DecidableEq, Repr

def classify (n : Str) : RN :=
  if n == nm "required" then .required else if n == nm "optional" then .optional else if n == nm "coerce" then .coerce
  else if n == nm "min" then .min else if n == nm "max" then .max else if n == nm "length" then .length
  else if n == nm "gt" then .gt else if n == nm "gte" then .gte else if n == nm "lt" then .lt else if n == nm "lte" then .lte
  else if n == nm "email" then .email else if n == nm "url" then .url else if n == nm "uuid" then .uuid
  else if n == nm "regex" then .regex else if n == nm "includes" then .includes
  else if n == nm "startswith" then .startswith else if n == nm "endswith" then .endswith
  else if n == nm "positive" then .positive else if n == nm "negative" then .negative
  else if n == nm "nonnegative" then .nonnegative else if n == nm "nonpositive" then .nonpositive
  else if n == nm "nonempty" then .nonempty
  else .other

/-- `rule.Params[0]` when `len(rule.Params) > 0` -/
def firstParam (r : Rule) : Option Str :=
  match r.params with
  | some (p :: _) => some p
  | _ => none

/-! ### the code -/
namespace Code

/-- one check of a schema (internal/checks) -/
inductive Check
  | minLen (n : Int) | maxLen (n : Int) | len (n : Int)
  | fmt (name : Str) | regex (p : Str) | includes (p : Str) | startsWith (p : Str) | endsWith (p : Str)
  | cmp (c : Cmp) (b : Int)
  | minSize (n : Int) | maxSize (n : Int) | size (n : Int)
  deriving Repr

def Check.holds (L : Lang) : Check → Val → Bool
  | .minLen n, .str s => decide (n ≤ (s.length : Int))
  | .maxLen n, .str s => decide ((s.length : Int) ≤ n)
  | .len n, .str s => decide ((s.length : Int) = n)
  | .fmt name, .str s => L.fmt name s
  | .regex p, .str s => L.re p s
  | .includes p, .str s => isInfix p s
  | .startsWith p, .str s => isPrefix p s
  | .endsWith p, .str s => isSuffix p s
  | .cmp c b, .num n d => c.holds b n d
  | .minSize n, .coll k => decide (n ≤ (k : Int))
  | .maxSize n, .coll k => decide ((k : Int) ≤ n)
  | .size n, .coll k => decide ((k : Int) = n)
  | _, _ => true

/-- `parseTagInteger` (integer fields) / `strconv.ParseFloat` (float fields) on a decimal integer literal -/
def numBound (p : Str) : Option Int := atoi? p

/-- `applyNumericTagRule(schema, name, param)`: only a schema implementing `numericTagSchema` is touched -/
def numericRule (fam : Fam) (c : Cmp) (b : Int) : List Check := if fam.numeric then [.cmp c b] else []

/-- the checks ONE iteration of the rule loop adds to a schema of family `fam` -/
def ruleChecks (fam : Fam) (r : Rule) : List Check :=
  match classify r.name with
  -- `switch rule.Name` of applyParsedTagRules: the cases that do not look at the parameter
  | .required | .optional | .coerce => []
  | .email | .url | .uuid => if fam == .str then [.fmt r.name] else []          -- applyStringFormat: stringTagSchema
  | .positive => numericRule fam .gt 0
  | .negative => numericRule fam .lt 0
  | .nonnegative => numericRule fam .gte 0
  | .nonpositive => numericRule fam .lte 0
  | .nonempty =>
    match fam with
    | .str => [.minLen 1]                                                        -- stringTagSchema: checks.MinLength(1)
    | .coll => [.minSize 1]                                                      -- sizedTagSchema: checks.MinSize(1)
    | _ => []
  -- `default:` — `if len(rule.Params) > 0 { applyParameterizedRule(schema, rule.Name, rule.Params[0]) }`
  | n =>
    match firstParam r with
    | none => []
    | some p =>
      -- first switch of applyParameterizedRule: a numeric schema takes min/max/gt/gte/lt/lte itself
      if fam.numeric then
        match n, numBound p with
        | .min, some b | .gte, some b => [.cmp .gte b]
        | .max, some b | .lte, some b => [.cmp .lte b]
        | .gt, some b => [.cmp .gt b]
        | .lt, some b => [.cmp .lt b]
        | _, _ => []
      else
        match n with
        | .min =>                                                                -- strconv.Atoi, applyMinConstraint
          (match atoi? p, fam with
           | some v, .str => [.minLen v] | some v, .coll => [.minSize v] | _, _ => [])
        | .max =>
          (match atoi? p, fam with
           | some v, .str => [.maxLen v] | some v, .coll => [.maxSize v] | _, _ => [])
        | .length =>
          (match atoi? p, fam with
           | some v, .str => [.len v] | some v, .coll => [.size v] | _, _ => [])
        | .regex => if fam == .str then [.regex p] else []
        | .includes => if fam == .str then [.includes p] else []
        | .startswith => if fam == .str then [.startsWith p] else []
        | .endswith => if fam == .str then [.endsWith p] else []
        | _ => []

/-- `fieldInfo.Required`: the tag has a `required` rule -/
def hasRequired (rules : List Rule) : Bool := rules.any fun r => classify r.name == .required

/-- `FromStruct`'s schema for a field of kind `K` tagged `rules`, applied to the field value -/
def accepts (L : Lang) (K : FKind) (rules : List Rule) (v : Val) : Bool :=
  match v with
  | .nil => K.ptr && !hasRequired rules            -- applyOptionalToSchema unless Required; a pointer schema rejects nil otherwise
  | .other ok => ok
  | v => (rules.flatMap (ruleChecks K.fam)).all (Check.holds L · v)

end Code

/-! ### the documented meaning -/
namespace Spec

def intParam (r : Rule) : Option Int := (firstParam r).bind atoi?

/-- String Validation table: lengths in bytes -/
def strRule (L : Lang) (r : Rule) (s : Str) : Bool :=
  match classify r.name, intParam r, firstParam r with
  | .min, some n, _ => decide (n ≤ (s.length : Int))
  | .max, some n, _ => decide ((s.length : Int) ≤ n)
  | .length, some n, _ => decide ((s.length : Int) = n)
  | .email, _, _ | .url, _, _ | .uuid, _, _ => L.fmt r.name s
  | .regex, _, some p => L.re p s
  | .includes, _, some p => isInfix p s
  | .startswith, _, some p => isPrefix p s
  | .endswith, _, some p => isSuffix p s
  | _, _, _ => true

/-- Numeric Validation table, on the exact value n/(d+1) -/
def numRule (r : Rule) (n : Int) (d : Nat) : Bool :=
  match classify r.name, intParam r with
  | .min, some b | .gte, some b => Cmp.holds .gte b n d
  | .max, some b | .lte, some b => Cmp.holds .lte b n d
  | .gt, some b => Cmp.holds .gt b n d
  | .lt, some b => Cmp.holds .lt b n d
  | .positive, _ => Cmp.holds .gt 0 n d
  | .negative, _ => Cmp.holds .lt 0 n d
  | .nonnegative, _ => Cmp.holds .gte 0 n d
  | .nonpositive, _ => Cmp.holds .lte 0 n d
  | _, _ => true

/-- Array/Slice Validation table, on the number of elements -/
def collRule (r : Rule) (k : Nat) : Bool :=
  match classify r.name, intParam r with
  | .min, some n => decide (n ≤ (k : Int))
  | .max, some n => decide ((k : Int) ≤ n)
  | .length, some n => decide ((k : Int) = n)
  | .nonempty, _ => decide (1 ≤ k)
  | _, _ => true

/-- the value satisfies the rule, under the rule's documented meaning for the value's class -/
def holds (L : Lang) (r : Rule) : Val → Bool
  | .str s => strRule L r s
  | .num n d => numRule r n d
  | .coll k => collRule r k
  | _ => true

/-- "Fields are optional unless marked `required`" -/
def required (rules : List Rule) : Bool := rules.any fun r => classify r.name == .required

/-- documented verdict of a field tagged `rules` holding `v` -/
def accepts (L : Lang) (K : FKind) (rules : List Rule) (v : Val) : Bool :=
  match v with
  | .nil => K.ptr && !required rules
  | .other ok => ok
  | v => rules.all (holds L · v)

end Spec

/-- the rule is documented for the field's class (docs/tags.md rule tables; `gt/gte/lt/lte` and
    `includes/startswith/endswith` by name), or is a name without effect on validation -/
def Docd (fam : Fam) (r : Rule) : Bool :=
  match classify r.name, fam with
  | .required, _ | .optional, _ | .coerce, _ => true
  | .min, .str | .max, .str | .length, .str | .email, .str | .url, .str | .uuid, .str | .regex, .str
  | .includes, .str | .startswith, .str | .endswith, .str => true
  | .min, .int | .max, .int | .gt, .int | .gte, .int | .lt, .int | .lte, .int
  | .positive, .int | .negative, .int | .nonnegative, .int | .nonpositive, .int => true
  | .min, .float | .max, .float | .gt, .float | .gte, .float | .lt, .float | .lte, .float
  | .positive, .float | .negative, .float | .nonnegative, .float | .nonpositive, .float => true
  | .min, .coll | .max, .coll | .length, .coll | .nonempty, .coll => true
  | _, _ => false

/-- the meaning of a tag TEXT -/
def acceptsTag (L : Lang) (K : FKind) (tag : Str) (v : Val) : Bool := Code.accepts L K (Rules.rulesOf tag) v
def specTag (L : Lang) (K : FKind) (tag : Str) (v : Val) : Bool := Spec.accepts L K (Rules.rulesOf tag) v

end Gozod.Tags.Mean
