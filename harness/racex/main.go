// racex — history recorder for C14 (a module of its own: it needs github.com/anishathalye/porcupine, which the shared
// harness module does not require).
//
//	racex -out <dir> -seed N -tier quick|thorough
//
// Runs small concurrent histories against the real registry (core.Registry) and the real global configuration
// (core.SetConfig / core.Config), recording for every call its invocation time, response time (one global atomic
// clock) and result.  Every history becomes one op line for the Lean driver
//
//	c14 hist <kind> <id>/<op>/<res>/<inv>/<ret> ...
//
// (the driver searches for a linearization against the Lean sequential specification Conc.apply) and one observation:
// the verdict of porcupine on the same history against a Go transcription of that specification ("lin" / "nonlin").
package main

import (
	"flag"
	"fmt"
	"os"
	"path/filepath"
	"runtime"
	"sort"
	"strconv"
	"strings"
	"sync"
	"sync/atomic"

	"github.com/anishathalye/porcupine"
	"github.com/kaptinlin/gozod/core"
	"github.com/kaptinlin/gozod/types"
)

type rng struct{ s uint64 }

func (r *rng) next() uint64 {
	r.s += 0x9E3779B97F4A7C15
	z := r.s
	z = (z ^ (z >> 30)) * 0xBF58476D1CE4E5B9
	z = (z ^ (z >> 27)) * 0x94D049BB133111EB
	return z ^ (z >> 31)
}
func (r *rng) intn(n int) int { return int(r.next() % uint64(n)) }

// ---- the sequential specification, transcribed (Lean: Gozod.Conc.apply) ---------------------------------------

type state struct {
	reg            string // "k=v,k=v" sorted by k
	custom, locale int
}

func regMap(s string) map[int]int {
	m := map[int]int{}
	if s == "" {
		return m
	}
	for _, kv := range strings.Split(s, ",") {
		a, b, _ := strings.Cut(kv, "=")
		k, _ := strconv.Atoi(a)
		v, _ := strconv.Atoi(b)
		m[k] = v
	}
	return m
}

func regStr(m map[int]int) string {
	var ks []int
	for k := range m {
		ks = append(ks, k)
	}
	sort.Ints(ks)
	var ps []string
	for _, k := range ks {
		ps = append(ps, fmt.Sprintf("%d=%d", k, m[k]))
	}
	return strings.Join(ps, ",")
}

// op: "A.k.v" "G.k" "H.k" "R.k" "K" "C" "Z" "S.c.l"; result: "u" "f.v" "m" "b.0" "b.1" "k.1.2" "c.c.l"
func specStep(st state, op string) (state, string) {
	f := strings.Split(op, ".")
	n := func(i int) int { v, _ := strconv.Atoi(f[i]); return v }
	switch f[0] {
	case "A":
		m := regMap(st.reg)
		m[n(1)] = n(2)
		st.reg = regStr(m)
		return st, "u"
	case "G":
		if v, ok := regMap(st.reg)[n(1)]; ok {
			return st, fmt.Sprintf("f.%d", v)
		}
		return st, "m"
	case "H":
		if _, ok := regMap(st.reg)[n(1)]; ok {
			return st, "b.1"
		}
		return st, "b.0"
	case "R":
		m := regMap(st.reg)
		delete(m, n(1))
		st.reg = regStr(m)
		return st, "u"
	case "K":
		var ks []int
		for k := range regMap(st.reg) {
			ks = append(ks, k)
		}
		sort.Ints(ks)
		out := "k"
		for _, k := range ks {
			out += "." + strconv.Itoa(k)
		}
		return st, out
	case "C":
		return st, fmt.Sprintf("c.%d.%d", st.custom, st.locale)
	case "Z":
		st.custom, st.locale = 0, 0
		return st, "c.0.0"
	case "S":
		if n(1) != 0 {
			st.custom = n(1)
		}
		if n(2) != 0 {
			st.locale = n(2)
		}
		return st, fmt.Sprintf("c.%d.%d", st.custom, st.locale)
	}
	return st, "?"
}

var model = porcupine.Model{
	Init: func() interface{} { return state{} },
	Step: func(s, in, out interface{}) (bool, interface{}) {
		ns, r := specStep(s.(state), in.(string))
		return r == out.(string), ns
	},
	Equal: func(a, b interface{}) bool { return a.(state) == b.(state) },
}

// ---- recording ----------------------------------------------------------------------------------------------

type call struct {
	id       int
	op, res  string
	inv, ret int64
}

var clock atomic.Int64

func errMap(id int) core.ZodErrorMap {
	if id == 0 {
		return nil
	}
	return func(core.ZodRawIssue) string { return strconv.Itoa(id) }
}

func mapID(f core.ZodErrorMap) int {
	if f == nil {
		return 0
	}
	v, _ := strconv.Atoi(f(core.ZodRawIssue{}))
	return v
}

func cfgRes(c *core.ZodConfig) string {
	return fmt.Sprintf("c.%d.%d", mapID(c.CustomError), mapID(c.LocaleError))
}

type env struct {
	reg     *core.Registry[core.GlobalMeta]
	schemas []core.ZodSchema // index = key
}

func (e *env) exec(op string) string {
	f := strings.Split(op, ".")
	n := func(i int) int { v, _ := strconv.Atoi(f[i]); return v }
	switch f[0] {
	case "A":
		e.reg.Add(e.schemas[n(1)], core.GlobalMeta{ID: f[2]})
		return "u"
	case "G":
		if m, ok := e.reg.Get(e.schemas[n(1)]); ok {
			return "f." + m.ID
		}
		return "m"
	case "H":
		if e.reg.Has(e.schemas[n(1)]) {
			return "b.1"
		}
		return "b.0"
	case "R":
		e.reg.Remove(e.schemas[n(1)])
		return "u"
	case "K":
		var ks []int
		e.reg.Range(func(s core.ZodSchema, _ core.GlobalMeta) bool {
			for i, x := range e.schemas {
				if x == s {
					ks = append(ks, i)
				}
			}
			return true
		})
		sort.Ints(ks)
		out := "k"
		for _, k := range ks {
			out += "." + strconv.Itoa(k)
		}
		return out
	case "C":
		return cfgRes(core.Config())
	case "Z":
		return cfgRes(core.SetConfig(nil))
	case "S":
		return cfgRes(core.SetConfig(&core.ZodConfig{CustomError: errMap(n(1)), LocaleError: errMap(n(2))}))
	}
	return "?"
}

// runHistory: threads[i] = the ops of goroutine i; all goroutines start together; tail runs afterwards, alone.
func runHistory(e *env, threads [][]string, tail []string) []call {
	clock.Store(0)
	var mu sync.Mutex
	var calls []call
	var wg sync.WaitGroup
	g := len(threads)
	maxLen := 0
	for _, t := range threads {
		if len(t) > maxLen {
			maxLen = len(t)
		}
	}
	// one spin barrier before every call index, so that the j-th calls of all goroutines start together
	ready := make([]atomic.Int32, maxLen+1)
	spin := runtime.GOMAXPROCS(0) >= g
	for t := range threads {
		wg.Add(1)
		go func(t int) {
			defer wg.Done()
			local := make([]call, 0, len(threads[t]))
			for j, op := range threads[t] {
				ready[j].Add(1)
				for ready[j].Load() < int32(g) {
					if !spin {
						runtime.Gosched()
					}
				}
				inv := clock.Add(1)
				res := e.exec(op)
				ret := clock.Add(1)
				local = append(local, call{0, op, res, inv, ret})
			}
			mu.Lock()
			calls = append(calls, local...)
			mu.Unlock()
		}(t)
	}
	wg.Wait()
	for _, op := range tail {
		inv := clock.Add(1)
		res := e.exec(op)
		ret := clock.Add(1)
		calls = append(calls, call{0, op, res, inv, ret})
	}
	sort.Slice(calls, func(i, j int) bool { return calls[i].inv < calls[j].inv })
	for i := range calls {
		calls[i].id = i + 1
	}
	return calls
}

func check(calls []call) string {
	var ops []porcupine.Operation
	for _, c := range calls {
		ops = append(ops, porcupine.Operation{ClientId: c.id, Input: c.op, Call: c.inv, Output: c.res, Return: c.ret})
	}
	if porcupine.CheckOperations(model, ops) {
		return "lin"
	}
	return "nonlin"
}

func line(kind string, calls []call) string {
	var b strings.Builder
	fmt.Fprintf(&b, "c14 hist %s", kind)
	for _, c := range calls {
		fmt.Fprintf(&b, " %d/%s/%s/%d/%d", c.id, c.op, c.res, c.inv, c.ret)
	}
	return b.String()
}

func main() {
	out := flag.String("out", "", "output directory")
	seed := flag.Uint64("seed", 1, "")
	tier := flag.String("tier", "quick", "")
	flag.Parse()
	r := &rng{s: *seed*0x9E3779B97F4A7C15 + 77}
	nReg, nCfg := 400, 1500
	if *tier == "thorough" {
		nReg, nCfg = 3000, 12000
	}
	fo, _ := os.Create(filepath.Join(*out, "hist-ops.txt"))
	fi, _ := os.Create(filepath.Join(*out, "hist-impl.txt"))
	defer fo.Close()
	defer fi.Close()
	emitted := map[string]int{}
	emit := func(kind string, calls []call, always bool) {
		v := check(calls)
		// every non-linearizable history is kept; of the linearizable ones the first 150 per kind and then every 20th
		emitted[kind+":"+v]++
		n := emitted[kind+":"+v]
		if v == "lin" && !always && n > 150 && n%20 != 0 {
			return
		}
		if v == "nonlin" && n > 5 {
			return
		}
		fmt.Fprintln(fo, line(kind, calls))
		fmt.Fprintln(fi, v)
	}
	// registry: 3 schemas, 3 goroutines x 2 calls + 2 calls afterwards (8 calls)
	schemas := []core.ZodSchema{nil, types.String(), types.Int(), types.Bool()}
	regOps := func() string {
		k := 1 + r.intn(3)
		switch r.intn(6) {
		case 0, 1:
			return fmt.Sprintf("A.%d.%d", k, 1+r.intn(9))
		case 2:
			return fmt.Sprintf("G.%d", k)
		case 3:
			return fmt.Sprintf("H.%d", k)
		case 4:
			return fmt.Sprintf("R.%d", k)
		}
		return "K"
	}
	for i := 0; i < nReg; i++ {
		e := &env{reg: core.NewRegistry[core.GlobalMeta](), schemas: schemas}
		th := make([][]string, 3)
		for t := range th {
			th[t] = []string{regOps(), regOps()}
		}
		emit("registry", runHistory(e, th, []string{"K", fmt.Sprintf("G.%d", 1+r.intn(3))}), false)
	}
	// configuration: reset, then 3 goroutines x 2 calls (SetConfig of one field, of both, reset, Config) + Config afterwards
	cfgOps := func(t int) string {
		switch r.intn(8) {
		case 0, 1, 2:
			return fmt.Sprintf("S.%d.0", 1+r.intn(9))
		case 3, 4, 5:
			return fmt.Sprintf("S.0.%d", 1+r.intn(9))
		case 6:
			return "C"
		}
		return fmt.Sprintf("S.%d.%d", 1+r.intn(9), 1+r.intn(9))
	}
	e := &env{}
	for i := 0; i < nCfg; i++ {
		core.SetConfig(nil)
		th := make([][]string, 3)
		for t := range th {
			th[t] = []string{cfgOps(t), cfgOps(t)}
		}
		if i%50 == 0 {
			th[r.intn(3)][1] = "Z"
		}
		emit("config", runHistory(e, th, []string{"C"}), false)
	}
	core.SetConfig(nil)
	var ks []string
	for k := range emitted {
		ks = append(ks, k)
	}
	sort.Strings(ks)
	var parts []string
	for _, k := range ks {
		parts = append(parts, fmt.Sprintf("%q:%d", k, emitted[k]))
	}
	os.WriteFile(filepath.Join(*out, "hist-stats.json"), []byte("{"+strings.Join(parts, ",")+"}"), 0o644)
}
