package main

// C12 — ToJSONSchema is a pure, deterministic function of the schema.
//
// Histories over families of schemas related by derivation: real chaining calls (every exported method that
// returns a schema, by reflection), ToJSONSchema calls with every option setting, and Parse calls, in the orders
// the property names: child then parent, two siblings, twice, after N conversions of other schemas.  Nothing is
// converted implicitly.  For every conversion the oracle document is the one an isolated twin gives (the same
// derivation replayed on a fresh base, nothing converted before); after every step all live schemas are
// re-snapshotted (exported internals: checks, Bag content, Values, flags, registry entry) and re-parsed on the probe
// set.  "document equals the isolated one and nothing live changed" is evaluated on the implementation alone; the
// Lean store model must predict the same verdicts, and that the converted schema's Bag is not rewritten.

import (
	"fmt"
	"os"
	"sort"

	"verifharness/hx"
	"verifharness/storex"
)

func main() {
	if err := run(hx.ParseFlags()); err != nil {
		fmt.Fprintln(os.Stderr, "harness error:", err)
		os.Exit(3)
	}
}

func emit(h *storex.Hist, o *hx.Out, tag string) {
	if len(h.Steps) == 0 {
		return
	}
	op, impl := h.OpLine("c12", tag)
	o.Emit(op, impl)
}

func run(c hx.Config) error {
	o, err := hx.NewOut(c.OutDir)
	if err != nil {
		return err
	}
	rng := hx.NewRng(c.Seed)
	nopt := storex.NOptions()
	nfixed := len(storex.OptionSets())
	cat := storex.CheckCatalogue()
	nstatic := storex.NStaticChecks()
	reps := 1
	if c.Thorough() {
		reps = 4
	}
	for _, b := range storex.Bases() {
		methods := storex.Methods(b.Mk())
		sort.Strings(methods)
		for rep := 0; rep < reps; rep++ {
			for _, m := range methods {
				// H1: child, then parent (and again)
				h := storex.NewHist(b, false)
				if h.Step(0, m, rep, o) {
					h.ConvR(1, 0, o)
					h.ConvR(0, 0, o)
					h.ParseStep(0, o)
					h.ConvR(1, rng.Intn(nopt), o)
					h.ConvR(0, rng.Intn(nopt), o)
					h.ConvR(1, 0, o)
					emit(h, o, "H1")
				}
				// H5: registries. The child (and a composite holding it, when the type has one) is converted under a
				// private registry that gives it an ID, then everything again with default options, then under a
				// registry that names every schema, then with default options again.
				h = storex.NewHist(b, false)
				if h.Step(0, m, rep, o) {
					for _, w := range []string{"Or", "And", "Optional", "Array", "Slice"} {
						if h.Step(1, w, 0, o) {
							break
						}
					}
					n := len(h.Live)
					h.ConvR(1, 0, o)
					for j := 0; j < n; j++ {
						h.ConvR(j, nfixed, o)
					}
					for j := 0; j < n; j++ {
						h.ConvR(j, 0, o)
					}
					for j := n - 1; j >= 0; j-- {
						h.ConvR(j, nfixed+1, o)
					}
					h.ConvR(n-1, nfixed+2, o)
					for j := 0; j < n; j++ {
						h.ConvR(j, rng.Intn(nfixed), o)
					}
					emit(h, o, "H5")
				}
				// H2: two siblings
				h = storex.NewHist(b, false)
				if h.Step(0, m, rep, o) && h.Step(0, hx.Pick(rng, methods), rng.Intn(3), o) {
					h.ConvR(1, 0, o)
					h.ConvR(2, 0, o)
					h.ConvR(1, 0, o)
					h.ParseStep(1, o)
					h.ParseStep(0, o)
					h.ConvR(0, 0, o)
					h.Step(0, m, rep, o) // a sibling derived after the conversions
					h.ConvR(len(h.Live)-1, 0, o)
					emit(h, o, "H2")
				}
			}
			// H6: check VALUES from the catalogue (storex/checks.go: the exported Describe/Meta factories with GlobalMeta
			// variants of every JSON kind, user-defined checks, every check the public methods build) attached through
			// every method that takes a core.ZodCheck; the result converted three times, then the parent, a composite
			// holding the result three times, a sibling carrying the next catalogue entry, everything once more.
			for _, cm := range storex.CheckMethods(b.Mk()) {
				for ci := range cat {
					if ci >= nstatic && !c.Thorough() && rng.Intn(len(cat)-nstatic) >= 40 {
						continue
					}
					h := storex.NewHist(b, false)
					if !h.Step(0, cm, storex.CheckVariantBase+ci, o) {
						continue
					}
					h.ConvR(1, 0, o)
					h.ConvR(1, 0, o)
					h.ConvR(1, rng.Intn(nopt), o)
					h.ConvR(0, 0, o)
					for _, w := range []string{"Or", "Optional", "Array", "Slice", "And"} {
						if h.Step(1, w, 0, o) {
							break
						}
					}
					n := len(h.Live)
					for k := 0; k < 3; k++ {
						h.ConvR(n-1, []int{0, rng.Intn(nopt), 0}[k], o)
					}
					h.Step(0, cm, storex.CheckVariantBase+(ci+1)%len(cat), o)
					h.Step(1, cm, storex.CheckVariantBase+rng.Intn(nstatic), o) // a second check on top of the first
					for j := 0; j < len(h.Live); j++ {
						h.ConvR(j, 0, o)
					}
					h.ParseStep(1, o)
					for j := len(h.Live) - 1; j >= 0; j-- {
						h.ConvR(j, rng.Intn(nopt), o)
					}
					emit(h, o, "H6")
				}
			}
			// H7: the same catalogue attached with the exported Internals().AddCheck to a freshly constructed schema of
			// this type (every type takes checks this way); converted three times, a child derived by a random method
			// and converted twice, the base again, a sibling, everything once more.
			if rep == 0 {
				for ci := range cat {
					if lim := map[bool]int{false: 6, true: 60}[c.Thorough()]; ci >= nstatic && rng.Intn(len(cat)-nstatic) >= lim {
						continue
					}
					h := storex.NewHist(storex.WithAddedCheck(b, storex.CheckVariantBase+ci), false)
					h.ConvR(0, 0, o)
					h.ConvR(0, rng.Intn(nopt), o)
					h.ConvR(0, 0, o)
					h.ParseStep(0, o)
					for try := 0; try < 4; try++ {
						if h.Step(0, hx.Pick(rng, methods), rng.Intn(3), o) {
							break
						}
					}
					if len(h.Live) > 1 {
						h.ConvR(1, 0, o)
						h.ConvR(1, rng.Intn(nopt), o)
						h.ConvR(0, 0, o)
						h.Step(0, hx.Pick(rng, methods), rng.Intn(3), o)
					}
					for j := 0; j < len(h.Live); j++ {
						h.ConvR(j, 0, o)
					}
					emit(h, o, "H7")
				}
			}
			// H3/H4: random family, conversions in random order with random options, each schema at least twice
			for k := 0; k < 6; k++ {
				h := storex.NewHist(b, false)
				for i := 0; i < 2+rng.Intn(4); i++ {
					h.Step(rng.Intn(len(h.Live)), hx.Pick(rng, methods), rng.Intn(3), o)
				}
				n := len(h.Live)
				for i := 0; i < 2*n; i++ {
					j := rng.Intn(n)
					switch rng.Intn(5) {
					case 0:
						h.ParseStep(j, o)
					default:
						h.ConvR(j, rng.Intn(nopt), o)
					}
					if rng.Intn(4) == 0 {
						h.Step(rng.Intn(len(h.Live)), hx.Pick(rng, methods), rng.Intn(3), o)
					}
				}
				for j := 0; j < n; j++ {
					h.ConvR(j, 0, o)
				}
				emit(h, o, "H3")
			}
		}
	}
	return o.Close(map[string]any{"bases": len(storex.Bases()), "option_sets": nopt, "check_catalogue": len(cat), "check_catalogue_static": nstatic})
}
