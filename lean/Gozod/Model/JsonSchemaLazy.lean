/-
  C07 — `Lazy` on top of the base fragment `S` (Model/JsonSchema.lean is shared with C11 and is not changed).

  `X` = a base schema, or `LazyAny(func() any { return x })` with the lazy schema's own Optional()/Nilable() flags.
  Transcribed:
    * types/lazy.go `(*ZodLazy).validateLazy`  — nil handling, `resolveInner`, the inner verdict, and the swallowing of
      the inner error when it is a lazy-type error (`isExpectedLazyError`);
    * types/lazy.go `convertToAnyInterface` / `(*schemaWrapper).Parse` — the inner schema is consulted only when its Go
      `Parse` method returns one of `any, string, bool, int, float64, int64, *string, *bool`; for every other result type
      (`int8`, `[]any`, `map[string]any`, `*int`, `*any`, …) the wrapper's `default:` branch reports a lazy-type error,
      which `validateLazy` swallows — the value is accepted as it is (`consults`);
    * jsonschema/to.go `convertLazy` — the inner schema's document, converted one level down (`c.depth` = 2: no numeric
      range defaults), wrapped in `anyOf [_, null]` by `convert` when the lazy schema is Nilable.
  Core-only.
-/
import Gozod.Model.JsonSchema
namespace Gozod.Jsc

/-- the calls that change which fields of an object may be absent (types/object.go). `keys = []` is the call without
    arguments (`Partial()`, `Required()`; `Partial([]string{})` behaves the same: `len(keys[0]) > 0` is tested). -/
inductive ObjOp
  | part (keys : List Str)
  | req (keys : List Str)
  deriving DecidableEq, Repr

/-- `ZodObjectInternals.IsPartial / PartialExceptions / RequiredKeys` (a nil map = `none`; maps as key lists). -/
structure ObjSt where
  isPartial : Bool := false
  exceptions : Option (List Str) := none
  required : List Str := []
  deriving DecidableEq, Repr

/-- `(*ZodObject).Partial` / `(*ZodObject).Required` on the state; `names` = the field names of the shape.
    Partial: the exceptions are the shape's fields NOT listed; RequiredKeys is cleared (no keys) or cut down to the
    exceptions.  Required: all names (no keys), or the old RequiredKeys plus the listed ones; the partial state stays. -/
def ObjSt.step (names : List Str) (st : ObjSt) : ObjOp → ObjSt
  | .part keys =>
      let exc : Option (List Str) := if keys.isEmpty then none else some (names.filter (fun n => !keys.contains n))
      { isPartial := true, exceptions := exc,
        required := match exc with
          | none => []
          | some e => st.required.filter (fun k => e.contains k) }
  | .req keys =>
      { st with required := if keys.isEmpty then names else st.required ++ keys }

def objSt (names : List Str) (ops : List ObjOp) : ObjSt := ops.foldl (ObjSt.step names) {}

/-- `(*ZodObject).isFieldOptional`: RequiredKeys first, then the partial state, then the field schema's own flag. -/
def ObjSt.fieldOpt (st : ObjSt) (k : Str) (s : S) : Bool :=
  if st.required.contains k then false
  else if st.isPartial && (match st.exceptions with | none => true | some e => !e.contains k) then true
  else s.isOpt

/-- `validateObject`'s field loop for an arbitrary "may be absent" rule (`shapeAccepts part` is the instance
    `fun _ s => part || s.isOpt`, `shapeAcceptsG_part`). -/
def shapeAcceptsG (f : Str → S → Bool) : Shape → JsonFields → Bool
  | .nil, _ => true
  | .cons k s rest, fs =>
      (match fs.find k with
       | none => f k s
       | some v => accepts s v)
      && shapeAcceptsG f rest fs

/-- the `required` list of `convertObjectFromShape` once it asks the object (`IsFieldOptional`). -/
def reqKeysG (f : Str → S → Bool) : Shape → List Str
  | .nil => []
  | .cons k s rest => if f k s then reqKeysG f rest else k :: reqKeysG f rest

inductive X
  | base (s : S)
  | lazy (o n : Bool) (x : X)      -- o / n: `.Optional()` / `.Nilable()` applied to the lazy schema itself
  /-- an object with a history of Partial(keys…) / Required(keys…) calls (at the top of a schema, or under Lazy): the
      field schemas are base schemas, where nested objects carry the plain `Partial()` flag of `S.obj`. -/
  | objF (mode : Mode) (ca : SOpt) (ops : List ObjOp) (cks : List SzCk) (shape : Shape)
  /-- `Map(String()<kcks>, val)<cks>` (types/map.go): a JSON object whose keys go through the key schema and whose values
      go through `val` — `validateMap` is the Record loop without exhaustiveness; `convertMap` refuses non-string keys. -/
  | mapOf (kcks : List StrCk) (val : S) (cks : List SzCk)

def X.objSt : Mode → List ObjOp → Shape → ObjSt := fun _ ops shape => Gozod.Jsc.objSt shape.keys ops

/-- the Go result type of `s.Optional()` / `s.Nilable()` is `*string` or `*bool`. -/
def S.ptrConsulted : S → Bool
  | .str _ => true
  | .bool => true
  | .enum _ => true
  | .lit vs => !vs.isEmpty && (vs.all (fun p => match p with | .str _ => true | _ => false)
                               || vs.all (fun p => match p with | .bool _ => true | _ => false))
  | .opt s => s.ptrConsulted
  | .nul s => s.ptrConsulted
  | _ => false

/-- `(*schemaWrapper).Parse` has a case for the result type of this schema's `Parse` (or the schema is a
    `core.ZodType[any]` and needs no wrapper). -/
def S.lazyConsults : S → Bool
  | .str _ => true
  | .int k _ => (match k with | .int => true | .i64 => true | _ => false)
  | .flt _ => true
  | .bool => true | .nil => true | .any => true | .never => true
  | .enum _ => true | .lit _ => true
  | .opt s => s.ptrConsulted
  | .nul s => s.ptrConsulted
  | .union _ => true | .xor _ => true | .and _ _ => true
  | .obj _ _ _ _ _ => false | .slice _ _ => false | .arr _ _ _ => false | .tup _ _ _ => false | .record _ _ _ => false

def X.consults : X → Bool
  | .base s => s.lazyConsults
  | .lazy o n _ => !(o || n)        -- ZodLazy[any] is a ZodType[any]; ZodLazy[*any] (Optional/Nilable) returns `*any`
  | .objF _ _ _ _ _ => false        -- Parse returns map[string]any
  | .mapOf _ _ _ => false           -- Parse returns map[any]any

/-- `Parse` verdict. -/
def acceptsX : X → Json → Bool
  | .base s, v => accepts s v
  | .lazy o n x, v =>
      if v.isNull then o || n                 -- validateLazy: `value == nil`
      else if x.consults then acceptsX x v    -- inner.Parse(value, ctx)
      else true                               -- wrapper default branch → lazy-type error → swallowed
  | .objF mode ca ops cks shape, v => match v with
      | .obj fs =>
          shapeAcceptsG ((objSt shape.keys ops).fieldOpt) shape fs
          && (match mode with
              | .strict => fs.all (fun k _ => shape.keys.contains k)
              | .strip => catchAccepts ca shape.keys fs
              | .loose => catchAccepts ca shape.keys fs)
          && szOk cks (match mode with
              | .strip => (fs.filter (fun k => shape.keys.contains k)).size
              | _ => fs.size)
      | _ => false
  | .mapOf kcks val cks, v => accepts (.record (.str kcks) val cks) v   -- size checks, then every key / value

/-- the value `Parse` returns when it accepts. -/
def outX : X → Json → Json
  | .base s, v => out s v
  | .lazy _ _ x, v => if v.isNull then v else if x.consults then outX x v else v
  | .objF mode ca _ cks shape, v => out (.obj mode ca false cks shape) v
  | .mapOf _ _ _, v => v

/-- `convert` on the schema (`top` = depth 1). -/
def toJSX (top : Bool) : X → JS
  | .base s => toJS top false false s
  | .lazy _ n x =>
      if n then .node (.ofList [.anyOf (.cons (toJSX false x) (.cons nullJS .nil))])
      else toJSX false x
  | .objF mode ca ops cks shape =>
      let req := reqKeysG ((objSt shape.keys ops).fieldOpt) shape
      .node (.ofList (
        [.type .object]
        ++ (if shape.keys.isEmpty then [] else [.properties (propsJS shape)])
        ++ (if req.isEmpty then [] else [.required req])
        ++ [.additionalProperties (caJS ca mode.isLoose)]
        ++ propsKws (szBag cks)))
  -- `convertMap` with the fix C07-map-key-schema: a key schema with checks becomes `propertyNames` (the Record document);
  -- a bare String() key adds nothing
  | .mapOf kcks val cks =>
      if kcks.isEmpty then
        .node (.ofList ([.type .object, .additionalProperties (toJS false false false val)] ++ propsKws (szBag cks)))
      else toJS top false false (.record (.str kcks) val cks)

def toDocX (x : X) : JS := toJSX true x

def parseX (x : X) (v : Json) : Option Json := if acceptsX x v then some (outX x v) else none

/-- the fragment on which the document of a lazy schema and its Parse agree:
    the inner schema is consulted (`lazy-typed-inner-unvalidated` otherwise), the inner schema is in the base theorem's
    fragment one level down, and null is admitted by the document exactly when validateLazy admits it
    (`lazy-null`: a plain Optional() lazy accepts null, the document has none; a lazy over a null-admitting schema rejects
    null, the document admits it). -/
def reprX (top : Bool) : X → Bool
  | .base s => reprP top s
  | .lazy o n x => x.consults && reprX false x && (if n then true else !o && !acceptsX x .null)
  | .objF mode ca _ cks shape =>
      !mode.isStrip && !(mode.isStrict && ca.isSome) && szSimple cks && reprCa ca && reprShape shape
  | .mapOf kcks val cks => reprP false (.str kcks) && szSimple cks && reprP false val

def reprXTop : X → Bool
  | .base s => reprTop true s
  | .objF .strip ca _ cks shape => szSimple cks && (!ca.isSome || cks.isEmpty) && reprCa ca && reprShape shape
  | x => reprX true x

/-! ## the converter BEFORE the fix C07-object-optionality

`convertObjectFromShape` computed `required` from the field schemas alone (`!propSchema.Internals().IsOptional()`),
whatever the object's own Partial / Required state says — i.e. it emitted the document of the same schema with every
such call erased. -/

mutual
def erasePart : S → S
  | .opt s => .opt (erasePart s)
  | .nul s => .nul (erasePart s)
  | .obj m ca _ cks sh => .obj m (erasePartO ca) false cks (erasePartSh sh)
  | .slice e cks => .slice (erasePart e) cks
  | .arr r cks items => .arr (erasePartO r) cks (erasePartL items)
  | .tup r cks items => .tup (erasePartO r) cks (erasePartL items)
  | .record k v cks => .record (erasePart k) (erasePart v) cks
  | .union ms => .union (erasePartL ms)
  | .xor ms => .xor (erasePartL ms)
  | .and l r => .and (erasePart l) (erasePart r)
  | s => s
def erasePartO : SOpt → SOpt
  | .none => .none
  | .some s => .some (erasePart s)
def erasePartL : SList → SList
  | .nil => .nil
  | .cons s ss => .cons (erasePart s) (erasePartL ss)
def erasePartSh : Shape → Shape
  | .nil => .nil
  | .cons k s r => .cons k (erasePart s) (erasePartSh r)
end

/-- `eo`: the converter ignores the objects' Partial / Required state (before C07-object-optionality);
    `em`: `convertMap` drops the key schema (before C07-map-key-schema). -/
def eraseX (eo em : Bool) : X → X
  | .base s => .base (if eo then erasePart s else s)
  | .lazy o n x => .lazy o n (eraseX eo em x)
  | .objF m ca ops cks sh => if eo then .base (.obj m (erasePartO ca) false cks (erasePartSh sh)) else .objF m ca ops cks sh
  | .mapOf kcks val cks => .mapOf (if em then [] else kcks) (if eo then erasePart val else val) cks

/-- the document the converter emitted before the fixes named by the flags. -/
def toDocL (eo em : Bool) (x : X) : JS := toDocX (eraseX eo em x)

/-- … before both. -/
def toDocLegacy (x : X) : JS := toDocL true true x

mutual
/-- no `Partial()` anywhere in the schema. -/
def noPart : S → Bool
  | .opt s => noPart s
  | .nul s => noPart s
  | .obj _ ca part _ sh => !part && noPartO ca && noPartSh sh
  | .slice e _ => noPart e
  | .arr r _ items => noPartO r && noPartL items
  | .tup r _ items => noPartO r && noPartL items
  | .record k v _ => noPart k && noPart v
  | .union ms => noPartL ms
  | .xor ms => noPartL ms
  | .and l r => noPart l && noPart r
  | _ => true
def noPartO : SOpt → Bool
  | .none => true
  | .some s => noPart s
def noPartL : SList → Bool
  | .nil => true
  | .cons s ss => noPart s && noPartL ss
def noPartSh : Shape → Bool
  | .nil => true
  | .cons _ s r => noPart s && noPartSh r
end

/-- the schemas on which the old converter and the fixed one emit the same document: no Partial() below, and at an
    object with a call history the calls leave every field as its own schema says. -/
def legacyOK (eo em : Bool) : X → Bool
  | .base s => !eo || noPart s
  | .lazy _ _ x => legacyOK eo em x
  | .objF _ ca ops _ sh =>
      !eo || (noPartO ca && noPartSh sh && decide (reqKeysG ((objSt sh.keys ops).fieldOpt) sh = requiredKeys sh))
  | .mapOf kcks val _ => (!em || kcks.isEmpty) && (!eo || noPart val)

end Gozod.Jsc
