/-
  C15 — Parse neither writes to caller data nor lets results alias schema-held state.

  Model: `Gozod.Model.Store` (value graphs: `reach`, `ser`, `copyVal`, `parseNil`, `parsePtr`, `mutate`).
  The theorems are about the code after pending/C15-deep-clone-default.diff (`resolveDefault` copies the whole
  default graph).  For the pinned `cloneDefaultValue` (top level only) `today_nested_default_shared` is the witness:
  mutating a nested map of a returned default changes what the next Parse(nil) returns.
-/
import Gozod.Proofs.StoreLemmas

namespace Gozod.C15
open Gozod.Store

/-! ### what a caller sees depends only on the locations it reaches -/

theorem readNode_congr {h h' : Loc → Option Cell} (l : Loc) (e : h' l = h l) : readNode h' l = readNode h l := by
  simp [readNode, e]

theorem flatMap_congr' {α β : Type} (l : List α) (f g : α → List β) (h : ∀ a ∈ l, f a = g a) :
    l.flatMap f = l.flatMap g := by
  induction l with
  | nil => rfl
  | cons a l ih =>
    simp only [List.flatMap_cons]
    rw [h a (List.mem_cons_self ..), ih (fun b hb => h b (List.mem_cons_of_mem _ hb))]

theorem reach_ser_congr (f : Nat) : ∀ (h h' : Loc → Option Cell) (v : UVal),
    (∀ x ∈ reach f h v, h' x = h x) → reach f h' v = reach f h v ∧ ser f h' v = ser f h v := by
  induction f with
  | zero => intro h h' v _; exact ⟨rfl, rfl⟩
  | succ f ih =>
    intro h h' v e
    cases v with
    | scalar n => exact ⟨rfl, rfl⟩
    | ref l =>
      have hl : readNode h' l = readNode h l := readNode_congr l (e l (by simp [reach]))
      have hk : ∀ p ∈ readNode h l, reach f h' p.2 = reach f h p.2 ∧ ser f h' p.2 = ser f h p.2 := by
        intro p hp
        apply ih
        intro x hx
        apply e
        simp only [reach, List.mem_cons, List.mem_flatMap]
        exact Or.inr ⟨p, hp, hx⟩
      constructor
      · simp only [reach, hl]
        rw [flatMap_congr' _ _ _ (fun p hp => (hk p hp).1)]
      · simp only [ser, hl]
        rw [flatMap_congr' _ _ _ (fun p hp => by rw [(hk p hp).2])]

/-- frame for value graphs: a store extension that writes nothing below `n` cannot change a graph lying below `n` -/
theorem graph_frame (f : Nat) (n : Nat) (σ σ' : Store) (v : UVal) (he : ExtFrom n σ σ')
    (hb : ∀ x ∈ reach f σ.heap v, x < n) :
    reach f σ'.heap v = reach f σ.heap v ∧ ser f σ'.heap v = ser f σ.heap v :=
  reach_ser_congr f σ.heap σ'.heap v (fun x hx => he.2 x (hb x hx))

/-! ### the repaired `resolveDefault` returns a fresh, equal graph -/

def cstep (f : Nat) (acc : Store × List (Nat × UVal)) (p : Nat × UVal) : Store × List (Nat × UVal) :=
  ((copyVal f acc.1 p.2).1, acc.2 ++ [(p.1, (copyVal f acc.1 p.2).2)])

/-- what `copyVal f` must achieve (statement of the induction) -/
def CopyOK (f : Nat) : Prop :=
  ∀ (σ : Store) (v : UVal) (n : Nat), n ≤ σ.next → (∀ x ∈ reach f σ.heap v, x < n) →
    ExtFrom σ.next σ (copyVal f σ v).1 ∧
    ser f (copyVal f σ v).1.heap (copyVal f σ v).2 = ser f σ.heap v ∧
    (∀ x ∈ reach f (copyVal f σ v).1.heap (copyVal f σ v).2, σ.next ≤ x ∧ x < (copyVal f σ v).1.next)

theorem fold_spec (f : Nat) (hc : CopyOK f) (ps : List (Nat × UVal)) :
    ∀ (σ : Store) (out : List (Nat × UVal)) (n : Nat), n ≤ σ.next →
    (∀ p ∈ ps, ∀ x ∈ reach f σ.heap p.2, x < n) →
    ExtFrom σ.next σ (ps.foldl (cstep f) (σ, out)).1 ∧
    ∃ new, (ps.foldl (cstep f) (σ, out)).2 = out ++ new ∧
      new.flatMap (fun p => p.1 :: ser f (ps.foldl (cstep f) (σ, out)).1.heap p.2)
        = ps.flatMap (fun p => p.1 :: ser f σ.heap p.2) ∧
      ∀ q ∈ new, ∀ x ∈ reach f (ps.foldl (cstep f) (σ, out)).1.heap q.2,
        σ.next ≤ x ∧ x < (ps.foldl (cstep f) (σ, out)).1.next := by
  induction ps with
  | nil =>
    intro σ out n _ _
    exact ⟨ExtFrom.refl _ _, [], by simp, by simp, by simp⟩
  | cons p ps ih =>
    intro σ out n hn hb
    obtain ⟨e1, s1, r1⟩ := hc σ p.2 n hn (hb p (List.mem_cons_self ..))
    have hn1 : n ≤ (copyVal f σ p.2).1.next := Nat.le_trans hn e1.1
    have hb1 : ∀ p' ∈ ps, ∀ x ∈ reach f (copyVal f σ p.2).1.heap p'.2, x < n := by
      intro p' hp' x hx
      have hbp := hb p' (List.mem_cons_of_mem _ hp')
      have := (graph_frame f n σ _ p'.2 (e1.mono hn) hbp).1
      rw [this] at hx
      exact hbp x hx
    obtain ⟨e2, new, hout, hser, hreach⟩ := ih (copyVal f σ p.2).1 (out ++ [(p.1, (copyVal f σ p.2).2)]) n hn1 hb1
    simp only [List.foldl_cons, cstep] at *
    refine ⟨e1.trans (e2.mono e1.1), (p.1, (copyVal f σ p.2).2) :: new, ?_, ?_, ?_⟩
    · rw [hout]; simp
    · -- the first copied child keeps its look while the siblings are copied; the siblings were read unchanged
      have hfr := graph_frame f (copyVal f σ p.2).1.next (copyVal f σ p.2).1 _ (copyVal f σ p.2).2 e2
        (fun x hx => (r1 x hx).2)
      simp only [List.flatMap_cons]
      rw [hfr.2, s1, hser]
      congr 1
      apply flatMap_congr'
      intro p' hp'
      have hbp := hb p' (List.mem_cons_of_mem _ hp')
      rw [(graph_frame f n σ _ p'.2 (e1.mono hn) hbp).2]
    · intro q hq x hx
      simp only [List.mem_cons] at hq
      rcases hq with rfl | hq
      · have hfr := graph_frame f (copyVal f σ p.2).1.next (copyVal f σ p.2).1 _ (copyVal f σ p.2).2 e2
          (fun x hx => (r1 x hx).2)
        simp only at hx
        rw [hfr.1] at hx
        exact ⟨(r1 x hx).1, Nat.lt_of_lt_of_le (r1 x hx).2 e2.1⟩
      · exact ⟨Nat.le_trans e1.1 (hreach q hq x hx).1, (hreach q hq x hx).2⟩

theorem copyVal_fold (f : Nat) (σ : Store) (l : Loc) :
    copyVal (f + 1) σ (.ref l) =
      ((alloc ((readNode σ.heap l).foldl (cstep f) (σ, [])).1 (.node ((readNode σ.heap l).foldl (cstep f) (σ, [])).2)).1,
       .ref ((readNode σ.heap l).foldl (cstep f) (σ, [])).1.next) := by
  simp only [copyVal, alloc]
  rfl

theorem copyOK (f : Nat) : CopyOK f := by
  induction f with
  | zero =>
    intro σ v n _ _
    exact ⟨ExtFrom.refl _ _, rfl, by simp [reach]⟩
  | succ f ih =>
    intro σ v n hn hb
    cases v with
    | scalar k => exact ⟨ExtFrom.refl _ _, rfl, by simp [copyVal, reach]⟩
    | ref l =>
      have hkids : ∀ p ∈ readNode σ.heap l, ∀ x ∈ reach f σ.heap p.2, x < n := by
        intro p hp x hx
        apply hb
        simp only [reach, List.mem_cons, List.mem_flatMap]
        exact Or.inr ⟨p, hp, hx⟩
      obtain ⟨e1, new, hout, hser, hreach⟩ := fold_spec f ih (readNode σ.heap l) σ [] n hn hkids
      rw [copyVal_fold]
      generalize hz : (readNode σ.heap l).foldl (cstep f) (σ, []) = z at *
      simp only [List.nil_append] at hout
      have ea : ExtFrom z.1.next z.1 (alloc z.1 (.node z.2)).1 := alloc_ext _ _ _ (Nat.le_refl _)
      have hnode : readNode (alloc z.1 (.node z.2)).1.heap z.1.next = new := by
        simp [readNode, alloc_get, hout]
      have hkid : ∀ q ∈ new, reach f (alloc z.1 (.node z.2)).1.heap q.2 = reach f z.1.heap q.2 ∧
          ser f (alloc z.1 (.node z.2)).1.heap q.2 = ser f z.1.heap q.2 :=
        fun q hq => graph_frame f z.1.next z.1 _ q.2 ea (fun x hx => (hreach q hq x hx).2)
      refine ⟨e1.trans (ea.mono e1.1), ?_, ?_⟩
      · simp only [ser, hnode]
        rw [flatMap_congr' new _ (fun p => p.1 :: ser f z.1.heap p.2) (fun q hq => by rw [(hkid q hq).2]), hser]
      · intro x hx
        simp only [reach, hnode, List.mem_cons, List.mem_flatMap] at hx
        rcases hx with rfl | ⟨q, hq, hx⟩
        · exact ⟨e1.1, by simp [alloc]⟩
        · rw [(hkid q hq).1] at hx
          exact ⟨(hreach q hq x hx).1, Nat.lt_of_lt_of_le (hreach q hq x hx).2 ea.1⟩

/-- The schema's default graph lies in the region allocated when the schema was built. -/
def WfD (n : Nat) (h : Loc → Option Cell) (s : Schema) : Prop :=
  ∀ v, s.dflt = some v → ∀ x ∈ reach depth h v, x < n

/-- **c15_result_fresh**: with the repaired `resolveDefault`, everything the caller can reach from the value
    Parse(nil) returns was allocated by that call — none of it is held by the schema (or by anything else) —
    it looks exactly like the default, and the call wrote nothing that existed before. -/
theorem c15_result_fresh (cfg : Cfg) (hcfg : cfg.deepDefault = true) (σ : Store) (s : Schema)
    (hw : WfD σ.next σ.heap s) :
    ExtFrom σ.next σ (parseNil cfg σ s).1 ∧
    ∀ r, (parseNil cfg σ s).2 = some r →
      (∀ x ∈ reach depth (parseNil cfg σ s).1.heap r, σ.next ≤ x) ∧
      ∃ d, s.dflt = some d ∧ ser depth (parseNil cfg σ s).1.heap r = ser depth σ.heap d := by
  unfold parseNil
  cases hd : s.dflt with
  | none => exact ⟨ExtFrom.refl _ _, by simp⟩
  | some d =>
    cases d with
    | scalar k =>
      refine ⟨ExtFrom.refl _ _, fun r hr => ?_⟩
      simp only [Option.some.injEq] at hr
      subst hr
      exact ⟨by simp [reach, depth], .scalar k, rfl, rfl⟩
    | ref l =>
      simp only [hcfg, ↓reduceIte]
      obtain ⟨e, hs, hr⟩ := copyOK depth σ (.ref l) σ.next (Nat.le_refl _) (hw (.ref l) hd)
      refine ⟨e, fun r hr' => ?_⟩
      simp only [Option.some.injEq] at hr'
      subst hr'
      exact ⟨fun x hx => (hr x hx).1, .ref l, rfl, hs⟩

/-! ### mutating results -/

/-- A caller mutation at a location outside the schema-owned region does not change the default graph. -/
theorem c15_mut_frame (n : Nat) (σ : Store) (s : Schema) (l k : Nat) (w : UVal) (hw : WfD n σ.heap s) (hl : n ≤ l) :
    WfD n (mutate σ l k w).heap s ∧
    ∀ v, s.dflt = some v → ser depth (mutate σ l k w).heap v = ser depth σ.heap v := by
  have he : ExtFrom n σ (mutate σ l k w) := write_ext n σ l _ hl
  refine ⟨fun v hv x hx => ?_, fun v hv => (graph_frame depth n σ _ v he (hw v hv)).2⟩
  rw [(graph_frame depth n σ _ v he (hw v hv)).1] at hx
  exact hw v hv x hx

/-- Steps of a caller: Parse(nil) on some schema of the family, or an assignment into something it holds. -/
inductive Step
  | parse (s : Schema)
  | assign (l k : Nat) (w : UVal)

def runSteps (cfg : Cfg) : Store → List Step → Store
  | σ, [] => σ
  | σ, .parse s :: rest => runSteps cfg (parseNil cfg σ s).1 rest
  | σ, .assign l k w :: rest => runSteps cfg (mutate σ l k w) rest

/-- **c15_hist**: whatever the caller does with the values Parse returned — any interleaving of further Parse
    calls on the family and in-place mutations of results — the schema's default graph looks the same, so every
    later Parse(nil) returns a value that looks exactly like the first one. -/
theorem c15_hist (cfg : Cfg) (hcfg : cfg.deepDefault = true) (s : Schema) (ops : List Step) :
    ∀ (σ : Store) (n : Nat), n ≤ σ.next → WfD n σ.heap s →
    (∀ o ∈ ops, match o with | .assign l _ _ => n ≤ l | .parse t => WfD n σ.heap t) →
    (∀ o ∈ ops, match o with | .parse t => ∀ σ' : Store, ExtFrom n σ σ' → WfD σ'.next σ'.heap t | _ => True) →
    ∀ v, s.dflt = some v → ser depth (runSteps cfg σ ops).heap v = ser depth σ.heap v := by
  induction ops with
  | nil => intro σ n _ _ _ _ v _; rfl
  | cons o rest ih =>
    intro σ n hn hw hok hwf v hv
    cases o with
    | assign l k w =>
      have hl : n ≤ l := hok (.assign l k w) (List.mem_cons_self ..)
      obtain ⟨hw', hs⟩ := c15_mut_frame n σ s l k w hw hl
      have he : ExtFrom n σ (mutate σ l k w) := write_ext n σ l _ hl
      simp only [runSteps]
      rw [ih (mutate σ l k w) n hn hw' ?_ ?_ v hv, hs v hv]
      · intro o ho
        have := hok o (List.mem_cons_of_mem _ ho)
        cases o with
        | assign => exact this
        | parse t =>
          intro u hu x hx
          rw [(graph_frame depth n σ _ u he (this u hu)).1] at hx
          exact this u hu x hx
      · intro o ho
        have := hwf o (List.mem_cons_of_mem _ ho)
        cases o with
        | assign => trivial
        | parse t => exact fun σ' he' => this σ' (he.trans he')
    | parse t =>
      have hwt := hwf (.parse t) (List.mem_cons_self ..) σ (ExtFrom.refl _ _)
      obtain ⟨he, _⟩ := c15_result_fresh cfg hcfg σ t hwt
      have he' : ExtFrom n σ (parseNil cfg σ t).1 := he.mono hn
      simp only [runSteps]
      have hw' : WfD n (parseNil cfg σ t).1.heap s := by
        intro u hu x hx
        rw [(graph_frame depth n σ _ u he' (hw u hu)).1] at hx
        exact hw u hu x hx
      rw [ih (parseNil cfg σ t).1 n (Nat.le_trans hn he.1) hw' ?_ ?_ v hv, (graph_frame depth n σ _ v he' (hw v hv)).2]
      · intro o ho
        have := hok o (List.mem_cons_of_mem _ ho)
        cases o with
        | assign => exact this
        | parse t' =>
          intro u hu x hx
          rw [(graph_frame depth n σ _ u he' (this u hu)).1] at hx
          exact this u hu x hx
      · intro o ho
        have := hwf o (List.mem_cons_of_mem _ ho)
        cases o with
        | assign => trivial
        | parse t' => exact fun σ' he2 => this σ' (he'.trans he2)

/-! ### caller data -/

/-- **legacy** (round 1, the code BEFORE /repo e584c0e: `validatePointer` wrote `*ptr = v` back even without an overwrite; with
    `v` the value already there every location reads as before). Not the current code and not run by the driver: the pointer
    half of the first clause is `ptrP_input_unchanged` / `own_ptr_input_unchanged` (Proofs/C15Ptr.lean) over `parsePtrP`. -/
theorem legacy_c15_input_unchanged (σ : Store) (p : Loc) (kv : List (Nat × UVal)) (hp : σ.heap p = some (.node kv)) :
    ∀ x, (parsePtr σ p none).1.heap x = σ.heap x := by
  intro x
  simp only [parsePtr, write, upd, readNode, hp]
  split
  · next h => rw [h, hp]
  · rfl

/-- **legacy** (round 1): `Store.parsePtr` answers `.ref p` by definition — this says nothing about the code. It is kept because
    the overwrite branch (`ow = some kv`: `*ptr = v; return ptr`, still the code when an overwrite check is attached) is what the
    driver runs for `ptr … 1 …` lines. The same-pointer clause is `ptr_same_pointer_full / _partial / _obj_witness` (C15Ptr). -/
theorem legacy_c15_same_pointer (σ : Store) (p : Loc) (ow : Option (List (Nat × UVal))) :
    (parsePtr σ p ow).2 = .ref p := by
  cases ow <;> rfl

/-! ### witnesses and non-vacuity -/

/-- default `{1: {7: 5}}`: a map whose entry 1 is a nested map -/
def σd : Store :=
  { heap := upd (upd (fun _ => none) 1 (.node [(7, .scalar 5)])) 2 (.node [(1, .ref 1)]), next := 3 }
def sd : Schema :=
  { self := 0, kind := 1, flags := 0, checks := ⟨0, 0, 0⟩, bag := none, values := none, shape := none,
    dflt := some (.ref 2) }

example : WfD σd.next σd.heap sd := by
  intro v hv x hx
  simp only [sd, Option.some.injEq] at hv
  subst hv
  revert x
  decide

/-- **Witness (today's `cloneDefaultValue`)**: the first Parse(nil) returns a copy of the top-level map only;
    assigning into the nested map of that result changes what the schema's default looks like, i.e. what the
    next Parse(nil) returns. -/
theorem today_nested_default_shared :
    let r := parseNil today σd sd
    -- the nested map the caller reaches through the result is the schema's own (location 1)
    let σm := mutate r.1 1 7 (.scalar 99)
    ser depth σm.heap (.ref 2) ≠ ser depth σd.heap (.ref 2) ∧
    1 ∈ (match r.2 with | some v => reach depth r.1.heap v | none => []) := by decide

/-- The same on the repaired code: the result reaches only fresh locations and the default is untouched. -/
example :
    let r := parseNil fixed σd sd
    (match r.2 with | some v => (reach depth r.1.heap v).all (fun x => x ≥ 3) | none => false) = true ∧
    (match r.2 with | some v => ser depth r.1.heap v | none => []) = ser depth σd.heap (.ref 2) := by decide

end Gozod.C15
