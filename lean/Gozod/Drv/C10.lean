/-
  Line handler for C10.

  op line:  c10 <pipeline tokens> | <input hex> @ <implementation observation>
    pipeline := B <tag> <ptr 0/1> <n> <check>*n | T <id> <k> <pipeline> | P <pipeline> <pipeline>
    input    := <hex> [*]        (trailing * = given as a pointer)
    check    := min n | max n | len n | sw hex | ew hex | inc hex | lc | uc
              | ref k <abort 0/1> <when k|-> | trim | lower | upper | ow k
  observation:  (ok <hex> | err <tag>:<pos,pos,…>);<event,event,…>
    event := w<tag>.<pos>=<hex> | c<tag>.<pos>=<hex> | o<tag>.<pos>=<hex> | t<id>=<hex>
    (only user callbacks are observable: when-guards, refine predicates, custom overwrites,
     transforms — the model's log is projected onto those)
  output: "<model observation>\t<spec verdict on the implementation's observation>"
    where the spec verdict echoes the implementation's observation when it satisfies every clause
    of the property (evaluated with the reference notions seenAt / failsAt / abortAt, not with the
    model's loop), and is "spec-rejects:<clause>" otherwise.
-/
import Gozod.Model.Str
namespace Gozod.Drv.C10
open Gozod Gozod.Str

abbrev Chk := Check SPred SOw
abbrev Pipe := Pipeline SPred SOw Nat

/-! hex -/
def hexVal (c : Char) : Option Nat :=
  if '0' ≤ c ∧ c ≤ '9' then some (c.toNat - 48)
  else if 'a' ≤ c ∧ c ≤ 'f' then some (c.toNat - 87) else none

def unhexL : List Char → Option Bytes
  | [] => some []
  | a :: b :: r => do
    let x ← hexVal a; let y ← hexVal b; let t ← unhexL r
    pure ((x * 16 + y) :: t)
  | _ => none

def unhex (s : String) : Option Bytes := if s == "-" then some [] else unhexL s.toList

def hexDigit (n : Nat) : Char := if n < 10 then Char.ofNat (48 + n) else Char.ofNat (87 + n)
def hex (b : Bytes) : String :=
  if b.isEmpty then "-" else String.ofList (b.flatMap fun c => [hexDigit (c / 16), hexDigit (c % 16)])

/-! parsing the pipeline (prefix notation, fuel = token count) -/
def parseCheck : List String → Option (Chk × List String)
  | "min" :: n :: r => n.toNat?.map fun n => (.pred (.minLen n) false none, r)
  | "max" :: n :: r => n.toNat?.map fun n => (.pred (.maxLen n) false none, r)
  | "len" :: n :: r => n.toNat?.map fun n => (.pred (.lenEq n) false none, r)
  | "sw" :: h :: r => (unhex h).map fun b => (.pred (.startsWith b) false none, r)
  | "ew" :: h :: r => (unhex h).map fun b => (.pred (.endsWith b) false none, r)
  | "inc" :: h :: r => (unhex h).map fun b => (.pred (.includes b) false none, r)
  | "lc" :: r => some (.pred .lowercase false none, r)
  | "uc" :: r => some (.pred .uppercase false none, r)
  | "re" :: k :: r => k.toNat?.map fun k => (.pred (.regex k) false none, r)
  | "rel" :: m :: h :: r => do
    let m ← m.toNat?; let b ← unhex h
    pure (.pred (.relit m b) false none, r)
  | "ref" :: k :: a :: w :: r => do
    let k ← k.toNat?
    let w ← if w == "-" then some none else w.toNat?.map (fun n => some (SPred.custom n))
    pure (.pred (.custom k) (a == "1") w, r)
  | "trim" :: r => some (.overwrite .trim, r)
  | "lower" :: r => some (.overwrite .lower, r)
  | "upper" :: r => some (.overwrite .upper, r)
  | "ow" :: k :: r => k.toNat?.map fun k => (.overwrite (.custom k), r)
  | _ => none

def parseChecks : Nat → List String → Option (List Chk × List String)
  | 0, r => some ([], r)
  | n + 1, r => do
    let (c, r) ← parseCheck r
    let (cs, r) ← parseChecks n r
    pure (c :: cs, r)

def parsePipe : Nat → List String → Option (Pipe × List String)
  | 0, _ => none
  | fuel + 1, "B" :: tag :: ptr :: n :: r => do
    let tag ← tag.toNat?; let n ← n.toNat?
    let (cs, r) ← parseChecks n r
    let _ := fuel
    pure (.base tag (ptr == "1") cs, r)
  | fuel + 1, "T" :: id :: k :: r => do
    let id ← id.toNat?; let k ← k.toNat?
    let (p, r) ← parsePipe fuel r
    pure (.transform p id k, r)
  | fuel + 1, "P" :: r => do
    let (a, r) ← parsePipe fuel r
    let (b, r) ← parsePipe fuel r
    pure (.pipe a b, r)
  | _, _ => none

/-! observations -/
inductive OEv where
  | w (tag pos : Nat) (v : Bytes) | c (tag pos : Nat) (v : Bytes) | o (tag pos : Nat) (v : Bytes)
  | t (id : Nat) (v : Bytes)
  deriving DecidableEq

structure Obs where
  out : Except (Nat × List Nat) Bytes
  log : List OEv

def OEv.render : OEv → String
  | .w tg p v => s!"w{tg}.{p}={hex v}" | .c tg p v => s!"c{tg}.{p}={hex v}"
  | .o tg p v => s!"o{tg}.{p}={hex v}" | .t i v => s!"t{i}={hex v}"

def Obs.render (o : Obs) : String :=
  let head := match o.out with
    | .ok v => s!"ok {hex v}"
    | .error (tag, is) => s!"err {tag}:" ++ ",".intercalate (is.map toString)
  head ++ ";" ++ ",".intercalate (o.log.map OEv.render)

/-- Is the check at `pos` of schema `tag` a user callback of the given event kind? -/
def isCustom (cs : List Chk) (pos : Nat) : Bool :=
  match cs[pos]? with
  | some (.pred (.custom _) _ _) => true
  | some (.overwrite (.custom _)) => true
  | _ => false

def baseChecks : Pipe → Nat → Option (List Chk)
  | .base tag _ cs, t => if tag == t then some cs else none
  | .transform s _ _, t => baseChecks s t
  | .pipe a b, t => (baseChecks a t).orElse fun _ => baseChecks b t

/-- Project the model's log onto what the harness can observe. -/
def project (p : Pipe) (log : List (PEv Bytes)) : List OEv :=
  log.filterMap fun e =>
    match e with
    | .tr i v => some (.t i v)
    | .chk tag (.when pos v) => some (.w tag pos v)
    | .chk tag (.check pos v) =>
      match baseChecks p tag with
      | some cs => if isCustom cs pos then some (.c tag pos v) else none
      | none => none
    | .chk tag (.over pos v) =>
      match baseChecks p tag with
      | some cs => if isCustom cs pos then some (.o tag pos v) else none
      | none => none

def modelObs (p : Pipe) (v : Bytes) (ptrIn : Bool) : Obs :=
  let r := parsePipeline Str.env p v ptrIn
  ⟨r.out, project p r.log⟩

/-! parsing the implementation's observation -/
def splitOnce (s : String) (sep : String) : Option (String × String) :=
  match s.splitOn sep with
  | a :: b :: rest => some (a, sep.intercalate (b :: rest))
  | _ => none

def parseEv (s : String) : Option OEv := do
  let (l, h) ← splitOnce s "="
  let v ← unhex h
  let kind := l.toList.headD ' '
  let rest := String.ofList (l.toList.drop 1)
  if kind == 't' then
    let i ← rest.toNat?
    pure (.t i v)
  else
    let (a, b) ← splitOnce rest "."
    let tag ← a.toNat?; let pos ← b.toNat?
    if kind == 'w' then pure (.w tag pos v)
    else if kind == 'c' then pure (.c tag pos v)
    else if kind == 'o' then pure (.o tag pos v)
    else none

def parseObs (s : String) : Option Obs := do
  let (head, logs) ← splitOnce s ";"
  let evs ← (if logs == "" then some [] else (logs.splitOn ",").mapM parseEv)
  match head.splitOn " " with
  | ["ok", h] => do let v ← unhex h; pure ⟨.ok v, evs⟩
  | ["err", e] => do
    let (t, is) ← splitOnce e ":"
    let tag ← t.toNat?
    let ps ← (if is == "" then some [] else (is.splitOn ",").mapM String.toNat?)
    pure ⟨.error (tag, ps), evs⟩
  | _ => none

/-! the spec oracle: judge an observation by the property's clauses -/

/-- Reference outcome of a pipeline, from `failsAt`/`seenAt` only: the result on success, or the
    tag and input of the base schema that fails. Also lists the input each base schema receives. -/
def specEval : Pipe → Bytes → (Except Nat Bytes) × List (Nat × Bytes)
  | .base tag _ cs, v =>
    let anyFail := (List.range cs.length).any fun k => failsAt Str.env cs k v
    (if anyFail then .error tag else .ok (seenAt Str.env cs cs.length v), [(tag, v)])
  | .transform s _ k, v =>
    match specEval s v with
    | (.ok x, ins) => (.ok (customTr k x), ins)
    | (.error t, ins) => (.error t, ins)
  | .pipe a b, v =>
    match specEval a v with
    | (.ok x, ins) => let (r, ins2) := specEval b x; (r, ins ++ ins2)
    | (.error t, ins) => (.error t, ins)

def sortedLt : List Nat → Bool
  | a :: b :: r => a < b && sortedLt (b :: r)
  | _ => true

/-- Number of transform invocations the spec expects: one per transform node, innermost first,
    as long as everything before succeeded. -/
def specTransforms : Pipe → Bytes → List (Nat × Bytes)
  | .base .., _ => []
  | .transform s i _, v =>
    match (specEval s v).1 with
    | .ok x => specTransforms s v ++ [(i, x)]
    | .error _ => specTransforms s v
  | .pipe a b, v =>
    match (specEval a v).1 with
    | .ok x => specTransforms a v ++ specTransforms b x
    | .error _ => specTransforms a v

def judge (p : Pipe) (v : Bytes) (o : Obs) : Option String :=
  let (ref, ins) := specEval p v
  let inputOf := fun tag => (ins.find? (·.1 == tag)).map (·.2)
  -- clause: every callback saw the value produced by the overwrites before it
  let evBad := o.log.find? fun e =>
    match e with
    | .t _ _ => false
    | .w tag pos x | .c tag pos x | .o tag pos x =>
      match baseChecks p tag, inputOf tag with
      | some cs, some vin => !(decide (seenAt Str.env cs pos vin = x))
      | _, _ => true
  if evBad.isSome then some "value-threading" else
  -- clause: transforms run once each, after their source, only on success
  let trs := o.log.filterMap fun e => match e with | .t i x => some (i, x) | _ => none
  if trs != specTransforms p v then some "transform-once" else
  match ref, o.out with
  | .ok x, .ok y => if x == y then none else some "result-value"
  | .ok _, .error _ => some "rejected-though-no-check-fails"
  | .error _, .ok _ => some "accepted-though-a-check-fails"
  | .error t, .error (t', is) =>
    if t != t' then some "wrong-schema-fails" else
    match baseChecks p t, inputOf t with
    | some cs, some vin =>
      if is.isEmpty then some "error-without-issues"
      else if !sortedLt is then some "issue-order"
      else if !(is.all fun k => failsAt Str.env cs k vin) then some "reported-check-does-not-fail"
      else
        let first := (List.range cs.length).find? fun k => failsAt Str.env cs k vin
        if first != is.head? then some "first-failing-check-missing"
        else
          -- abort: nothing after an aborting failure is reported or evaluated
          let ab := is.find? fun k => abortAt cs k
          match ab with
          | none => none
          | some k =>
            if is.any (· > k) then some "reported-after-abort"
            else if o.log.any (fun e => match e with
                | .w tg pos _ | .c tg pos _ | .o tg pos _ => tg == t && pos > k
                | .t _ _ => false) then some "evaluated-after-abort"
            else none
    | _, _ => some "unknown-schema"

def handleLine (line : String) : String :=
  match splitOnce line " | " with
  | none => "bad-op"
  | some (lhs, rhs) =>
    let toks := (lhs.splitOn " ").filter (· ≠ "")
    match toks with
    | "c10" :: ptoks =>
      match parsePipe (ptoks.length + 1) ptoks with
      | some (p, []) =>
        let (inHex, implObs) := match splitOnce rhs " @ " with
          | some (a, b) => (a, some b)
          | none => (rhs, none)
        let inTok := inHex.trimAscii.toString
        let ptrIn := inTok.endsWith "*"
        let inTok := if ptrIn then (inTok.dropEnd 1).toString else inTok
        match unhex inTok with
        | none => "bad-op"
        | some v =>
          let m := (modelObs p v ptrIn).render
          let s := match implObs with
            | none => "-"
            | some io =>
              match parseObs io with
              | none => "spec-rejects:unparsable-observation"
              | some o =>
                match judge p v o with
                | none => io
                | some why => "spec-rejects:" ++ why
          m ++ "\t" ++ s
      | _ => "bad-op"
    | _ => "bad-op"

end Gozod.Drv.C10
