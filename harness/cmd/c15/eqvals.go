package main

// Pointees chosen adversarially for EQUALITY (C15, round 5).
//
// validatePointer hands the caller's own pointer back when the validator answered with THE value the pointer refers to — an
// identity test (`sameValue`), and identity of a Go value is its bits, not `==`: a NaN is never == itself (so anything that
// decides "is this what I was given?" with == / reflect.Value.Equal answers "no" for a pointee that is, or holds, a NaN, and the
// caller gets a pointer to a private copy), while -0 == +0 although they are different values. The classes ptr / ptr(ctor) run
// every schema type over these pointees beside the ordinary pool; the class optr and the type-directed generator
// (storex.FloatLeaves) draw their float leaves from the same values, at every position of a pointee.

import (
	"math"

	"github.com/kaptinlin/gozod/types"

	"verifharness/storex"
)

// fbox / fdeep: comparable structs (== is defined on them) with float members at the top, in an array, in a nested struct and
// behind an interface-typed field.
type fbox struct {
	Name  string
	Value float64
}

type fdeep struct {
	A  [2]float64
	I  any
	C  complex128
	F  float32
	In fbox
}

// fmixed: a struct == is NOT defined on (slice member) beside float members: identity is decided member by member.
type fmixed struct {
	Tags []string
	V    float64
	I    any
}

var (
	nanQ   = math.NaN()
	nanP   = math.Float64frombits(0x7ff8000000000123) // quiet, payload
	nanNeg = math.Float64frombits(0xfff8000000000001) // sign bit set
	negZ   = math.Copysign(0, -1)
)

// eqProbes: the pointees. Every float special alone (float64, float32, complex), in arrays, in comparable and non-comparable
// structs, behind interface-typed members, inside any-typed containers; each beside its ordinary twin (same shape, no special).
func eqProbes() []any {
	return []any{
		nanQ, nanP, nanNeg, negZ, float64(0), math.Inf(1), math.Inf(-1), math.SmallestNonzeroFloat64,
		float32(nanQ), float32(negZ), float32(math.Inf(1)),
		complex(nanQ, 0), complex(0, nanP), complex(negZ, negZ), complex64(complex(nanQ, 1)), complex64(complex(negZ, 0)),
		[2]float64{nanQ, 1}, [2]float64{1, 2}, [2]float64{negZ, 0}, [1]any{nanQ}, [1]any{negZ},
		fbox{"n", nanQ}, fbox{"n", nanNeg}, fbox{"n", negZ}, fbox{"n", 1.5}, fbox{"", math.Inf(-1)},
		fdeep{A: [2]float64{1, nanP}, I: 1, In: fbox{"x", 2}}, fdeep{I: nanQ}, fdeep{C: complex(0, nanQ)}, fdeep{F: float32(nanQ)},
		fdeep{In: fbox{"x", nanQ}}, fdeep{I: fbox{"i", nanQ}}, fdeep{A: [2]float64{negZ, 0}, I: negZ}, fdeep{I: "s", In: fbox{"x", 2}},
		fmixed{Tags: []string{"t"}, V: nanQ}, fmixed{Tags: []string{"t"}, I: nanP}, fmixed{Tags: []string{"t"}, V: negZ, I: 0.0}, fmixed{V: 1},
		map[string]any{"a": nanQ}, map[string]any{"a": "x", "b": nanP}, map[string]any{"a": negZ}, map[string]any{"name": "n", "age": nanQ},
		[]any{nanQ}, []any{"a", negZ}, []float64{nanQ, negZ, 1}, map[string]float64{"k": nanQ},
	}
}

// c15Probes: storex.Probes() (indices unchanged) followed by the equality-adversarial pointees.
func c15Probes() []any { return append(storex.Probes(), eqProbes()...) }

// eqCtors: schemas over the struct / array types above, made in every pointer-answering way (they are instances of
// constructors the table lists already; run by runPtrCtors beside it).
var eqCtors = []struct {
	name string
	mk   func() any
}{
	{"StructPtr[fbox]", func() any { return types.StructPtr[fbox]() }},
	{"StructPtr[fdeep]", func() any { return types.StructPtr[fdeep]() }},
	{"StructPtr[fmixed]", func() any { return types.StructPtr[fmixed]() }},
	{"FromStructPtr[fbox]", func() any { return types.FromStructPtr[fbox]() }},
	{"Struct[fbox].Optional", func() any { return types.Struct[fbox]().Optional() }},
	{"Struct[fdeep].Nilable", func() any { return types.Struct[fdeep]().Nilable() }},
	{"Struct[fmixed].Optional", func() any { return types.Struct[fmixed]().Optional() }},
	{"Float64.Optional", func() any { return types.Float64().Optional() }},
	{"Float64.Nilable", func() any { return types.Float64().Nilable() }},
	{"Float32.Optional", func() any { return types.Float32().Optional() }},
	{"Complex128.Nilable", func() any { return types.Complex128().Nilable() }},
	{"Any.Optional", func() any { return types.Any().Optional() }},
	{"Unknown.Nilable", func() any { return types.Unknown().Nilable() }},
	{"Slice[float64].Optional", func() any { return types.Slice[float64](types.Float64()).Optional() }},
	{"Record.Nilable", func() any { return types.Record(types.String(), types.Any()).Nilable() }},
	{"Object.Optional", func() any { return types.LooseObject(nil).Optional() }},
}
