package main

// C02 — composite schemas decide exactly by composing their members' verdicts.
//
// For generated nestings (depth ≤ 4 quick, ≤ 6 thorough) of slice, array, tuple, map, record, set,
// object, struct, union, xor, intersection, discriminated union and lazy over real primitive
// members (including Nil(), Any(), optional / nilable / defaulted ones) AND members of every other kind
// the member position type-checks (cx/members.go: transform, pipe, refine, overwrite, coerce, foreign
// types offering only Parse / exactly core.ZodSchema / exactly core.ZodType[any], also wrapped around
// generated composites) the harness feeds: valid
// instances synthesised from the schema, every single-location corruption of them, wrong-shape
// containers and nil-like values.  For each case it records EACH MEMBER'S OWN ParseAny answer on
// every part of the input (cx.Build) and sends container description + that table to the Lean
// driver, which evaluates the model of the container code (over what the container can SEE of its
// members: a member it has no entry point on is listed in the CFG token) and the composition law
// (over the members' own answers) on it.
// Observation: ok | err | panic:<class>.

import (
	"fmt"
	"os"
	"strings"

	"verifharness/cx"
	"verifharness/hx"
)

func main() {
	c := hx.ParseFlags()
	if err := run(c); err != nil {
		fmt.Fprintln(os.Stderr, "harness error:", err)
		os.Exit(3)
	}
}

var kinds = []string{"slice", "array", "tuple", "map", "record", "set", "object", "struct", "union", "xor", "inter", "du", "lazy"}

func run(c hx.Config) error {
	o, err := hx.NewOut(c.OutDir)
	if err != nil {
		return err
	}
	r := hx.NewRng(c.Seed)
	cfg := cx.Probe()
	cx.ContainerChecks = true // Refine / Overwrite checks on the containers, besides the size checks
	perKind, maxDepth := 26, 4
	if c.Thorough() {
		perKind, maxDepth = 220, 6
	}
	emit := func(s *cx.Sch, in any, how string) {
		if s.Unmodelled(in) {
			o.Count("skipped:unmodelled-representation")
			return
		}
		cs := cx.Build(cfg, s, in)
		if cs.Nondet {
			o.Count("skipped:member-answers-differ-between-calls")
			return
		}
		ob := cx.Observe(s, in)
		impl := "err"
		switch {
		case ob.Panic != "":
			impl = "panic:" + cx.PanicClass(ob.Panic)
		case ob.OK:
			impl = "ok"
		}
		o.Count(s.Kind + ":" + how + ":" + impl)
		if s.Kind == "du" && ob.Panic == "" {
			// the index the real constructor built (DiscriminatorMap()), compared with the one the model builds from
			// what the options declare
			impl += " dm=" + s.DiscMapTok()
		}
		o.Emit("c02 "+cs.Body+" # "+s.Kind+" "+how+" "+cx.Repro(s, in), impl)
	}
	// aim=<kind,…|all> (from vlib: the Go functions whose structure fingerprint changed reach these kinds): 4x the schemas
	aim := map[string]bool{}
	for _, a := range c.Args {
		if strings.HasPrefix(a, "aim=") {
			for _, k := range strings.Split(a[4:], ",") {
				aim[k] = true
			}
		}
	}
	for _, kind := range kinds {
		perKind := perKind
		if aim[kind] || aim["all"] {
			perKind *= 4
			o.Count("aimed:" + kind)
		}
		for i := range perKind {
			depth := 1 + i%maxDepth
			s := cx.GenKind(r, depth, kind)
			for _, m := range s.Members {
				o.Count("member:" + m.MemberKind())
			}
			for range 2 {
				v := s.Valid(r)
				emit(s, v, "valid")
				// two or three corruptions side by side (sibling members / sibling elements / inside one element)
				for j := range 2 {
					if nv, _, ok := s.CorruptBelow(r, v, "", j, 2+r.Intn(2), depth); ok {
						emit(s, nv, "corruptK")
					}
				}
				// every single-location corruption of the valid instance (top level), plus deep ones
				for _, ch := range s.Children(v) {
					if bad, ok := ch.M.Invalid(r, ch.GoT); ok {
						emit(s, ch.Replace(bad), "corrupt1")
						// the same behind a pointer (validatePointer's path for every container)
						switch t := ch.Replace(bad).(type) {
						case []any:
							emit(s, &t, "corrupt1-ptr")
						case map[string]any:
							emit(s, &t, "corrupt1-ptr")
						case map[any]any:
							emit(s, &t, "corrupt1-ptr")
						case []string:
							emit(s, &t, "corrupt1-ptr")
						case map[string]struct{}:
							emit(s, &t, "corrupt1-ptr")
						}
					}
				}
				for range 3 {
					if nv, _, ok := s.Corrupt(r, v, "", depth); ok {
						emit(s, nv, "corruptN")
					}
				}
				// an object with a .Required(...) call: every field dropped in turn
				if mv, ok := v.(map[string]any); ok && s.Kind == "object" && s.ReqCall != nil {
					for _, f := range s.Fields {
						c := map[string]any{}
						for a, b := range mv {
							if a != f {
								c[a] = b
							}
						}
						emit(s, c, "req-drop")
					}
				}
				// an exact-optional field given explicitly as nil
				if mv, ok := v.(map[string]any); ok && s.Kind == "object" {
					for i, f := range s.Fields {
						if in := s.Members[i].Z.Internals(); in.ExactOptional {
							c := map[string]any{}
							for a, b := range mv {
								c[a] = b
							}
							c[f] = nil
							emit(s, c, "explicit-nil")
						}
					}
				}
				// a pointer to the valid instance
				switch t := v.(type) {
				case []any:
					emit(s, &t, "ptr")
				case map[string]any:
					emit(s, &t, "ptr")
				case map[any]any:
					emit(s, &t, "ptr")
				case []string:
					emit(s, &t, "ptr")
				}
			}
			if s.Kind == "du" {
				// the discriminator replaced by declared / undeclared values of every Go type, and removed
				for _, m := range s.Members {
					if v, ok := m.Valid(r).(map[string]any); ok {
						for _, in := range s.DUInputs(v) {
							emit(s, in, "du-disc")
						}
					}
				}
			}
			for _, w := range cx.WrongShapes() {
				emit(s, w, "shape")
			}
			// values the members are known to accept / reject, given to the container as a whole
			for _, m := range s.Members {
				if m.Kind == "leaf" {
					for _, x := range m.Valids {
						emit(s, x, "memberval")
					}
				}
			}
		}
	}
	// discriminated unions whose option list is ill-formed (a value declared twice / no value declared)
	nBroken := 6
	if c.Thorough() {
		nBroken = 60
	}
	for i := range nBroken {
		s := cx.GenBrokenDU(r, 1+i%2)
		o.Count("du:broken-construction")
		for _, m := range s.Members {
			if v, ok := m.Valid(r).(map[string]any); ok {
				emit(s, v, "du-broken-valid")
				for _, in := range s.DUInputs(v)[:6] {
					emit(s, in, "du-broken-disc")
				}
			}
		}
		emit(s, nil, "du-broken-nil")
		emit(s, "str", "du-broken-shape")
	}
	// objects that can reject unknown keys AND have absent-able fields: drop k fields, add j unknown keys
	nPolicy := 60
	if c.Thorough() {
		nPolicy = 600
	}
	for i := range nPolicy {
		s := cx.GenPolicyObject(r, i%3)
		for range 2 {
			v, ok := s.Valid(r).(map[string]any)
			if !ok {
				continue
			}
			delete(v, "u")
			emit(s, v, "policy-valid")
			for _, in := range s.PolicyInputs(r, v) {
				emit(s, in, "policy-drop-add")
				emit(s, &in, "policy-drop-add-ptr")
			}
		}
	}
	return o.Close(map[string]any{"cfg": cfg.Tok()})
}
