/-
  Line handlers for C11 (grammar: harness/cmd/c11/main.go).
    kw <keyword>    → row of Gen.keywordTable ("<documented> <strictRejects>")
    conv <D>        → "<nonstrict> <strict>\t<reasons>"  (ok | error | panic)
    fmtdoc <F>      → "<dedicated> <format keyword of the round-trip document>"   (getFormatSchema, FId.emitName)
    fmt <F> <S> <V> → "<P> <V> <R>\t<reasons>"  P = FId.parses (C20's model of the dedicated schema's validator), V = the validator's
                      verdict on the ORIGINAL document (the judge, echoed), R = rtFmtValid (bag name kept ∧ V ∧ exported pattern);
                      "?" where C20 has no model of the recogniser (email, uri)
    fmtpool <F>     → "1" (every mapped format must survive the sample pool of the general generator)
    inst <D> <J>    → "<P> <V> <R>\t<reasons>"  P = acceptsDecoded (fromJS d), V = jsValid d, R = jsValid (toDoc (fromJS d))
  A ROOT document `( node ( const M ) )` / `( node ( enum M* ) )` whose members include arrays / objects is read by `pDJ`
  and judged by `fromConstJ` / `fromEnumJ` + `CE.parse` (P, "!" = ParseAny panics) and `jsonEq` (V).
-/
import Gozod.Drv.C07
import Gozod.Model.FromJson
import Gozod.Model.FromJsonFormat
import Gozod.Gen.KeywordTable
import Gozod.Proofs.C11
namespace Gozod.Drv.C11
open Gozod.Jsc Gozod.Drv.C07

def pType : String → Option TypeName
  | "string" => some .string | "number" => some .number | "integer" => some .integer | "boolean" => some .boolean
  | "null" => some .null | "array" => some .array | "object" => some .object | _ => none

def jsListOf : List JS → JSList
  | [] => .nil
  | j :: js => .cons j (jsListOf js)

def jsPropsOf : List (Str × JS) → JSProps
  | [] => .nil
  | (k, j) :: r => .cons k j (jsPropsOf r)

def pStrTok : P Str
  | t :: ts => (decStr t).map (·, ts)
  | [] => none

def pTypeTok : P TypeName
  | t :: ts => (pType t).map (·, ts)
  | [] => none

def pPat : P Pat
  | "noUp" :: ts => some (.noUp, ts)
  | "noLow" :: ts => some (.noLow, ts)
  | "(" :: k :: s :: ")" :: ts =>
    match k, decStr s with
    | "pre", some s => some (.pre s, ts)
    | "suf", some s => some (.suf s, ts)
    | "has", some s => some (.has s, ts)
    | _, _ => none
  | _ => none

mutual
partial def pD : P JS
  | "true" :: ts => some (.bool true, ts)
  | "false" :: ts => some (.bool false, ts)
  | "(" :: "node" :: ts => do let (ks, ts) ← pMany pKw ts; pure (.node (KwList.ofList ks), ts)
  | _ => none

partial def pKw : P Kw
  | "(" :: name :: ts =>
    let nat (f : Nat → Kw) : Option (Kw × List String) :=
      match ts with | v :: ")" :: ts => v.toNat?.map (fun n => (f n, ts)) | _ => none
    let int (f : Int → Kw) : Option (Kw × List String) :=
      match ts with | v :: ")" :: ts => v.toInt?.map (fun n => (f n, ts)) | _ => none
    let sub (f : JS → Kw) : Option (Kw × List String) := do
      let (j, ts) ← pD ts
      let (_, ts) ← expect ")" ts
      pure (f j, ts)
    let subs (f : JSList → Kw) : Option (Kw × List String) := do
      let (js, ts) ← pMany pD ts
      pure (f (jsListOf js), ts)
    match name with
    | "type" => match ts with | t :: ")" :: ts => (pType t).map (fun t => (.type t, ts)) | _ => none
    | "types" => do let (tys, ts) ← pMany pTypeTok ts; pure (.types tys, ts)
    | "minLength" => nat .minLength | "maxLength" => nat .maxLength
    | "minItems" => nat .minItems | "maxItems" => nat .maxItems
    | "minimum" => int .minimum | "maximum" => int .maximum
    | "exclusiveMinimum" => int .exclusiveMinimum | "exclusiveMaximum" => int .exclusiveMaximum
    | "multipleOf" => int .multipleOf
    | "pattern" => do let (p, ts) ← pPat ts; let (_, ts) ← expect ")" ts; pure (.pattern p, ts)
    | "enum" => do let (vs, ts) ← pMany pPrim ts; pure (.enum vs, ts)
    | "const" => do let (v, ts) ← pPrim ts; let (_, ts) ← expect ")" ts; pure (.const v, ts)
    | "items" => sub .items
    | "additionalProperties" => sub .additionalProperties
    | "not" => sub .not
    | "ref" => sub .ref
    | "prefixItems" => subs .prefixItems
    | "anyOf" => subs .anyOf | "oneOf" => subs .oneOf | "allOf" => subs .allOf
    | "properties" => do let (ps, ts) ← pMany pProp ts; pure (.properties (jsPropsOf ps), ts)
    | "required" => do let (ks, ts) ← pMany pStrTok ts; pure (.required ks, ts)
    | "format" => do
        let (ss, ts) ← pMany pStrTok ts
        match ss with
        | n :: good => pure (.format n good, ts)
        | [] => none
    | "other" => do let (n, ts) ← pStrTok ts; let (_, ts) ← expect ")" ts; pure (.other n, ts)
    | _ => none
  | _ => none

partial def pProp : P (Str × JS)
  | "(" :: k :: ts => do
      let k ← decStr k
      let (j, ts) ← pD ts
      let (_, ts) ← expect ")" ts
      pure ((k, j), ts)
  | _ => none
end

def strOf (s : Str) : String := String.ofList (s.map Char.ofNat)

/-- the strict-mode table as a predicate on keyword names. -/
def rejects (n : Str) : Bool :=
  match Gozod.Gen.keywordTable.find? (fun r => r.kw == strOf n) with
  | some r => r.strictRejects
  | none => false

def outcome : R → String
  | .ok _ => "ok"
  | .error .panic => "panic"
  | .error (.unsupported _) => "error"

/-! ### why a case lies outside the proved fragment (names as in known-findings.txt) -/

def kwName : Kw → String
  | .type _ => "type" | .types _ => "type" | .minLength _ => "minLength" | .maxLength _ => "maxLength" | .pattern _ => "pattern"
  | .minimum _ => "minimum" | .maximum _ => "maximum" | .exclusiveMinimum _ => "exclusiveMinimum"
  | .exclusiveMaximum _ => "exclusiveMaximum" | .multipleOf _ => "multipleOf" | .enum _ => "enum" | .const _ => "const"
  | .items _ => "items" | .prefixItems _ => "prefixItems" | .minItems _ => "minItems" | .maxItems _ => "maxItems"
  | .properties _ => "properties" | .required _ => "required" | .additionalProperties _ => "additionalProperties"
  | .propertyNames _ => "propertyNames" | .minProperties _ => "minProperties" | .maxProperties _ => "maxProperties"
  | .anyOf _ => "anyOf" | .oneOf _ => "oneOf" | .allOf _ => "allOf" | .not _ => "not" | .format _ _ => "format"
  | .ref _ => "$ref" | .other n => strOf n

partial def kwList : KwList → List Kw
  | .nil => []
  | .cons k ks => k :: kwList ks
partial def jsList : JSList → List JS
  | .nil => []
  | .cons j js => j :: jsList js
partial def jsProps : JSProps → List (Str × JS)
  | .nil => []
  | .cons k j ps => (k, j) :: jsProps ps

/-- the schema produced for the document admits nil (so that a union built from it meets the nil path) -/
def admitsNull (j : JS) : Bool :=
  match fromJS cur rejects false j with
  | .ok s => s.acceptsNull
  | .error _ => false

/-- the Intersection built for an allOf has a strict-mode object as one of its sides (directly or through a nested
    Intersection): there gozod merges the sides' unrecognized-keys issues (a key is an error only when NO side knows it),
    which C07's `accepts (.and l r)` (plain conjunction) does not mirror — the listed class `intersection`.  Every other
    allOf (open objects, records, scalars, arrays, unions …) IS a conjunction and is judged like any other document. -/
def strictSide : S → Bool
  | .obj .strict _ _ _ _ => true
  | .and l r => strictSide l || strictSide r
  | _ => false

def hasStrictSide (j : JS) : Bool :=
  match fromJS cur rejects false j with
  | .ok s => strictSide s
  | .error _ => false

/-- annotation keywords: they assert nothing (`Kw.other` is vacuous in `jsValid`, and that IS their meaning). -/
def annotations : List String := ["title", "description", "examples", "default", "$comment", "deprecated", "readOnly", "writeOnly"]

mutual
partial def why : JS → List String
  | .bool _ => []
  | .node kws =>
    let ks := kwList kws
    let names := ks.map kwName
    let has (n : String) := names.contains n
    let types := (ks.filterMap (fun k => match k with | .type t => some [t] | .types ts => some ts | _ => none)).headD []
    let assertion := ["type", "minLength", "maxLength", "pattern", "minimum", "maximum", "exclusiveMinimum", "exclusiveMaximum",
      "multipleOf", "items", "prefixItems", "minItems", "maxItems", "properties", "required", "additionalProperties", "format",
      "enum", "const", "allOf", "anyOf", "oneOf"]
    let winner := ["$ref", "allOf", "anyOf", "oneOf", "const", "enum"].find? has
    let siblings := match winner with
      | some w => !(names.filter (fun n => n != w && assertion.contains n)).isEmpty
      | none => false
    let propKeys := (ks.filterMap (fun k => match k with | .properties ps => some ((jsProps ps).map (·.1)) | _ => none)).headD []
    let req := (ks.filterMap (fun k => match k with | .required r => some r | _ => none)).headD []
    let hasProps := !propKeys.isEmpty
    let forString := ["minLength", "maxLength", "pattern", "format"]
    let forNumber := ["minimum", "maximum", "exclusiveMinimum", "exclusiveMaximum", "multipleOf"]
    let forArray := ["items", "prefixItems", "minItems", "maxItems"]
    let forObject := ["properties", "required", "additionalProperties"]
    let stray (t : TypeName) (l : List String) := !types.contains t && l.any has
    let knownFmt := ks.any (fun k => match k with | .format n _ => knownFormats.contains n | _ => false)
    (if siblings then ["sibling-keywords-dropped"] else [])
    ++ (if winner.isNone && (stray .string forString || (stray .number forNumber && stray .integer forNumber)
          || stray .array forArray || stray .object forObject) then ["keywords-without-type-ignored"] else [])
    ++ (if types.contains .integer then ["integer-type"] else [])
    ++ (if types.contains .integer && ks.any (fun k => match k with
          | .minimum q => q % 4 != 0 | .maximum q => q % 4 != 0 | .exclusiveMinimum q => q % 4 != 0
          | .exclusiveMaximum q => q % 4 != 0 | .multipleOf q => q % 4 != 0 | _ => false)
        then ["integer-bound-truncated"] else [])
    ++ (if decide (types.length > 1) && types.contains .null then ["nullable-union"] else [])
    ++ (if has "prefixItems" then ["tuple-items-all-required"] else [])
    ++ (if hasProps && propKeys.any (fun k => !req.contains k) then ["optional-property-accepts-null"] else [])
    ++ (if (!hasProps && has "additionalProperties" && !req.isEmpty)
          || (hasProps && req.any (fun k => !propKeys.contains k)
              && ks.any (fun k => match k with
                   | .additionalProperties (.bool true) => false | .additionalProperties _ => true | _ => false))
        then ["required-without-property"] else [])
    ++ (if knownFmt && ["minLength", "maxLength", "pattern"].any has then ["format-siblings-dropped"] else [])
    ++ (if ks.any (fun k => match k with | .enum vs => vs.contains .null | _ => false)
        then ["nullable-union"] else [])
    ++ (if ks.any (fun k => match k with
          | .other n => !annotations.contains (strOf n) | .not _ => true | .propertyNames _ => true | _ => false)
        then ["unmodelled-keyword"] else [])
    ++ (if types.contains .object && winner.isNone
          && !(ks.any (fun k => match k with | .additionalProperties (.bool false) => true | _ => false))
          && (hasProps || !(has "additionalProperties")) then ["open-object-closed"] else [])
    ++ (ks.map whyKw).flatten

partial def whyKw : Kw → List String
  | .items j => why j
  | .prefixItems js => ((jsList js).map why).flatten
  | .properties ps => ((jsProps ps).map (fun kv => why kv.2)).flatten
  | .additionalProperties j => why j
  | .anyOf js => (if decide ((jsList js).length > 1) && (jsList js).any admitsNull then ["nullable-union"] else []) ++ ((jsList js).map why).flatten
  | .oneOf js => (if decide ((jsList js).length > 1) && (jsList js).any admitsNull then ["nullable-union"] else []) ++ ((jsList js).map why).flatten
  | .allOf js => (if decide ((jsList js).length > 1) && (jsList js).any hasStrictSide then ["intersection"] else [])
      ++ (if decide ((jsList js).length > 1) && (jsList js).all admitsNull then ["nullable-intersection"] else [])
      ++ ((jsList js).map why).flatten
  | .ref j => why j
  | .not j => why j
  | _ => []
end

mutual
partial def usesFormat : JS → Bool
  | .bool _ => false
  | .node kws => (kwList kws).any usesFormatKw
partial def usesFormatKw : Kw → Bool
  | .format n _ => knownFormats.contains n
  | .items j => usesFormat j
  | .additionalProperties j => usesFormat j
  | .not j => usesFormat j
  | .ref j => usesFormat j
  | .prefixItems js => (jsList js).any usesFormat
  | .anyOf js => (jsList js).any usesFormat
  | .oneOf js => (jsList js).any usesFormat
  | .allOf js => (jsList js).any usesFormat
  | .properties ps => (jsProps ps).any (fun kv => usesFormat kv.2)
  | _ => false
end

/-! ### recognising the documents of the theorem's fragment (`J1.doc` images) -/

def takeNat (name : String) : List Kw → Option Nat × List Kw
  | .minLength n :: r => if name == "minLength" then (some n, r) else (none, .minLength n :: r)
  | .maxLength n :: r => if name == "maxLength" then (some n, r) else (none, .maxLength n :: r)
  | .minItems n :: r => if name == "minItems" then (some n, r) else (none, .minItems n :: r)
  | .maxItems n :: r => if name == "maxItems" then (some n, r) else (none, .maxItems n :: r)
  | l => (none, l)

def takeInt (name : String) : List Kw → Option Int × List Kw
  | .minimum q :: r => if name == "minimum" then (some q, r) else (none, .minimum q :: r)
  | .maximum q :: r => if name == "maximum" then (some q, r) else (none, .maximum q :: r)
  | .exclusiveMinimum q :: r => if name == "exclusiveMinimum" then (some q, r) else (none, .exclusiveMinimum q :: r)
  | .exclusiveMaximum q :: r => if name == "exclusiveMaximum" then (some q, r) else (none, .exclusiveMaximum q :: r)
  | .multipleOf q :: r => if name == "multipleOf" then (some q, r) else (none, .multipleOf q :: r)
  | l => (none, l)

def j1ListOf : List J1 → J1List
  | [] => .nil
  | d :: ds => .cons d (j1ListOf ds)

def j1PropsOf : List (Str × J1) → J1Props
  | [] => .nil
  | (k, d) :: r => .cons k d (j1PropsOf r)

partial def toJ1? : JS → Option J1
  | .bool true => some .tru
  | .bool false => some .fls
  | .node kws =>
    match kwList kws with
    | [] => some .any
    | [.type .boolean] => some .bool
    | [.type .null] => some .null
    | [.type .string, .format n g] => some (.fmt n g)
    | .type .string :: r =>
      let (mn, r) := takeNat "minLength" r
      let (mx, r) := takeNat "maxLength" r
      match r with
      | [] => some (.str mn mx none)
      | [.pattern p] => some (.str mn mx (some p))
      | _ => none
    | .type .number :: r =>
      let (mn, r) := takeInt "minimum" r
      let (mx, r) := takeInt "maximum" r
      let (emn, r) := takeInt "exclusiveMinimum" r
      let (emx, r) := takeInt "exclusiveMaximum" r
      let (mul, r) := takeInt "multipleOf" r
      if r.isEmpty then some (.num mn mx emn emx mul) else none
    | [.type .array, .prefixItems js, .minItems n, .maxItems m] =>
      if n == (jsList js).length && m == n then (jsList js).mapM toJ1? |>.map (fun ds => .tup (j1ListOf ds)) else none
    | .type .array :: .items j :: r =>
      let (mn, r) := takeNat "minItems" r
      let (mx, r) := takeNat "maxItems" r
      if r.isEmpty then (toJ1? j).map (fun it => .arr it mn mx) else none
    | .type .object :: .properties ps :: .required req :: r =>
      let kvs := jsProps ps
      if req != kvs.map (·.1) then none else
      match kvs.mapM (fun kv => (toJ1? kv.2).map (fun d => (kv.1, d))) with
      | none => none
      | some props =>
        match r with
        | [] => some (.obj (j1PropsOf props) false)
        | [.additionalProperties (.bool false)] => some (.obj (j1PropsOf props) true)
        | [.additionalProperties j] => (toJ1? j).map (fun ca => .objC (j1PropsOf props) ca)
        | _ => none
    | [.type .object, .additionalProperties j] => (toJ1? j).map .rcd
    | [.const p] => some (.const p)
    | [.enum vs] => match allStrs vs with
      | some strs => some (.enumS strs)
      | none => some (.enumP vs)
    | [.anyOf js] => (jsList js).mapM toJ1? |>.map (fun ds => .anyOf (j1ListOf ds))
    | [.oneOf js] => (jsList js).mapM toJ1? |>.map (fun ds => .oneOf (j1ListOf ds))
    | [.allOf (.cons a (.cons b .nil))] => do pure (.allOf2 (← toJ1? a) (← toJ1? b))
    | [.ref j] => (toJ1? j).map .ref
    | _ => none

/-- the case lies in the fragment of `c11_equiv_partial` (and of `c11_roundtrip`). -/
def inFragment (d : JS) : Bool × Bool :=
  match toJ1? d with
  | some j => (good cur j, good cur j && Gozod.C11.rt cur j)
  | none => (false, false)

/-! ### root const / enum documents with array / object members -/

inductive DJ
  | const (v : Json)
  | enum (vs : List Json)

def pDJ : P DJ
  | "(" :: "node" :: "(" :: "const" :: ts => do
      let (v, ts) ← pJ ts
      let (_, ts) ← expect ")" ts
      let (_, ts) ← expect ")" ts
      pure (.const v, ts)
  | "(" :: "node" :: "(" :: "enum" :: ts => do
      let (vs, ts) ← pMany pJ ts
      let (_, ts) ← expect ")" ts
      pure (.enum vs, ts)
  | _ => none

def DJ.conv : DJ → CE
  | .const v => fromConstJ v
  | .enum vs => fromEnumJ vs

/-- ParseAny verdict / round-trip validity on the tree `cur` (an enum's Union is Nilable under C11-nullable-union). -/
def DJ.parse : DJ → Json → Option Bool
  | .const v, x => (fromConstJ v).parse x
  | .enum vs, x => parseEnumFx cur vs x

def DJ.rtValid : DJ → Json → Bool
  | .const v, x => (fromConstJ v).rtValid x
  | .enum vs, x => rtEnumFx cur vs x

def DJ.members : DJ → List Json
  | .const v => [v]
  | .enum vs => vs

def DJ.valid : DJ → Json → Bool
  | .const v, x => constValidJ v x
  | .enum vs, x => enumValidJ vs x

/-- the case satisfies the hypotheses of `c11_enum_partial` / `c11_enum_scalar_instance` / `c11_const`. -/
def DJ.inTheorem (d : DJ) (x : Json) : Bool :=
  match d with
  | .enum vs => Gozod.C11.scalarCase vs x
      || (!vs.isEmpty && !Gozod.C11.nullCase vs x && vs.all uniqKeys && uniqKeys x)
  | .const v => uniqKeys v && uniqKeys x

/-- the finding classes that can apply to this case: only `nullable-union` (a null instance against an enum listing null);
    an array / object member is compared structurally since e48d4b1), and `array-literal-flattened` (round trip: to.go's
    `convertLiteral` flattens a literal whose one value is a slice). -/
def DJ.why (d : DJ) (x : Json) : List String :=
  (match d with
   | .enum vs => if Gozod.C11.nullCase vs x then ["nullable-union"] else []
   | _ => [])
  ++ (if d.members.any (fun v => v.isArr) then ["array-literal-flattened"] else [])

/-- "1" accepted, "0" rejected, "!" ParseAny panics. -/
def verdictStr : Option Bool → String
  | some b => b2s b
  | none => "!"

/-- mirrors harness `intOnly`: numbers of the instance can only meet integer schemas. -/
partial def intOnly : JS → Bool × Bool
  | .bool b => (!b, false)
  | .node kws =>
    let ks := kwList kws
    let names := ks.map kwName
    if ks.any (fun k => match k with | .const (.num _) => true | .enum vs => vs.any (fun p => match p with | .num _ => true | _ => false) | _ => false)
    then (false, false)
    else if names.any (fun n => ["const", "enum"].contains n) then (true, false)
    else if names.any (fun n => ["$ref", "anyOf", "oneOf", "allOf", "not", "format"].contains n)
            || ks.any (fun k => match k with | .other _ => true | _ => false) then (false, false)
    else
    let types := (ks.filterMap (fun k => match k with | .type t => some [t] | .types ts => some ts | _ => none)).headD []
    if types.isEmpty || types.contains .number || types.contains .object then (false, false) else
    let subs := (ks.filterMap (fun k => match k with | .items j => some [j] | .prefixItems js => some (jsList js) | _ => none)).flatten
    let rs := if types.contains .array then subs.map intOnly else []
    let okArr := !types.contains .array || names.contains "items"
    (okArr && rs.all (·.1), types.contains .integer || rs.any (·.2))

/-- UTF-8 bytes of a code point (C20's recognisers read bytes). -/
def utf8 (c : Nat) : List Nat :=
  if c < 128 then [c]
  else if c < 2048 then [192 + c / 64, 128 + c % 64]
  else if c < 65536 then [224 + c / 4096, 128 + (c / 64) % 64, 128 + c % 64]
  else [240 + c / 262144, 128 + (c / 4096) % 64, 128 + (c / 64) % 64, 128 + c % 64]

def ob : Option Bool → String
  | some b => b2s b
  | none => "?"

def handle : List String → String
  | ["fmtdoc", n] =>
    match decStr n with
    | some name =>
      match getFormatSchema (strOf name) with
      | some f => "1 " ++ f.emitName
      | none => "0 -"
    | none => "bad-op"
  | ["fmt", n, s, v] =>
    match decStr n, decStr s with
    | some name, some str =>
      match getFormatSchema (strOf name) with
      | some f =>
        let bytes := (str.map utf8).flatten
        let p := f.parses bytes
        let r := rtFmtValid f (v == "1") bytes
        let rs := (if f.nameKept then [] else ["name-internal"])
          ++ (if f.c20.isNone then ["recogniser-unmodelled"] else [])
        ob p ++ " " ++ v ++ " " ++ ob r ++ "\t" ++ ",".intercalate rs
      | none => "not-a-mapped-format"
    | _, _ => "bad-op"
  | ["fmtpool", _] => "1"
  | ["kw", k] =>
    match Gozod.Gen.keywordTable.find? (fun r => r.kw == k) with
    | some r => b2s r.documented ++ " " ++ b2s r.strictRejects
    | none => "unknown-keyword"
  | "conv" :: ts =>
    match pD ts with
    | some (d, []) =>
      -- a strict conversion that succeeds on `cur` but fails once the error of a property / additionalProperties
      -- conversion is returned (C11-strict-property-error): the keyword WAS reached and recognised, then dropped
      let dropped := (match fromJS cur rejects true d, fromJS { cur with strictProp := true } rejects true d with
        | .ok _, .error (.unsupported _) => true
        | _, _ => false)
      outcome (fromJS cur rejects false d) ++ " " ++ outcome (fromJS cur rejects true d)
        ++ "\t" ++ (if dropped then "property-error-dropped" else "")
    | _ =>
      match pDJ ts with
      | some (_, []) => "ok ok"        -- convertConst / convertEnum have no error path (and no strict-mode check of their own)
      | _ => "bad-op"
  | "inst" :: ts =>
    match pD ts with
    | some (d, ts) =>
      match pJ ts with
      | some (x, []) =>
        match fromJS cur rejects false d with
        | .ok s =>
          let rs0 := dedup (why d ++ instReasons x)
          let (inEq, inRt) := inFragment d
          let inst := instOK x
          -- IN-EQ / IN-RT: the theorem's hypotheses hold for this case; then no finding class may apply
          let rs := (if inEq && inst then ["IN-EQ"] else []) ++ (if inRt && inst then ["IN-RT"] else [])
            ++ (if inEq && inst && !(rs0.all (fun r => r == "open-object-closed")) then ["INCOHERENT"] else []) ++ rs0
          b2s (acceptsDecoded s x) ++ " " ++ b2s (jsValid d x) ++ " "
            ++ (if usesFormat d then "~" else b2s (jsValid (toDoc s) x)) ++ " "
            ++ (if (intOnly d).1 && (intOnly d).2 then b2s (accepts s x) else "~")
            ++ "\t" ++ ",".intercalate rs
        | .error _ => "conversion-failed"
      | _ => "bad-op"
    | none =>
      match pDJ ts with
      | some (d, ts) =>
        match pJ ts with
        | some (x, []) =>
          verdictStr (d.parse x) ++ " " ++ b2s (d.valid x) ++ " " ++ b2s (d.rtValid x) ++ " ~"
            ++ "\t" ++ ",".intercalate ((if d.inTheorem x then ["IN-EQ"] else []) ++ dedup (d.why x ++ instReasons x))
        | _ => "bad-op"
      | none => "bad-op"
  | _ => "bad-op"

end Gozod.Drv.C11
