/-
  Gozod.Model.RawClassSpec — reading `Gen/RawClass.lean` (regenerated on every run by `harness/cmd/c10
  -gen-rawclass`: behavioural probes of every schema type × check kind on a pointer input) as the classification
  `firstPassG` is run with, and the expectation the table is compared with (`Proofs/C10Raw.lean`).

  Rows: schema type `s` String(), `sp` StringPtr(), `i` Int(), `ip` IntPtr(), `l` Slice[int](Int()), `o` Object{a,b};
  columns: `builtin` (the type's built-in checks), `ref` (Refine), `refany` (RefineAny), `chk` (Check(fn)).
-/
import Gozod.Model.ChecksC
import Gozod.Gen.RawClass
namespace Gozod.RawClassSpec
open Gozod

def parseRaw : String → Option RawB
  | "vac" => some .vac | "issue" => some .issue | "run" => some .run | _ => none

def parseOw : String → Option OwB
  | "skip" => some .skip | "stay" => some .stay | "cook" => some .cook | _ => none

def lookupRaw (tbl : List (String × String × String)) (key col : String) : Option RawB :=
  (tbl.find? fun e => e.1 == key && e.2.1 == col).bind fun e => parseRaw e.2.2

def lookupOw (tbl : List (String × String)) (key : String) : Option OwB :=
  (tbl.find? fun e => e.1 == key).bind fun e => parseOw e.2

/-- The class of (schema type, check kind) in the CURRENT tree (a missing or unreadable cell reads `run`, which
    `c10_rawclass_total` excludes for the cells the driver asks for). -/
def rawOf (key col : String) : RawB := (lookupRaw Gozod.Gen.rawClass key col).getD .run
def owOf (key : String) : OwB := (lookupOw Gozod.Gen.owClass key).getD .cook

/-- What the transcription of the wrappers says (types/string.go Refine/Check, types/integer.go Refine/RefineAny/Check,
    types/slice.go, types/object.go; internal/checks size checks carry `When: HasSize‖HasLength`; `validate.*` reject
    a pointer): the table the regenerated one is compared with. -/
def expectedRaw : List (String × String × String) := [
  ("i", "builtin", "issue"), ("i", "chk", "vac"), ("i", "ref", "run"), ("i", "refany", "run"),
  ("ip", "builtin", "issue"), ("ip", "chk", "run"), ("ip", "ref", "run"), ("ip", "refany", "run"),
  ("l", "builtin", "vac"), ("l", "chk", "vac"), ("l", "ref", "run"),
  ("o", "chk", "vac"), ("o", "ref", "run"),
  ("s", "builtin", "issue"), ("s", "chk", "vac"), ("s", "ref", "issue"),
  ("sp", "builtin", "issue"), ("sp", "chk", "run"), ("sp", "ref", "issue")]

def expectedOw : List (String × String) :=
  [("i", "cook"), ("ip", "cook"), ("l", "cook"), ("o", "cook"), ("s", "skip"), ("sp", "stay")]

/-- Cells of the regenerated tables that differ from the expectation (for the broken-tie message). -/
def offenders : List String :=
  (Gozod.Gen.rawClass.filter (fun e => !expectedRaw.contains e)).map (fun e => s!"{e.1}/{e.2.1}: now {e.2.2}") ++
  (expectedRaw.filter (fun e => !Gozod.Gen.rawClass.contains e)).map (fun e => s!"{e.1}/{e.2.1}: expected {e.2.2}") ++
  (Gozod.Gen.owClass.filter (fun e => !expectedOw.contains e)).map (fun e => s!"{e.1}/overwrite: now {e.2}") ++
  (expectedOw.filter (fun e => !Gozod.Gen.owClass.contains e)).map (fun e => s!"{e.1}/overwrite: expected {e.2}")

/-- The cells the driver asks for. -/
def driverCells : List (String × String) :=
  [("s", "builtin"), ("s", "ref"), ("s", "chk"), ("sp", "builtin"), ("sp", "ref"), ("sp", "chk"),
   ("i", "builtin"), ("i", "ref"), ("i", "chk"), ("ip", "builtin"), ("ip", "ref"), ("ip", "chk"),
   ("l", "builtin"), ("l", "ref"), ("l", "chk"), ("o", "builtin"), ("o", "ref"), ("o", "chk")]

end Gozod.RawClassSpec
