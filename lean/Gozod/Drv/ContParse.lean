/-
  Token parser for container cases (shared by the C02 / C05 / C04 drivers).

    case  := CFG NODE V TABLE [extra tokens…]
    CFG   := 4 or 5 bits: slicePrepend recordKeyPath interPath lazyWrap [owValidates], optionally `:id,id…` = the members the
             container's code cannot call at all (`Cont.seen`)
    TY    := any|str|int|bool|f64|unit | sl TY | mp TY TY | ptr TY | st n | ot n
    V     := n | a TY id | s TY N V… | sn TY | m TY TY N (V V)… | mn TY TY | t sid N (name V)… | p TY V | pn TY
    MODS  := 3 bits: optional nilable nonOptional
    CS    := N (min n | max n | eq n | custom 0|1 | overwrite)…
    NODE  := slice MODS TY elem CS | array MODS N items… REST CS | tuple MODS N items… req REST CS
           | map MODS OPT OPT CS | record MODS KS val loose partial CS | set MODS TY elem CS
           | object MODS N (name m opt exopt)… MODE OPT PART [req all | req N ids…] CS | struct MODS ptrC sid N (name m opt exopt)…
           | union MODS N ids… | xor MODS N ids… | inter MODS l r | du MODS disc N (m K val…)… | lazy MODS direct t
             (du: the option LIST with the discriminator values each option declares; the index is built by
              `Cont.buildDiscMap`, `Case.du` keeps the declaration)
    TABLE := N (mid V RES)…     RES := ok V | err N ISSUE…
    ISSUE := code N seg… N keys… expLazy hasMsg hasPath        seg := i<n> | k<n>
-/
import Gozod.Model.Containers
import Gozod.Model.ContainersSpec
namespace Gozod.Drv.ContParse
open Gozod.Cont

abbrev P (α : Type) := List String → Option (α × List String)

def nat : P Nat
  | t :: ts => t.toNat?.map (fun n => (n, ts))
  | [] => none

def bit : P Bool
  | "1" :: ts => some (true, ts)
  | "0" :: ts => some (false, ts)
  | _ => none

def many {α : Type} (p : P α) : Nat → P (List α)
  | 0, ts => some ([], ts)
  | n + 1, ts => do
    let (x, ts) ← p ts
    let (xs, ts) ← many p n ts
    some (x :: xs, ts)

def counted {α : Type} (p : P α) : P (List α) := fun ts => do
  let (n, ts) ← nat ts
  many p n ts

partial def ty : P Ty
  | "any" :: ts => some (.any, ts)
  | "str" :: ts => some (.str, ts)
  | "int" :: ts => some (.int, ts)
  | "bool" :: ts => some (.bool, ts)
  | "f64" :: ts => some (.f64, ts)
  | "unit" :: ts => some (.unit, ts)
  | "sl" :: ts => do let (e, ts) ← ty ts; some (.sl e, ts)
  | "mp" :: ts => do let (k, ts) ← ty ts; let (e, ts) ← ty ts; some (.mp k e, ts)
  | "ptr" :: ts => do let (t, ts) ← ty ts; some (.ptr t, ts)
  | "st" :: ts => do let (n, ts) ← nat ts; some (.st n, ts)
  | "ot" :: ts => do let (n, ts) ← nat ts; some (.other n, ts)
  | _ => none

partial def val : P V
  | "n" :: ts => some (.nil, ts)
  | "a" :: ts => do let (t, ts) ← ty ts; let (i, ts) ← nat ts; some (.atom t i, ts)
  | "s" :: ts => do let (t, ts) ← ty ts; let (xs, ts) ← counted val ts; some (.slice t (some xs), ts)
  | "sn" :: ts => do let (t, ts) ← ty ts; some (.slice t none, ts)
  | "m" :: ts => do
    let (k, ts) ← ty ts; let (e, ts) ← ty ts
    let (es, ts) ← counted (fun ts => do let (a, ts) ← val ts; let (b, ts) ← val ts; some ((a, b), ts)) ts
    some (.map k e (some es), ts)
  | "mn" :: ts => do let (k, ts) ← ty ts; let (e, ts) ← ty ts; some (.map k e none, ts)
  | "t" :: ts => do
    let (sid, ts) ← nat ts
    let (fs, ts) ← counted (fun ts => do let (a, ts) ← nat ts; let (b, ts) ← val ts; some ((a, b), ts)) ts
    some (.strct sid fs, ts)
  | "p" :: ts => do let (t, ts) ← ty ts; let (v, ts) ← val ts; some (.ptr t (some v), ts)
  | "pn" :: ts => do let (t, ts) ← ty ts; some (.ptr t none, ts)
  | _ => none

def mods : P Mods
  | t :: ts =>
    match t.toList with
    | [a, b, c] => some ({ optional := a == '1', nilable := b == '1', nonOptional := c == '1' }, ts)
    | _ => none
  | [] => none

/-- The CFG token is what the harness PROBED on the tree (kept in the op line as evidence only).  EVERY switch is PINNED to
    the behaviour of /repo HEAD — slice path (489851f), record paths (12b24c0), intersection path, overwrite pre-pass
    (49e6e91), Object.Required (75cf747) to the fixed behaviour; `lazyWrap` to `false`: `schemaWrapper.Parse` still does not
    ask a target whose result type it does not list (open finding `target-never-asked-result-type-unsupported:lazy`) — so
    that a tree that behaves the other way is reported (impl ≠ model); the other variants live on only in witness
    theorems.  When the lazy finding is fixed in /repo the pin moves to `true` together with the open→fixed line. -/
def cfgBits (t : String) : Option Cfg :=
  match t.toList with
  | _ :: _ :: _ :: _ :: rest =>
    if rest.length ≤ 2 then
      some { slicePrepend := true, recordKeyPath := true, interPath := true, lazyWrap := false,
             owValidates := true, reqFix := true }
    else none
  | _ => none

def natList (s : String) : Option (List Nat) :=
  (s.splitOn ",").mapM (·.toNat?)

def cfg : P (Cfg × List Nat)
  | t :: ts =>
    match t.splitOn ":" with
    | [b] => (cfgBits b).map (fun c => ((c, []), ts))
    | [b, sk] => do
      let c ← cfgBits b
      let l ← natList sk
      some ((c, l), ts)
    | _ => none
  | [] => none

def sizeCk : P SizeCk
  | "min" :: ts => do let (n, ts) ← nat ts; some (.min n, ts)
  | "max" :: ts => do let (n, ts) ← nat ts; some (.max n, ts)
  | "eq" :: ts => do let (n, ts) ← nat ts; some (.eq n, ts)
  | "custom" :: ts => do let (b, ts) ← bit ts; some (.custom b, ts)
  | "overwrite" :: ts => some (.overwrite, ts)
  | _ => none

def opt : P (Option Nat)
  | "-" :: ts => some (none, ts)
  | t :: ts => t.toNat?.map (fun n => (some n, ts))
  | [] => none

def field : P Field := fun ts => do
  let (name, ts) ← nat ts; let (m, ts) ← nat ts; let (o, ts) ← bit ts; let (x, ts) ← bit ts
  some ({ name := name, m := m, optional := o, exactOptional := x }, ts)

def keySpec : P KeySpec
  | "none" :: ts => some (.none, ts)
  | "enum" :: ts => do let (al, ts) ← counted nat ts; let (m, ts) ← nat ts; some (.enum al m, ts)
  | "schema" :: ts => do let (m, ts) ← nat ts; some (.schema m, ts)
  | _ => none

def mode : P Mode
  | "strip" :: ts => some (.strip, ts)
  | "strict" :: ts => some (.strict, ts)
  | "passthrough" :: ts => some (.passthrough, ts)
  | _ => none

def part : P Partial
  | "-" :: ts => some ({}, ts)
  | "all" :: ts => some ({ on := true }, ts)
  | "ex" :: ts => do let (ex, ts) ← counted nat ts; some ({ on := true, exceptions := some ex }, ts)
  | _ => none

def pair : P (Nat × Nat) := fun ts => do
  let (a, ts) ← nat ts; let (b, ts) ← nat ts; some ((a, b), ts)

def duOpt : P DUOpt := fun ts => do
  let (m, ts) ← nat ts; let (vs, ts) ← counted nat ts
  some ({ m := m, vals := vs }, ts)

/-- the option list of a discriminated union as written (`none` for every other kind). -/
def duDecl : List String → Option (Mods × Nat × List DUOpt)
  | "du" :: ts => do
    let (m, ts) ← mods ts; let (d, ts) ← nat ts; let (os, _) ← counted duOpt ts
    some (m, d, os)
  | _ => none

/-- the optional `req all` / `req N ids…` after PART: the written `.Required(...)` call on the object. -/
def reqCall : P (Option ReqCall)
  | "req" :: "all" :: ts => some (some .all, ts)
  | "req" :: ts => do let (ks, ts) ← counted nat ts; some (some (.keys ks), ts)
  | ts => some (none, ts)

/-- `node cfg doc`: the node as the tree under test builds it (`doc = false`: `Cont.applyRequired cfg`) or as documented
    (`doc = true`: `Spec.requiredDoc`); they differ only for an object with a `.Required(...)` call. -/
def node (cfg : Cfg) (doc : Bool) : P Node
  | "slice" :: ts => do
    let (m, ts) ← mods ts; let (t, ts) ← ty ts; let (e, ts) ← nat ts; let (cs, ts) ← counted sizeCk ts
    some (.slice m t e cs, ts)
  | "array" :: ts => do
    let (m, ts) ← mods ts; let (it, ts) ← counted nat ts; let (r, ts) ← opt ts; let (cs, ts) ← counted sizeCk ts
    some (.array m it r cs, ts)
  | "tuple" :: ts => do
    let (m, ts) ← mods ts; let (it, ts) ← counted nat ts; let (req, ts) ← nat ts; let (r, ts) ← opt ts
    let (cs, ts) ← counted sizeCk ts
    some (.tuple m it req r cs, ts)
  | "map" :: ts => do
    let (m, ts) ← mods ts; let (k, ts) ← opt ts; let (e, ts) ← opt ts; let (cs, ts) ← counted sizeCk ts
    some (.map m k e cs, ts)
  | "record" :: ts => do
    let (m, ts) ← mods ts; let (ks, ts) ← keySpec ts; let (v, ts) ← nat ts; let (l, ts) ← bit ts
    let (p, ts) ← bit ts; let (cs, ts) ← counted sizeCk ts
    some (.record m ks v l p cs, ts)
  | "set" :: ts => do
    let (m, ts) ← mods ts; let (t, ts) ← ty ts; let (e, ts) ← nat ts; let (cs, ts) ← counted sizeCk ts
    some (.set m t e cs, ts)
  | "object" :: ts => do
    let (m, ts) ← mods ts; let (sh, ts) ← counted field ts; let (md, ts) ← mode ts; let (c, ts) ← opt ts
    let (p, ts) ← part ts; let (rq, ts) ← reqCall ts; let (cs, ts) ← counted sizeCk ts
    let (sh, p) := if doc then Spec.requiredDoc rq sh p else applyRequired cfg rq sh p
    some (.object m sh md c p cs, ts)
  | "struct" :: ts => do
    let (m, ts) ← mods ts; let (pc, ts) ← bit ts; let (sid, ts) ← nat ts; let (sh, ts) ← counted field ts
    some (.struct m pc sid sh, ts)
  | "union" :: ts => do let (m, ts) ← mods ts; let (os, ts) ← counted nat ts; some (.union m os, ts)
  | "xor" :: ts => do let (m, ts) ← mods ts; let (os, ts) ← counted nat ts; some (.xor m os, ts)
  | "inter" :: ts => do
    let (m, ts) ← mods ts; let (l, ts) ← nat ts; let (r, ts) ← nat ts; some (.inter m l r, ts)
  | "du" :: ts => do
    let (m, ts) ← mods ts; let (d, ts) ← nat ts; let (os, ts) ← counted duOpt ts
    some (.du m d ((buildDiscMap os).getD []) (os.map (·.m)), ts)
  | "lazy" :: ts => do
    let (m, ts) ← mods ts; let (d, ts) ← bit ts; let (t, ts) ← nat ts; some (.lazy m d t, ts)
  | _ => none

def code : P Code
  | t :: ts =>
    let c : Code := match t with
      | "invalid_type" => .invalidType | "invalid_value" => .invalidValue
      | "invalid_format" => .invalidFormat | "invalid_union" => .invalidUnion
      | "invalid_key" => .invalidKey | "invalid_element" => .invalidElement
      | "too_big" => .tooBig | "too_small" => .tooSmall | "not_multiple_of" => .notMultipleOf
      | "unrecognized_keys" => .unrecognizedKeys | "custom" => .custom
      | "invalid_schema" => .invalidSchema | "invalid_discriminator" => .invalidDiscriminator
      | "incompatible_types" => .incompatibleTypes | "missing_required" => .missingRequired
      | "type_conversion" => .typeConversion | "nil_pointer" => .nilPointer
      | _ => .unknown
    some (c, ts)
  | [] => none

def seg : P Seg
  | t :: ts =>
    match t.toList with
    | 'i' :: r => (String.ofList r).toNat?.map (fun n => (Seg.idx n, ts))
    | 'k' :: r => (String.ofList r).toNat?.map (fun n => (Seg.key n, ts))
    | _ => none
  | [] => none

def issue : P Issue := fun ts => do
  let (c, ts) ← code ts; let (p, ts) ← counted seg ts; let (ks, ts) ← counted nat ts
  let (el, ts) ← bit ts; let (hm, ts) ← bit ts; let (hp, ts) ← bit ts
  some ({ code := c, path := p, keys := ks, expLazy := el, hasMsg := hm, hasPath := hp }, ts)

def mres : P MRes
  | "ok" :: ts => do let (v, ts) ← val ts; some (.ok v, ts)
  | "err" :: ts => do
    let (is, ts) ← counted issue ts
    match is with
    | i :: r => some (.err i r, ts)
    | [] => none
  | _ => none

def entry : P (Nat × V × MRes) := fun ts => do
  let (m, ts) ← nat ts; let (v, ts) ← val ts; let (r, ts) ← mres ts
  some ((m, v, r), ts)

/-- a member the harness did not record answers with an unknown-code issue without message. -/
def missing : MRes := .err { code := .unknown, path := [], hasMsg := false } []

def envOf (tbl : List (Nat × V × MRes)) : Env := fun m v =>
  match tbl.find? (fun e => e.1 == m && e.2.1 == v) with
  | some e => e.2.2
  | none => missing

structure Case where
  cfg : Cfg
  node : Node          -- the node the constructor builds (`Cont.built skip written`)
  written : Node       -- the schema as written (what the property speaks about)
  input : V
  env : Env            -- what the container sees of its members (`Cont.seen skip own`)
  own : Env            -- the members' own verdicts (what the property speaks about)
  skip : List Nat
  du : Option (Mods × Nat × List DUOpt) := none   -- a discriminated union's option list as written
  hasReq : Bool := false                          -- the object carries a written `.Required(...)` call
  rest : List String

def parseCase (ts : List String) : Option Case := do
  let ((c, sk), ts) ← cfg ts
  let du := duDecl ts
  let hasReq := ts.head? == some "object" && ts.contains "req"
  let (w, _) ← node c true ts
  let (n, ts) ← node c false ts
  let (v, ts) ← val ts
  let (tbl, ts) ← counted entry ts
  some { cfg := c, node := built sk n, written := w, input := v, env := seen sk (envOf tbl), own := envOf tbl, skip := sk, du := du, hasReq := hasReq, rest := ts }

/-! rendering of path sets -/

def segStr : Seg → String
  | .idx i => s!"i{i}"
  | .key k => s!"k{k}"

def pathStr (p : List Seg) : String := "/" ++ "/".intercalate (p.map segStr)

def insertSorted (s : String) : List String → List String
  | [] => [s]
  | x :: xs => if s < x then s :: x :: xs else if s == x then x :: xs else x :: insertSorted s xs

/-- sorted, duplicate-free, comma-joined. -/
def pathSet (ps : List (List Seg)) : String :=
  ",".intercalate ((ps.map pathStr).foldl (fun a s => insertSorted s a) [])

end Gozod.Drv.ContParse
