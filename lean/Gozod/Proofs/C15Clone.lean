/-
  C15: the clone handed out for Parse(nil), with its depth limit explicit (`Gozod.Model.Clone`).

    legacy_clone_shares_below_fuel   witness (deepCloneValue with its limit, fuel made small): a chain deeper than the fuel — the
                                     result reaches the schema's own last cell, and a store into it changes the default
    legacy_clone_cyclic_shares       witness: a self-referential default — the unrolled copy ends in the schema's own cell
    cloneIso_ext                     the memoised clone writes nothing that existed
    cloneIso_fresh                   … and EVERY cell reachable from its result, to any depth, on any graph — cyclic or not, however
                                     deep — is a new cell (no fuel hypothesis: nothing of the original is ever shared)
    cloneIso_parse_mutate            Parse(nil); any store into any cell of the result (any depth); the default looks the same
-/
import Gozod.Model.Clone
import Gozod.Proofs.C15Agg

namespace Gozod.C15
open Gozod.Graph

/-! ### the limit as it is: witnesses -/

/-- default `[7, [8, [9]]]`: cell 3 → cell 2 → cell 1 -/
def σchain : GStore :=
  { heap := gupd (gupd (gupd (fun _ => none) 1 [(0, .scalar 9)]) 2 [(0, .scalar 8), (1, .ref 1)]) 3 [(0, .scalar 7), (1, .ref 2)],
    next := 4 }

/-- **Witness (a default deeper than the clone's limit; fuel 2 stands for maxCloneDepth)**: two levels are copied, the third
    is the schema's own cell 1; the caller's store into it changes what the default looks like. With fuel 3 nothing is shared. -/
theorem legacy_clone_shares_below_fuel :
    let r := copy true 2 σchain (.ref 3)
    1 ∈ reach 8 r.1.heap r.2 ∧
    ser 8 (assign r.1 1 [(0, .scalar 99)]).heap (.ref 3) ≠ ser 8 σchain.heap (.ref 3) ∧
    (reach 8 (copy true 3 σchain (.ref 3)).1.heap (copy true 3 σchain (.ref 3)).2).all (fun x => x ≥ 4) = true := by decide

/-- default `m = {a: 7, self: m}` -/
def σself : GStore := { heap := gupd (fun _ => none) 1 [(0, .scalar 7), (1, .ref 1)], next := 2 }

/-- **Witness (a self-referential default)**: whatever the fuel (here 5), the unrolled copy ends in the schema's own cell 1;
    following `self` five times from the result and storing there changes the default. -/
theorem legacy_clone_cyclic_shares :
    let r := copy true 5 σself (.ref 1)
    1 ∈ reach 8 r.1.heap r.2 ∧
    (match spineAt r.1.heap 5 r.2 with | .ref x => x == 1 | _ => false) = true ∧
    ser 8 (mutateCell r.1 (spineAt r.1.heap 5 r.2)).heap (.ref 1) ≠ ser 8 σself.heap (.ref 1) := by
  refine ⟨by decide, by decide, by decide⟩

/-! ### the memoised clone -/

theorem overlay_old (cs : List (Loc × Entries)) (h : GHeap) (n x : Nat) (hcs : ∀ p ∈ cs, n ≤ p.1) (hx : x < n) :
    overlay cs h x = h x := by
  unfold overlay
  cases hf : cs.find? (fun p => p.1 == x) with
  | none => rfl
  | some p =>
    have hm := List.mem_of_find?_eq_some hf
    have he := List.find?_some hf
    simp only [beq_iff_eq] at he
    have := hcs p hm
    omega

/-- **cloneIso_ext**: the memoised clone writes nothing that existed. -/
theorem cloneIso_ext (F : Nat) (σ : GStore) (v : GVal) : GExt σ.next σ (cloneIso F σ v).1 := by
  refine ⟨by simp [cloneIso], fun l hl => ?_⟩
  simp only [cloneIso]
  apply overlay_old _ _ σ.next l _ hl
  intro p hp
  simp only [List.mem_map] at hp
  obtain ⟨x, _, rfl⟩ := hp
  exact Nat.le_add_left _ _

/-- a store whose unallocated locations are empty -/
def Wf (σ : GStore) : Prop := ∀ x, σ.next ≤ x → σ.heap x = none

theorem overlay_cases (cs : List (Loc × Entries)) (h : GHeap) (y : Loc) :
    (∃ p ∈ cs, overlay cs h y = some p.2) ∨ overlay cs h y = h y := by
  unfold overlay
  cases hf : cs.find? (fun p => p.1 == y) with
  | none => right; rfl
  | some p => left; exact ⟨p, List.mem_of_find?_eq_some hf, rfl⟩

/-- what the clone's store holds at a location at or above the offset: the shifted entries of an original cell, or nothing -/
theorem cloneIso_read (F : Nat) (σ : GStore) (v : GVal) (hw : Wf σ) (y : Loc) (hy : σ.next ≤ y) :
    readG (cloneIso F σ v).1.heap y = [] ∨ ∃ l, readG (cloneIso F σ v).1.heap y = shiftCell σ.next (readG σ.heap l) := by
  have hc := overlay_cases ((reach F σ.heap v).map (fun l => (l + σ.next, shiftCell σ.next (readG σ.heap l)))) σ.heap y
  have hh : (cloneIso F σ v).1.heap y =
      overlay ((reach F σ.heap v).map (fun l => (l + σ.next, shiftCell σ.next (readG σ.heap l)))) σ.heap y := rfl
  rcases hc with ⟨p, hp, he⟩ | he
  · right
    obtain ⟨l, _, rfl⟩ := List.mem_map.mp hp
    refine ⟨l, ?_⟩
    show (match (cloneIso F σ v).1.heap y with | some c => c | none => []) = _
    rw [hh, he]
  · left
    show (match (cloneIso F σ v).1.heap y with | some c => c | none => []) = _
    rw [hh, he, hw y hy]

/-- **cloneIso_fresh**: every cell reachable — to ANY depth `G` — from (a shifted image of) any value lies at or above the
    offset: nothing of the original graph is reachable from the clone, whatever its depth or shape (cycles included). -/
theorem cloneIso_fresh (F : Nat) (σ : GStore) (v : GVal) (hw : Wf σ) (G : Nat) :
    ∀ (A : Nat) (w : GVal), ∀ x ∈ reach G (cloneIso F σ v).1.heap (shift σ.next A w), σ.next ≤ x := by
  induction G with
  | zero => intro A w x hx; simp [reach] at hx
  | succ G ih =>
    intro A w x hx
    cases A with
    | zero => simp [shift, reach] at hx
    | succ A =>
      cases w with
      | scalar k => simp [shift, reach] at hx
      | nil => simp [shift, reach] at hx
      | agg fs =>
        simp only [shift, reach, List.flatMap_map, List.mem_flatMap] at hx
        obtain ⟨p, _, hx⟩ := hx
        exact ih A p.2 x hx
      | ref l =>
        simp only [shift, reach, List.mem_cons, List.mem_flatMap] at hx
        rcases hx with rfl | ⟨p, hp, hx⟩
        · exact Nat.le_add_left _ _
        · rcases cloneIso_read F σ v hw (l + σ.next) (Nat.le_add_left _ _) with h | ⟨l', h⟩
          · rw [h] at hp; cases hp
          · rw [h] at hp
            simp only [shiftCell, List.mem_map] at hp
            obtain ⟨q, _, rfl⟩ := hp
            exact ih gdepth q.2 x hx

/-- the result of the memoised clone: only new cells, to any depth -/
theorem cloneIso_result_fresh (F : Nat) (σ : GStore) (v : GVal) (hw : Wf σ) (G : Nat) :
    ∀ x ∈ reach G (cloneIso F σ v).1.heap (cloneIso F σ v).2, σ.next ≤ x :=
  cloneIso_fresh F σ v hw G gdepth v

/-- **cloneIso_parse_mutate**: Parse(nil) with the memoised clone, then the caller stores ANY contents into ANY cell it can
    reach from the result, at any depth: the default — however deep, cyclic or not — consists of the same cells and looks the same. -/
theorem cloneIso_parse_mutate (F G D : Nat) (σ : GStore) (d : GVal) (hw : Wf σ) (hd : ∀ x ∈ reach D σ.heap d, x < σ.next)
    (l : Loc) (c : Entries) (hl : l ∈ reach G (cloneIso F σ d).1.heap (cloneIso F σ d).2) :
    reach D (assign (cloneIso F σ d).1 l c).heap d = reach D σ.heap d ∧
    ser D (assign (cloneIso F σ d).1 l c).heap d = ser D σ.heap d := by
  have hfresh := cloneIso_result_fresh F σ d hw G l hl
  have e : GExt σ.next σ (assign (cloneIso F σ d).1 l c) :=
    (cloneIso_ext F σ d).trans (assign_ext σ.next _ l c hfresh)
  exact g_graph_frame D σ.next σ _ d e hd

/-- the self-referential default through the memoised clone: the copy is a self-referential value of its own (cell 3 refers to
    cell 3), it looks like the default, and mutating it at any point of its spine leaves the default alone -/
example :
    let r := cloneIso 8 σself (.ref 1)
    (reach 8 r.1.heap r.2).all (fun x => x ≥ 2) = true ∧
    ser 8 r.1.heap r.2 = ser 8 σself.heap (.ref 1) ∧
    ser 8 (mutateCell r.1 (spineAt r.1.heap 5 r.2)).heap (.ref 1) = ser 8 σself.heap (.ref 1) := by decide

example : Wf σself := by
  intro x hx
  have hx' : 2 ≤ x := hx
  have : x ≠ 1 := fun h => by rw [h] at hx'; exact absurd hx' (by decide)
  simp [σself, gupd, this]

end Gozod.C15
