"""C12 — ToJSONSchema is a pure, deterministic function of the schema."""
from . import common as C
from . import c08

MANIFEST = dict(
   technique="Lean 4 proof over the store model (conversion = OnAttach annotations on a private scratch copy of the Bag, then applyBag over an arbitrary visiting order) + history correspondence: real derivations, ToJSONSchema calls with every option setting and Parse calls, each document compared with the one an isolated twin family gives",
   text="For the code after pending/C12-convert-scratch-bag.diff and pending/C08-clone-bag.diff: c12_pure (conversion leaves the store untouched), c12_deterministic / c12_twice (the annotated bag is a function of the schema's observation), c12_order_invariant / c12_doc_deterministic (the keywords are the same for every permutation of the annotated bag, i.e. for every Go map iteration order), c12_hist (along every interleaving of chaining calls, conversions and parses every live schema keeps its observation and converts to the same result). Registry: the Describe/Meta checks' OnAttach (run by the converter against the live schema) is modelled in full (convertReg): c12_reg_frame (no other schema's entry is written), c12_annotate_idem / c12_reg_twice / c12_reg_after_others (after the first conversion the registry is a fixed point, so every later conversion reads the same entry), c12_reg_partial (with the entry absorbed the conversion leaves the registry alone); the full statement c12_reg_full is refuted by conv_registers_meta_check (open known finding conversion-registers-meta-check). Witnesses for the pinned code: today_convert_pollutes_parent (converting String().Min(5) makes String() emit minLength 5) and today_applyBag_order_dependent (File().Size(3).Min(1) converts to minLength 3 or 1 depending on map order).",
   note="The document model covers the part of conversion that goes through the Bag (constraint keywords, patterns) plus registry metadata, Values and Shape identity; structural recursion into member schemas, $defs/ref hoisting and option handling are not modelled and are covered only by the correspondence runs (9 option settings); which schemas a conversion visits (whose Describe/Meta callbacks run) is measured on a scout replica whose checks' exported OnAttach slices are wrapped with recorders. The oracle document is obtained from a replayed isolated twin, which assumes constructors and chaining calls are deterministic. Trusted: Lean kernel, axioms propext/Classical.choice/Quot.sound, the Go harness and comparer.",
   design="DESIGN.md §3.4, §5 C12")

MODULES = ["Gozod.Proofs.C12"]
THEOREMS = [
    "Gozod.C12.c12_pure", "Gozod.C12.c12_pure_obs", "Gozod.C12.c12_deterministic", "Gozod.C12.c12_twice",
    "Gozod.C12.c12_order_invariant", "Gozod.C12.c12_doc_deterministic", "Gozod.C12.entriesOf_nodup",
    "Gozod.C12.c12_hist", "Gozod.C12.today_convert_pollutes_parent", "Gozod.C12.today_applyBag_order_dependent",
    "Gozod.C12.c12_annotate_idem", "Gozod.C12.annotateEntry_eq", "Gozod.C12.c12_reg_frame", "Gozod.C12.c12_reg_twice",
    "Gozod.C12.c12_reg_after_others", "Gozod.C12.c12_reg_partial", "Gozod.C12.absorbed_after_conversion",
    "Gozod.C12.conv_registers_meta_check", "Gozod.C12.c12_reg_full_false", "Gozod.C12.merging_examples_not_idempotent",
]


def mask(verdicts, steps):
    """C12 judges conversions and parses; chaining steps are C08's business (kept in the structure tie)."""
    out = []
    for k, v in enumerate(verdicts.split(";")):
        cls = steps[k][1] if k < len(steps) else "?"
        out.append(v if cls in ("conv", "parse") else "-")
    return ";".join(out)


def key(op, impl, M, S):
    """Class of the first step that fails. A conversion whose only effect is the one the model derives from the code —
    the Describe/Meta checks of a visited schema being registered in GlobalRegistry (document equal to the isolated
    twin's, the changed schemas exactly the predicted ones) — is the listed class `conversion-registers-meta-check`;
    any other failing step of the history takes precedence."""
    head, steps = c08.steps_of(op)
    iv = impl.split(" ")[0].split(";")
    mv = (M or "").split(" ")[0].split(";")
    lazy = None
    for k, st in enumerate(steps):
        if k >= len(iv) or iv[k] in ("1:", "-"):
            continue
        typ = st[-1].partition("@")[2]
        if st[1] == "conv":
            if iv[k].startswith("1:") and k < len(mv) and mv[k] == iv[k] and st[4] not in ("0", "scout-failed") and " S:" not in impl:
                lazy = lazy or "conversion-registers-meta-check"
                continue
            return ("doc-differs:" if iv[k].startswith("0") else "conversion-changes-live-schema:") + typ
        return "parse-changes-live-schema:" + typ
    return lazy or "tie:" + head[1]


def rewrite(data):
    ops, impl, model, stats = data
    impl2, model2 = [], []
    for i in range(len(ops)):
        _, steps = c08.steps_of(ops[i])
        iv, is_ = c08.parts(impl[i])
        iv = mask(iv, steps)
        if "\t" not in model[i]:
            impl2.append(iv + " S:" + is_); model2.append(model[i] + "\t-"); continue
        m, s = model[i].split("\t", 1)
        mv, ms = c08.parts(m)
        sv, _ = c08.parts(s)
        mv, sv = mask(mv, steps), mask(sv, steps)
        if is_ == ms:
            impl2.append(iv); model2.append(mv + "\t" + sv)
        else:
            impl2.append(iv + " S:" + is_); model2.append(mv + " S:" + ms + "\t" + sv + " S:" + is_)
    return ops, impl2, model2, stats


def describe(op):
    return ("history over base %s (harness/storex Bases()); after '#': <receiver>.<Method>/<variant> = chaining call, conv(i,optK) = "
            "ToJSONSchema(live[i], OptionSets()[K]), parse(i) = the probe set parsed with live[i]; verdict d:<changed> per conv step: "
            "d = document equals the isolated twin's" % c08.steps_of(op)[0][1])


def run(res):
    ok, detail = C.prove(res, MODULES, THEOREMS)
    if not ok:
        C.tie_broken(res, "proof Gozod.Proofs.C12", detail)
    data, err = C.correspond(res, "C12")
    if data is None:
        C.tie_broken(res, "correspondence C12/convert-histories", err)
        return res.finish()
    C.decide(res, "C12", rewrite(data), key, "C12/convert-histories", describe=describe)
    res.coverage["rule"] = ("per base schema (every schema type) and per exported schema-returning method: H1 = derive child, convert child, parent, "
        "parse, convert both again with random options; H2 = two siblings converted alternately, then the parent, then a sibling derived after the "
        "conversions; H3 = random family of 3-6 schemas, 2n random conversions (6 option settings) / parses interleaved with further derivations, "
        "then every schema converted once more; H5 = private metadata registries; H6 = every catalogue check value (gozod.Describe/gozod.Meta with GlobalMeta examples of every JSON kind, "
        "user-defined checks, every check the public methods build: storex/checks.go) through every method taking a core.ZodCheck, result converted 3x, parent, wrapper 3x, sibling, second check, all twice more; "
        "H7 = the catalogue attached with Internals().AddCheck on every base, converted 3x, child 2x, sibling, all again. Oracle per conversion: the document of an isolated replayed twin; registry entries "
        "before/after each conversion against the model (convertReg). distinct = distinct op lines.")
    res.assumptions += [
        "constructors and chaining calls are deterministic (the isolated twin is the same derivation replayed)",
        "the annotated Bag determines the constraint keywords; recursion into member schemas and $defs hoisting are validated by the runs only",
    ]
    return res.finish()
