/-
  C08 — schemas are immutable values: deriving a schema never changes an existing one.

  Store model: `Gozod.Model.Store`.  The theorems are about `applyOp` with `cfg.cloneBagAlways = true`
  (the code after pending/C08-clone-bag.diff).  For today's `Internals.Clone` (Bag cloned only when
  non-empty) the step statement is false: `today_partial_mutates_receiver` is the witness
  (`Record(Enum("a","b"), String()).Partial()` on the real code).

  Op class `metaSelf` is LEGACY: until /repo 6ba76b8 `Meta()` on the 28 non-string types was
  `GlobalRegistry.Add(z, meta); return z` — it returned the receiver and rewrote its registry entry.  Since that commit
  Meta() clones like Describe() (op `derive` with a registry value) and no method of the library performs `metaSelf` any
  more: `Proofs/C08Methods.lean` proves over the table regenerated from the source that EVERY chaining method is one of
  the op classes below (`table_all_covered`), and `c08_full_code` is the full statement over those classes.  The op stays in
  the shared `Store.Op` type, so `c08_step` keeps `Op.isMetaSelf = false` as "an op class the code has";
  `metaSelf_violates` / `metaSelf_changes_receiver` remain as theorems about the legacy behaviour (a method that falls
  back to it turns its table row into class `metaSelf`, which `table_all_covered` rejects).
-/
import Gozod.Proofs.StoreLemmas

namespace Gozod.C08
open Gozod.Store

/-- Transition that writes nothing below `n` and keeps bags closed. -/
def T (n : Nat) (σ σ' : Store) : Prop := ExtFrom n σ σ' ∧ (BagClosed σ → BagClosed σ')

theorem T.refl (n : Nat) (σ : Store) : T n σ σ := ⟨ExtFrom.refl _ _, id⟩
theorem T.trans {n : Nat} {a b c : Store} (h1 : T n a b) (h2 : T n b c) : T n a c :=
  ⟨h1.1.trans h2.1, fun h => h2.2 (h1.2 h)⟩

theorem T_alloc (n : Nat) (σ : Store) (c : Cell) (hn : n ≤ σ.next) (hok : BagClosed σ → cellOk (σ.next + 1) c) :
    T n σ (alloc σ c).1 :=
  ⟨alloc_ext n σ c hn, fun h => bagClosed_alloc σ c h (hok h)⟩

theorem cellOk_arr (n : Nat) (cs : List Nat) : cellOk n (.arr cs) := trivial
theorem cellOk_reg (n : Nat) (m : Option Nat) : cellOk n (.reg m) := trivial
theorem cellOk_vals (n : Nat) (m : List Nat) : cellOk n (.vals m) := trivial
theorem cellOk_shape (n : Nat) (m : List (Nat × Loc)) : cellOk n (.shape m) := trivial

/-! ### `Internals.Clone` piece by piece -/

theorem cloneChecks_spec (n : Nat) (σ : Store) (hd : Hdr) (hn : n ≤ σ.next) (hl : hd.loc < σ.next)
    (hcap : hd.len = 0 → hd.cap = 0) :
    T n σ (cloneChecks σ hd).1 ∧ (cloneChecks σ hd).2.loc < (cloneChecks σ hd).1.next ∧
    (cloneChecks σ hd).2.len = (cloneChecks σ hd).2.cap ∧
    readArr (cloneChecks σ hd).1.heap (cloneChecks σ hd).2 = readArr σ.heap hd := by
  unfold cloneChecks
  by_cases h : hd.len > 0
  · rw [if_pos h]
    refine ⟨T_alloc n σ _ hn (fun _ => cellOk_arr _ _), by simp [alloc], rfl, ?_⟩
    simp only [readArr, alloc, upd, ↓reduceIte]
    cases hh : σ.heap hd.loc with
    | none => simp
    | some c => cases c <;> simp [List.take_take]
  · rw [if_neg h]
    have h0 : hd.len = 0 := by omega
    exact ⟨T.refl _ _, hl, by rw [h0, hcap h0], rfl⟩

theorem cloneValues_spec (n : Nat) (σ : Store) (v : Option Loc) (hn : n ≤ σ.next) (hl : ∀ l ∈ optLoc v, l < σ.next) :
    T n σ (cloneValues σ v).1 ∧ (∀ l ∈ optLoc (cloneValues σ v).2, l < (cloneValues σ v).1.next) := by
  unfold cloneValues
  split
  · exact ⟨T.refl _ _, by simp [optLoc]⟩
  · next l =>
    have hl' : l < σ.next := hl l (by simp [optLoc])
    split
    · next vs hh =>
      by_cases he : vs.isEmpty
      · rw [if_pos he]; exact ⟨T.refl _ _, by simpa [optLoc] using hl'⟩
      · rw [if_neg he]
        exact ⟨T_alloc n σ _ hn (fun _ => cellOk_vals _ _), by simp [optLoc, alloc]⟩
    · exact ⟨T.refl _ _, by simpa [optLoc] using hl'⟩

/-- The repaired `Clone` gives the copy its own Bag whenever the receiver has one. -/
theorem cloneBag_spec (n : Nat) (σ : Store) (b : Option Loc) (hn : n ≤ σ.next) (hl : ∀ l ∈ optLoc b, l < σ.next) :
    T n σ (cloneBag true σ b).1 ∧ (∀ l ∈ optLoc (cloneBag true σ b).2, l < (cloneBag true σ b).1.next) ∧
    (∀ l kv, (cloneBag true σ b).2 = some l → (cloneBag true σ b).1.heap l = some (.bag kv) → σ.next ≤ l) := by
  unfold cloneBag
  split
  · exact ⟨T.refl _ _, by simp [optLoc], by simp⟩
  · next l =>
    have hl' : l < σ.next := hl l (by simp [optLoc])
    split
    · next kv hh =>
      simp only [Bool.true_or, ↓reduceIte]
      refine ⟨T_alloc n σ _ hn (fun hc => ?_), by simp [optLoc, alloc], ?_⟩
      · exact cellOk_mono _ (hc l _ hh) (Nat.le_succ _)
      · intro l' kv' e _; simp only [alloc, Option.some.injEq] at e; exact Nat.le_of_eq e
    · next hne =>
      refine ⟨T.refl _ _, by simpa [optLoc] using hl', ?_⟩
      intro l' kv e hb; cases e; exact absurd hb (hne kv)

/-! ### Go `append` -/

theorem appendOne_spec (g : Nat → Nat) (n : Nat) (σ : Store) (hd : Hdr) (x : Nat) (hn : n ≤ σ.next)
    (hl : hd.loc < σ.next) (hfresh : hd.len < hd.cap → n ≤ hd.loc) (hc0 : hd.len = 0 → hd.cap = 0) :
    T n σ (appendOne g σ hd x).1 ∧ (appendOne g σ hd x).2.loc < (appendOne g σ hd x).1.next ∧
    ((appendOne g σ hd x).2.len < (appendOne g σ hd x).2.cap → n ≤ (appendOne g σ hd x).2.loc) ∧
    ((appendOne g σ hd x).2.len = 0 → (appendOne g σ hd x).2.cap = 0) := by
  unfold appendOne
  by_cases h : hd.len < hd.cap
  · rw [if_pos h]
    split
    · next cs hh =>
      refine ⟨⟨write_ext n σ _ _ (hfresh h), fun hc => bagClosed_write σ _ _ hc (cellOk_arr _ _)⟩, hl, fun _ => hfresh h, ?_⟩
      simp
    · exact ⟨T.refl _ _, hl, hfresh, hc0⟩
  · rw [if_neg h]
    refine ⟨T_alloc n σ _ hn (fun _ => cellOk_arr _ _), by simp [alloc], fun _ => ?_, by simp⟩
    simp only [alloc]; exact hn

theorem appendAll_spec (g : Nat → Nat) (n : Nat) (xs : List Nat) : ∀ (σ : Store) (hd : Hdr), n ≤ σ.next →
    hd.loc < σ.next → (hd.len < hd.cap → n ≤ hd.loc) → (hd.len = 0 → hd.cap = 0) →
    T n σ (appendAll g σ hd xs).1 ∧ (appendAll g σ hd xs).2.loc < (appendAll g σ hd xs).1.next ∧
    ((appendAll g σ hd xs).2.len = 0 → (appendAll g σ hd xs).2.cap = 0) := by
  induction xs with
  | nil => intro σ hd _ hl _ hc; exact ⟨T.refl _ _, hl, hc⟩
  | cons x xs ih =>
    intro σ hd hn hl hf hc
    obtain ⟨t1, l1, f1, c1⟩ := appendOne_spec g n σ hd x hn hl hf hc
    have hn1 : n ≤ (appendOne g σ hd x).1.next := Nat.le_trans hn t1.1.1
    obtain ⟨t2, l2, c2⟩ := ih (appendOne g σ hd x).1 (appendOne g σ hd x).2 hn1 l1 f1 c1
    simp only [appendAll]
    exact ⟨t1.trans t2, l2, c2⟩


/-! ### direct references -/

structure DirOk (m : Nat) (s : Schema) : Prop where
  self : s.self < m
  checks : s.checks.loc < m
  bag : ∀ l ∈ optLoc s.bag, l < m
  values : ∀ l ∈ optLoc s.values, l < m
  shape : ∀ l ∈ optLoc s.shape, l < m
  dflt : ∀ l ∈ dfltLocs s.dflt, l < m

theorem dirOk_of_direct {m : Nat} {s : Schema} (h : ∀ l ∈ direct s, l < m) : DirOk m s :=
  ⟨h _ (by simp [direct]), h _ (by simp [direct]),
   fun l hl => h l (by simp [direct]; simp [hl]), fun l hl => h l (by simp [direct]; simp [hl]),
   fun l hl => h l (by simp [direct]; simp [hl]), fun l hl => h l (by simp [direct]; simp [hl])⟩

theorem direct_of_dirOk {m : Nat} {s : Schema} (h : DirOk m s) : ∀ l ∈ direct s, l < m := by
  intro l hl
  simp only [direct, List.mem_cons, List.mem_append, or_assoc] at hl
  rcases hl with rfl | rfl | hl | hl | hl | hl
  · exact h.self
  · exact h.checks
  · exact h.bag l hl
  · exact h.values l hl
  · exact h.shape l hl
  · exact h.dflt l hl

theorem DirOk.mono {m k : Nat} {s : Schema} (h : DirOk m s) (hk : m ≤ k) : DirOk k s :=
  ⟨Nat.lt_of_lt_of_le h.self hk, Nat.lt_of_lt_of_le h.checks hk,
   fun l hl => Nat.lt_of_lt_of_le (h.bag l hl) hk, fun l hl => Nat.lt_of_lt_of_le (h.values l hl) hk,
   fun l hl => Nat.lt_of_lt_of_le (h.shape l hl) hk, fun l hl => Nat.lt_of_lt_of_le (h.dflt l hl) hk⟩

theorem dirOk_of_wfs {σ : Store} {s : Schema} (h : WfS σ s) : DirOk σ.next s :=
  dirOk_of_direct (fun l hl => h.1 l (by simp [locs, hl]))

/-- `Internals.Clone` after the repair: writes nothing old, and the copy's check slice is full
    (`len = cap`), its Bag — when it is a bag at all — is a fresh map. -/
theorem clone_spec (cfg : Cfg) (hcfg : cfg.cloneBagAlways = true) (n : Nat) (σ : Store) (s : Schema)
    (hn : n ≤ σ.next) (hd : DirOk σ.next s) (hcap : s.checks.len = 0 → s.checks.cap = 0) :
    T n σ (clone cfg σ s).1 ∧ DirOk (clone cfg σ s).1.next (clone cfg σ s).2 ∧
    (clone cfg σ s).2.checks.len = (clone cfg σ s).2.checks.cap ∧
    (∀ l kv, (clone cfg σ s).2.bag = some l → (clone cfg σ s).1.heap l = some (.bag kv) → σ.next ≤ l) := by
  obtain ⟨t1, l1, c1, _⟩ := cloneChecks_spec n σ s.checks hn hd.checks hcap
  have n1 : σ.next ≤ (cloneChecks σ s.checks).1.next := t1.1.1
  obtain ⟨t2, l2⟩ := cloneValues_spec n (cloneChecks σ s.checks).1 s.values (Nat.le_trans hn n1)
    (fun l hl => Nat.lt_of_lt_of_le (hd.values l hl) n1)
  have n2 : (cloneChecks σ s.checks).1.next ≤ (cloneValues (cloneChecks σ s.checks).1 s.values).1.next := t2.1.1
  obtain ⟨t3, l3, f3⟩ := cloneBag_spec n (cloneValues (cloneChecks σ s.checks).1 s.values).1 s.bag
    (Nat.le_trans hn (Nat.le_trans n1 n2)) (fun l hl => Nat.lt_of_lt_of_le (hd.bag l hl) (Nat.le_trans n1 n2))
  have n3 := t3.1.1
  simp only [clone, hcfg]
  refine ⟨t1.trans (t2.trans t3), ⟨?_, ?_, l3, ?_, ?_, ?_⟩, c1, ?_⟩
  · exact Nat.lt_of_lt_of_le hd.self (Nat.le_trans n1 (Nat.le_trans n2 n3))
  · exact Nat.lt_of_lt_of_le l1 (Nat.le_trans n2 n3)
  · exact fun l hl => Nat.lt_of_lt_of_le (l2 l hl) n3
  · exact fun l hl => Nat.lt_of_lt_of_le (hd.shape l hl) (Nat.le_trans n1 (Nat.le_trans n2 n3))
  · exact fun l hl => Nat.lt_of_lt_of_le (hd.dflt l hl) (Nat.le_trans n1 (Nat.le_trans n2 n3))
  · intro l kv e hb
    exact Nat.le_trans (Nat.le_trans n1 n2) (f3 l kv e hb)


theorem withInternals_spec (n : Nat) (σ : Store) (recv s : Schema) (m : Option Nat) (hn : n ≤ σ.next)
    (hd : DirOk σ.next s) :
    T n σ (withInternals σ recv s m).1 ∧ DirOk (withInternals σ recv s m).1.next (withInternals σ recv s m).2 ∧
    (withInternals σ recv s m).2.self = σ.next ∧ (withInternals σ recv s m).2.checks = s.checks := by
  simp only [withInternals]
  refine ⟨T_alloc n σ _ hn (fun _ => cellOk_reg _ _), ?_, by simp [alloc], by simp⟩
  have := hd.mono (Nat.le_succ σ.next)
  exact ⟨by simp [alloc], this.checks, this.bag, this.values, this.shape, this.dflt⟩

/-- `bag[k] = num v` on a bag that is either absent, not a bag, or a fresh map. -/
theorem bagStore_spec (n : Nat) (σ : Store) (b : Option Loc) (k v : Nat) (hn : n ≤ σ.next)
    (hl : ∀ l ∈ optLoc b, l < σ.next) (hfresh : ∀ l kv, b = some l → σ.heap l = some (.bag kv) → n ≤ l) :
    T n σ (bagStore σ b k (.num v)).1 ∧
    (∀ l ∈ optLoc (bagStore σ b k (.num v)).2, l < (bagStore σ b k (.num v)).1.next) := by
  unfold bagStore
  split
  · refine ⟨T_alloc n σ _ hn (fun _ => ?_), by simp [optLoc, alloc]⟩
    intro p hp l' hl'
    simp only [List.mem_singleton] at hp
    subst hp
    simp [bagValLocs] at hl'
  · next l =>
    have hl' : l < σ.next := hl l (by simp [optLoc])
    split
    · next kv hh =>
      refine ⟨⟨write_ext n σ _ _ (hfresh l kv rfl hh), fun hc => bagClosed_write σ _ _ hc ?_⟩, by simpa [optLoc, write] using hl'⟩
      intro p hp l' hl2
      have hkv := hc l _ hh
      simp only [bagSet] at hp
      split at hp
      · simp only [List.mem_map] at hp
        obtain ⟨q, hq, rfl⟩ := hp
        split at hl2
        · simp [bagValLocs] at hl2
        · exact hkv q hq l' hl2
      · simp only [List.mem_append, List.mem_singleton] at hp
        rcases hp with hp | rfl
        · exact hkv p hp l' hl2
        · simp [bagValLocs] at hl2
    · exact ⟨T.refl _ _, by simpa [optLoc] using hl'⟩

def _root_.Gozod.Store.Op.ok : Op → Prop
  | .rebuild _ _ cks cap _ _ _ => cks = [] → cap = 0      -- constructors build `[]ZodCheck{}`: no spare capacity
  | _ => True

instance (op : Op) : Decidable (Op.ok op) := by
  cases op <;> simp only [Op.ok] <;> infer_instance

theorem optAlloc_spec (n : Nat) (σ : Store) (w : Bool) (c : Cell) (hn : n ≤ σ.next) (hok : cellOk (σ.next + 1) c) :
    T n σ (optAlloc σ w c).1 ∧ (∀ l ∈ optLoc (optAlloc σ w c).2, l < (optAlloc σ w c).1.next) ∧
    σ.next ≤ (optAlloc σ w c).1.next := by
  unfold optAlloc
  cases w
  · exact ⟨T.refl _ _, by simp [optLoc], Nat.le_refl _⟩
  · exact ⟨T_alloc n σ c hn (fun _ => hok), by simp [optLoc, alloc], by simp [alloc]⟩

/-- One chaining call on the repaired code: nothing allocated before the call is written, the result is a
    new, well-formed schema. -/
theorem applyOp_spec (cfg : Cfg) (hcfg : cfg.cloneBagAlways = true) (σ : Store) (recv : Schema) (op : Op)
    (hc : BagClosed σ) (hw : WfS σ recv) (hok : op.ok) (hm : op.isMetaSelf = false) :
    ExtFrom σ.next σ (applyOp cfg σ recv op).1 ∧ BagClosed (applyOp cfg σ recv op).1 ∧
    WfS (applyOp cfg σ recv op).1 (applyOp cfg σ recv op).2 ∧ σ.next ≤ (applyOp cfg σ recv op).2.self := by
  have hd := dirOk_of_wfs hw
  cases op with
  | metaSelf m => simp [Op.isMetaSelf] at hm
  | derive fl cks m =>
    simp only [applyOp]
    obtain ⟨t1, d1, c1, _⟩ := clone_spec cfg hcfg σ.next σ recv (Nat.le_refl _) hd hw.2
    have n1 := t1.1.1
    obtain ⟨t2, l2, c2⟩ := appendAll_spec cfg.grow σ.next cks (clone cfg σ recv).1 (clone cfg σ recv).2.checks n1
      d1.checks (fun h => by omega) (fun h => by omega)
    have n2 := t2.1.1
    have d2 : DirOk (appendAll cfg.grow (clone cfg σ recv).1 (clone cfg σ recv).2.checks cks).1.next
        (Schema.mk (clone cfg σ recv).2.self (clone cfg σ recv).2.kind fl
          (appendAll cfg.grow (clone cfg σ recv).1 (clone cfg σ recv).2.checks cks).2
          (clone cfg σ recv).2.bag (clone cfg σ recv).2.values (clone cfg σ recv).2.shape (clone cfg σ recv).2.dflt) :=
      ⟨(d1.mono n2).self, l2, (d1.mono n2).bag, (d1.mono n2).values, (d1.mono n2).shape, (d1.mono n2).dflt⟩
    obtain ⟨t3, d3, s3, k3⟩ := withInternals_spec σ.next _ recv _ m (Nat.le_trans n1 n2) d2
    have tt := t1.trans (t2.trans t3)
    refine ⟨tt.1, tt.2 hc, wfs_of_direct _ (tt.2 hc) _ (direct_of_dirOk d3) ?_, ?_⟩
    · rw [k3]; exact c2
    · rw [s3]; exact Nat.le_trans n1 n2
  | copyMeta m =>
    simp only [applyOp]
    obtain ⟨t3, d3, s3, k3⟩ := withInternals_spec σ.next σ recv recv (some m) (Nat.le_refl _) hd
    refine ⟨t3.1, t3.2 hc, wfs_of_direct _ (t3.2 hc) _ (direct_of_dirOk d3) ?_, ?_⟩
    · rw [k3]; exact hw.2
    · rw [s3]; exact Nat.le_refl _
  | bagWrite k v =>
    simp only [applyOp]
    obtain ⟨t1, d1, c1, f1⟩ := clone_spec cfg hcfg σ.next σ recv (Nat.le_refl _) hd hw.2
    have n1 := t1.1.1
    obtain ⟨t2, l2⟩ := bagStore_spec σ.next (clone cfg σ recv).1 (clone cfg σ recv).2.bag k v n1 d1.bag f1
    have n2 := t2.1.1
    have d2 : DirOk (bagStore (clone cfg σ recv).1 (clone cfg σ recv).2.bag k (.num v)).1.next
        (Schema.mk (clone cfg σ recv).2.self (clone cfg σ recv).2.kind (clone cfg σ recv).2.flags
          (clone cfg σ recv).2.checks (bagStore (clone cfg σ recv).1 (clone cfg σ recv).2.bag k (.num v)).2
          (clone cfg σ recv).2.values (clone cfg σ recv).2.shape (clone cfg σ recv).2.dflt) :=
      ⟨(d1.mono n2).self, (d1.mono n2).checks, l2, (d1.mono n2).values, (d1.mono n2).shape, (d1.mono n2).dflt⟩
    obtain ⟨t3, d3, s3, k3⟩ := withInternals_spec σ.next _ recv _ none (Nat.le_trans n1 n2) d2
    have tt := t1.trans (t2.trans t3)
    refine ⟨tt.1, tt.2 hc, wfs_of_direct _ (tt.2 hc) _ (direct_of_dirOk d3) ?_, ?_⟩
    · rw [k3]; intro h; simp only at h ⊢; omega
    · rw [s3]; exact Nat.le_trans n1 n2
  | rebuild kind fl cks cap wb wv ws =>
    simp only [applyOp]
    have t1 := T_alloc σ.next σ (.arr (cks ++ List.replicate (cap - cks.length) 0)) (Nat.le_refl _) (fun _ => cellOk_arr _ _)
    obtain ⟨t2, l2, n2⟩ := optAlloc_spec σ.next (alloc σ (.arr (cks ++ List.replicate (cap - cks.length) 0))).1 wb (.bag [])
      (by simp [alloc]) (by intro p hp; simp at hp)
    obtain ⟨t3, l3, n3⟩ := optAlloc_spec σ.next _ wv (.vals []) (Nat.le_trans (by simp [alloc]) n2) (cellOk_vals _ _)
    obtain ⟨t4, l4, n4⟩ := optAlloc_spec σ.next _ ws (.shape []) (Nat.le_trans (Nat.le_trans (by simp [alloc]) n2) n3) (cellOk_shape _ _)
    have t5 := T_alloc σ.next _ (.reg none) (Nat.le_trans (Nat.le_trans (Nat.le_trans (by simp [alloc]) n2) n3) n4) (fun _ => cellOk_reg _ _)
    have tt := t1.trans (t2.trans (t3.trans (t4.trans t5)))
    have hn5 : ∀ x, x < (optAlloc (optAlloc (optAlloc (alloc σ (.arr (cks ++ List.replicate (cap - cks.length) 0))).1 wb (.bag [])).1 wv (.vals [])).1 ws (.shape [])).1.next →
        x < (alloc (optAlloc (optAlloc (optAlloc (alloc σ (.arr (cks ++ List.replicate (cap - cks.length) 0))).1 wb (.bag [])).1 wv (.vals [])).1 ws (.shape [])).1 (.reg none)).1.next := by
      intro x hx; exact Nat.lt_succ_of_lt hx
    refine ⟨tt.1, tt.2 hc, wfs_of_direct _ (tt.2 hc) _ (direct_of_dirOk ⟨?_, ?_, ?_, ?_, ?_, ?_⟩) ?_, ?_⟩
    · simp [alloc]
    · apply hn5; apply Nat.lt_of_lt_of_le _ n4; apply Nat.lt_of_lt_of_le _ n3; apply Nat.lt_of_lt_of_le _ n2; simp [alloc]
    · intro l hl; apply hn5; apply Nat.lt_of_lt_of_le _ n4; apply Nat.lt_of_lt_of_le _ n3; exact l2 l hl
    · intro l hl; apply hn5; apply Nat.lt_of_lt_of_le _ n4; exact l3 l hl
    · intro l hl; apply hn5; exact l4 l hl
    · intro l hl; simp [dfltLocs] at hl
    · simp only [List.length_eq_zero_iff]; intro h; rw [hok h, h]; rfl
    · simp only [alloc]
      exact Nat.le_trans (Nat.le_trans (Nat.le_trans (Nat.le_succ _) n2) n3) n4


/-! ## The property -/

/-- State invariant of a history: bags are closed and every live schema is allocated. (With the repaired
    `Clone` no operation ever writes a location that existed before the call, so no sharing discipline
    beyond "an empty check slice has no spare capacity" is needed.) -/
structure Inv (σ : Store) (live : List Schema) : Prop where
  closed : BagClosed σ
  wf : ∀ s ∈ live, WfS σ s

/-- C08 at full strength for one call: the result is a schema distinct from every live one and every live
    schema (receiver, ancestors, siblings) has exactly the same observation as before. -/
def StepOK (cfg : Cfg) (σ : Store) (live : List Schema) (recv : Schema) (op : Op) : Prop :=
  (∀ s ∈ live, (applyOp cfg σ recv op).2.self ≠ s.self) ∧
  (∀ s ∈ live, obs (applyOp cfg σ recv op).1.heap s = obs σ.heap s)

def c08_full (cfg : Cfg) : Prop :=
  ∀ σ live recv op, Inv σ live → recv ∈ live → Op.ok op → StepOK cfg σ live recv op

/-- **c08_step**: one call of any op class the code has (`Op.isMetaSelf = false` excludes only the legacy class —
    what `Meta()` did before /repo 6ba76b8; see `table_all_covered` in Proofs/C08Methods.lean). -/
theorem c08_step (cfg : Cfg) (hcfg : cfg.cloneBagAlways = true) (σ : Store) (live : List Schema)
    (recv : Schema) (op : Op) (hi : Inv σ live) (hr : recv ∈ live) (hok : Op.ok op)
    (hm : op.isMetaSelf = false) :
    Inv (applyOp cfg σ recv op).1 (live ++ [(applyOp cfg σ recv op).2]) ∧ StepOK cfg σ live recv op := by
  obtain ⟨he, hc, hw, hs⟩ := applyOp_spec cfg hcfg σ recv op hi.closed (hi.wf recv hr) hok hm
  refine ⟨⟨hc, ?_⟩, ?_, ?_⟩
  · intro s hs'
    simp only [List.mem_append, List.mem_singleton] at hs'
    rcases hs' with h | rfl
    · exact wfs_frame s (hi.wf s h) he
    · exact hw
  · intro s hs' e
    have : s.self < σ.next := (hi.wf s hs').1 _ (by simp [locs, direct])
    rw [e] at hs
    exact Nat.not_le_of_lt this hs
  · intro s hs'
    exact obs_frame s (hi.wf s hs') he

/-- The full statement over the op classes the code has (every class of `Store.Op` except the legacy `metaSelf`). -/
def c08_full_code (cfg : Cfg) : Prop :=
  ∀ σ live recv op, Inv σ live → recv ∈ live → Op.ok op → op.isMetaSelf = false → StepOK cfg σ live recv op

/-- **c08_full_holds**: the full statement holds for the code with the repaired `Clone`. -/
theorem c08_full_holds (cfg : Cfg) (hcfg : cfg.cloneBagAlways = true) : c08_full_code cfg :=
  fun σ live recv op hi hr hok hm => (c08_step cfg hcfg σ live recv op hi hr hok hm).2

def opsOK (ops : List (Nat × Op)) : Prop := ∀ p ∈ ops, Op.ok p.2 ∧ p.2.isMetaSelf = false

/-- **c08_hist**: along every history (any receivers, any sibling fan-out, any length, any growth rule of
    `append`) every schema that was live at the start is observed unchanged at the end, and the live list
    only grows. -/
theorem c08_hist (cfg : Cfg) (hcfg : cfg.cloneBagAlways = true) (ops : List (Nat × Op)) :
    ∀ (σ : Store) (live : List Schema), Inv σ live → opsOK ops →
    Inv (runHist cfg σ live ops).1 (runHist cfg σ live ops).2 ∧
    live <+: (runHist cfg σ live ops).2 ∧
    ∀ s ∈ live, obs (runHist cfg σ live ops).1.heap s = obs σ.heap s := by
  induction ops with
  | nil => intro σ live hi _; exact ⟨hi, List.prefix_refl _, fun _ _ => rfl⟩
  | cons p rest ih =>
    intro σ live hi hok
    obtain ⟨i, op⟩ := p
    have hrest : opsOK rest := fun q hq => hok q (List.mem_cons_of_mem _ hq)
    simp only [runHist]
    cases hl : live[i]? with
    | none => exact ih σ live hi hrest
    | some recv =>
      have hr : recv ∈ live := List.mem_of_getElem? hl
      obtain ⟨hop, hms⟩ := hok (i, op) (List.mem_cons_self ..)
      obtain ⟨hi', _, hobs⟩ := c08_step cfg hcfg σ live recv op hi hr hop hms
      obtain ⟨hi2, hp2, ho2⟩ := ih _ _ hi' hrest
      refine ⟨hi2, List.IsPrefix.trans (List.prefix_append _ _) hp2, fun s hs => ?_⟩
      rw [ho2 s (List.mem_append_left _ hs), hobs s hs]

theorem runHist_append (cfg : Cfg) (a b : List (Nat × Op)) : ∀ (σ : Store) (live : List Schema),
    runHist cfg σ live (a ++ b) = runHist cfg (runHist cfg σ live a).1 (runHist cfg σ live a).2 b := by
  induction a with
  | nil => intro σ live; rfl
  | cons p rest ih =>
    intro σ live
    obtain ⟨i, op⟩ := p
    simp only [List.cons_append, runHist]
    cases live[i]? with
    | none => exact ih σ live
    | some recv => exact ih _ _

/-- "…and every schema previously derived from it": whatever was live after any prefix of the history is
    unchanged by the rest of it. -/
theorem c08_hist_all (cfg : Cfg) (hcfg : cfg.cloneBagAlways = true) (a b : List (Nat × Op))
    (σ : Store) (live : List Schema) (hi : Inv σ live) (ha : opsOK a) (hb : opsOK b) :
    ∀ s ∈ (runHist cfg σ live a).2,
      obs (runHist cfg σ live (a ++ b)).1.heap s = obs (runHist cfg σ live a).1.heap s := by
  rw [runHist_append]
  obtain ⟨hi1, _, _⟩ := c08_hist cfg hcfg a σ live hi ha
  exact (c08_hist cfg hcfg b _ _ hi1 hb).2.2

/-- Distinctness along a history: schema identities are pairwise different. -/
theorem c08_fresh (cfg : Cfg) (hcfg : cfg.cloneBagAlways = true) (σ : Store) (live : List Schema)
    (recv : Schema) (op : Op) (hi : Inv σ live) (hr : recv ∈ live) (hok : Op.ok op) (hm : op.isMetaSelf = false) :
    ∀ s ∈ live, (applyOp cfg σ recv op).2.self ≠ s.self :=
  (c08_step cfg hcfg σ live recv op hi hr hok hm).2.1

/-! ### non-vacuity and witnesses -/

def σ0 : Store := { heap := fun _ => none, next := 1 }
def dummy : Schema :=
  { self := 0, kind := 0, flags := 0, checks := ⟨0, 0, 0⟩, bag := none, values := none, shape := none, dflt := none }

theorem inv0 : Inv σ0 [dummy] := by
  refine ⟨fun l c h => by simp [σ0] at h, fun s hs => ?_⟩
  simp only [List.mem_singleton] at hs
  subst hs
  refine ⟨fun l hl => ?_, fun _ => rfl⟩
  simp [locs, direct, dummy, optLoc, dfltLocs, bagLocs, readBag] at hl
  simp [hl, σ0]

/-- A constructor-built base schema (`Record(Enum("a","b"), String())`: empty check slice, empty non-nil Bag). -/
def baseRecord : Store × Schema := applyOp fixed σ0 dummy (.rebuild 7 0 [] 0 true false false)

theorem inv_base : Inv baseRecord.1 [dummy, baseRecord.2] :=
  (c08_step fixed rfl σ0 [dummy] dummy (.rebuild 7 0 [] 0 true false false) inv0 (by simp)
    (by simp [Op.ok]) rfl).1

/-- Non-vacuity of `c08_step` / `c08_hist`: a sibling fan-out with a check chain over the base record. -/
example : opsOK [(1, .derive 0 [9] none), (1, .derive 1 [] none), (2, .derive 0 [17, 25] none), (1, .bagWrite 4 1)] := by
  intro p hp; simp at hp; rcases hp with rfl | rfl | rfl | rfl <;> exact ⟨trivial, rfl⟩

/-- **Witness (today's `Clone`)**: with "clone the Bag only when non-empty", `Record.Partial()` (op `bagWrite`)
    changes the receiver — the step statement is false on the pinned code. -/
theorem today_partial_mutates_receiver :
    obs (applyOp today baseRecord.1 baseRecord.2 (.bagWrite 4 1)).1.heap baseRecord.2
      ≠ obs baseRecord.1.heap baseRecord.2 := by decide

theorem c08_today_false : ¬ c08_full today := by
  intro h
  have := (h baseRecord.1 [dummy, baseRecord.2] baseRecord.2 (.bagWrite 4 1) inv_base (by simp) trivial).2
    baseRecord.2 (by simp)
  exact today_partial_mutates_receiver this

/-- The repaired `Clone` on the same history leaves the receiver alone (instance of `c08_step`). -/
example : obs (applyOp fixed baseRecord.1 baseRecord.2 (.bagWrite 4 1)).1.heap baseRecord.2
      = obs baseRecord.1.heap baseRecord.2 := by decide

/-- **Legacy witness (`Meta()` on non-string types before /repo 6ba76b8)**: the result *is* the receiver and its registry
    entry changed, so the statement quantified over ALL of `Store.Op` is false even with the repaired `Clone`; the code no
    longer has this op class. -/
theorem metaSelf_violates : ¬ c08_full fixed := by
  intro h
  have := (h baseRecord.1 [dummy, baseRecord.2] baseRecord.2 (.metaSelf 5) inv_base (by simp) trivial).1
    baseRecord.2 (by simp)
  exact this rfl

theorem metaSelf_changes_receiver :
    obs (applyOp fixed baseRecord.1 baseRecord.2 (.metaSelf 5)).1.heap baseRecord.2
      ≠ obs baseRecord.1.heap baseRecord.2 := by decide

/-- Why `WfS` demands "an empty check slice has no spare capacity": with `len = 0 < cap` two siblings derived
    from one parent write the same array cell, and the second call changes the first sibling. -/
def spareParent : Store × Schema :=
  ({ heap := upd (upd (fun _ => none) 1 (.arr [0, 0])) 2 (.reg none), next := 3 },
   { self := 2, kind := 1, flags := 0, checks := ⟨1, 0, 2⟩, bag := none, values := none, shape := none, dflt := none })

theorem spare_capacity_siblings_clobber :
    let s1 := applyOp fixed spareParent.1 spareParent.2 (.derive 0 [9] none)
    let s2 := applyOp fixed s1.1 spareParent.2 (.derive 0 [17] none)
    obs s2.1.heap s1.2 ≠ obs s1.1.heap s1.2 := by decide

/-! ### type-local reference state: `PartialExceptions`, option lists (`LSchema`, `LOp`)

  The frame theorems extended to the reference-typed fields that object / struct / union types keep outside
  `ZodTypeInternals`: every chaining call either copies the reference (no write), drops it, or points the result at a
  key set it allocated itself.  `exceptions_in_place_mutates_receiver`: the one excluded shape — editing the receiver's
  key set in place — changes the receiver. -/

def WfL (σ : Store) (x : LSchema) : Prop := WfS σ x.s ∧ ∀ l ∈ optLoc x.exc, l < σ.next

/-- **obsL_frame**: an extension that writes nothing below the old allocation pointer leaves the extended observation
    (common part and type-local key set) of every allocated schema as it was. -/
theorem obsL_frame {σ σ' : Store} (x : LSchema) (hw : WfL σ x) (he : ExtFrom σ.next σ σ') :
    obsL σ'.heap x = obsL σ.heap x := by
  simp only [obsL, obs_frame x.s hw.1 he]
  congr 1
  exact readVals_congr x.exc (fun l hl => he.2 l (hw.2 l hl))

theorem wfl_frame {σ σ' : Store} (x : LSchema) (hw : WfL σ x) (he : ExtFrom σ.next σ σ') : WfL σ' x :=
  ⟨wfs_frame x.s hw.1 he, fun l hl => Nat.lt_of_lt_of_le (hw.2 l hl) he.1⟩

def _root_.Gozod.Store.LOp.ok (o : LOp) : Prop := Op.ok o.base ∧ o.base.isMetaSelf = false ∧ o.isInPlace = false

/-- **applyLOp_spec**: every type-local behaviour of the code writes only fresh locations; the result is well-formed
    and new. -/
theorem applyLOp_spec (cfg : Cfg) (hcfg : cfg.cloneBagAlways = true) (σ : Store) (recv : LSchema) (o : LOp)
    (hc : BagClosed σ) (hw : WfL σ recv) (hok : o.ok) :
    ExtFrom σ.next σ (applyLOp cfg σ recv o).1 ∧ BagClosed (applyLOp cfg σ recv o).1 ∧
    WfL (applyLOp cfg σ recv o).1 (applyLOp cfg σ recv o).2 ∧ σ.next ≤ (applyLOp cfg σ recv o).2.s.self := by
  cases o with
  | inPlace op k => exact absurd hok.2.2 (by simp [LOp.isInPlace])
  | share op =>
    obtain ⟨he, hb, hws, hs⟩ := applyOp_spec cfg hcfg σ recv.s op hc hw.1 hok.1 hok.2.1
    exact ⟨he, hb, ⟨hws, fun l hl => Nat.lt_of_lt_of_le (hw.2 l hl) he.1⟩, hs⟩
  | drop op =>
    obtain ⟨he, hb, hws, hs⟩ := applyOp_spec cfg hcfg σ recv.s op hc hw.1 hok.1 hok.2.1
    exact ⟨he, hb, ⟨hws, fun l hl => by simp [applyLOp, optLoc] at hl⟩, hs⟩
  | keyed op ks =>
    obtain ⟨he, hb, hws, hs⟩ := applyOp_spec cfg hcfg σ recv.s op hc hw.1 hok.1 hok.2.1
    simp only [applyLOp]
    have ha : ExtFrom σ.next (applyOp cfg σ recv.s op).1 (alloc (applyOp cfg σ recv.s op).1 (.vals ks)).1 :=
      alloc_ext σ.next _ _ he.1
    have ha' : ExtFrom (applyOp cfg σ recv.s op).1.next (applyOp cfg σ recv.s op).1
        (alloc (applyOp cfg σ recv.s op).1 (.vals ks)).1 := alloc_ext _ _ _ (Nat.le_refl _)
    refine ⟨he.trans ha, bagClosed_alloc _ _ hb (cellOk_vals _ _), ⟨wfs_frame _ hws ha', ?_⟩, hs⟩
    intro l hl
    simp only [optLoc, List.mem_singleton] at hl
    subst hl
    simp [alloc]

/-- **c08_local_step**: a chaining call of any of the code's type-local behaviours leaves the extended observation of
    every live schema — receiver, ancestors, siblings — unchanged, and its result is a new schema. -/
theorem c08_local_step (cfg : Cfg) (hcfg : cfg.cloneBagAlways = true) (σ : Store) (live : List LSchema)
    (recv : LSchema) (o : LOp) (hc : BagClosed σ) (hl : ∀ x ∈ live, WfL σ x) (hr : recv ∈ live) (hok : o.ok) :
    (∀ x ∈ live, obsL (applyLOp cfg σ recv o).1.heap x = obsL σ.heap x) ∧
    (∀ x ∈ live, WfL (applyLOp cfg σ recv o).1 x) ∧ WfL (applyLOp cfg σ recv o).1 (applyLOp cfg σ recv o).2 ∧
    BagClosed (applyLOp cfg σ recv o).1 ∧ (∀ x ∈ live, x.s.self ≠ (applyLOp cfg σ recv o).2.s.self) := by
  obtain ⟨he, hb, hw, hs⟩ := applyLOp_spec cfg hcfg σ recv o hc (hl recv hr) hok
  refine ⟨fun x hx => obsL_frame x (hl x hx) he, fun x hx => wfl_frame x (hl x hx) he, hw, hb, fun x hx e => ?_⟩
  have : x.s.self < σ.next := (hl x hx).1.1 _ (by simp [locs, direct])
  rw [e] at this
  exact Nat.not_le_of_lt this hs

/-- `Object(shape).Partial(["a"])`-like schema: common part of `baseRecord`, key set {1, 2} at a fresh location. -/
def withExceptions : Store × LSchema :=
  applyLOp fixed baseRecord.1 ⟨baseRecord.2, none⟩ (.keyed (.derive 1 [] none) [1, 2])

/-- non-vacuity: the hypotheses of `c08_local_step` hold for a keyed call on that schema -/
example : (LOp.keyed (.derive 1 [] none) [3]).ok := ⟨trivial, rfl, rfl⟩

/-- on the code's behaviours the receiver keeps its key set (instance of `c08_local_step`) -/
example :
    obsL (applyLOp fixed withExceptions.1 withExceptions.2 (.keyed (.derive 2 [] none) [1])).1.heap withExceptions.2
      = obsL withExceptions.1.heap withExceptions.2 := by decide

/-- **Witness**: a call that deletes a key from the receiver's key set in place (instead of building its own)
    changes the receiver — the shape of defect the extended frame theorem excludes. -/
theorem exceptions_in_place_mutates_receiver :
    (obsL (applyLOp fixed withExceptions.1 withExceptions.2 (.inPlace (.derive 2 [] none) 1)).1.heap withExceptions.2).exc
      = some [2] ∧
    (obsL withExceptions.1.heap withExceptions.2).exc = some [1, 2] := by decide

end Gozod.C08
