/-
  C11 — FromJSONSchema yields a schema equivalent to the JSON Schema it was given.
-/
import Gozod.Proofs.C07
import Gozod.Model.FromJson
import Gozod.Gen.KeywordTable
namespace Gozod.C11
open Gozod.Jsc Gozod.C07

def c11_full : Prop := ∀ (j : J0) (x : Json), jsValid j.doc x = acceptsPlain j x

theorem acceptsPlain_null (j : J0) (h1 : j.admitsNull = false) : acceptsPlain j .null = false := by
  cases j <;> simp_all [J0.admitsNull, acceptsPlain, accepts, fromJ0, Json.isNull]

theorem c11_equiv_partial : (j : J0) → (x : Json) → supported j = true → instOK x = true →
    jsValid j.doc x = acceptsPlain j x
  | .str mn mx, x, _, hx => by
    cases x with
    | str s =>
      have hb := byteLen_ascii s (by simpa [instOK] using hx)
      have hnt : noTrim (optL mn StrCk.min ++ optL mx StrCk.max) = true := by
        cases mn <;> cases mx <;> rfl
      simp only [acceptsPlain, fromJ0, accepts, runStr_noTrim _ s hnt]
      cases mn <;> cases mx <;>
        simp [J0.doc, optKw, jsValid_node, kwValid, typeOk, optL, StrCk.holds, hb] <;>
        (split <;> simp_all)
    | _ => cases mn <;> cases mx <;> simp [J0.doc, optKw, jsValid_node, kwValid, typeOk, acceptsPlain, fromJ0, accepts]
  | .num mn mx, x, _, _ => by
    cases x <;> cases mn <;> cases mx <;>
      simp [J0.doc, optKw, jsValid_node, kwValid, typeOk, acceptsPlain, fromJ0, optL, accepts, NumCk.holds]
  | .int mn mx, _, h, _ => by simp [supported] at h
  | .bool, x, _, _ => by cases x <;> simp [J0.doc, jsValid_node, kwValid, typeOk, acceptsPlain, fromJ0, accepts]
  | .null, x, _, _ => by simpa [J0.doc, acceptsPlain, fromJ0] using nil_case x
  | .any, x, _, _ => by simp [J0.doc, jsValid, kwsValid, acceptsPlain, fromJ0, accepts]
  | .arr it mn mx, x, h, hx => by
    simp only [supported] at h
    cases x with
    | arr xs =>
      have hxs : instListOK xs = true := by simpa [instOK] using hx
      have ih := all_congr_list _ _ (fun v hv => c11_equiv_partial it v h hv) xs hxs
      cases mn <;> cases mx <;> simp only [J0.doc, optKw, List.append_nil, List.cons_append, List.nil_append] <;>
        rw [jsValid_node] <;>
        simp [kwValid, typeOk, acceptsPlain, optL, szOk, SzCk.holds,
          KwList.ofList, KwList.nPrefix, JsonList.drop, ih, Bool.and_comm, Bool.and_assoc, Bool.and_left_comm]
    | _ => cases mn <;> cases mx <;> simp [J0.doc, optKw, jsValid_node, kwValid, typeOk, acceptsPlain]
  | .anyOf2 a b, x, h, hx => by
    simp only [supported, Bool.and_eq_true, Bool.not_eq_true'] at h
    have ha := c11_equiv_partial a x h.1.2 hx
    have hb := c11_equiv_partial b x h.2 hx
    simp only [J0.doc, jsValid_node, List.all_cons, List.all_nil, kwValid, anyValid, ha, hb, acceptsPlain, Bool.and_true,
      Bool.or_false]
    cases hn : x.isNull
    · simp
    · have := (isNull_iff x).1 hn; subst this
      simp [acceptsPlain_null a h.1.1.1, acceptsPlain_null b h.1.1.2]
  | .oneOf2 a b, x, h, hx => by
    simp only [supported, Bool.and_eq_true, Bool.not_eq_true'] at h
    have ha := c11_equiv_partial a x h.1.2 hx
    have hb := c11_equiv_partial b x h.2 hx
    simp only [J0.doc, jsValid_node, List.all_cons, List.all_nil, kwValid, countValid, ha, hb, acceptsPlain, Bool.and_true,
      Nat.add_zero]
    cases hn : x.isNull
    · simp
    · have := (isNull_iff x).1 hn; subst this
      simp [acceptsPlain_null a h.1.1.1, acceptsPlain_null b h.1.1.2]

example : supported (.arr (.anyOf2 (.str (some 1) (some 3)) (.num (some 0) none)) (some 1) none) = true := by decide

/-- class (a): `integer` is documented as supported, but the produced Int() schema rejects every
    JSON-decoded number (float64). -/
theorem witness_integer_rejects_numbers :
    jsValid (J0.int none none).doc (.num 4) = true ∧ acceptsPlain (.int none none) (.num 4) = false := by decide

/-- class (f): a nullable anyOf rejects null (the union's nil path precedes its members). -/
theorem witness_nullable_anyOf :
    jsValid (J0.anyOf2 (.str none none) .null).doc .null = true ∧ acceptsPlain (.anyOf2 (.str none none) .null) .null = false := by
  decide

theorem c11_full_false : ¬ c11_full := by
  intro h
  have := h (.int none none) (.num 4)
  revert this; decide

/-! ### strict mode over the regenerated keyword table -/

/-- full: every keyword not documented as supported is rejected in strict mode. -/
def c11_strict_full : Prop := ∀ r ∈ Gen.keywordTable, r.documented = false → r.strictRejects = true

/-- the keywords for which strict mode does what it promises (as extracted from the code). -/
def strictHonest (r : KwRow) : Bool := r.documented || r.strictRejects

theorem c11_strict_rejects : ∀ r ∈ Gen.keywordTable, strictHonest r = true → r.documented = false → r.strictRejects = true := by
  intro r _ h hd
  simpa [strictHonest, hd] using h

/-- known finding (class g): the keywords strict mode silently accepts today. -/
def silentKeywords : List String :=
  ["not", "dependentRequired", "uniqueItems", "minProperties", "maxProperties", "contentEncoding", "contentMediaType"]

/-- exactly these rows of the regenerated table break the full statement … -/
theorem c11_strict_silent : (Gen.keywordTable.filter (fun r => !strictHonest r)).map (·.kw) = silentKeywords := by
  decide

/-- … so the full statement is false on the pinned code (witness: `not`). -/
theorem c11_strict_full_false : ¬ c11_strict_full := by
  intro h
  have := h ⟨"not", false, false⟩ (by decide) rfl
  revert this; decide

end Gozod.C11
