"""Regenerates MANIFEST.json from the per-property table below (run: python3 -m vlib.manifest_gen)."""
import json, os
from . import common as C

import importlib, glob

def collect():
    """Every vlib/cXX.py that defines MANIFEST = dict(technique=, text=, note=, design=[, category=]) is a claimed check."""
    import subprocess
    tracked = set(subprocess.run(["git", "ls-files", "vlib"], cwd=C.VERIF, capture_output=True, text=True).stdout.split())
    claimed = {}
    for f in sorted(glob.glob(os.path.join(C.VERIF, "vlib", "c[0-9][0-9].py"))):
        if "vlib/" + os.path.basename(f) not in tracked:
            continue   # work in progress of another worker: not claimed until committed
        pid = os.path.basename(f)[:-3].upper()
        mod = importlib.import_module("vlib." + pid.lower())
        if getattr(mod, "MANIFEST", None):
            claimed[pid] = mod.MANIFEST
    return claimed

CLAIMED = collect()

ALL = ["C%02d" % i for i in range(1, 21)]
NOT_YET = "check not built yet in this round (planned: see DESIGN.md §5); no claim is made"

def main():
    checks = []
    for pid in ALL:
        if pid not in CLAIMED: continue
        c = CLAIMED[pid]
        checks.append({
            "property_id": pid,
            "quick_cmd": "./check %s quick" % pid,
            "thorough_cmd": "./check %s thorough" % pid,
            "evidence_file": "/verif/evidence/%s.json" % pid,
            "replay_cmd_template": "./check %s --replay {path}" % pid,
            "engine": "lean-model+go-harness",
            "level_claimed": {"category": c.get("category", "proof"), "text": c["text"], "design_ref": c["design"]},
            "level_note": c["note"],
            "technique": c["technique"],
        })
    na = [{"property_id": p, "reason": NA.get(p, NOT_YET)} for p in ALL if p not in CLAIMED]
    hooks_commits = []
    man = {
        "version": 1,
        "setup_cmd": "./check --setup",
        "hooks": {
            "guard": "verif",
            "enable": "go build -tags verif (the harness module /verif/harness replaces github.com/kaptinlin/gozod with /repo)",
            "baseline_off_cmd": "cd /repo && GOFLAGS=-mod=mod GOPROXY=off go test -vet=off -count=1 ./...",
            "source_commits": HOOK_COMMITS,
            "add_only": True,
        },
        "engines": [{
            "name": "lean-model+go-harness", "path": "/verif/check",
            "serves_properties": sorted(CLAIMED),
            "kind_free_text": "Lean 4 model + theorems (lean/Gozod), Go differential harness (harness/), Python orchestrator (check, vlib/)",
        }],
        "checks": checks,
        "not_applicable": na,
        "notes": "Every claimed check: lake build of the property's proof module + #print axioms audit + forbidden-token grep, then a Go<->Lean line-protocol correspondence run against /repo's working tree. See DESIGN.md.",
    }
    with open(os.path.join(C.VERIF, "MANIFEST.json"), "w") as f:
        json.dump(man, f, indent=1)
    print("MANIFEST.json: %d claimed, %d not applicable" % (len(checks), len(na)))

NA = {}
HOOK_COMMITS = []

if __name__ == "__main__":
    main()
