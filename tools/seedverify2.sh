#!/bin/bash
# tools/seedverify2.sh <worktree> <PROP> <name>: verify an independently written property-breaking change found in
# <worktree>/_seed (patch.diff, demo_test.go, meta.json): applies; builds; existing suite green; demo fails with the
# change and passes without it. On success copies it to /verif/seeded/<name>/ and runs ./check <PROP> quick against it.
set +u
WT=$1; PROP=$2; NAME=$3
export GOFLAGS=-mod=mod GOPROXY=off
cd $WT || exit 2
git checkout -q -- . 2>/dev/null; git clean -fdq -e _seed 2>/dev/null
[ -f _seed/patch.diff ] && [ -f _seed/meta.json ] || { echo "$NAME: INCOMPLETE (_seed lacks patch.diff/meta.json)"; exit 2; }
DEMO=$(ls _seed/*_test.go 2>/dev/null | head -1)
[ -n "$DEMO" ] || { echo "$NAME: no demo test"; exit 2; }
pkgdir=$(head -3 $DEMO | grep -m1 -i 'copy to:' | sed 's/.*copy to:[[:space:]]*//;s/[[:space:]]*$//;s#^\./##;s#/$##')
[ -n "$pkgdir" ] || pkgdir=.
[ -d "$pkgdir" ] || { echo "$NAME: demo package dir '$pkgdir' missing"; exit 2; }
race=""; grep -qi 'race' _seed/meta.json && [ "$PROP" = "C14" ] && race="-race"
rundemo() { cp $DEMO $pkgdir/zz_seed_demo_test.go; out=$(cd $pkgdir && timeout 900 go test $race -vet=off -count=1 -run 'TestSeed' . 2>&1); rc=$?; rm -f $pkgdir/zz_seed_demo_test.go; echo "$out" | tail -3; return $rc; }
echo "--- demo WITHOUT change (must pass)"; rundemo; a=$?
git apply _seed/patch.diff || { echo "$NAME: PATCH DOES NOT APPLY"; exit 2; }
echo "--- build + suite WITH change"; go build ./... 2>&1 | head -3
fails=$(go test -vet=off -count=1 ./... 2>&1 | grep -v "^ok\|no test files" | head -5); echo "${fails:-suite green}"
echo "--- demo WITH change (must fail)"; rundemo; b=$?
git checkout -q -- .
if [ $a -ne 0 ] || [ $b -eq 0 ] || [ -n "$fails" ]; then echo "$NAME: REJECTED (demo-without rc=$a, demo-with rc=$b, suite='$fails')"; exit 1; fi
mkdir -p /verif/seeded/$NAME; cp _seed/patch.diff _seed/meta.json /verif/seeded/$NAME/; cp $DEMO /verif/seeded/$NAME/demo_test.go
echo "$NAME: VERIFIED (applies, builds, suite green, demo fails with / passes without)"
[ -n "$NOMATRIX" ] || /verif/tools/seedmatrix.sh quick $NAME
