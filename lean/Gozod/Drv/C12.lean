/-
  Line handler for C12: histories of chaining calls (same step grammar as C08), conversions and parses.

    c12 <Base> <bag> <vals> <len> <cap> | <recv> <class> … | <i> conv <optionSet> <def> <metas> <bag> <vals> 0 ToJSONSchema@T | <i> parse 0 0 0 <bag> <vals> 0 Parse@T | …

  <def>: `0`, or the definition-held member list of the converted schema: `L<A|C><graph>` (literal: what `Values()` hands out,
  A = the definition's own slice, C = a copy; graph `[1,[2,3],1]`, scalars are value ids, 0 = nil) or `E<A|C>[ids]` (enum:
  the member set, sorted ids).

  conv step output:   verdict `<doc equals the isolated conversion 0|1>:<changed,…>`, structure `g<idx,…>` (live schemas whose Bag
  content was rewritten by the conversion) `m<members the document shows>` (with a <def>: `convLiteral` run on the definition
  allocated in the history's store) `r<registry entries>`.  parse step: verdict `1:<changed,…>`, structure `-`.
-/
import Gozod.Drv.C08
import Gozod.Model.DefData
namespace Gozod.Drv.C12
open Gozod.Store Gozod.Drv.C08 Gozod.DefData

/-! registry entries and registry-writing checks as the harness codes them:
    entry `-` | `<id>.<title>.<descr>.<e1>+<e2>+…`; check `D<descr>` | `M<id>.<title>.<descr>.<examples>`;
    the conv step lists the visited schemas that carry such checks: `<j>=<entry before>/<check>/<check>…,<j>=…` -/

def parseGMeta (s : String) : Option GMeta :=
  match s.splitOn "." with
  | [a, b, c, e] => do
    let a ← a.toNat?
    let b ← b.toNat?
    let c ← c.toNat?
    let es ← ((e.splitOn "+").filter (· != "")).mapM (·.toNat?)
    some ⟨a, b, c, es⟩
  | _ => none

def parseEntry (s : String) : Option (Option GMeta) :=
  if s == "-" then some none else (parseGMeta s).map some

def parseMetaCheck (s : String) : Option MetaCheck :=
  if s.startsWith "D" then (s.drop 1).toString.toNat?.map .describe
  else if s.startsWith "M" then (parseGMeta (s.drop 1).toString).map .gmeta
  else none

def showGMeta : Option GMeta → String
  | none => "-"
  | some m => s!"{m.id}.{m.title}.{m.descr}.{"+".intercalate (m.examples.map toString)}"

/-- one visited schema: (live index, entry before, registry-writing checks in order) -/
def parseVisit (s : String) : Option (Nat × Option GMeta × List MetaCheck) :=
  match s.splitOn "=" with
  | [j, rest] =>
    match rest.splitOn "/" with
    | pre :: cks => do
      let j ← j.toNat?
      let pre ← parseEntry pre
      let cks ← cks.mapM parseMetaCheck
      some (j, pre, cks)
    | [] => none
  | _ => none

def parseVisits (s : String) : Option (List (Nat × Option GMeta × List MetaCheck)) :=
  if s == "0" then some [] else (s.splitOn ",").mapM parseVisit

def insertSorted (x : Nat) : List Nat → List Nat
  | [] => [x]
  | y :: ys => if x < y then x :: y :: ys else if x == y then y :: ys else y :: insertSorted x ys

/-- the converter's reading of the definition `dtok` in store `σ`: the store afterwards and the `m…` structure part -/
def defRead (σ : Store) (dtok : String) : Store × String :=
  if dtok == "0" then (σ, "") else
  let kind := dtok.take 1
  let acc := if (dtok.drop 1).take 1 == "A" then Acc.alias else Acc.copy
  let code := (dtok.drop 2).toString
  if kind == "E" then (σ, "m" ++ code)          -- convertEnum: the member set (order: see Gen/ConvAccess, map ranges)
  else
    match parseGraph σ code with
    | (σ1, some (.ref l)) =>
      let r := convLiteral acc σ1 l
      (r.1, "m" ++ showGraph 8 r.1.heap (.ref r.2))
    | (σ1, _) => (σ1, "m-")

def stepModel12 (cfg : Cfg) (st : St) (toks : List String) : Option St :=
  match toks with
  | [recv, "conv", _opt, dtok, metas, _, _, _, _] => do
    let i ← recv.toNat?
    let s ← st.live[i]?
    let visits ← parseVisits metas
    -- the definition's member list is allocated in the history's store and read by the converter there: every live
    -- schema's observation is compared before (st.σ) and after (σ') both the reading and the Bag part of the conversion
    let (σd, mpart) := defRead st.σ dtok
    let (σ', s', _) := convert cfg σd s
    let before := st.live.map (obs st.σ.heap)
    let after := st.live.map (obs σ'.heap)
    let noBag (o : Obs) : Obs := { o with bag := none }
    let changed0 := (List.range st.live.length).filter (fun j => before[j]?.map noBag != after[j]?.map noBag)
    let bagChanged := (List.range st.live.length).filter (fun j => before[j]?.map (·.bag) != after[j]?.map (·.bag))
    -- the registry-writing callbacks of every visited schema (`annotateEntry`); aliases of a schema in the live list
    -- (same identity) change with it
    let posts := visits.map (fun v => (v.1, v.2.1, annotateEntry v.2.1 v.2.2))
    let regChanged := (posts.filter (fun p => p.2.1 != p.2.2)).map (·.1)
    let withAliases := (List.range st.live.length).filter (fun j =>
      regChanged.any (fun k => match st.live[j]?, st.live[k]? with | some a, some b => a.self == b.self | _, _ => false))
    let changed := (withAliases ++ regChanged).foldl (fun acc x => insertSorted x acc) changed0
    -- the document is a function of the observation: equal to the isolated conversion iff the observation is
    let same := (obs σ'.heap s').checks == (obs st.σ.heap s).checks   -- checks never change; bag effects show in `changed`
    let r := if posts.isEmpty then "" else "r" ++ ",".intercalate (posts.map (fun p => s!"{p.1}={showGMeta p.2.2}"))
    let g := s!"g{idxList bagChanged}{mpart}{r}"
    some { st with σ := σ', verdicts := st.verdicts ++ [s!"{if same then 1 else 0}:{idxList changed}"],
                   structs := st.structs ++ [g] }
  | [_recv, "parse", _, _, _, _, _, _, _] =>
    some { st with verdicts := st.verdicts ++ ["1:"], structs := st.structs ++ ["-"] }
  | _ => stepModel cfg st toks

def runSteps12 (cfg : Cfg) (st : St) : List (List String) → Option St
  | [] => some st
  | s :: rest => match stepModel12 cfg st s with
    | some st' => runSteps12 cfg st' rest
    | none => none

def handleWith (cfg : Cfg) (toks : List String) : String :=
  match splitOnBar toks with
  | [_base, bag, vals, len, cap] :: steps =>
    match len.toNat?, cap.toNat? with
    | some len, some cap =>
      let (σ, s) := build { heap := fun _ => none, next := 1 } len cap bag vals
      match runSteps12 cfg { σ := σ, live := [s], verdicts := [], structs := [] } steps with
      | some st =>
        let spec := ";".intercalate (steps.map (fun _ => "1:"))
        s!"V:{";".intercalate st.verdicts} S:{";".intercalate st.structs}\tV:{spec}"
      | none => "bad-op"
    | _, _ => "bad-op"
  | _ => "bad-op"

def handle : List String → String := handleWith fixed

end Gozod.Drv.C12
