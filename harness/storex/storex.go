// Package storex is the shared part of the C08/C12/C15/C14 harnesses: base schemas of every type,
// reflection-driven invocation of every exported chaining method with synthesised arguments,
// reflective snapshots of the reference-typed state, and behavioural fingerprints.
package storex

import (
	"encoding/json"
	"fmt"
	"hash/fnv"
	"math"
	"reflect"
	"regexp"
	"sort"
	"strings"
	"sync"
	"unsafe"

	"github.com/kaptinlin/gozod/core"
	"github.com/kaptinlin/gozod/jsonschema"
	"github.com/kaptinlin/gozod/types"

	"verifharness/hx"
)

// Base is a named constructor of a base schema.
type Base struct {
	Name   string
	Family string // "string" for ZodString and the types embedding it (Describe/Meta go through withMeta)
	Mk     func() any
}

type person struct {
	Name string `json:"name"`
	Age  int    `json:"age"`
}

func objShape() core.ObjectSchema {
	return core.ObjectSchema{"a": types.String(), "b": types.Int().Optional()}
}

// Bases lists one or more constructors for every schema type of the library.
func Bases() []Base {
	return []Base{
		{"String", "string", func() any { return types.String() }},
		{"StringPtr", "string", func() any { return types.StringPtr() }},
		{"CoercedString", "string", func() any { return types.CoercedString() }},
		{"Email", "string", func() any { return types.Email() }},
		{"URL", "string", func() any { return types.URL() }},
		{"IPv4", "string", func() any { return types.IPv4() }},
		{"CIDRv6", "string", func() any { return types.CIDRv6() }},
		{"Hostname", "string", func() any { return types.Hostname() }},
		{"MAC", "string", func() any { return types.MAC() }},
		{"E164", "string", func() any { return types.E164() }},
		{"UUID", "string", func() any { return types.UUID() }},
		{"CUID2", "string", func() any { return types.CUID2() }},
		{"NanoID", "string", func() any { return types.NanoID() }},
		{"IsoDateTime", "string", func() any { return types.IsoDateTime() }},
		{"IsoDate", "string", func() any { return types.IsoDate() }},
		{"IsoDuration", "string", func() any { return types.IsoDuration() }},
		{"Emoji", "string", func() any { return types.Emoji() }},
		{"JWT", "string", func() any { return types.JWT() }},
		{"Base64", "string", func() any { return types.Base64() }},
		{"Hex", "string", func() any { return types.Hex() }},
		{"Int", "", func() any { return types.Int() }},
		{"Int64", "", func() any { return types.Int64() }},
		{"Uint8", "", func() any { return types.Uint8() }},
		{"Float64", "", func() any { return types.Float64() }},
		{"Number", "", func() any { return types.Number() }},
		{"Bool", "", func() any { return types.Bool() }},
		{"BoolPtr", "", func() any { return types.BoolPtr() }},
		{"BigInt", "", func() any { return types.BigInt() }},
		{"Complex128", "", func() any { return types.Complex128() }},
		{"Time", "", func() any { return types.Time() }},
		{"StringBool", "", func() any { return types.StringBool() }},
		{"Enum", "", func() any { return types.Enum("a", "b") }},
		{"Literal", "", func() any { return types.Literal("x") }},
		{"Nil", "", func() any { return types.Nil() }},
		{"Any", "", func() any { return types.Any() }},
		{"Unknown", "", func() any { return types.Unknown() }},
		{"Never", "", func() any { return types.Never() }},
		{"Slice", "", func() any { return types.Slice[string](types.String()) }},
		{"Array", "", func() any { return types.Array(types.String(), types.Int()) }},
		{"Tuple", "", func() any { return types.Tuple(types.String(), types.Int()) }},
		{"Map", "", func() any { return types.Map(types.String(), types.Int()) }},
		{"RecordEnum", "", func() any { return types.Record(types.Enum("a", "b"), types.String()) }},
		{"RecordString", "", func() any { return types.Record(types.String(), types.Int()) }},
		{"LooseRecord", "", func() any { return types.LooseRecord(types.String(), types.Int()) }},
		{"Set", "", func() any { return types.Set[string](types.String()) }},
		{"Object", "", func() any { return types.Object(objShape()) }},
		{"StrictObject", "", func() any { return types.StrictObject(objShape()) }},
		{"ObjectPtr", "", func() any { return types.ObjectPtr(objShape()) }},
		{"Struct", "", func() any { return types.Struct[person]() }},
		{"FromStruct", "", func() any { return types.FromStruct[person]() }},
		{"Union", "", func() any { return types.Union([]any{types.String(), types.Int()}) }},
		{"Xor", "", func() any { return types.Xor([]any{types.String(), types.Int()}) }},
		{"Intersection", "", func() any {
			return types.Intersection(types.Object(core.ObjectSchema{"a": types.String()}), types.Object(core.ObjectSchema{"b": types.Int()}))
		}},
		{"DiscriminatedUnion", "", func() any {
			return types.DiscriminatedUnion("t", []any{
				types.Object(core.ObjectSchema{"t": types.Literal("x"), "a": types.String()}),
				types.Object(core.ObjectSchema{"t": types.Literal("y"), "b": types.Int()}),
			})
		}},
		{"Lazy", "", func() any { return types.LazyAny(func() any { return types.String() }) }},
		{"File", "", func() any { return types.File() }},
		{"Function", "", func() any { return types.Function() }},
		// annotation keys that assign the same keywords (size vs minSize/maxSize): conversion must not depend on map order
		{"FileSizeMinMax", "", func() any { return types.File().Size(3).Min(1).Max(9) }},
	}
}

// Schema is what every schema offers.
type Schema interface {
	Internals() *core.ZodTypeInternals
}

// AsSchema reports whether v is a non-nil schema.
func AsSchema(v reflect.Value) (Schema, bool) {
	if !v.IsValid() {
		return nil, false
	}
	for v.Kind() == reflect.Interface {
		if v.IsNil() {
			return nil, false
		}
		v = v.Elem()
	}
	if v.Kind() != reflect.Ptr || v.IsNil() || !v.CanInterface() {
		return nil, false
	}
	s, ok := v.Interface().(Schema)
	if !ok {
		return nil, false
	}
	if hx.Safely(func() { _ = s.Internals() }) != "" || s.Internals() == nil {
		return nil, false
	}
	return s, true
}

// ---------------------------------------------------------------------------------------------
// argument synthesis

// anySample is what an `any`-typed value parameter receives. A discriminated union given a non-map
// prefault recurses forever in Parse (fatal stack overflow, a C04 matter), so it gets a valid member.
var anySample any = "x"

var synthMu sync.Mutex

var reSample = regexp.MustCompile("^[a-z]+$")

var schemaArgMethods = map[string]bool{"And": true, "Or": true, "Pipe": true, "Catchall": true, "WithCatchall": true,
	"Rest": true, "Element": true}

// sample builds a small non-trivial value of type t (depth-limited).
func sample(t reflect.Type, n int, depth int) reflect.Value {
	switch t.Kind() {
	case reflect.Int, reflect.Int8, reflect.Int16, reflect.Int32, reflect.Int64:
		v := reflect.New(t).Elem()
		v.SetInt(int64(n))
		return v
	case reflect.Uint, reflect.Uint8, reflect.Uint16, reflect.Uint32, reflect.Uint64, reflect.Uintptr:
		v := reflect.New(t).Elem()
		v.SetUint(uint64(n))
		return v
	case reflect.Float32, reflect.Float64:
		v := reflect.New(t).Elem()
		v.SetFloat(float64(n))
		return v
	case reflect.String:
		v := reflect.New(t).Elem()
		v.SetString(strings.Repeat("a", 1+n%3))
		return v
	case reflect.Bool:
		v := reflect.New(t).Elem()
		v.SetBool(true)
		return v
	case reflect.Slice:
		if depth > 2 {
			return reflect.MakeSlice(t, 0, 0)
		}
		s := reflect.MakeSlice(t, 1, 1)
		s.Index(0).Set(sample(t.Elem(), n, depth+1))
		return s
	case reflect.Map:
		m := reflect.MakeMap(t)
		if depth <= 2 {
			if k := sample(t.Key(), n, depth+1); k.Type().Comparable() {
				func() {
					defer func() { _ = recover() }()
					m.SetMapIndex(k, sample(t.Elem(), n, depth+1))
				}()
			}
		}
		return m
	case reflect.Ptr:
		if depth > 2 {
			return reflect.Zero(t)
		}
		p := reflect.New(t.Elem())
		p.Elem().Set(sample(t.Elem(), n, depth+1))
		return p
	case reflect.Interface:
		if t.NumMethod() == 0 {
			return reflect.ValueOf(&[]any{anySample}[0]).Elem()
		}
	case reflect.Struct:
		if t == reflect.TypeOf(core.GlobalMeta{}) {
			return reflect.ValueOf(core.GlobalMeta{Title: fmt.Sprintf("T%d", n), Description: "D"})
		}
	}
	return reflect.Zero(t)
}

func makeFunc(t reflect.Type) reflect.Value {
	// what the callback returns is fixed when it is made (it must not depend on later harness state)
	fixed := make([]reflect.Value, t.NumOut())
	for i := range fixed {
		fixed[i] = sample(t.Out(i), 1, 0)
		if t.Out(i) == tAny {
			fixed[i] = reflect.ValueOf(&[]any{anySample}[0]).Elem()
		}
	}
	return reflect.MakeFunc(t, func(args []reflect.Value) []reflect.Value {
		out := make([]reflect.Value, t.NumOut())
		for i := range out {
			ot := t.Out(i)
			switch {
			case ot.Kind() == reflect.Bool:
				out[i] = reflect.ValueOf(true)
			case len(args) > 0 && args[0].Type().AssignableTo(ot):
				out[i] = args[0]
			case ot.Implements(reflect.TypeOf((*error)(nil)).Elem()):
				out[i] = reflect.Zero(ot)
			default:
				// never hand back nil from DefaultFunc/PrefaultFunc-style callbacks: a nil prefault makes
				// DiscriminatedUnion.Parse(nil) recurse forever (a C04 matter, fatal to the harness process)
				out[i] = fixed[i]
			}
		}
		return out
	})
}

var (
	tRegexp    = reflect.TypeOf((*regexp.Regexp)(nil))
	tObjSchema = reflect.TypeOf(core.ObjectSchema{})
	tAny       = reflect.TypeOf((*any)(nil)).Elem()
)

// SynthArgs builds arguments for method m of recv. variant selects among a few argument choices.
func SynthArgs(recv reflect.Value, name string, mt reflect.Type, variant int) []reflect.Value {
	nIn := mt.NumIn()
	fixed := nIn
	if mt.IsVariadic() {
		fixed--
	}
	args := make([]reflect.Value, 0, nIn)
	for i := 0; i < fixed; i++ {
		args = append(args, synthOne(recv, name, mt.In(i), variant))
	}
	if mt.IsVariadic() && variant%2 == 1 {
		et := mt.In(nIn - 1).Elem()
		if et.Kind() == reflect.Slice && et.Elem().Kind() == reflect.String { // Partial(keys ...[]string)
			args = append(args, reflect.ValueOf([]string{"a"}))
		}
		if et == tZodCheck { // ...core.ZodCheck
			if c, ok := checkArg(et, variant); ok && !c.IsNil() {
				args = append(args, c)
			}
		}
	}
	return args
}

// nestedSample is a default/prefault value with maps, slices and pointers nested inside (C15).
func nestedSample(variant int) map[string]any {
	n := 7
	return map[string]any{"a": "s", "name": "n", "age": 3, "t": "x",
		"k": map[string]any{"z": 1, "deep": map[string]any{"w": []any{1, 2}}},
		"l": []any{1, []any{2, 3}}, "p": &n, "v": variant}
}

func synthOne(recv reflect.Value, name string, t reflect.Type, variant int) reflect.Value {
	n := 1 + variant
	if (name == "Default" || name == "Prefault") && variant > 0 {
		ns := reflect.ValueOf(nestedSample(variant))
		switch {
		case ns.Type() == t:
			return ns
		case t == tAny && !strings.Contains(recv.Type().String(), "Discriminated"):
			if variant == 2 {
				return reflect.ValueOf(&[]any{[]any{1, []any{2, map[string]any{"q": 1}}}}[0]).Elem()
			}
			return reflect.ValueOf(&[]any{nestedSample(variant)}[0]).Elem()
		}
	}
	if v, ok := checkArg(t, variant); ok { // core.ZodCheck / []core.ZodCheck parameters: a value from the check catalogue (checks.go)
		return v
	}
	switch {
	case t == tRegexp:
		return reflect.ValueOf(reSample)
	case t == tObjSchema:
		return reflect.ValueOf(core.ObjectSchema{"zz": types.String()})
	case t.Kind() == reflect.Func:
		return makeFunc(t)
	case t.Kind() == reflect.Slice && t.Elem().Kind() == reflect.String && (strings.Contains(name, "Pick") || strings.Contains(name, "Omit")):
		return reflect.ValueOf([]string{"a"})
	case t == recv.Type():
		return recv
	case t.Kind() == reflect.Interface:
		str := reflect.ValueOf(types.String())
		if t == tAny {
			if schemaArgMethods[name] {
				return str.Convert(tAny)
			}
			return reflect.ValueOf(&[]any{anySample}[0]).Elem()
		}
		if str.Type().Implements(t) {
			return str.Convert(t)
		}
		anyS := reflect.ValueOf(types.Any())
		if anyS.Type().Implements(t) {
			return anyS.Convert(t)
		}
		return reflect.Zero(t)
	}
	return sample(t, n, 0)
}

// Call invokes the named method; it returns the first schema among the results.
// ok=false: the method is not chaining for these arguments (no schema result, error result, or panic).
func Call(recv any, name string, variant int) (res Schema, ok bool, why string) {
	rv := reflect.ValueOf(recv)
	m := rv.MethodByName(name)
	if !m.IsValid() {
		return nil, false, "nomethod"
	}
	synthMu.Lock() // argument synthesis uses package state; the call itself runs unlocked (C14 calls concurrently)
	anySample = "x"
	if strings.Contains(rv.Type().String(), "Discriminated") {
		anySample = map[string]any{"t": "x", "a": "s"}
	}
	var args []reflect.Value
	ps := hx.Safely(func() { args = SynthArgs(rv, name, m.Type(), variant) })
	synthMu.Unlock()
	if ps != "" {
		return nil, false, "panic"
	}
	var outs []reflect.Value
	if p := hx.Safely(func() { outs = m.Call(args) }); p != "" {
		return nil, false, "panic"
	}
	for _, o := range outs {
		if o.Type().Implements(reflect.TypeOf((*error)(nil)).Elem()) && !o.IsNil() {
			return nil, false, "error"
		}
	}
	for _, o := range outs {
		if s, isS := AsSchema(o); isS {
			return s, true, ""
		}
	}
	return nil, false, "noschema"
}

// Methods lists the exported methods of a schema value that can possibly return a schema
// (some result type has an Internals method or is an interface/any).
func Methods(recv any) []string {
	rt := reflect.TypeOf(recv)
	var names []string
	for i := 0; i < rt.NumMethod(); i++ {
		m := rt.Method(i)
		mt := m.Type
		cand := false
		for j := 0; j < mt.NumOut(); j++ {
			ot := mt.Out(j)
			if _, has := ot.MethodByName("Internals"); has {
				cand = true
			}
			if ot.Kind() == reflect.Interface && ot.NumMethod() == 0 {
				cand = true
			}
		}
		if !cand || strings.Contains(m.Name, "Parse") || m.Name == "Internals" {
			continue
		}
		names = append(names, m.Name)
	}
	return names
}

// KeyedMethods marks the methods that take a key list, a map or a shape (also as a variadic tail of such):
// the calls that build or edit type-local reference state (PartialExceptions, Shape, option lists).
func KeyedMethods(recv any, names []string) map[string]bool {
	rt := reflect.TypeOf(recv)
	out := map[string]bool{}
	for _, n := range names {
		m, ok := rt.MethodByName(n)
		if !ok {
			continue
		}
		for i := 1; i < m.Type.NumIn(); i++ {
			t := m.Type.In(i)
			if m.Type.IsVariadic() && i == m.Type.NumIn()-1 {
				t = t.Elem()
				if t.Kind() == reflect.Interface {
					continue // params ...any
				}
			}
			if t.Kind() == reflect.Slice || t.Kind() == reflect.Map {
				out[n] = true
			}
		}
	}
	return out
}

// ---------------------------------------------------------------------------------------------
// snapshots

// Snap is the reference-typed state visible through Internals(), plus content digests.
type Snap struct {
	ChecksPtr uintptr
	Len, Cap  int
	CheckIDs  string // identities of the ZodCheck values, in order
	BagPtr    uintptr
	BagState  string // n(il) e(mpty) f(illed)
	Bag       string // canonical content
	BagSlices string // headers of slice-typed bag values: key=ptr/len/cap
	ValPtr    uintptr
	ValState  string
	Values    string
	Flags     string
	Meta      string
	Deep      uint64
}

func ifaceData(c any) uintptr { return (*[2]uintptr)(unsafe.Pointer(&c))[1] }

func mapState(v reflect.Value) string {
	if v.IsNil() {
		return "n"
	}
	if v.Len() == 0 {
		return "e"
	}
	return "f"
}

// Canon renders a value canonically (maps sorted, pointers dereferenced, no addresses).
// FloatRepr renders a float BIT FOR BIT: what %v prints for every value that %v tells apart (it prints -0 as "-0", the
// infinities as "+Inf" / "-Inf"), and the bit pattern beside "NaN" — a NaN is not equal to itself under == and %v prints every
// payload and sign the same, so identity ("the same bits") has to be read off the bits (C15: sameValue, the input graph
// "bit-for-bit unchanged").
func FloatRepr(f float64) string {
	if f != f {
		return fmt.Sprintf("NaN#%x", math.Float64bits(f))
	}
	return fmt.Sprintf("%v", f)
}

// ComplexRepr: %v, and both parts bit for bit when one of them is a NaN.
func ComplexRepr(c complex128) string {
	if real(c) != real(c) || imag(c) != imag(c) {
		return "(" + FloatRepr(real(c)) + "," + FloatRepr(imag(c)) + "i)"
	}
	return fmt.Sprintf("%v", c)
}

func Canon(v any) string {
	var b strings.Builder
	canon(&b, reflect.ValueOf(v), 0)
	return b.String()
}

func canon(b *strings.Builder, v reflect.Value, d int) {
	if !v.IsValid() {
		b.WriteString("nil")
		return
	}
	if d > 8 {
		b.WriteString("…")
		return
	}
	switch v.Kind() {
	case reflect.Ptr, reflect.Interface:
		if v.IsNil() {
			b.WriteString("nil")
			return
		}
		if v.Kind() == reflect.Ptr {
			b.WriteString("&")
		}
		canon(b, v.Elem(), d+1)
	case reflect.Map:
		if v.IsNil() {
			b.WriteString("nilmap")
			return
		}
		type kv struct{ k, v string }
		var kvs []kv
		it := v.MapRange()
		for it.Next() {
			var kb, vb strings.Builder
			canon(&kb, it.Key(), d+1)
			canon(&vb, it.Value(), d+1)
			kvs = append(kvs, kv{kb.String(), vb.String()})
		}
		sort.Slice(kvs, func(i, j int) bool { return kvs[i].k < kvs[j].k })
		b.WriteString("{")
		for _, e := range kvs {
			b.WriteString(e.k + ":" + e.v + ",")
		}
		b.WriteString("}")
	case reflect.Slice, reflect.Array:
		if v.Kind() == reflect.Slice && v.IsNil() {
			b.WriteString("nilslice")
			return
		}
		b.WriteString("[")
		for i := 0; i < v.Len(); i++ {
			canon(b, v.Index(i), d+1)
			b.WriteString(",")
		}
		b.WriteString("]")
	case reflect.Struct:
		b.WriteString(v.Type().Name() + "{")
		for i := 0; i < v.NumField(); i++ {
			canon(b, v.Field(i), d+1)
			b.WriteString(",")
		}
		b.WriteString("}")
	case reflect.Func, reflect.Chan, reflect.UnsafePointer:
		fmt.Fprintf(b, "%s@%x", v.Kind(), v.Pointer())
	case reflect.String:
		fmt.Fprintf(b, "%q", v.String())
	case reflect.Bool:
		fmt.Fprintf(b, "%v", v.Bool())
	case reflect.Int, reflect.Int8, reflect.Int16, reflect.Int32, reflect.Int64:
		fmt.Fprintf(b, "%d", v.Int())
	case reflect.Uint, reflect.Uint8, reflect.Uint16, reflect.Uint32, reflect.Uint64, reflect.Uintptr:
		fmt.Fprintf(b, "%d", v.Uint())
	case reflect.Float32, reflect.Float64:
		b.WriteString(FloatRepr(v.Float()))
	case reflect.Complex64, reflect.Complex128:
		b.WriteString(ComplexRepr(v.Complex()))
	default:
		b.WriteString("?")
	}
}

// TakeSnap reads the schema's exported internals.
func TakeSnap(s Schema) Snap {
	in := s.Internals()
	var sn Snap
	sn.Len, sn.Cap = len(in.Checks), cap(in.Checks)
	if sn.Cap > 0 {
		sn.ChecksPtr = uintptr(unsafe.Pointer(unsafe.SliceData(in.Checks)))
	}
	var ids []string
	for _, c := range in.Checks {
		ids = append(ids, fmt.Sprintf("%x", ifaceData(c)))
	}
	sn.CheckIDs = strings.Join(ids, ",")
	bv := reflect.ValueOf(in.Bag)
	sn.BagState = mapState(bv)
	if !bv.IsNil() {
		sn.BagPtr = bv.Pointer()
	}
	sn.Bag = Canon(in.Bag)
	var hs []string
	for k, v := range in.Bag {
		rv := reflect.ValueOf(v)
		if rv.IsValid() && rv.Kind() == reflect.Slice {
			hs = append(hs, fmt.Sprintf("%s=%x/%d/%d", k, rv.Pointer(), rv.Len(), rv.Cap()))
		}
	}
	sort.Strings(hs)
	sn.BagSlices = strings.Join(hs, ";")
	vv := reflect.ValueOf(in.Values)
	sn.ValState = mapState(vv)
	if !vv.IsNil() {
		sn.ValPtr = vv.Pointer()
	}
	sn.Values = Canon(in.Values)
	sn.Flags = fmt.Sprintf("%s|%v%v%v%v%v|d=%s/%x|p=%s/%x|prio=%d,%d,%d|t=%x|%s|%s|c=%x|pat=%p|err=%p",
		in.Type, in.Coerce, in.Optional, in.Nilable, in.NonOptional, in.ExactOptional,
		Canon(in.DefaultValue), reflect.ValueOf(in.DefaultFunc).Pointer(),
		Canon(in.PrefaultValue), reflect.ValueOf(in.PrefaultFunc).Pointer(),
		in.OptionalPriority, in.PrefaultPriority, in.DefaultPriority,
		reflect.ValueOf(in.Transform).Pointer(), in.OptIn, in.OptOut,
		reflect.ValueOf(in.Constructor).Pointer(), in.Pattern, in.Error)
	if zs, ok := s.(core.ZodSchema); ok {
		if m, has := core.GlobalRegistry.Get(zs); has {
			sn.Meta = Canon(m)
		}
	}
	sn.Deep = DeepHash(s)
	return sn
}

// Content is the part of a snapshot that C08/C12 require to stay the same (no addresses, no capacities).
func (s Snap) Content() string {
	return strings.Join([]string{s.CheckIDs, fmt.Sprint(s.Len), s.BagState, s.Bag, s.ValState, s.Values, s.Flags, s.Meta}, "\x1f")
}

// ContentNoBag is Content without the Bag (annotation cache): what C12's statement observes directly.
func (s Snap) ContentNoBag() string {
	return strings.Join([]string{s.CheckIDs, fmt.Sprint(s.Len), s.ValState, s.Values, s.Flags, s.Meta}, "\x1f")
}

// DeepHash walks everything reachable from the schema through gozod-defined types (unexported
// fields included) and digests contents and pointer identities.
func DeepHash(s any) uint64 {
	h := fnv.New64a()
	seen := map[uintptr]bool{}
	deep(h, reflect.ValueOf(s), seen, 0)
	return h.Sum64()
}

type hasher interface{ Write([]byte) (int, error) }

func own(t reflect.Type) bool {
	p := t.PkgPath()
	return p == "" || strings.HasPrefix(p, "github.com/kaptinlin/gozod")
}

func deep(h hasher, v reflect.Value, seen map[uintptr]bool, d int) {
	if !v.IsValid() || d > 40 {
		return
	}
	w := func(f string, a ...any) {
		fmt.Fprintf(h.(interface {
			Write([]byte) (int, error)
		}), f, a...)
	}
	switch v.Kind() {
	case reflect.Ptr:
		if v.IsNil() {
			w("nil;")
			return
		}
		p := v.Pointer()
		w("p%x;", p)
		if seen[p] || !own(v.Type().Elem()) {
			return
		}
		seen[p] = true
		deep(h, v.Elem(), seen, d+1)
	case reflect.Interface:
		if v.IsNil() {
			w("nil;")
			return
		}
		deep(h, v.Elem(), seen, d+1)
	case reflect.Struct:
		if !own(v.Type()) {
			w("foreign:%s;", v.Type().String())
			return
		}
		for i := 0; i < v.NumField(); i++ {
			w("f%d:", i)
			deep(h, v.Field(i), seen, d+1)
		}
	case reflect.Map:
		if v.IsNil() {
			w("nilmap;")
			return
		}
		w("m%x/%d;", v.Pointer(), v.Len())
		if seen[v.Pointer()] {
			return
		}
		seen[v.Pointer()] = true
		type ent struct {
			k string
			v reflect.Value
		}
		var es []ent
		it := v.MapRange()
		for it.Next() {
			var kb strings.Builder
			canon(&kb, it.Key(), 0)
			es = append(es, ent{kb.String(), it.Value()})
		}
		sort.Slice(es, func(i, j int) bool { return es[i].k < es[j].k })
		for _, e := range es {
			w("k%s:", e.k)
			deep(h, e.v, seen, d+1)
		}
	case reflect.Slice:
		if v.IsNil() {
			w("nilslice;")
			return
		}
		w("s%x/%d/%d;", v.Pointer(), v.Len(), v.Cap())
		for i := 0; i < v.Len(); i++ {
			deep(h, v.Index(i), seen, d+1)
		}
	case reflect.Array:
		for i := 0; i < v.Len(); i++ {
			deep(h, v.Index(i), seen, d+1)
		}
	case reflect.Func, reflect.Chan, reflect.UnsafePointer:
		w("%s@%x;", v.Kind(), v.Pointer())
	case reflect.String:
		w("%q;", v.String())
	case reflect.Bool:
		w("%v;", v.Bool())
	case reflect.Int, reflect.Int8, reflect.Int16, reflect.Int32, reflect.Int64:
		w("%d;", v.Int())
	case reflect.Uint, reflect.Uint8, reflect.Uint16, reflect.Uint32, reflect.Uint64, reflect.Uintptr:
		w("%d;", v.Uint())
	case reflect.Float32, reflect.Float64:
		w("%s;", FloatRepr(v.Float()))
	case reflect.Complex64, reflect.Complex128:
		w("%s;", ComplexRepr(v.Complex()))
	}
}

// ---------------------------------------------------------------------------------------------
// behavioural fingerprint

// Probes is the fixed probe set every schema is asked about.
func Probes() []any {
	s := "abc"
	return []any{nil, "", "a", "abcdef", "user@example.com", "192.168.0.1", "2020-01-02T03:04:05Z", &s,
		0, 1, -1, 5, 100, int64(7), uint8(3), 3.5, true, false,
		[]any{}, []any{"a"}, []string{"a", "b"}, []any{"a", 1},
		map[string]any{}, map[string]any{"a": "x"}, map[string]any{"a": "x", "b": "y"}, map[string]any{"a": "x", "b": 2},
		map[string]any{"name": "n", "age": 3}, map[string]any{"t": "x", "a": "s"}, map[string]int{"k": 1},
		map[string]struct{}{"a": {}}, person{"n", 3}}
}

// ParseAny calls the schema's dynamic parse entry.
func ParseAny(s any, in any) (out any, err error, panicked string) {
	panicked = hx.Safely(func() {
		if z, ok := s.(core.ZodSchema); ok {
			out, err = z.ParseAny(in)
			return
		}
		m := reflect.ValueOf(s).MethodByName("Parse")
		if !m.IsValid() {
			err = fmt.Errorf("no Parse")
			return
		}
		var arg reflect.Value
		if in == nil {
			arg = reflect.Zero(m.Type().In(0))
		} else {
			arg = reflect.ValueOf(in)
		}
		r := m.Call([]reflect.Value{arg})
		out = r[0].Interface()
		if !r[1].IsNil() {
			err = r[1].Interface().(error)
		}
	})
	return
}

// JS converts the schema to JSON Schema and serialises the document (or the error).
func JS(s any, opts ...jsonschema.Options) string {
	var out string
	p := hx.Safely(func() {
		d, err := jsonschema.ToJSONSchema(s, opts...)
		if err != nil {
			out = "ERR:" + err.Error()
			return
		}
		b, err := json.Marshal(d)
		if err != nil {
			out = "MARSHAL:" + err.Error()
			return
		}
		out = string(b)
	})
	if p != "" {
		return "PANIC:" + p
	}
	return out
}

// Verdicts renders the outcome of every probe.
func Verdicts(s any) string {
	var b strings.Builder
	for i, p := range Probes() {
		out, err, pn := ParseAny(s, p)
		switch {
		case pn != "":
			fmt.Fprintf(&b, "%d:P;", i)
		case err != nil:
			fmt.Fprintf(&b, "%d:E%x;", i, hash(ErrCanon(err)))
		default:
			fmt.Fprintf(&b, "%d:%x;", i, hash(Canon(out)))
		}
	}
	return b.String()
}

// ErrCanon renders an error independently of the order in which a map's entries were visited:
// the issues (code, path, message) as a sorted multiset; non-Zod errors by their sorted lines.
func ErrCanon(err error) string {
	var lines []string
	v := reflect.ValueOf(err)
	for v.Kind() == reflect.Ptr && !v.IsNil() {
		v = v.Elem()
	}
	if v.Kind() == reflect.Struct {
		if is := fieldOf(v, "Issues"); is.IsValid() && is.Kind() == reflect.Slice {
			for i := 0; i < is.Len(); i++ {
				it := is.Index(i)
				var parts []string
				for _, f := range []string{"Code", "Path"} { // never message texts (map-order dependent key lists)
					if fv := fieldOf(it, f); fv.IsValid() {
						parts = append(parts, Canon(fv.Interface()))
					}
				}
				lines = append(lines, strings.Join(parts, "|"))
			}
			sort.Strings(lines)
			return strings.Join(lines, "\n")
		}
	}
	return "plain-error" // wrapped non-Zod errors carry map-order dependent texts: verdict only
}

// fieldOf is v.FieldByName(name) with the lookup cached per struct type (FieldByName walks embedded structs on
// every call; the issue lists are rendered millions of times).
var fieldIdx sync.Map // fieldKey -> []int (nil: no such field)

type fieldKey struct {
	t reflect.Type
	n string
}

func fieldOf(v reflect.Value, name string) reflect.Value {
	if v.Kind() != reflect.Struct {
		return reflect.Value{}
	}
	k := fieldKey{v.Type(), name}
	ix, ok := fieldIdx.Load(k)
	if !ok {
		var index []int
		if f, has := v.Type().FieldByName(name); has {
			index = f.Index
		}
		fieldIdx.Store(k, index)
		ix = index
	}
	index := ix.([]int)
	if index == nil {
		return reflect.Value{}
	}
	fv, err := v.FieldByIndexErr(index)
	if err != nil {
		return reflect.Value{}
	}
	return fv
}

func hash(s string) uint32 {
	h := fnv.New32a()
	h.Write([]byte(s))
	return h.Sum32()
}

// Fingerprint is the observable behaviour the property speaks about.
func Fingerprint(s any, withJS bool) string {
	var opt, nil_ string
	if o, ok := s.(interface{ IsOptional() bool }); ok {
		opt = fmt.Sprint(o.IsOptional())
	}
	if o, ok := s.(interface{ IsNilable() bool }); ok {
		nil_ = fmt.Sprint(o.IsNilable())
	}
	js := ""
	if withJS {
		js = JS(s)
	}
	return Verdicts(s) + "|" + opt + "|" + nil_ + "|" + js
}
