/-
  Line handler for C03.
    c03 nil <rule ptrTy|nilable> <admitsNil 0/1> <ownNilPath 0/1> <op>*     → "<model outcome>\t<spec verdict on the implementation's outcome>"
    c03 val …                                              → "same\tsame"   (a non-nil input must be validated as by the base schema;
                                                                               the harness compares with the base schema itself)
    c03 wnil <rule> <admitsNil> <ownNilPath> <stack> <op>*   → the same under a chain of wrappers; <stack> is a word over T (`.Transform(fᵢ)`)
                                                               and P (`.Pipe(targetᵢ)`), innermost first, i = position; observation =
                                                               "<result> log=<callback log>", e.g. "ok:f2(f1(prefault:value)) log=f1(prefault:value);f2(f1(prefault:value))"
    c03 wval <stack> <ok|bad> <op>*                          → a non-nil input the base accepts / rejects: "<result> log=<…> base=same"
                                                               (base=same: the harness ran the unmodified base schema under the same wrappers and saw the same)
  op := Optional | Nilable | Nullish | NonOptional | Default:v|i | DefaultFunc:v|i | Prefault:v|i | PrefaultFunc:v|i | Overwrite | Refine
  The raw line is "<op line> @ <implementation outcome>"; the spec verdict echoes the implementation's
  outcome when `specNil` admits it and is "spec-rejects:<expected>" otherwise.
-/
import Gozod.Model.Modifiers
namespace Gozod.Drv.C03
open Gozod.Mods

def parseOp : String → Option Op
  | "Optional" => some .optional | "Nilable" => some .nilable | "Nullish" => some .nullish
  | "NonOptional" => some .nonOptional
  | "Default:v" => some (.dflt true) | "Default:i" => some (.dflt false)
  | "DefaultFunc:v" => some (.dfltFn true) | "DefaultFunc:i" => some (.dfltFn false)
  | "Prefault:v" => some (.prefault true) | "Prefault:i" => some (.prefault false)
  | "PrefaultFunc:v" => some (.prefaultFn true) | "PrefaultFunc:i" => some (.prefaultFn false)
  | "Overwrite" => some .overwrite | "Refine" => some .refine
  | _ => none

def renderOutcome : Outcome → String
  | .dflt false => "default:value" | .dflt true => "default:func"
  | .prefaultOk false => "prefault:value" | .prefaultOk true => "prefault:func"
  | .checkError => "err:checks" | .nonOptional => "err:nonoptional" | .nil => "nil"
  | .typeError => "err:type" | .refineError => "err:custom"

def parseOutcome (s : String) : Option Outcome := allOutcomes.find? (fun o => renderOutcome o == s)

def parseStack (s : String) : Option (List W) :=
  s.toList.mapM fun c => if c == 'T' then some W.tf else if c == 'P' then some W.pipe else none

def renderV : V → String
  | .src o => renderOutcome o
  | .inp => "in"
  | .app i v => "f" ++ toString i ++ "(" ++ renderV v ++ ")"

def renderCall (c : Call) : String :=
  (if c.pipe then "p" else "f") ++ toString c.id ++ "(" ++ renderV c.arg ++ ")"

/-- `short`: a non-nil rejection is rendered without its class (the base schema decides the class). -/
def renderObs (short : Bool) (p : R × List Call) : String :=
  let r := match p.1 with
    | .ok v => "ok:" ++ renderV v
    | .err o => if short then "err" else renderOutcome o
  r ++ " log=" ++ (if p.2.isEmpty then "-" else ";".intercalate (p.2.map renderCall))

def handleLine (line : String) : String :=
  let (lhs, impl) := match line.splitOn " @ " with
    | [a, b] => (a, some b)
    | _ => (line, none)
  match (lhs.splitOn " ").filter (· ≠ "") with
  | "c03" :: "val" :: _ => "same\tsame"
  | "c03" :: "wval" :: stack :: okbad :: ops =>
    match parseStack stack, ops.mapM parseOp with
    | some ws, some h =>
      let inp := if okbad == "ok" then In.valid else In.invalid
      let m := renderObs true ((wrap (applyAll .ptrTy {} h) ws).parse false inp) ++ " base=same"
      let s := renderObs true (specValW (okbad == "ok") ws) ++ " base=same"
      m ++ "\t" ++ s
    | _, _ => "bad-op"
  | "c03" :: "wnil" :: rule :: adm :: own :: stack :: ops =>
    let rule := if rule == "nilable" then RefineRule.nilableFlag else RefineRule.ptrTy
    let adm := adm == "1"
    match parseStack stack, ops.mapM parseOp with
    | some ws, some h =>
      let m := if own == "1" then impl.getD "-" else renderObs false ((wrap (applyAll rule {} h) ws).parse adm .nil)
      let admissible := (allOutcomes.filter (specNil adm h)).map fun o => renderObs false (specWrapped o ws)
      let s := match impl with
        | none => "-"
        | some io => if admissible.contains io then io else "spec-rejects:expected " ++ " | ".intercalate admissible
      m ++ "\t" ++ s
    | _, _ => "bad-op"
  | "c03" :: "nil" :: rule :: adm :: own :: ops =>
    let rule := if rule == "nilable" then RefineRule.nilableFlag else RefineRule.ptrTy
    let adm := adm == "1"
    match ops.mapM parseOp with
    | none => "bad-op"
    | some h =>
      -- own = 1: the type has its own nil path (discriminated union, lazy) that the engine model does
      -- not cover; such cases are judged by the specification only (the model echoes the observation)
      let m := if own == "1" then impl.getD "-" else renderOutcome (nilOutcome adm (applyAll rule {} h))
      let s := match impl with
        | none => "-"
        | some io =>
          match parseOutcome io with
          | some o => if specNil adm h o then io
                      else "spec-rejects:expected " ++ " | ".intercalate ((allOutcomes.filter (specNil adm h)).map renderOutcome)
          | none => "spec-rejects:unclassified-outcome"
      m ++ "\t" ++ s
  | _ => "bad-op"

end Gozod.Drv.C03
