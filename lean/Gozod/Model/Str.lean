/-
  Gozod.Model.Str — the string checks of `internal/checks` + `pkg/validate` and the string
  overwrites of `types/string.go`, on Go strings as byte lists.

  Go's `len(s)`, `strings.HasPrefix/HasSuffix/Contains` are byte-level and modelled exactly.
  `Lowercase`/`Uppercase` are the regexes `^[^A-Z]*$` / `^[^a-z]*$`: no byte in the ASCII range.
  `strings.TrimSpace/ToLower/ToUpper` are Unicode-aware; they are modelled exactly on ASCII
  input (bytes < 128) — the harness only feeds such strings through them (recorded limit).
-/
import Gozod.Model.Checks
namespace Gozod

abbrev Bytes := List Nat

namespace Str

def isSpace (c : Nat) : Bool := c == 32 || (9 ≤ c && c ≤ 13)

def trim (b : Bytes) : Bytes := ((b.dropWhile isSpace).reverse.dropWhile isSpace).reverse

def lowerByte (c : Nat) : Nat := if 65 ≤ c ∧ c ≤ 90 then c + 32 else c
def upperByte (c : Nat) : Nat := if 97 ≤ c ∧ c ≤ 122 then c - 32 else c

/-- `strings.Contains`: needle occurs as a contiguous sub-list. -/
def isInfix (needle : Bytes) : Bytes → Bool
  | [] => needle.isEmpty
  | c :: cs => needle.isPrefixOf (c :: cs) || isInfix needle cs

/-- Built-in and custom predicate checks on strings. -/
inductive SPred where
  | minLen (n : Nat) | maxLen (n : Nat) | lenEq (n : Nat)
  | startsWith (b : Bytes) | endsWith (b : Bytes) | includes (b : Bytes)
  | lowercase | uppercase
  | regex (k : Nat)           -- `Regex` with a pattern of the harness' fixed family (see `regexFamily`)
  | relit (mode : Nat) (lit : Bytes)   -- `Regex` with a pure-literal pattern: 0 `lit` 1 `^lit` 2 `lit$` 3 `^lit$` 4 `\Alit\z` 5 `^(?:lit)$`
  | custom (k : Nat)          -- refine / when callbacks of the harness' fixed family
  deriving Repr, DecidableEq

inductive SOw where
  | trim | lower | upper
  | custom (k : Nat)
  deriving Repr, DecidableEq

/-- The fixed deterministic callback family used by the harness (any family would do: the
    theorems quantify over all environments). -/
def customPred (k : Nat) (b : Bytes) : Bool :=
  match k % 6 with
  | 0 => b.length % 2 == 0
  | 1 => b.contains 120             -- contains 'x'
  | 2 => false
  | 3 => true
  | 4 => b.length ≥ 3
  | _ => b.head? == some 97         -- starts with 'a'

def customOw (k : Nat) (b : Bytes) : Bytes :=
  match k % 4 with
  | 0 => b ++ [33]                  -- append '!'
  | 1 => b.drop 1
  | 2 => b.reverse
  | _ => b ++ [32]                  -- append ' '

def customTr (k : Nat) (b : Bytes) : Bytes :=
  match k % 3 with
  | 0 => b ++ [35, 97]              -- append "#a"
  | 1 => 62 :: b                    -- prepend '>'
  | _ => b.reverse

/-- The documented meaning of the fixed pattern family, written directly on bytes (RE2 semantics:
    unanchored search unless anchored; `.` does not match a newline):
      0: `^[a-z]+$`   1: `[0-9]`   2: `^a.*z$`   3: `^(ab)*$` -/
def regexFamily (k : Nat) (b : Bytes) : Bool :=
  match k % 4 with
  | 0 => !b.isEmpty && b.all (fun c => 97 ≤ c && c ≤ 122)
  | 1 => b.any (fun c => 48 ≤ c && c ≤ 57)
  | 2 => b.length ≥ 2 && b.head? == some 97 && b.getLast? == some 122 && !(b.contains 10)
  | _ => b.length % 2 == 0 && (List.range (b.length / 2)).all (fun i => b[2 * i]? == some 97 && b[2 * i + 1]? == some 98)

def holds : SPred → Bytes → Bool
  | .minLen n, b => b.length ≥ n
  | .maxLen n, b => b.length ≤ n
  | .lenEq n, b => b.length == n
  | .startsWith p, b => p.isPrefixOf b
  | .endsWith p, b => p.isSuffixOf b
  | .includes p, b => isInfix p b
  | .lowercase, b => b.all (fun c => !(65 ≤ c && c ≤ 90))
  | .uppercase, b => b.all (fun c => !(97 ≤ c && c ≤ 122))
  | .regex k, b => regexFamily k b
  | .relit mode lit, b =>       -- RE2: unanchored = search; `$` without (?m) = end of text
    match mode with
    | 0 => isInfix lit b
    | 1 => lit.isPrefixOf b
    | 2 => lit.isSuffixOf b
    | _ => b == lit
  | .custom k, b => customPred k b

def apply : SOw → Bytes → Bytes
  | .trim, b => trim b
  | .lower, b => b.map lowerByte
  | .upper, b => b.map upperByte
  | .custom k, b => customOw k b

def env : Env SPred SOw Nat Bytes := ⟨holds, apply, customTr⟩

end Str
end Gozod
