package opsgen

// Type information for the translator.
//
// The harness module cannot depend on golang.org/x/tools (its go.sum is a copy of the library's go.sum, which has no
// x/tools lines), so this file does what go/packages does internally with the standard library only:
//
//	go list -export -deps -json ./types ./core      (run inside the working tree, with the environment we were given)
//
// yields the export-data file of every dependency; go/importer.ForCompiler(fset, "gc", lookup) reads them; package core
// and package types of the working tree are then type-checked FROM SOURCE (the files go list names: build constraints are
// honoured) with types.Config.Check, which fills the types.Info the interpreter consults.
//
// Any failure here is an error of Rows (the caller exits non-zero: a broken tie) — there is no syntactic fallback.

import (
	"bytes"
	"encoding/json"
	"fmt"
	"go/ast"
	"go/importer"
	"go/parser"
	"go/token"
	"go/types"
	"io"
	"os"
	"os/exec"
	"path/filepath"
	"strings"
)

type listedPkg struct {
	Dir        string
	ImportPath string
	Name       string
	Export     string
	GoFiles    []string
	DepOnly    bool
	Error      *struct{ Err string }
}

type srcPkg struct {
	path  string
	dir   string
	files []*ast.File
	names []string // file names relative to the tree, parallel to files
	pkg   *types.Package
}

type typeData struct {
	fset   *token.FileSet
	info   *types.Info
	tpkg   *srcPkg // <module>/types
	cpkg   *srcPkg // <module>/core, checked from source (its objects differ from the export-data core that package types imports)
	declOf map[*types.Func]*ast.FuncDecl
}

func goList(repo string) ([]listedPkg, error) {
	cmd := exec.Command("go", "list", "-export", "-deps", "-json=Dir,ImportPath,Name,Export,GoFiles,DepOnly,Error", "./types", "./core")
	cmd.Dir = repo
	cmd.Env = os.Environ()
	var stdout, stderr bytes.Buffer
	cmd.Stdout, cmd.Stderr = &stdout, &stderr
	if err := cmd.Run(); err != nil {
		return nil, fmt.Errorf("go list -export -deps ./types ./core in %s: %v\n%s", repo, err, strings.TrimSpace(stderr.String()))
	}
	var out []listedPkg
	dec := json.NewDecoder(&stdout)
	for {
		var lp listedPkg
		if err := dec.Decode(&lp); err == io.EOF {
			break
		} else if err != nil {
			return nil, fmt.Errorf("go list output: %v", err)
		}
		if lp.Error != nil {
			return nil, fmt.Errorf("go list: package %s: %s", lp.ImportPath, lp.Error.Err)
		}
		out = append(out, lp)
	}
	return out, nil
}

// loadTypes type-checks <repo>/core and <repo>/types from source against the export data of their dependencies.
func loadTypes(repo string, fset *token.FileSet) (*typeData, error) {
	absRepo, err := filepath.Abs(repo)
	if err != nil {
		return nil, err
	}
	if r, err := filepath.EvalSymlinks(absRepo); err == nil {
		absRepo = r
	}
	listed, err := goList(absRepo)
	if err != nil {
		return nil, err
	}
	exports := map[string]string{}
	var tl, cl *listedPkg
	for i := range listed {
		lp := &listed[i]
		if lp.Export != "" {
			exports[lp.ImportPath] = lp.Export
		}
		switch lp.Dir {
		case filepath.Join(absRepo, "types"):
			tl = lp
		case filepath.Join(absRepo, "core"):
			cl = lp
		}
	}
	if tl == nil || cl == nil {
		return nil, fmt.Errorf("go list did not report %s/types and %s/core", absRepo, absRepo)
	}
	imp := importer.ForCompiler(fset, "gc", func(path string) (io.ReadCloser, error) {
		f := exports[path]
		if f == "" {
			return nil, fmt.Errorf("no export data for %q (not a dependency of ./types ./core?)", path)
		}
		return os.Open(f)
	})
	td := &typeData{fset: fset, declOf: map[*types.Func]*ast.FuncDecl{}, info: &types.Info{
		Types:      map[ast.Expr]types.TypeAndValue{},
		Defs:       map[*ast.Ident]types.Object{},
		Uses:       map[*ast.Ident]types.Object{},
		Selections: map[*ast.SelectorExpr]*types.Selection{},
		Implicits:  map[ast.Node]types.Object{},
		Instances:  map[*ast.Ident]types.Instance{},
	}}
	check := func(lp *listedPkg) (*srcPkg, error) {
		sp := &srcPkg{path: lp.ImportPath, dir: lp.Dir}
		for _, gf := range lp.GoFiles {
			full := filepath.Join(lp.Dir, gf)
			af, err := parser.ParseFile(fset, full, nil, parser.SkipObjectResolution)
			if err != nil {
				return nil, err
			}
			rel, _ := filepath.Rel(absRepo, full)
			sp.files = append(sp.files, af)
			sp.names = append(sp.names, rel)
		}
		var errs []string
		conf := types.Config{Importer: imp, Error: func(e error) {
			if len(errs) < 8 {
				errs = append(errs, e.Error())
			}
		}}
		pkg, _ := conf.Check(lp.ImportPath, fset, sp.files, td.info)
		if len(errs) > 0 {
			return nil, fmt.Errorf("type-checking %s: %s", lp.ImportPath, strings.Join(errs, "; "))
		}
		sp.pkg = pkg
		for _, af := range sp.files {
			for _, d := range af.Decls {
				if fd, ok := d.(*ast.FuncDecl); ok {
					if fn, ok := td.info.Defs[fd.Name].(*types.Func); ok {
						td.declOf[fn] = fd
					}
				}
			}
		}
		return sp, nil
	}
	if td.cpkg, err = check(cl); err != nil {
		return nil, err
	}
	if td.tpkg, err = check(tl); err != nil {
		return nil, err
	}
	return td, nil
}

// ---------------------------------------------------------------------------------------------
// queries

// ours: is the package one of the two analysed packages (package types; package core as checked from source or as
// imported by package types)?
func (td *typeData) ours(p *types.Package) bool {
	return p != nil && (p.Path() == td.tpkg.path || p.Path() == td.cpkg.path)
}

func (td *typeData) isCore(p *types.Package) bool { return p != nil && p.Path() == td.cpkg.path }

func deref(t types.Type) types.Type {
	if t == nil {
		return nil
	}
	if p, ok := types.Unalias(t).(*types.Pointer); ok {
		return p.Elem()
	}
	return t
}

func namedOf(t types.Type) *types.Named {
	if t == nil {
		return nil
	}
	n, _ := types.Unalias(deref(t)).(*types.Named)
	if n != nil {
		return n.Origin()
	}
	return nil
}

// refKindT: is a value of type t a Go reference (assigning it copies a pointer to shared state)?
func refKindT(t types.Type) (bool, string) {
	if t == nil {
		return false, "?"
	}
	name := ""
	if n, ok := types.Unalias(t).(*types.Named); ok {
		name = ":" + n.Obj().Name()
	}
	switch u := t.Underlying().(type) {
	case *types.Map:
		return true, "map" + name
	case *types.Slice:
		return true, "slice" + name
	case *types.Pointer:
		return true, "ptr" + name
	case *types.Signature:
		return true, "func" + name
	case *types.Interface:
		if _, isTP := types.Unalias(t).(*types.TypeParam); isTP {
			return false, "typeparam"
		}
		return true, "iface" + name
	case *types.Chan:
		return true, "chan" + name
	case *types.Array:
		return false, "array" + name
	case *types.Struct:
		return false, "struct" + name
	case *types.Basic:
		if u.Kind() == types.UnsafePointer {
			return true, "ptr" + name
		}
		return false, "value" + name
	}
	return false, "?"
}

// methodNames of the method set of *n (promoted methods included).
func ptrMethodSet(n *types.Named) *types.MethodSet { return types.NewMethodSet(types.NewPointer(n)) }

// schemaIface: core.ZodSchema of the core package that n's package sees.
func (td *typeData) schemaIface(pkg *types.Package) *types.Interface {
	var core *types.Package
	if td.isCore(pkg) {
		core = pkg
	} else {
		for _, ip := range pkg.Imports() {
			if td.isCore(ip) {
				core = ip
			}
		}
	}
	if core == nil {
		return nil
	}
	tn, _ := core.Scope().Lookup("ZodSchema").(*types.TypeName)
	if tn == nil {
		return nil
	}
	it, _ := tn.Type().Underlying().(*types.Interface)
	return it
}

// isSchemaNamed: a struct type of package types / core whose pointer has the methods of core.ZodSchema.
func (td *typeData) isSchemaNamed(n *types.Named) bool {
	if n == nil || n.Obj() == nil || !td.ours(n.Obj().Pkg()) {
		return false
	}
	if _, ok := n.Underlying().(*types.Struct); !ok {
		return false
	}
	it := td.schemaIface(n.Obj().Pkg())
	if it == nil {
		return false
	}
	ms := ptrMethodSet(n)
	for i := 0; i < it.NumMethods(); i++ {
		m := it.Method(i)
		sel := ms.Lookup(m.Pkg(), m.Name())
		if sel == nil {
			return false
		}
		got, _ := sel.Type().(*types.Signature)
		want, _ := m.Type().(*types.Signature)
		if got == nil || want == nil || got.Params().Len() != want.Params().Len() || got.Results().Len() != want.Results().Len() {
			return false
		}
	}
	return true
}

// ---------------------------------------------------------------------------------------------
// methods of core.ZodTypeInternals, classified from their source (package core is checked from source)

type coreMethod struct {
	writes  map[string]bool // fields of the receiver the method assigns (directly or through another method of the receiver)
	appends bool            // … `z.Checks = append(z.Checks, …)`: one check appended
}

// coreMethods scans every method of core.ZodTypeInternals: which receiver fields it writes. A method with writes is a
// mutator whatever its name is (the translator used to go by the Set…/Add… prefix alone).
func (td *typeData) coreMethods() map[string]*coreMethod {
	out := map[string]*coreMethod{}
	calls := map[string][]string{}
	for _, af := range td.cpkg.files {
		for _, d := range af.Decls {
			fd, ok := d.(*ast.FuncDecl)
			if !ok || fd.Recv == nil || fd.Body == nil || len(fd.Recv.List) != 1 {
				continue
			}
			fn, _ := td.info.Defs[fd.Name].(*types.Func)
			if fn == nil {
				continue
			}
			sig := fn.Type().(*types.Signature)
			if n := namedOf(sig.Recv().Type()); n == nil || n.Obj().Name() != "ZodTypeInternals" {
				continue
			}
			cm := &coreMethod{writes: map[string]bool{}}
			out[fd.Name.Name] = cm
			if len(fd.Recv.List[0].Names) == 0 {
				continue
			}
			recvObj := td.info.Defs[fd.Recv.List[0].Names[0]]
			rooted := func(e ast.Expr) (string, bool) { // field of the receiver an lvalue / operand is rooted at
				var first string
				for {
					switch x := e.(type) {
					case *ast.SelectorExpr:
						first = x.Sel.Name
						e = x.X
					case *ast.IndexExpr:
						e = x.X
					case *ast.StarExpr:
						e = x.X
					case *ast.ParenExpr:
						e = x.X
					case *ast.Ident:
						return first, td.info.Uses[x] == recvObj && recvObj != nil
					default:
						return "", false
					}
				}
			}
			ast.Inspect(fd.Body, func(n ast.Node) bool {
				switch x := n.(type) {
				case *ast.AssignStmt:
					for i, l := range x.Lhs {
						if fld, ok := rooted(l); ok {
							if fld == "" {
								fld = "*"
							}
							cm.writes[fld] = true
							if fld == "Checks" && i < len(x.Rhs) {
								if c, ok := x.Rhs[i].(*ast.CallExpr); ok {
									if id, ok := c.Fun.(*ast.Ident); ok && id.Name == "append" && len(c.Args) == 2 && c.Ellipsis == token.NoPos {
										cm.appends = true
									}
								}
							}
						}
					}
				case *ast.IncDecStmt:
					if fld, ok := rooted(x.X); ok {
						cm.writes[fld] = true
					}
				case *ast.CallExpr:
					switch fun := x.Fun.(type) {
					case *ast.Ident:
						if (fun.Name == "delete" || fun.Name == "clear" || fun.Name == "copy") && len(x.Args) > 0 {
							if fld, ok := rooted(x.Args[0]); ok {
								cm.writes[fld] = true
							}
						}
					case *ast.SelectorExpr:
						if id, ok := fun.X.(*ast.Ident); ok && recvObj != nil && td.info.Uses[id] == recvObj {
							calls[fd.Name.Name] = append(calls[fd.Name.Name], fun.Sel.Name)
						}
						if p, ok := fun.X.(*ast.Ident); ok && p.Name == "maps" && fun.Sel.Name == "Copy" && len(x.Args) > 0 {
							if fld, ok := rooted(x.Args[0]); ok {
								cm.writes[fld] = true
							}
						}
					}
				}
				return true
			})
		}
	}
	for changed := true; changed; { // a method that calls a mutator on its receiver is a mutator
		changed = false
		for m, cs := range calls {
			for _, c := range cs {
				if o := out[c]; o != nil && out[m] != nil {
					for w := range o.writes {
						if !out[m].writes[w] {
							out[m].writes[w] = true
							changed = true
						}
					}
				}
			}
		}
	}
	return out
}
