"""C02 — composite schemas decide exactly by composing their members' verdicts."""
from . import common as C

MANIFEST = dict(
   technique="Lean 4 proof of one composition law per container (slice, array, tuple, map, record, set, object, struct, union, xor, intersection, discriminated union, lazy) over ABSTRACT member schemas (every member environment, so any nesting depth and nil-accepting members), for today's code and the code after the pending patches; differential correspondence of the container model against the real types on generated nestings whose members are of every kind a constructor type-checks (built-in schemas, transforms, pipes, refined / overwriting / coercing schemas, foreign types offering only Parse, exactly core.ZodSchema or exactly core.ZodType[any], also wrapped around generated composites), each container judged against its own members' recorded answers (ParseAny, else Parse); discriminated unions over their option LIST (literal / enum / int-literal / free-form / field-less options, ill-formed lists), the index built by the model and compared with the constructor's; container-level checks of every kind (size, Refine, Overwrite) incl. engine.validatePointer's overwrite pre-pass; Object.Required; go/ast structure fingerprints of the 58 transcribed Go functions",
   text="Theorems c02_slice/array/tuple/map/record/set/object/struct/union/xor/du: the model of each container validator (transcribed from types/*.go, including the engine nil path of internal/engine) accepts iff shape, size checks, unknown-key policy and the members' own verdicts say so, for all member environments. c02_inter_partial and c02_lazy_partial exclude, with witness theorems (c02_inter_full_false, c02_lazy_full_false, c02_lazy_nil_false, c02_union_full_false, c02_nilslice_false, c02_unasked_member_false, c02_array_rest_dropped), the regions where today's code breaks the law; c02_slice_seen / c02_callable_partial state the law over what a container SEES of its members (Cont.seen: a member the code has no entry point on is never asked). The hand-written model is tied to /repo by generated nestings (depth <= 4 quick, <= 6 thorough) with valid instances, every single-location corruption, wrong-shape containers and nil-likes; the harness records each member's own ParseAny answer on every part of the input and Lean evaluates model and law on that table. Round 4: c02_du_law (Proofs/C02Du.lean) proves the discriminated-union law for EVERY input over the option list as written: Cont.buildDiscMap transcribes buildDiscriminatorMap (buildDiscMap_some: the index is the declaration list iff no value is declared twice and some value is declared), parseDUDecl is lookup THEN fallback, Spec.acceptsDU is stated without an index; Proofs/C02Checks.lean: Cont.runOw (Parse with Refine / Overwrite checks: validatePointer's overwrite pre-pass, checks applied to an accepted nil) equals run after /repo 49e6e91 (runOw_eq_run, c02_slice_checks; witness c02_overwrite_skipped_legacy for the code before), Object.Required after /repo 75cf747 (required_fixed_named / required_fixed_other; witnesses required_legacy_all_optional, c02_required_witness). EVERY Cfg switch is pinned in the driver to the behaviour of /repo HEAD (landed fixes: fixed; lazyWrap: false, its finding being open). Round 4c: since /repo 507cd5d the catch-all is consulted in strip mode too (c02_object_catchall is the full statement, the witness is gone); since /repo 05acb23 mergeValues compares the values behind pointer answers (Cont.derefMerge; c02_inter_pointer_sides). The exclusions of c02_inter_partial that remain: a side reports top-level unrecognized keys (open finding, witness c02_inter_full_false), and - part of the right-hand side - the two results must merge (c02_inter_both_partial states 'iff both sides accept' under that hypothesis; no witness theorem: the derived BEq on values inside mergeable does not reduce in proofs). Proofs/C02Spec.lean ties the INDEPENDENT law Spec.accepts (shapeOf: which (location, member, value) triples must be asked + own conditions, written without the model's extractors) to the model of the code BY THEOREM on every input that is not nil-like: c02_slice_spec, c02_array_spec, c02_tuple_spec, c02_map_spec, c02_record_spec, c02_set_spec, c02_object_spec, c02_struct_spec, c02_union_spec, c02_xor_spec (run = Spec.accepts), c02_inter_spec_partial, c02_lazy_spec_partial (under the exclusions above), discriminated union: c02_du_law (every input); nil-like inputs: c02_nil_path + the open findings. NOT claimed: anything about result VALUES - which value an accepting composite returns (element defaults / transforms kept or dropped, unknown keys stripped or kept, the merged value of an intersection) is neither modelled (resv is uninterpreted) nor compared; C02 speaks of verdicts only.",
   note="Trusted: Lean kernel; axioms propext/Classical.choice/Quot.sound only; the Go harness, token codec and comparer. The container model is a hand transcription validated on generated cases, not for all inputs; Go representations outside the generated set (struct inputs to Object, map inputs to Struct, numeric-string record keys, Default/Prefault/Transform on the container itself, struct Partial, loose records over enum keys) are not modelled. Result values are not compared (verdicts only). Known deviations of today's code are listed in known-findings.txt (nil-like inputs never reach union/xor/intersection/lazy members; typed nil slices/maps rejected; catchall ignored in strip mode; intersection drops one-sided unrecognized_keys; lazy never asks targets whose Parse result type is unsupported; Slice/Array never ask a member that is not a core.ZodSchema (pipes were, until ff6dceb); Map/Set/Record/Struct never ask a member without a method named Parse). Which members a container can call is mirrored in the harness from the type assertions / reflective look-ups of types/*.go (cx.Asked). Record key schemas that rewrite the key are not generated. Refine predicates are constants, Overwrite functions the identity. Open: refinements run on an accepted nil (Map/Record/Array wrappers reject nil whatever the predicate). Not modelled: result values, Pick/Omit/Extend/Merge.",
   design="DESIGN.md §5 C02; notes/C02.md")

MODULES = ["Gozod.Proofs.C02", "Gozod.Proofs.C02Du", "Gozod.Proofs.C02Checks", "Gozod.Proofs.C02Spec"]
THEOREMS = ["Gozod.C02." + t for t in [
    "c02_slice", "c02_array", "posOK_iff", "c02_tuple", "c02_map", "c02_set", "c02_record", "c02_object",
    "c02_struct", "c02_union", "c02_xor", "c02_inter_partial", "c02_du", "c02_du_missing", "c02_lazy_partial",
    "c02_nil_path", "engine_nil", "engine_nonNil",
    "c02_union_full_false", "c02_inter_full_false", "c02_lazy_full_false", "c02_lazy_nil_false",
    "c02_nilslice_false", "c02_object_catchall",
    "seen_nil", "acc_seen", "c02_slice_seen", "c02_callable_partial", "c02_unasked_member_false", "c02_array_rest_dropped",
    # round 4: discriminated union over its option list (index construction, lookup THEN fallback)
    "discInsert_some", "discBuildFrom_some", "buildDiscMap_some", "buildDiscMap_none", "lookup_entries",
    "c02_du_law", "parseDUDecl_run", "c02_du_illformed", "c02_du_selects_one",
    # round 4: container-level checks of every kind (Refine, Overwrite), validatePointer's pre-pass
    "runOw_eq_run", "runOw_eq_run_noOverwrite", "sizeOK_custom_false", "sizeOK_cons_overwrite", "sizeOK_cons_custom_true",
    "c02_slice_checks", "c02_overwrite_skipped_legacy", "runOw_issues_sub", "c02_refine_on_nil_legacy", "c02_nil_ignores_refinements",
    # round 4: Object.Required (fixed 75cf747; legacy witnesses)
    "required_fixed_named", "required_fixed_other", "required_legacy_all_optional", "required_legacy_others_optional",
    "c02_required_witness",
    # round 4c (audit LOW): the independent law Spec.accepts related to the model of the code by theorem, per container
    "c02_slice_spec", "c02_array_spec", "c02_tuple_spec", "c02_map_spec", "c02_set_spec", "c02_struct_spec",
    "c02_object_spec", "c02_record_spec", "c02_inter_both_partial", "c02_inter_pointer_sides", "positional_all",
    "c02_union_spec", "c02_xor_spec", "c02_inter_spec_partial", "c02_lazy_spec_partial",
]]

def split(line):
    f = line.split("\t")
    if len(f) >= 2: return f[0], f[1]
    return line, None

def reason_of(line):
    f = line.split("\t")
    return f[2] if len(f) >= 3 else "other"

def key(op, impl, M, S):
    c = C.op_comment(op).split(" ")
    kind = c[1] if len(c) > 1 else "?"
    reason = "other"
    for t in c:
        if t.startswith("reason="): reason = t[7:]
    if impl.startswith("panic:"): return "%s:%s" % (impl, kind)
    if " dm=" in impl:      # discriminated union: the observation also carries the index the constructor built
        v, dm = impl.split(" dm=", 1)
        if (" dm=" + dm) not in (S or ""): return "discriminator-index-differs:%s:impl=%s" % (kind, v)
        impl = v
    return "%s:%s:impl=%s" % (reason, kind, impl)

def describe(op):
    c = C.op_comment(op).strip().split(" ", 3)
    return c[3] if len(c) > 3 else ""

KIND_OF_FILE = {"types/slice.go": "slice", "types/array.go": "array", "types/tuple.go": "tuple", "types/map.go": "map",
                "types/record.go": "record", "types/set.go": "set", "types/object.go": "object", "types/struct.go": "struct",
                "types/union.go": "union", "types/xor.go": "xor", "types/intersection.go": "inter",
                "types/discriminated_union.go": "du", "types/lazy.go": "lazy"}   # engine / issues helpers: every kind

def run(res):
    ok, detail = C.prove(res, MODULES, THEOREMS)
    if not ok:
        C.tie_broken(res, "proof Gozod.Proofs.C02", detail)
    # structure fingerprints (go/ast) of the Go functions Model/Containers.lean transcribes: an edited function aims the run
    # at the container kinds it serves (4x the schemas of those kinds); a function that is gone is a broken tie
    changed = C.fingerprint(res, "C02")
    aim = set()
    for k, lean_def, kind, detail in changed:
        if kind == "missing":
            C.tie_broken(res, "fingerprint " + k, "the Go function %s transcribes is gone or renamed" % lean_def)
        f = k.split(":")[0]
        aim.add(KIND_OF_FILE.get(f, "all"))
    if changed:
        res.notes.append("modelled Go functions edited since the expectation was recorded: " +
                         "; ".join("%s (%s) transcribed by %s" % (c[0], c[2], c[1]) for c in changed) + "; run aimed at " + ",".join(sorted(aim)))
    data, err = C.correspond(res, "C02", extra_args=(["aim=" + ",".join(sorted(aim))] if aim else []))
    if data is None:
        C.tie_broken(res, "correspondence C02/containers", err)
        return res.finish()
    ops, impl, model, stats = data
    ops = [o + " reason=" + reason_of(m) for o, m in zip(ops, model)]
    C.decide(res, "C02", (ops, impl, model, stats), key, "C02/containers", split=split, describe=describe)
    res.coverage["rule"] = ("per container kind N random schemas (26 quick / 220 thorough) of nesting depth 1..4 (thorough 1..6), members drawn "
        "from 20 primitive schemas incl. Nil/Any/Unknown/Never/optional/nilable/defaulted/prefaulted/exact-optional, from nested composites, and (22% of member "
        "positions) from the other member kinds the position type-checks: transform, pipe, refine, overwrite, coerce, Parse-only / ZodSchema-only / ZodType[any]-only "
        "foreign types around leaves and around generated composites (member-kind histogram: stats member:*); "
        "per schema: 2 valid instances, every top-level single-location corruption, 3 deep corruptions, a pointer to the instance, 38 wrong-shape / "
        "nil-like Go values, and the members' own accepted values. distinct = distinct (schema description, input, member verdict table) lines. "
        "cfg (which patched behaviours the tree shows) = " + str(stats.get("cfg")))
    res.assumptions += [
        "each member's recorded own answer (ParseAny, else Parse) is what the container obtains when it asks the member (members are deterministic and side-effect free)",
        "which members a container's code can call at all is mirrored from types/*.go in harness/cx/members.go:Asked (a drift shows as impl != model)",
        "tuple RequiredCount is recomputed by the harness from the members' Optional flags (the field is not exported)",
        "Go representations outside the generated set are not modelled (see level_note)",
    ]
    return res.finish()
