/- GENERATED: no certificate exists for isodatetime: the pattern and the specification differ on the byte string (hex) 303030302d30312d30315430303a30305a (pattern true, specification false). -/
