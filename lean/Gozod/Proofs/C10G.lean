/-
  C10 — `validatePointer`'s pass over the pointer for EVERY schema type (`firstPassG` / `runChecksG` /
  `parsePipelineG`, Model/ChecksC.lean): whatever a type's wrappers do with a raw pointer payload
  (`rawB : P → RawB`, `ow : OwB` — any classification), the reported issues and the returned value are those of
  the regular loop. The classification the driver uses (`Drv.C10U.classOf`) therefore matters for the callback
  log only. The two passes modelled before are instances: `runChecksG_string`, `runChecksG_container`.
-/
import Gozod.Model.ChecksC
import Gozod.Proofs.C10C
namespace Gozod.C10
open Gozod

variable {P O T V : Type}

/-- Once the payload is a plain value the pass over the pointer is the regular loop. -/
theorem firstPassG_cooked (env : Env P O T V) (rawB : P → RawB) (ow : OwB) (cs : List (Check P O)) :
    ∀ (i : Nat) (val : V) (iss : List Nat) (log : List (Ev V)),
      firstPassG env rawB ow i cs val false iss log = runFrom env i cs val iss log := by
  induction cs with
  | nil => intros; rfl
  | cons c cs ih =>
    intro i val iss log
    cases c with
    | overwrite o => simp only [firstPassG, runFrom, Bool.false_and, Bool.false_eq_true, if_false]; exact ih ..
    | pred p abort w =>
      cases w with
      | none =>
        simp only [firstPassG, runFrom, effB, Bool.false_eq_true, if_false]
        by_cases h : env.holds p val = true
        · simp only [h, if_true]; exact ih ..
        · simp only [h, if_false, Bool.false_eq_true]
          by_cases ha : abort = true
          · simp [ha]
          · simp only [ha, if_false, Bool.false_eq_true]; exact ih ..
      | some w =>
        simp only [firstPassG, runFrom, effB, Bool.false_eq_true, if_false]
        by_cases hi : iss ≠ []
        · rw [if_pos hi, if_pos hi]; exact ih ..
        · rw [if_neg hi, if_neg hi]
          by_cases hw : env.holds w val = false
          · rw [if_pos hw, if_pos hw]; exact ih ..
          · rw [if_neg hw, if_neg hw]
            by_cases h : env.holds p val = true
            · simp only [h, if_true]; exact ih ..
            · simp only [h, if_false, Bool.false_eq_true]
              by_cases ha : abort = true
              · simp [ha]
              · simp only [ha, if_false, Bool.false_eq_true]; exact ih ..

/-- Issues only accumulate in the pass over the pointer. -/
theorem firstPassG_issues_ne_nil (env : Env P O T V) (rawB : P → RawB) (ow : OwB) (cs : List (Check P O)) :
    ∀ (i : Nat) (val : V) (raw : Bool) (iss : List Nat) (log : List (Ev V)), iss ≠ [] →
      (firstPassG env rawB ow i cs val raw iss log).issues ≠ [] := by
  induction cs with
  | nil => intro i val raw iss log h; exact h
  | cons c cs ih =>
    intro i val raw iss log h
    cases c with
    | overwrite o => simp only [firstPassG]; split <;> exact ih _ _ _ _ _ h
    | pred p abort w =>
      cases w with
      | none =>
        simp only [firstPassG]
        split
        · exact ih _ _ _ _ _ h
        · split
          · simp
          · exact ih _ _ _ _ _ (by simp)
        · split
          · exact ih _ _ _ _ _ h
          · split
            · simp
            · exact ih _ _ _ _ _ (by simp)
      | some w =>
        simp only [firstPassG]
        rw [if_pos h]; exact ih _ _ _ _ _ h

/-- When the regular loop reports nothing and the pass over the pointer (with overwrites that apply) reports
    nothing either, both thread the same value. -/
theorem firstPassG_of_ok (env : Env P O T V) (rawB : P → RawB) (ow : OwB) (happ : ow.applies = true)
    (cs : List (Check P O)) :
    ∀ (i j : Nat) (val : V) (raw : Bool) (log log' : List (Ev V)),
      (runFrom env j cs val [] log').issues = [] →
      (firstPassG env rawB ow i cs val raw [] log).issues = [] →
      (firstPassG env rawB ow i cs val raw [] log).val = (runFrom env j cs val [] log').val := by
  induction cs with
  | nil => intros; rfl
  | cons c cs ih =>
    intro i j val raw log log' h hg
    have hnil : ¬ (([] : List Nat) ≠ []) := by simp
    cases c with
    | overwrite o =>
      simp only [runFrom] at h ⊢
      simp only [firstPassG, happ, Bool.not_true, Bool.and_false, Bool.false_eq_true, if_false] at hg ⊢
      exact ih _ _ _ _ _ _ h hg
    | pred p abort w =>
      cases w with
      | none =>
        by_cases hp : env.holds p val = true
        · simp only [runFrom, hp, if_true] at h ⊢
          simp only [firstPassG] at hg ⊢
          cases hb : effB rawB raw p with
          | vac => simp only [hb] at hg ⊢; exact ih _ _ _ _ _ _ h hg
          | issue =>
            simp only [hb] at hg ⊢
            exfalso
            by_cases ha : abort = true
            · simp [ha] at hg
            · simp only [ha, Bool.false_eq_true, if_false] at hg
              exact firstPassG_issues_ne_nil env rawB ow cs _ _ _ _ _ (by simp) hg
          | run => simp only [hb, hp, if_true] at hg ⊢; exact ih _ _ _ _ _ _ h hg
        · exfalso
          simp only [runFrom, hp, if_false, Bool.false_eq_true] at h
          by_cases ha : abort = true
          · simp [ha] at h
          · simp only [ha, if_false, Bool.false_eq_true] at h
            exact runFrom_issues_ne_nil env cs _ _ _ _ (by simp) h
      | some w =>
        by_cases hw : env.holds w val = false
        · simp only [runFrom] at h ⊢
          rw [if_neg hnil, if_pos hw] at h ⊢
          simp only [firstPassG] at hg ⊢
          rw [if_neg hnil, if_pos hw] at hg ⊢
          exact ih _ _ _ _ _ _ h hg
        · by_cases hp : env.holds p val = true
          · simp only [runFrom] at h ⊢
            rw [if_neg hnil, if_neg hw, if_pos hp] at h ⊢
            simp only [firstPassG] at hg ⊢
            rw [if_neg hnil, if_neg hw] at hg ⊢
            cases hb : effB rawB raw p with
            | vac => simp only [hb] at hg ⊢; exact ih _ _ _ _ _ _ h hg
            | issue =>
              simp only [hb] at hg ⊢
              exfalso
              by_cases ha : abort = true
              · simp [ha] at hg
              · simp only [ha, Bool.false_eq_true, if_false] at hg
                exact firstPassG_issues_ne_nil env rawB ow cs _ _ _ _ _ (by simp) hg
            | run => simp only [hb, hp, if_true] at hg ⊢; exact ih _ _ _ _ _ _ h hg
          · exfalso
            simp only [runFrom] at h
            rw [if_neg hnil, if_neg hw, if_neg hp] at h
            by_cases ha : abort = true
            · simp [ha] at h
            · simp only [ha, if_false, Bool.false_eq_true] at h
              exact runFrom_issues_ne_nil env cs _ _ _ _ (by simp) h

/-- **C10 for every schema type, value and pointer inputs.** Whatever the type's wrappers do with a raw pointer
    payload, `validatePointer` reports exactly the issues and returns exactly the value of the regular loop: so
    `c10_issue_order`, `c10_first_failing`, `c10_abort_stops`, `c10_ok_iff_no_fail`, `c10_ok_value` hold verbatim —
    in particular an overwrite is applied to the VALUE once (`IntPtr().Overwrite(x+1).Parse(&5)` = 6), although
    its callback is invoked twice. -/
theorem c10_generic_all (env : Env P O T V) (rawB : P → RawB) (ow : OwB) (viaPtr : Bool) (cs : List (Check P O)) (v : V) :
    (runChecksG env rawB ow viaPtr cs v).issues = (runChecks env cs v).issues ∧
    (runChecksG env rawB ow viaPtr cs v).val = (runChecks env cs v).val := by
  unfold runChecksG
  simp only
  by_cases ho : (viaPtr && hasOverwrite cs) = true
  · rw [if_pos ho]
    by_cases hr : (runChecks env cs v).issues ≠ []
    · rw [if_pos hr]; exact ⟨rfl, rfl⟩
    · rw [if_neg hr]
      have hr' : (runChecks env cs v).issues = [] := Decidable.of_not_not hr
      by_cases hc : (ow.applies && (firstPassG env rawB ow 0 cs v true [] []).issues.isEmpty) = true
      · rw [if_pos hc]
        simp only [Bool.and_eq_true, List.isEmpty_iff] at hc
        exact ⟨hr'.symm, firstPassG_of_ok env rawB ow hc.1 cs 0 0 v true [] [] hr' hc.2⟩
      · rw [if_neg hc]; exact ⟨hr'.symm, rfl⟩
  · rw [if_neg ho]; exact ⟨rfl, rfl⟩

/-- Parsing succeeds exactly when no check fails — every type, every input route. -/
theorem c10_generic_ok_iff (env : Env P O T V) (rawB : P → RawB) (ow : OwB) (viaPtr : Bool) (cs : List (Check P O)) (v : V) :
    (runChecksG env rawB ow viaPtr cs v).issues = [] ↔ ∀ k, k < cs.length → failsAt env cs k v = false := by
  rw [(c10_generic_all env rawB ow viaPtr cs v).1]
  exact c10_ok_iff_no_fail env cs v

/-- A rejected input has run the regular loop only: nothing attached after an aborting failure is evaluated,
    over the whole callback log. -/
theorem c10_generic_abort (env : Env P O T V) (rawB : P → RawB) (ow : OwB) (viaPtr : Bool) (cs : List (Check P O)) (v : V) (k : Nat)
    (hk : k ∈ (runChecksG env rawB ow viaPtr cs v).issues) (ha : abortAt cs k = true) :
    ∀ e ∈ (runChecksG env rawB ow viaPtr cs v).log, e.pos ≤ k := by
  have hi := (c10_generic_all env rawB ow viaPtr cs v).1
  have hne : (runChecks env cs v).issues ≠ [] := by
    rw [← hi]; intro h0; rw [h0] at hk; cases hk
  have hrun : runChecksG env rawB ow viaPtr cs v = runChecks env cs v := by
    unfold runChecksG
    simp only
    by_cases ho : (viaPtr && hasOverwrite cs) = true
    · rw [if_pos ho, if_pos hne]
    · rw [if_neg ho]
  rw [hrun] at hk ⊢
  exact (c10_abort_stops env cs v k hk ha).1

/-! ### the two passes modelled before are instances -/

/-- The container classification: vacuous or evaluated, overwrites store a plain value. -/
def vacB (vac : P → Bool) (p : P) : RawB := if vac p then .vac else .run

theorem firstPassG_container (env : Env P O T V) (vac : P → Bool) (cs : List (Check P O)) :
    ∀ (i : Nat) (val : V) (raw : Bool) (iss : List Nat) (log : List (Ev V)),
      firstPassG env (vacB vac) .cook i cs val raw iss log = firstPassC env vac i cs val raw iss log := by
  induction cs with
  | nil => intros; rfl
  | cons c cs ih =>
    intro i val raw iss log
    cases c with
    | overwrite o =>
      simp only [firstPassG, firstPassC, OwB.applies, OwB.staysRaw, Bool.not_true, Bool.and_false, Bool.false_eq_true, if_false]
      exact ih ..
    | pred p abort w =>
      have heff : effB (vacB vac) raw p = if (raw && vac p) = true then RawB.vac else RawB.run := by
        unfold effB vacB; cases raw <;> cases vac p <;> rfl
      cases w with
      | none =>
        simp only [firstPassG, firstPassC, heff]
        by_cases hv : (raw && vac p) = true
        · simp only [hv, if_true]; exact ih ..
        · simp only [hv, Bool.false_eq_true, if_false]
          by_cases h : env.holds p val = true
          · simp only [h, if_true]; exact ih ..
          · simp only [h, if_false, Bool.false_eq_true]
            by_cases ha : abort = true
            · simp [ha]
            · simp only [ha, if_false, Bool.false_eq_true]; exact ih ..
      | some w =>
        simp only [firstPassG, firstPassC, heff]
        by_cases hi : iss ≠ []
        · rw [if_pos hi, if_pos hi]; exact ih ..
        · rw [if_neg hi, if_neg hi]
          by_cases hw : env.holds w val = false
          · rw [if_pos hw, if_pos hw]; exact ih ..
          · rw [if_neg hw, if_neg hw]
            by_cases hv : (raw && vac p) = true
            · simp only [hv, if_true]; exact ih ..
            · simp only [hv, Bool.false_eq_true, if_false]
              by_cases h : env.holds p val = true
              · simp only [h, if_true]; exact ih ..
              · simp only [h, if_false, Bool.false_eq_true]
                by_cases ha : abort = true
                · simp [ha]
                · simp only [ha, if_false, Bool.false_eq_true]; exact ih ..

/-- `runChecksC` (containers) is `runChecksG` with the container classification. -/
theorem runChecksG_container (env : Env P O T V) (vac : P → Bool) (cs : List (Check P O)) (v : V) :
    runChecksG env (vacB vac) .cook true cs v = runChecksC env vac cs v := by
  unfold runChecksG runChecksC
  simp only [Bool.true_and, firstPassG_container, OwB.applies, List.isEmpty_iff]

/-- The string classification: every predicate reports an issue on the raw pointer; overwrites apply only on
    a pointer-typed schema and keep a pointer. -/
def strOw (ptrSchema : Bool) : OwB := if ptrSchema then .stay else .skip

theorem firstPassG_string (env : Env P O T V) (ps : Bool) (cs : List (Check P O)) :
    ∀ (i : Nat) (val : V) (iss : List Nat) (log : List (Ev V)),
      firstPassFrom env ps i cs val (!iss.isEmpty) log =
        ⟨(firstPassG env (fun _ => RawB.issue) (strOw ps) i cs val true iss log).val,
         !(firstPassG env (fun _ => RawB.issue) (strOw ps) i cs val true iss log).issues.isEmpty,
         (firstPassG env (fun _ => RawB.issue) (strOw ps) i cs val true iss log).log⟩ := by
  induction cs with
  | nil => intros; rfl
  | cons c cs ih =>
    intro i val iss log
    have hsnoc : ∀ k, (!(iss ++ [k]).isEmpty) = true := by intro k; cases iss <;> rfl
    cases c with
    | overwrite o =>
      cases ps with
      | true =>
        simp only [firstPassFrom, firstPassG, strOw, if_true, OwB.applies, OwB.staysRaw, Bool.not_true, Bool.and_false,
          Bool.false_eq_true, if_false, Bool.and_true]
        exact ih ..
      | false =>
        simp only [firstPassFrom, firstPassG, strOw, Bool.false_eq_true, if_false, OwB.applies, Bool.not_false, Bool.and_true,
          if_true]
        exact ih ..
    | pred p abort w =>
      cases w with
      | none =>
        simp only [firstPassFrom, firstPassG, effB, if_true]
        by_cases ha : abort = true
        · simp only [ha, if_true, hsnoc]
        · simp only [ha, Bool.false_eq_true, if_false]
          have := ih (i + 1) val (iss ++ [i]) log
          rw [hsnoc] at this; exact this
      | some w =>
        simp only [firstPassFrom, firstPassG, effB, if_true]
        by_cases hi : iss = []
        · subst hi
          simp only [List.isEmpty_nil, Bool.not_true, Bool.false_eq_true, if_false, ne_eq, not_true_eq_false]
          by_cases hw : env.holds w val = false
          · rw [if_pos hw, if_pos hw]; exact ih i.succ val [] _
          · rw [if_neg hw, if_neg hw]
            by_cases ha : abort = true
            · simp only [ha, if_true, List.nil_append]; rfl
            · simp only [ha, Bool.false_eq_true, if_false]
              exact ih i.succ val ([] ++ [i]) _
        · have hd : (!iss.isEmpty) = true := by cases iss with | nil => exact absurd rfl hi | cons => rfl
          have hne : iss ≠ [] := hi
          rw [if_pos hne]
          simp only [hd, if_true]
          have := ih (i + 1) val iss log
          rw [hd] at this; exact this

/-- `runChecksOn` (strings) is `runChecksG` with the string classification. -/
theorem runChecksG_string (env : Env P O T V) (ps pin : Bool) (cs : List (Check P O)) (v : V) :
    runChecksG env (fun _ => RawB.issue) (strOw ps) pin cs v = runChecksOn env ps pin cs v := by
  unfold runChecksG runChecksOn
  have h := firstPassG_string env ps cs 0 v [] []
  simp only [List.isEmpty_nil, Bool.not_true] at h
  simp only [h]
  have happ : (strOw ps).applies = ps := by cases ps <;> rfl
  rw [happ]
  simp only [Bool.not_not]

/-! ### pipelines -/

/-- A base schema succeeds exactly when it takes the input as a value of its type and no check fails;
    it then returns the input threaded through its overwrites. -/
theorem c10_baseG_ok_iff (env : Env P O T V) (cls : Nat → BaseClass P) (ty : Nat → V → Bool)
    (tag : Nat) (ps k : Bool) (cs : List (Check P O)) (v : V) (pin : Bool) :
    (∃ x, (parsePipelineG env cls ty (.base tag ps k cs) v pin).out = .ok x) ↔
      ty tag v = true ∧ ∀ j, j < cs.length → failsAt env cs j v = false := by
  simp only [parsePipelineG]
  by_cases ht : ty tag v = true
  · rw [if_pos ht]
    rw [← c10_generic_ok_iff env (cls tag).rawB (cls tag).ow (pin || (cls tag).wraps) cs v]
    by_cases h : (runChecksG env (cls tag).rawB (cls tag).ow (pin || (cls tag).wraps) cs v).issues = [] <;> simp [h, ht]
  · rw [if_neg ht]; simp [ht]

theorem c10_baseG_ok_value (env : Env P O T V) (cls : Nat → BaseClass P) (ty : Nat → V → Bool)
    (tag : Nat) (ps k : Bool) (cs : List (Check P O)) (v x : V) (pin : Bool)
    (h : (parsePipelineG env cls ty (.base tag ps k cs) v pin).out = .ok x) : x = seenAt env cs cs.length v := by
  simp only [parsePipelineG] at h
  by_cases ht : ty tag v = true
  · rw [if_pos ht] at h
    have h2 := c10_generic_all env (cls tag).rawB (cls tag).ow (pin || (cls tag).wraps) cs v
    by_cases hi : (runChecksG env (cls tag).rawB (cls tag).ow (pin || (cls tag).wraps) cs v).issues = []
    · simp only [hi, if_true] at h
      rw [h2.1] at hi
      injection h with h
      rw [← h, h2.2, c10_ok_value env cs v hi]
    · simp only [hi, if_false] at h; cases h
  · rw [if_neg ht] at h; cases h

/-- A stage that is handed a value of another type fails, the error names THAT stage, and none of its callbacks run. -/
theorem c10_baseG_type_error (env : Env P O T V) (cls : Nat → BaseClass P) (ty : Nat → V → Bool)
    (tag : Nat) (ps k : Bool) (cs : List (Check P O)) (v : V) (pin : Bool) (h : ty tag v = false) :
    (parsePipelineG env cls ty (.base tag ps k cs) v pin).out = .error (tag, [typeErrPos]) ∧
    (parsePipelineG env cls ty (.base tag ps k cs) v pin).log = [] := by
  simp [parsePipelineG, h]

/-- **A Pipe hands the first schema's result to the second and succeeds exactly when both do** (type dispatch and
    pointer pass of every stage included). -/
theorem c10_pipeG_ok_iff (env : Env P O T V) (cls : Nat → BaseClass P) (ty : Nat → V → Bool)
    (a b : PipelineK P O T) (v : V) (pin : Bool) (y : V) :
    (parsePipelineG env cls ty (.pipe a b) v pin).out = .ok y ↔
      ∃ x, (parsePipelineG env cls ty a v pin).out = .ok x ∧
           (parsePipelineG env cls ty b x (parsePipelineG env cls ty a v pin).isPtr).out = .ok y := by
  simp only [parsePipelineG]
  cases h : (parsePipelineG env cls ty a v pin).out with
  | ok x => simp
  | error e => simp

/-- When the first stage of a Pipe fails, the error is the first stage's and the target runs nothing. -/
theorem c10_pipeG_first_fails (env : Env P O T V) (cls : Nat → BaseClass P) (ty : Nat → V → Bool)
    (a b : PipelineK P O T) (v : V) (pin : Bool) (e : Nat × List Nat)
    (h : (parsePipelineG env cls ty a v pin).out = .error e) :
    (parsePipelineG env cls ty (.pipe a b) v pin).out = .error e ∧
    (parsePipelineG env cls ty (.pipe a b) v pin).log = (parsePipelineG env cls ty a v pin).log := by
  simp [parsePipelineG, h]

/-- **A Transform runs once, after everything in its source, and only on success.** -/
theorem c10_transformG_once (env : Env P O T V) (cls : Nat → BaseClass P) (ty : Nat → V → Bool)
    (src : PipelineK P O T) (i : Nat) (t : T) (v : V) (pin : Bool) :
    (∀ x, (parsePipelineG env cls ty src v pin).out = .ok x →
        (parsePipelineG env cls ty (.transform src i t) v pin).out = .ok (env.trans t x) ∧
        (parsePipelineG env cls ty (.transform src i t) v pin).log = (parsePipelineG env cls ty src v pin).log ++ [.tr i x]) ∧
    (∀ e, (parsePipelineG env cls ty src v pin).out = .error e →
        (parsePipelineG env cls ty (.transform src i t) v pin).out = .error e ∧
        (parsePipelineG env cls ty (.transform src i t) v pin).log = (parsePipelineG env cls ty src v pin).log) := by
  constructor
  · intro x hx; simp [parsePipelineG, hx]
  · intro e he; simp [parsePipelineG, he]

/-! non-vacuity: an `issue`-class check before an overwrite, pointer input: accepted, overwrite applied once -/
private def gEnv : Env Nat Nat Nat Nat := ⟨fun p v => v ≥ p, fun o v => v + o, fun t v => v * t⟩

example : (runChecksG gEnv (fun _ => RawB.issue) .cook true [.pred 5 false none, .overwrite 1] 5).val = 6 ∧
    (runChecksG gEnv (fun _ => RawB.issue) .cook true [.pred 5 false none, .overwrite 1] 5).issues = [] ∧
    ((runChecksG gEnv (fun _ => RawB.issue) .cook true [.pred 5 false none, .overwrite 1] 5).log.filter
      (fun e => match e with | .over _ _ => true | _ => false)).length = 2 := by decide

end Gozod.C10
