package cx

// Discriminated unions whose options are of EVERY kind the constructor takes, not only objects with a literal
// discriminator (types/discriminated_union.go: buildDiscriminatorMap indexes the options whose discriminator field
// declares literal / enum values and silently leaves the others out; parseVariant looks the discriminator value up in
// that index and otherwise falls back to trying every option in order):
//
//	lit      t: Literal("p")             indexed under one value
//	enum     t: Enum("p","q")            indexed under two values (both select the same option)
//	intlit   t: Literal(1)               indexed under a value of another Go type
//	free     t: String()                 declares no value: reachable only through the fallback loop (a catch-all option)
//	freemin  t: String().Min(2)          the same, and the discriminator schema itself can reject
//	nofield  no field t at all           the same; in strict mode the discriminator is an unknown key
//	dup      t: Literal(<a value another option declares>)   -> construction error (GenBrokenDU only)
//
// What an option DECLARES is known here from how it was generated (DiscVals); the index the real constructor built is
// read back through DiscriminatorMap() (DiscMap) and compared with the index the Lean model builds from the declarations.

import (
	"fmt"
	"sort"
	"strconv"
	"strings"

	"github.com/kaptinlin/gozod"
	"github.com/kaptinlin/gozod/types"

	"verifharness/hx"
)

// MyStr is a named string type: MyStr("p") != "p" as a map key / interface value.
type MyStr string

var duTags = []string{"p", "q", "r", "s"}

func genDU(r *hx.Rng, d int, s *Sch, broken bool) {
	s.Disc = "t"
	s.DiscMap = map[string]int{}
	n := 1 + r.Intn(4)
	free := 0 // next unused tag
	tag := func() string {
		t := duTags[free%len(duTags)]
		free++
		return t
	}
	indexed := false
	var declared []any
	for i := range n {
		o := &Sch{Kind: "object", Rest: -1, KeyM: -1, ValM: -1, Catchall: -1}
		kind := hx.Pick(r, []string{"lit", "lit", "lit", "enum", "intlit", "free", "freemin", "nofield", "nofield"})
		if forced != nil || (i == n-1 && !indexed) {
			kind = "lit" // GenOver's child sits below an indexed option; at least one option is indexed
		}
		if kind == "enum" && free+2 > len(duTags) {
			kind = "lit"
		}
		if kind == "lit" && free+1 > len(duTags) {
			kind = "intlit"
		}
		if broken && i == n-1 {
			kind = "dup"
			if !indexed {
				kind = "free" // no option declares a value at all
			}
		}
		var dm *Sch
		var vals []any
		switch kind {
		case "lit":
			t := tag()
			dm = leaf(fmt.Sprintf("Literal(%q)", t), gozod.Literal(t), "str", []any{t}, []any{"zz"}, []any{1})
			vals = []any{t}
		case "enum":
			a, b := tag(), tag()
			dm = leaf(fmt.Sprintf("Enum(%q,%q)", a, b), gozod.Enum(a, b), "str", []any{a, b}, []any{"zz"}, []any{1})
			vals = []any{a, b}
		case "intlit":
			k := 1 + i
			dm = leaf(fmt.Sprintf("Literal(%d)", k), gozod.Literal(k), "int", []any{k}, []any{99}, []any{"1"})
			vals = []any{k}
		case "dup":
			v := hx.Pick(r, declared)
			switch t := v.(type) {
			case string:
				dm = leaf(fmt.Sprintf("Literal(%q)", t), gozod.Literal(t), "str", []any{t}, []any{"zz"}, []any{1.5})
			case int:
				dm = leaf(fmt.Sprintf("Literal(%d)", t), gozod.Literal(t), "int", []any{t}, []any{99}, []any{1.5})
			}
			vals = []any{v}
		case "free":
			dm = leaf("String()", gozod.String(), "str", []any{"zz", "free", "p", "q"}, nil, []any{1, nil})
		case "freemin":
			dm = leaf("String().Min(2)", gozod.String().Min(2), "str", []any{"zz", "free"}, []any{"p", ""}, []any{1, nil})
		}
		indexed = indexed || len(vals) > 0
		declared = append(declared, vals...)
		genObject(r, d, o, &objOpts{fields: []string{"a", "b"}[:1+r.Intn(2)], discM: dm, nofield: kind == "nofield"})
		s.Members = append(s.Members, o)
		s.DiscVals = append(s.DiscVals, vals)
	}
	s.Broken = broken
	s.GoT = "mapSA"
	s.Mods = pickMods(r)
	z := types.DiscriminatedUnion("t", zs(s.Members))
	// the dispatch table the constructor built, read back from the schema (exported accessor)
	for dv, target := range z.DiscriminatorMap() {
		for i, m := range s.Members {
			if m.Z == target {
				s.DiscMap[AtomKey(dv)] = i
			}
		}
	}
	switch {
	case s.Mods[0]:
		s.Z = z.Optional()
	case s.Mods[1]:
		s.Z = z.Nilable()
	default:
		s.Z = z
	}
	s.Name = fmt.Sprintf("DiscriminatedUnion(\"t\", [%s])%s", names(s.Members), modsSuffix(s.Mods))
}

// GenBrokenDU builds a discriminated union whose option list is ill-formed: a discriminator value declared by two
// options, or no option declaring any (the constructor records a construction error, every Parse answers invalid_schema).
func GenBrokenDU(r *hx.Rng, depth int) *Sch {
	s := &Sch{Kind: "du", Rest: -1, KeyM: -1, ValM: -1, Catchall: -1}
	genDU(r, depth-1, s, true)
	return s
}

// DiscMapTok renders the index the real constructor built: "id:member,…" sorted, "-" when empty.
func (s *Sch) DiscMapTok() string {
	var dm []string
	for k, i := range s.DiscMap {
		dm = append(dm, fmt.Sprintf("%d:%d", Intern(k), i))
	}
	if len(dm) == 0 {
		return "-"
	}
	sort.Slice(dm, func(i, j int) bool {
		a, _ := strconv.Atoi(strings.SplitN(dm[i], ":", 2)[0])
		b, _ := strconv.Atoi(strings.SplitN(dm[j], ":", 2)[0])
		return a < b
	})
	return strings.Join(dm, ",")
}

// DUInputs: the instance with its discriminator replaced by every declared value, undeclared values of the same Go
// type, values of other Go types (int, float, bool, nil, a named string type, another integer width), a pointer, an
// unhashable value; and the instance without the discriminator.
func (s *Sch) DUInputs(v map[string]any) []map[string]any {
	p := "p"
	dvs := []any{"p", "q", "r", "s", "zz", "free", "", 1, 2, 3, 99, 3.5, true, nil, MyStr("p"), int64(1), &p, []any{"p"}, map[string]any{"p": 1}}
	var out []map[string]any
	with := func(set bool, dv any) {
		c := map[string]any{}
		for a, b := range v {
			if a != s.Disc {
				c[a] = b
			}
		}
		if set {
			c[s.Disc] = dv
		}
		out = append(out, c)
	}
	for _, dv := range dvs {
		with(true, dv)
	}
	with(false, nil)
	return out
}
