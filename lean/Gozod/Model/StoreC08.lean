/-
  C08-specific extensions of the store model (`Gozod.Model.Store` is shared with C12 / C15 and left as it is).

  1. The METHOD TABLE language: the types of the rows of `Gen/MethodOps.lean`, regenerated on every run by
     harness/opsgen (go/ast over types/*.go and core/transform.go): per exported method of a schema type whose result
     can be a schema — by which route the result is built, how many checks are appended to the cloned internals, where
     each type-local reference field of the result comes from, and every write rooted at the receiver.
  2. `XOp`: the op classes of `Store.Op` plus the two the driver used to model ad hoc — `refilter`
     (ZodEmail.withEmailPattern: Clone, `Checks` replaced by a freshly made slice, appends) and `access`
     (accessors hand out an existing schema: no store effect).
  3. The meaning of a row: `MethodResult.denote` (row × run-time parameters ↦ `XOp` + per-slot actions) and the
     classification `MethodRow.cls` (covered / metaSelf exception / memo exception / bad).
  4. `NSchema`: a schema with ANY number of type-local reference slots (Shape, PartialExceptions, Options, Items,
     Entries, DiscMap, …), `SlotAct` what a call does to each.
  5. Object content (types/object.go, types/struct.go): `OSchema` with Shape / PartialExceptions CONTENT, UnknownKeys,
     Catchall, IsPartial; the derivations Extend / SafeExtend / Merge / Pick / Omit / Partial / Required / Strict / Strip /
     Passthrough / WithCatchall as store operations; `objParse` (verdict of an object schema on a set of present keys)
     and `objDoc` (required list / additionalProperties of its JSON Schema) as functions of the observation.
-/
import Gozod.Model.Store
namespace Gozod.StoreC08
open Gozod.Store

/-! ## 1. rows of the regenerated method table -/

/-- by which route a method builds its result -/
inductive Route
  | clone        -- `z.internals.Clone()` … `z.withInternals(in)` / `withPtrInternals` / a struct literal over `*in`
  | structcopy   -- a struct literal over the receiver's OWN core internals (`ZodString.withMeta`): every reference shared
  | recvptr      -- a new schema object holding the receiver's internals POINTER
  | self         -- `return z`
  | ctor         -- a package-level constructor / a constructor-style literal (nothing of the receiver's core internals)
  | wrap         -- a constructor whose result holds the receiver as a member (And, Or, Transform, Pipe, Optional(z), …)
  | access       -- an existing inner schema / argument is handed out
  | none         -- every `return` is nil: never a schema
  | unknown
deriving DecidableEq, Repr, Inhabited

/-- where a type-local reference field of the result comes from -/
inductive Origin
  | shared (path : String)       -- the receiver's field `path` (reference copied)
  | sharedCore (path : String)   -- a reference field of the receiver's core internals
  | fresh                         -- make / maps.Clone / a literal
  | nil
  | arg
  | ctor
  | value                         -- a non-reference value
  | append (path : String)        -- append(z.internals.<path>, …): may alias the receiver's backing array
  | unknown
deriving DecidableEq, Repr, Inhabited

structure MethodResult where
  route : Route
  adds : Nat          -- AddCheck calls on the cloned internals (static count)
  loop : Bool         -- … some of them inside a loop
  bag : Bool          -- the cloned Bag is written (`Record.Partial`)
  refilter : Bool     -- the cloned `Checks` slice is replaced
  ctor : String
  locals : List (String × List Origin)
deriving DecidableEq, Repr, Inhabited

/-- a write whose target is rooted at the receiver -/
inductive RecvWrite
  | write (what : String)
  | onceMemo (path : String)      -- inside `sync.Once.Do`: a cache fill (ZodLazy.resolveInner)
deriving DecidableEq, Repr, Inhabited

structure MethodRow where
  typ : String
  method : String
  owner : String                   -- declaring type (≠ typ for methods promoted from an embedded schema)
  results : List MethodResult      -- one per syntactically possible result
  recvWrites : List RecvWrite
  regRecv : Bool                   -- GlobalRegistry.Add(receiver, …)
  regResult : Bool
  unknown : List String            -- constructs the translator could not follow
  checkCalls : List String         -- methods called on check OBJECTS taken from a Checks slice: `Internals.Clone` copies the
                                   -- slice, so the objects are shared by pointer with the receiver and all its relatives; whether
                                   -- such a call writes the object is not visible to the translator
deriving Repr, Inhabited

/-! ## 2. extended op classes -/

inductive XOp
  | base (op : Op)
  | refilter (flags : Nat) (kept : List Nat) (spare : Nat) (reg : Option Nat)
      -- Clone; `Checks = removeEmailChecks(Checks)` (`make([]ZodCheck, 0, len)`: a new array); AddCheck appends go into
      -- that array or a grown one — either way a fresh location.  `kept`: the final content, `spare`: free cells left
  | access       -- no store effect; the "result" is a schema that already exists
deriving DecidableEq, Repr

/-- `ZodEmail.withEmailPattern` and `Tuple.WithRest`-style results: cloned internals whose check slice is re-made. -/
def applyRefilter (cfg : Cfg) (σ : Store) (recv : Schema) (fl : Nat) (kept : List Nat) (spare : Nat) (m : Option Nat) :
    Store × Schema :=
  let (σ1, c) := clone cfg σ recv
  let (σ2, a) := alloc σ1 (.arr (kept ++ List.replicate spare 0))
  withInternals σ2 recv { c with flags := fl, checks := ⟨a, kept.length, kept.length + spare⟩ } m

def applyXOp (cfg : Cfg) (σ : Store) (recv : Schema) : XOp → Store × Schema
  | .base op => applyOp cfg σ recv op
  | .refilter fl kept spare m => applyRefilter cfg σ recv fl kept spare m
  | .access => (σ, recv)

/-- is the result of the op a NEW schema (chaining) or an existing one (accessor)? -/
def XOp.chains : XOp → Bool
  | .access => false
  | _ => true

/-! ## 3. what a row means -/

/-- run-time parameters of a call that the source does not fix (argument values, the receiver's state, what the
    constructor called built): the theorems quantify over all of them. -/
structure Params where
  flags : Nat := 0
  cks : List Nat := []            -- ids of the appended checks
  reg : Option Nat := none
  regv : Nat := 0
  key : Nat := 4
  val : Nat := 1
  kind : Nat := 0
  cap : Nat := 0
  wb : Bool := false
  wv : Bool := false
  ws : Bool := false
  kept : List Nat := []
  spare : Nat := 0
deriving Repr

/-- The store operation a result-row denotes for given run-time parameters.  `regRecv` is the row's flag
    "GlobalRegistry.Add(receiver, …)". -/
def MethodResult.denote (r : MethodResult) (regRecv : Bool) (p : Params) : XOp :=
  match r.route with
  | .clone =>
    if r.refilter then
      .refilter p.flags (p.kept ++ p.cks) (if (p.kept ++ p.cks).isEmpty then 0 else p.spare) p.reg
    else if r.bag then .base (.bagWrite p.key p.val)
    else .base (.derive p.flags p.cks p.reg)
  | .structcopy => .base (.copyMeta p.regv)
  | .self => if regRecv then .base (.metaSelf p.regv) else .access
  | .ctor | .wrap =>
    .base (.rebuild p.kind p.flags p.cks (if p.cks.isEmpty then 0 else max p.cap p.cks.length) p.wb p.wv p.ws)
  | .access | .none => .access
  | .recvptr | .unknown => .base (.metaSelf p.regv)      -- not understood / shares the internals pointer: treated as the worst class

/-- the number of appended checks a row predicts is the static count, unless some AddCheck sits in a loop or branch -/
def MethodResult.addsOk (r : MethodResult) (k : Nat) : Bool := if r.loop then true else r.adds == k

def Origin.safe : Origin → Bool
  | .shared _ | .sharedCore _ | .fresh | .nil | .arg | .ctor | .value => true
  | .append _ | .unknown => false

/-- what a call does to one type-local reference slot of the result -/
inductive SlotAct
  | share                          -- the receiver's reference is copied (`newObjectInternals`, `withInternals`)
  | fresh (content : List Nat)     -- a map / slice the call made itself (or was given as an argument)
  | drop                           -- nil
deriving DecidableEq, Repr

/-- the slot actions an origin allows (`none`: the origin is not one `c08n_step` covers) -/
def Origin.acts : Origin → Option (List Nat → SlotAct)
  | .shared _ | .sharedCore _ => some (fun _ => .share)
  | .fresh | .arg | .ctor | .value => some (fun c => .fresh c)
  | .nil => some (fun _ => .drop)
  | .append _ | .unknown => none

def MethodResult.localsSafe (r : MethodResult) : Bool := r.locals.all (fun f => f.2.all Origin.safe)

/-- a result-row whose store operation `c08x_step` covers -/
def MethodResult.covered (r : MethodResult) (regRecv : Bool) : Bool :=
  r.localsSafe &&
  (match r.route with
   | .clone | .structcopy | .ctor | .wrap | .access | .none => true
   | .self => !regRecv
   | .recvptr | .unknown => false)

inductive RowClass
  | covered      -- every possible result is an op class `c08x_step` covers, nothing rooted at the receiver is written
  | metaSelf     -- `GlobalRegistry.Add(z, …); return z`: the excluded class (witness: `metaSelf_row_violates`)
  | memo         -- the only receiver writes are sync.Once-guarded cache fills (ZodLazy.resolveInner)
  | bad          -- anything else: a receiver write, an untracked construct, an uncovered route, a method call on a shared check object
deriving DecidableEq, Repr

def RecvWrite.isMemo : RecvWrite → Bool
  | .onceMemo _ => true
  | .write _ => false

def MethodRow.isMetaSelf (r : MethodRow) : Bool :=
  r.regRecv && r.recvWrites.isEmpty && r.unknown.isEmpty &&
  (match r.results with
   | [x] => (match x.route with | .self => true | _ => false)
   | _ => false)

def MethodRow.cls (r : MethodRow) : RowClass :=
  if r.isMetaSelf then .metaSelf
  else if !r.unknown.isEmpty || r.regRecv || r.results.isEmpty || !r.checkCalls.isEmpty then .bad
  else if !(r.results.all (fun x => x.covered false)) then .bad
  else if r.recvWrites.isEmpty then .covered
  else if r.recvWrites.all RecvWrite.isMemo then .memo
  else .bad

/-- lookup by (type, method) — used by the driver only -/
def findRow (tbl : List MethodRow) (typ method : String) : Option MethodRow :=
  tbl.find? (fun r => r.typ == typ && r.method == method)

/-! ## 4. any number of type-local reference slots -/

structure NSchema where
  s : Schema
  slots : List (Option Loc)        -- each a `vals` cell: key ids / member identities
deriving DecidableEq, Repr

structure NObs where
  base : Obs
  slots : List (Option (List Nat))
deriving DecidableEq, Repr

def obsN (h : Loc → Option Cell) (x : NSchema) : NObs := ⟨obs h x.s, x.slots.map (readVals h)⟩

def applySlot (σ : Store) (old : Option Loc) : SlotAct → Store × Option Loc
  | .share => (σ, old)
  | .fresh c => let a := alloc σ (.vals c); (a.1, some a.2)
  | .drop => (σ, none)

/-- slot by slot; a result with more slots than the receiver (another type) starts them from nil -/
def applySlots : Store → List (Option Loc) → List SlotAct → Store × List (Option Loc)
  | σ, _, [] => (σ, [])
  | σ, olds, a :: as =>
    let r := applySlot σ olds.head?.join a
    let rest := applySlots r.1 olds.tail as
    (rest.1, r.2 :: rest.2)

def applyNOp (cfg : Cfg) (σ : Store) (recv : NSchema) (op : XOp) (acts : List SlotAct) : Store × NSchema :=
  let r := applyXOp cfg σ recv.s op
  let s := applySlots r.1 recv.slots acts
  (s.1, ⟨r.2, s.2⟩)

/-! ## 5. object content -/

/-- value-typed type-local state of `ZodObjectInternals` / `ZodStructInternals` -/
structure ObjV where
  mode : Nat                 -- UnknownKeys: 0 strip, 1 strict, 2 passthrough
  catchall : Option Loc      -- identity of the catchall schema (an immutable reference)
  isPartial : Bool
deriving DecidableEq, Repr

structure OSchema where
  s : Schema                 -- `s.shape`: the Shape map (field id ↦ member identity)
  exc : Option Loc           -- PartialExceptions (a `vals` cell of field ids)
  req : Option Loc           -- RequiredKeys (since /repo 75cf747): the fields `Required` made mandatory
  v : ObjV
deriving DecidableEq, Repr

structure OObs where
  base : Obs
  exc : Option (List Nat)
  req : Option (List Nat)
  v : ObjV
deriving DecidableEq, Repr

def obsO (h : Loc → Option Cell) (x : OSchema) : OObs := ⟨obs h x.s, readVals h x.exc, readVals h x.req, x.v⟩

abbrev ShapeV := List (Nat × Loc)

def shapeGet (sh : ShapeV) (k : Nat) : Option Loc := (sh.find? (fun p => p.1 == k)).map (·.2)
def shapeKeys (sh : ShapeV) : List Nat := sh.map (·.1)

/-- `m[k] = v` on a Go map kept as an association list (first occurrence wins on lookup; keys stay unique) -/
def shapeSet (sh : ShapeV) (k : Nat) (v : Loc) : ShapeV :=
  if sh.any (fun p => p.1 == k) then sh.map (fun p => if p.1 == k then (k, v) else p) else sh ++ [(k, v)]

/-- `maps.Copy(dst, src)` -/
def shapeCopy (dst src : ShapeV) : ShapeV := src.foldl (fun d p => shapeSet d p.1 p.2) dst

/-- `Pick`: `newShape[key] = z.Shape[key]` for each key; an unknown key is an error (no result) -/
def shapePick (sh : ShapeV) : List Nat → Option ShapeV
  | [] => some []
  | k :: ks => match shapeGet sh k, shapePick sh ks with
    | some v, some rest => some (shapeSet rest k v)
    | _, _ => none

/-- `Omit`: every key must exist; the fields not listed are kept -/
def shapeOmit (sh : ShapeV) (ks : List Nat) : Option ShapeV :=
  if ks.all (fun k => (shapeGet sh k).isSome) then some (sh.filter (fun p => !ks.contains p.1)) else none

/-- the derivations of types/object.go that touch type-local state -/
inductive ObjOp
  | extend (aug : ShapeV) (keepChecks : Bool)   -- Extend / SafeExtend / Merge(other): maps.Clone(Shape); maps.Copy(·, aug); ObjectTyped
  | pick (ks : List Nat)                        -- Pick / MustPick
  | omitKeys (ks : List Nat)                    -- Omit / MustOmit
  | partialAll                                  -- Partial()
  | partialKeys (ks : List Nat)                 -- Partial(keys): exceptions = Shape keys minus keys
  | requiredAll                                 -- Required(): RequiredKeys = every Shape key
  | requiredKeys (ks : List Nat)                -- Required(fields): RequiredKeys = the receiver's ∪ fields
  | mode (m : Nat)                              -- Strict / Strip / Passthrough (withUnknownKeys)
  | catchall (c : Loc)                          -- WithCatchall
  | common (op : Op)                            -- every other chaining call (checks, modifiers, Describe, Refine, …)
deriving DecidableEq, Repr

/-- `ObjectTyped(newShape)`: a constructor-built object — fresh core internals, the given shape in a fresh map, default
    unknown-keys mode, not partial, no exceptions, no required keys.  `cks`: checks carried over by `Extend` on a refined schema. -/
def objConstruct (σ : Store) (kind : Nat) (sh : ShapeV) (cks : List Nat) : Store × OSchema :=
  let (σ1, a) := alloc σ (.arr cks)
  let (σ2, b) := alloc σ1 (.bag [])
  let (σ3, s) := alloc σ2 (.shape sh)
  let (σ4, l) := alloc σ3 (.reg none)
  (σ4, ⟨{ self := l, kind := kind, flags := 0, checks := ⟨a, cks.length, cks.length⟩, bag := some b, values := none,
          shape := some s, dflt := none }, none, none, ⟨0, none, false⟩⟩)

/-- Clone + `newObjectInternals` (every type-local field copied, the two key-set REFERENCES included) + the field updates of
    the method: what becomes of PartialExceptions (`exc`) and of RequiredKeys (`req`) — reference kept / a map the call
    made itself (`make(map[string]bool)`, filled before the result exists) / nil. -/
def objDerive (cfg : Cfg) (σ : Store) (recv : OSchema) (v : ObjV) (exc req : SlotAct) : Store × OSchema :=
  let r := applyOp cfg σ recv.s (.derive recv.s.flags [] none)
  let e := applySlot r.1 recv.exc exc
  let q := applySlot e.1 recv.req req
  (q.1, ⟨r.2, e.2, q.2, v⟩)

/-- `ZodObject.Partial(keys)` on RequiredKeys (types/object.go): no exceptions → nil; a non-empty receiver set → a fresh
    map with the required keys that stay exceptions (Partial wins for the fields it makes optional); otherwise the
    receiver's reference -/
def partialReq (reqOld : Option (List Nat)) (newExc : Option (List Nat)) : SlotAct :=
  match newExc with
  | none => .drop
  | some ex => if (reqOld.getD []).isEmpty then .share else .fresh ((reqOld.getD []).filter (fun k => ex.contains k))

/-- set union on key lists (a Go map as a duplicate-free list) -/
def keyUnion (a b : List Nat) : List Nat := a ++ b.filter (fun k => !a.contains k)

def applyObjOp (cfg : Cfg) (σ : Store) (recv : OSchema) : ObjOp → Option (Store × OSchema)
  | .extend aug keep =>
    let sh := (readShape σ.heap recv.s.shape).getD []
    some (objConstruct σ recv.s.kind (shapeCopy sh aug) (if keep then readArr σ.heap recv.s.checks else []))
  | .pick ks =>
    (shapePick ((readShape σ.heap recv.s.shape).getD []) ks).map (fun sh => objConstruct σ recv.s.kind sh [])
  | .omitKeys ks =>
    (shapeOmit ((readShape σ.heap recv.s.shape).getD []) ks).map (fun sh => objConstruct σ recv.s.kind sh [])
  | .partialAll => some (objDerive cfg σ recv { recv.v with isPartial := true } .drop .drop)
  | .partialKeys ks =>
    let keys := shapeKeys ((readShape σ.heap recv.s.shape).getD [])
    if ks.isEmpty then some (objDerive cfg σ recv { recv.v with isPartial := true } .drop .drop)
    else
      let ex := keys.filter (fun k => !ks.contains k)
      some (objDerive cfg σ recv { recv.v with isPartial := true } (.fresh ex) (partialReq (readVals σ.heap recv.req) (some ex)))
  | .requiredAll =>
    some (objDerive cfg σ recv recv.v .share (.fresh (shapeKeys ((readShape σ.heap recv.s.shape).getD []))))
  | .requiredKeys ks =>
    if ks.isEmpty then some (objDerive cfg σ recv recv.v .share (.fresh (shapeKeys ((readShape σ.heap recv.s.shape).getD []))))
    else some (objDerive cfg σ recv recv.v .share (.fresh (keyUnion ((readVals σ.heap recv.req).getD []) ks)))
  | .mode m => some (objDerive cfg σ recv { recv.v with mode := m } .share .share)
  | .catchall c => some (objDerive cfg σ recv { recv.v with catchall := some c } .share .share)
  | .common op => let r := applyOp cfg σ recv.s op; some (r.1, ⟨r.2, recv.exc, recv.req, recv.v⟩)

/-- Object histories: each step applies an op to the `i`-th live schema; a successful result joins the live list. -/
def runObjHist (cfg : Cfg) : Store → List OSchema → List (Nat × ObjOp) → Store × List OSchema
  | σ, live, [] => (σ, live)
  | σ, live, (i, op) :: rest =>
    match live[i]? with
    | none => runObjHist cfg σ live rest
    | some recv =>
      match applyObjOp cfg σ recv op with
      | none => runObjHist cfg σ live rest
      | some r => runObjHist cfg r.1 (live ++ [r.2]) rest

/-! ### behaviour of an object schema as a function of its observation

  The input is abstracted to what the object layer looks at: which keys are present, and for every member schema
  whether it accepts the value under that key (`memberOk`) and whether it is optional (`memberOpt`) — both are
  properties of OTHER schemas, referenced by identity.  (types/object.go `parseObject…`, jsonschema/to.go objects.) -/

structure ObjInput where
  present : List Nat               -- keys present in the input map
deriving DecidableEq, Repr

/-- `ZodObject.isFieldOptional`: field `k` may be absent unless `Required` recorded it; then: the object is partial and `k`
    is not an exception, or the member is optional -/
def fieldOptional (o : OObs) (memberOpt : Loc → Bool) (k : Nat) (m : Loc) : Bool :=
  if (o.req.getD []).contains k then false
  else memberOpt m || (o.v.isPartial && !((o.exc.getD []).contains k))

/-- `ZodObject.validateObject` (types/object.go): every shape field present and accepted by its member, or absent and
    optional (`isFieldOptional`); unknown keys: strict → rejected, strip → dropped, passthrough → kept, after validation by
    the catchall when there is one (since /repo 507cd5d the catchall validates unknown keys in strip mode too; they are still dropped).  `none` = rejected, `some ks` =
    accepted with output keys `ks`. -/
def objParse (o : OObs) (memberOk : Loc → Nat → Bool) (memberOpt : Loc → Bool) (inp : ObjInput) : Option (List Nat) :=
  let sh := o.base.shape.getD []
  let fieldsOk := sh.all (fun p => if inp.present.contains p.1 then memberOk p.2 p.1 else fieldOptional o memberOpt p.1 p.2)
  let known := inp.present.filter (fun k => (shapeKeys sh).contains k)
  let unknown := inp.present.filter (fun k => !(shapeKeys sh).contains k)
  if !fieldsOk then none
  else if o.v.mode == 1 then (if unknown.isEmpty then some known else none)
  else if o.v.mode == 2 then
    match o.v.catchall with
    | some c => if unknown.all (fun k => memberOk c k) then some (known ++ unknown) else none
    | none => some (known ++ unknown)
  else
    -- strip: unknown keys are omitted from the result; since /repo 507cd5d a catchall still validates them
    match o.v.catchall with
    | some c => if unknown.all (fun k => memberOk c k) then some known else none
    | none => some known

/-- object part of the JSON Schema (jsonschema/to.go `convertObjectFromShape`): properties, required = the fields the OBJECT
    says may not be absent (since /repo 792c820 the converter asks `IsFieldOptional`, i.e. `fieldOptional`: RequiredKeys, then
    the partial state, then the member's own flag — before that only the member's flag), additionalProperties = the catchall's
    document when there is one, else the boolean "mode is passthrough". -/
structure ObjDoc where
  props : ShapeV
  required : List Nat
  additional : Nat × Option Loc      -- (0 false | 1 true | 2 schema, the catchall)
  reg : Option Nat
deriving DecidableEq, Repr

def objDoc (o : OObs) (memberOpt : Loc → Bool) : ObjDoc :=
  let sh := o.base.shape.getD []
  { props := sh,
    required := (sh.filter (fun p => !fieldOptional o memberOpt p.1 p.2)).map (·.1),
    additional := match o.v.catchall with
      | some c => (2, some c)
      | none => (if o.v.mode == 2 then 1 else 0, none),
    reg := o.base.reg }

end Gozod.StoreC08
