/-
  Gozod.Model.Complex — `ParseComplex` and `ParseComplexStrict` (internal/engine/parser.go:107-188 after
  692881a, with `processModifiersCore` modifiers.go:42-91, `parseComplexValue` :859-884,
  `handleNilComplex` :268-283, `validatePointer` :949-976 (after 49e6e91), `validateValue` :891-909,
  `applyTransformIfPresent` modifiers.go:98-107), the `legacy…` `ParseComplexStrict` of the parent of
  692881a, and the `Must*` wrapper every schema type carries.

  Everything type-specific is a parameter (`CEnv`): the validator, what the pointer pass over the
  checks does, what the checks do on a default value / on nil, the transform. The extractors are
  part of the input (`CIn`): what `ptrExtractor` / `typeExtractor` answer on it. So the theorems hold
  for every schema type that routes through these two functions.
-/
import Gozod.Model.Prim
namespace Gozod.Cpx
open Gozod

/-- What `ParseComplex` hands back (an `any` plus an error), by Go shape. -/
inductive Res (V E : Type) where
  | val (v : V)      -- a `T`
  | ptr (v : V)      -- a non-nil `*T`
  | nilPtr           -- a nil `*T`
  | nil              -- untyped nil
  | err (e : E)
  deriving Repr, DecidableEq

/-- An input as the engine sees it. -/
structure CIn (V : Type) where
  isNil : Bool                      -- `isNilInput(input)`: nil, or a nil pointer / slice / map / func / chan / interface
  untyped : Bool                    -- `input == nil`
  ptrEx : Option (Option V)         -- `ptrExtractor(input)`: not ok / ok with a nil pointer / ok with a pointer to v
  typEx : Option V                  -- `typeExtractor(input)`
  deriving Repr

/-- Schema configuration: the modifier fields and checks of `Prim.Internals` plus what only the complex
    path consults. -/
structure CCfg (P O T V : Type) where
  i : Prim.Internals P O V
  transform : Option T := none      -- `internals.Transform`
  isLazy : Bool := false            -- `expectedType == core.ZodTypeLazy`
  hasValidator : Bool := true       -- `validator != nil`
  tIsPtr : Bool := false            -- `reflect.TypeFor[T]().Kind() == reflect.Pointer`
  isStruct : Bool := false          -- `expectedType == core.ZodTypeStruct` (legacy fast paths only)
  isNilType : Bool := false         -- `expectedType == core.ZodTypeNil`
  ptrExTakesValues : Bool := false  -- the type's `ptrExtractor` also accepts a `T` (ZodSlice: `&s`)

/-- The type-specific callbacks. -/
structure CEnv (P O T V E : Type) where
  validate : List (Check P O) → V → Except E V         -- the type's validator
  firstPass : List (Check P O) → V → Option V          -- `validatePointerWithOverwrite`: `some v'` = no error and a new pointer
  checksOnDefault : List (Check P O) → V → Res V E      -- `ApplyChecks(v, checks)` on a default value (an overwrite is present)
  checksOnNil : List (Check P O) → Res V E              -- `ApplyChecks[any](nil, overwriteChecks(checks))` (Nil type: `filterNilChecks`)
  trans : T → Res V E → Res V E                         -- `internals.Transform` (never called on `err`)
  typeErr : E                                           -- `issues.CreateInvalidTypeError`
  nonOptErr : E                                         -- `issues.CreateNonOptionalError`

section
variable {P O T V E : Type}

/-- `filterNilChecks` (modifiers.go:109-127): overwrite, refine and custom checks. -/
def nilApplicable (i : Prim.Internals P O V) : List (Check P O) → List (Check P O)
  | [] => []
  | .overwrite o :: cs => .overwrite o :: nilApplicable i cs
  | .pred p a w :: cs => if i.isRefine p then .pred p a w :: nilApplicable i cs else nilApplicable i cs

/-- `(value, handled, err)` of `processModifiersCore`. -/
inductive PM (V E : Type) where
  | pass                          -- `(nil, false, nil)`: the input is not nil
  | prefault (v : V)              -- `(prefault, false, nil)`
  | handled (r : Res V E)         -- `(r, true, err)`

/-- `resolveDefault`: `DefaultValue` first, then `DefaultFunc`. -/
def resolveDefault (i : Prim.Internals P O V) : Option V :=
  match i.dv with
  | some d => some d
  | none => i.df

/-- `processModifiersCore` (Default > Prefault > NonOptional > Optional/Nilable/pointer > Unknown). -/
def pmCore (env : CEnv P O T V E) (c : CCfg P O T V) (isNil : Bool) : PM V E :=
  if !isNil then .pass
  else match resolveDefault c.i with
    | some d => if hasOverwrite c.i.checks then .handled (env.checksOnDefault c.i.checks d) else .handled (.val d)
    | none =>
      match c.i.pv with
      | some p => .prefault p
      | none =>
        match c.i.pf with
        | some p => .prefault p
        | none =>
          if c.i.nonOptional && !c.tIsPtr then .handled (.err env.nonOptErr)
          else if c.i.optional || c.i.nilable || c.tIsPtr then
            -- /repo 7db47f1: an accepted nil only meets the overwrite checks; for the Nil type nil IS the value and every
            -- nil-capable check runs (`filterNilChecks`)
            (if (if c.isNilType then (nilApplicable c.i c.i.checks).isEmpty else !hasOverwrite c.i.checks)
             then .handled .nil else .handled (env.checksOnNil c.i.checks))
          else if c.i.admitsNil then .handled .nil
          else .handled (.err env.typeErr)

/-- `handleNilComplex`. -/
def handleNilComplex (env : CEnv P O T V E) (c : CCfg P O T V) : Res V E :=
  match pmCore env c true with
  | .handled r => r
  | _ => .err env.typeErr

/-- `validatePointer` (after 49e6e91, e584c0e): the validator decides first — container-level checks and every member
    schema; only when it accepted does an overwrite check get its pass over the pointer itself (`np` when it changed the
    pointer, else the validator's value stored through the caller's pointer). Without an overwrite nothing is stored: the
    caller's own pointer when the validator handed back the same bits (`sameValue`) or — /repo 3302475 — a map holding exactly
    the caller's entries (`sameEntries`: what the caller's pointer refers to IS the validator's value then), else a pointer to
    the validator's value. `Res.ptr` carries the VALUE behind the pointer, so the last four arms are one (which pointer it is: C15). -/
def validatePointer (env : CEnv P O T V E) (c : CCfg P O T V) (v : V) : Res V E :=
  if !c.hasValidator then .ptr v
  else
    match env.validate c.i.checks v with
    | .error e => .err e
    | .ok v' =>
      match (if hasOverwrite c.i.checks then env.firstPass c.i.checks v else none) with
      | some v'' => .ptr v''
      | none => .ptr v'

/-- `validatePointer` before 49e6e91: the pointer pass of an overwrite check came first and, when it yielded a
    new pointer, the validator (hence every member schema) was never consulted. -/
def legacyValidatePointer (env : CEnv P O T V E) (c : CCfg P O T V) (v : V) : Res V E :=
  if !c.hasValidator then .ptr v
  else
    match (if hasOverwrite c.i.checks then env.firstPass c.i.checks v else none) with
    | some v' => .ptr v'
    | none =>
      match env.validate c.i.checks v with
      | .ok v' => .ptr v'
      | .error e => .err e

/-- `validateValue`: no validator call for lazy schemas, nor when there are no checks. -/
def validateValue (env : CEnv P O T V E) (c : CCfg P O T V) (v : V) : Res V E :=
  if c.isLazy then .val v
  else if c.hasValidator && !c.i.checks.isEmpty then
    (match env.validate c.i.checks v with
     | .ok v' => .val v'
     | .error e => .err e)
  else .val v

/-- `parseComplexValue`: nil → `handleNilComplex`; pointer extractor first, then type extractor. -/
def parseComplexValue (env : CEnv P O T V E) (c : CCfg P O T V) (x : CIn V) : Res V E :=
  if x.untyped then handleNilComplex env c
  else match x.ptrEx with
    | some none => handleNilComplex env c
    | some (some v) => validatePointer env c v
    | none =>
      match x.typEx with
      | some v => validateValue env c v
      | none => .err env.typeErr

/-- `applyTransformIfPresent` behind an error test (`if err != nil { return nil, err }`). -/
def thenTransform (env : CEnv P O T V E) (c : CCfg P O T V) : Res V E → Res V E
  | .err e => .err e
  | r => match c.transform with
    | none => r
    | some t => env.trans t r

/-- A prefault value (a `T`) as the next input. -/
def inOfVal (c : CCfg P O T V) (v : V) : CIn V :=
  { isNil := false, untyped := false, ptrEx := if c.ptrExTakesValues then some (some v) else none, typEx := some v }

/-- `ParseComplex`. -/
def parse (env : CEnv P O T V E) (c : CCfg P O T V) (x : CIn V) : Res V E :=
  match pmCore env c x.isNil with
  | .handled (.err e) => .err e
  | .handled r =>
    -- Default/DefaultFunc short-circuit: no Transform
    if x.isNil && (c.i.dv.isSome || c.i.df.isSome) then r else thenTransform env c r
  | .prefault p => thenTransform env c (parseComplexValue env c (inOfVal c p))
  | .pass => thenTransform env c (parseComplexValue env c x)

/-- The tail of `ParseComplexStrict` after 692881a: adapt `ParseComplex`'s result (a `T`, a `*T` or nil)
    to the static type R (`rPtr`: R = `*T`, else R = `T`). The zero value of R is rendered `nil`
    (R = `*T`, or a nillable `T`: the two are not told apart by the property's observation). -/
def adapt (rPtr : Bool) : Res V E → Res V E
  | .err e => .err e
  | .ptr v => if rPtr then .ptr v else .val v      -- `r.(*T)`: deref for R = T, else `r.(R)`
  | .nilPtr => .nil                                -- `p == nil`: zero
  | .val v => if rPtr then .ptr v else .val v      -- `r.(R)`, else `any(&v).(R)`
  | .nil => .nil                                   -- `r == nil`: zero

/-- `ParseComplexStrict` (parser.go:149-188 after 692881a). -/
def strictParse (env : CEnv P O T V E) (c : CCfg P O T V) (x : CIn V) : Res V E :=
  adapt c.i.ptrSchema (parse env c x)

/-- `toSliceConstraint` behind the result switch of `ZodSlice.Parse` (types/slice.go:68-88, 510-541): the
    conversion the type's own `Parse` applies to `ParseComplex`'s answer. -/
def sliceConv (rPtr : Bool) : Res V E → Res V E
  | .err e => .err e
  | .val v => if rPtr then .ptr v else .val v      -- case []T
  | .ptr v => if rPtr then .ptr v else .val v      -- case *[]T: `any(v).(R)` / `*v`
  | .nilPtr => .nil                                -- case *[]T, nil: zero / a nil *[]T
  | .nil => .nil                                   -- case nil: `toSliceConstraint(nil)` = zero

/-- A type's `Parse`: its result conversion applied to `ParseComplex`'s answer (`conv` gets "R is a pointer"). -/
def typeParse (conv : Bool → Res V E → Res V E) (env : CEnv P O T V E) (c : CCfg P O T V) (x : CIn V) : Res V E :=
  conv c.i.ptrSchema (parse env c x)

/-! ## The legacy `ParseComplexStrict` (parent of 692881a) -/

/-- The input handed back unchanged (`return input, nil`): a value input stays a value, a pointer a pointer. -/
def echo (x : CIn V) : Res V E :=
  if x.untyped then .nil
  else match x.ptrEx, x.typEx with
    | some none, _ => .nilPtr
    | _, some v => if x.isNil then .nil else .val v
    | some (some v), none => .ptr v
    | none, none => .nil

/-- `r.(R)` of the legacy fallback: no `T` ↔ `*T` adaptation. -/
def legacyAssertR (env : CEnv P O T V E) (rPtr : Bool) : Res V E → Res V E
  | .err e => .err e
  | .val v => if rPtr then .err env.typeErr else .val v
  | .ptr v => if rPtr then .ptr v else .err env.typeErr
  | .nilPtr => if rPtr then .nil else .err env.typeErr
  | .nil => .err env.typeErr

/-- `tryComplexValidationOnly`: the validator's verdict, but the INPUT as the value. -/
def legacyValidationOnly (env : CEnv P O T V E) (c : CCfg P O T V) (x : CIn V) : Option (Res V E) :=
  let v? : Option V := match x.ptrEx with
    | some (some v) => some v
    | _ => x.typEx
  v?.map fun v =>
    match env.validate c.i.checks v with
    | .ok _ => echo x
    | .error e => .err e

/-- `parseComplexStrictNil`: Optional/Nilable are tested BEFORE Default/Prefault. -/
def legacyStrictNil (env : CEnv P O T V E) (c : CCfg P O T V) (x : CIn V) : Res V E :=
  if c.i.optional || c.i.nilable then echo x
  else match pmCore env c true with
    | .handled (.err e) => .err e
    | .handled r => legacyAssertR env c.i.ptrSchema r
    | _ =>
      match (match c.i.pv with | some p => some p | none => c.i.pf) with
      | some p =>
        (match parse env c (inOfVal c p) with
         | .err e => .err e
         | r => match legacyAssertR env c.i.ptrSchema r with
           | .err _ => .err env.nonOptErr
           | r' => r')
      | none => .err env.nonOptErr

/-- The legacy `ParseComplexStrict`. -/
def legacyStrictParse (env : CEnv P O T V E) (c : CCfg P O T V) (x : CIn V) : Res V E :=
  let noDefaults := c.i.dv.isNone && c.i.pv.isNone && c.i.df.isNone
  if !x.isNil && c.i.checks.isEmpty && c.transform.isNone && noDefaults && !c.i.optional && !c.i.nilable &&
      !c.i.nonOptional && !c.isStruct then echo x                                   -- fast path
  else if x.isNil then legacyStrictNil env c x
  else
    match (if !c.i.checks.isEmpty && c.transform.isNone && noDefaults && !c.isStruct
           then legacyValidationOnly env c x else none) with
    | some r => r
    | none => legacyAssertR env c.i.ptrSchema (parse env c x)

end

/-! ## The `Must*` wrappers

  `r, err := z.X(input, ctx...); if err != nil { panic(err) }; return r` — the shape
  `Gozod.C09.c09_table_wrappers` establishes for every `Must*` method of every schema type. -/

/-- How a call ends: it returns a value, or it panics with a value. -/
inductive Outcome (A E : Type) where
  | returned (a : A)
  | panicked (e : E)
  deriving Repr, DecidableEq

/-- The must-wrapper around an entry point `f`. -/
def must {I A E : Type} (f : I → Except E A) (x : I) : Outcome A E :=
  match f x with
  | .ok a => .returned a
  | .error e => .panicked e

/-- `return z.X(input, ctx...)`. -/
def fwd {I A E : Type} (f : I → Except E A) (x : I) : Except E A := f x

/-- A `Res` as the `(R, error)` pair the typed entry points return. -/
def Res.toExcept {V E : Type} : Res V E → Except E (Res V E)
  | .err e => .error e
  | r => .ok r

/-- What the six entry points of one schema answer on one input (`A`: results, `E`: errors). -/
structure Six (A E : Type) where
  p : Except E A
  s : Except E A
  a : Except E A
  mp : Outcome A E
  ms : Outcome A E
  ma : Outcome A E

/-- The six entry points as every schema type assembles them (`Gozod.C09.c09_table_wrappers`, `c09_table_bases`: whole
    regenerated table): `Parse` and `StrictParse` are the type's own, `ParseAny` = `return z.Parse(…)`, `MustParse` /
    `MustStrictParse` / `MustParseAny` = the must-wrapper of `Parse` / `StrictParse` / `ParseAny`. This is what the C09
    driver runs, for the primitive path (`str`, `hist` lines) and for the complex path (`cpx` lines). -/
def six {I A E : Type} (P S : I → Except E A) (x : I) : Six A E :=
  { p := P x, s := S x, a := fwd P x, mp := must P x, ms := must S x, ma := must (fwd P) x }

end Gozod.Cpx
