"""C07 — ToJSONSchema describes exactly what Parse accepts."""
import os
from . import common as C

MANIFEST = dict(
   technique="Lean 4 proof (toJS transcribed from jsonschema/to.go is a validity-preserving homomorphism from the gozod schema fragment to Draft 2020-12 keywords, on an explicit decidable Representable fragment; on top of it Lazy, objects with a Partial/Required call history, Map, a recursive-schema family, and a model of the converter's $defs/$ref bookkeeping on instance graphs) + a go/ast translator regenerating the converter's dispatch / constant tables (Gen/ToJsonCases.lean) with `decide` proofs over the whole tables + structure fingerprints of the 72 transcribed Go functions + differential correspondence: model document = real ToJSONSchema output, model verdicts = real Parse verdicts, model $defs names / $ref targets = the real document's (Refs.convertTop executed on the instance graph of every real call), and an independent validator (kaptinlin/jsonschema) judging the real document on the same instances",
   text="c07_equiv_partial / c07_sound / c07_complete: for every Representable schema and every in-scope JSON instance, the instance validates against the emitted document iff Parse accepts it (strip-mode objects: the returned value validates / a validating input is accepted); c07_x_sound / c07_x_complete: the same at the top for Lazy schemas whose inner schema validateLazy consults (witness_lazy_typed_inner_unvalidated: for every other inner schema Lazy validates nothing), for objects after any history of Partial(keys) / Required(keys) calls (ObjSt.step / fieldOpt transcribe Partial, Required, isFieldOptional; fieldOpt_* state the documented meaning for every history; eqvShapeG: properties + required = the field loop for any shared rule) and for Map (mapOf_equiv); c07_rec_equiv: for the recursive family V = Union([leaf, Slice(Lazy -> V)]) under a root / object-field / slice wrapper the document (reference to V) and Parse agree on instances of any depth, by induction on the instance; c07_refs_resolve: for every instance graph (sharing, cycles through Lazy, registry IDs), option set and root, every $ref the converter writes names a key of the $defs attached to the root; c07_wellformed / c07_wellformed_values: the emitted document's schema arrays are non-empty, multipleOf > 0, required and properties keys are duplicate-free, no keyword outside the vocabulary; c07_history_*: the same for the document of every call of every sequence of ToJSONSchema calls. Outside Representable each excluded class has a witness theorem and a replayed concrete instance (known findings); the converters before the fixes landed in this round (792c820 object optionality, 39b1e2e map key schema, 16f278d lazy reference to a non-root target) are kept as legacy definitions with witness theorems (toDocLegacy / toDocL / validTL, erase_same, c07_legacy_*). c07_codes_covered / c07_cases_partition / c07_modelled_branches / c07_unmodelled_gap / c07_range_defaults_* / c07_bag_keywords / c07_option_tests: over the tables regenerated from jsonschema/to.go and core/constants.go.",
   note="PARTIAL: holds on the Representable fragment only (see notes/C07.md for the excluded classes, each a demonstrated defect of the pinned tree). Lazy / objects with a call history / Map are modelled at the top of a schema only (nested objects carry the plain Partial() flag); recursion through Lazy is modelled for one schema family; the schema types of c07_unmodelled_gap (string formats, discriminated union, Default/Prefault, Set, Struct, File, Pipe/Transform, ...) have no model: a fixed set of such schemas is converted in every run and judged by the independent validator on the implementation alone (udoc/uinst ops). $ref by NAME is not in the keyword AST (shared with C11): that every emitted name is defined is proved about Refs.convertTop, which the driver executes against every real document; three self-referential schemas are converted in a child process (a pointer-cyclic document / unbounded lazy resolution is a fatal stack overflow). User regexes come from a five-entry table with hand-written meanings. Instances: ASCII strings, numbers that are multiples of 1/4 below 2^51. Trusted: Lean kernel; the hand-written jsValid (cross-checked on every generated case against kaptinlin/jsonschema on the real document); the Go harness (schema-directed embedding, instance-graph extraction: which children each converter visits is derived from the AST) and comparer. The model is validated on generated cases, not for all inputs.",
   design="DESIGN.md §5 C07")

MODULES = ["Gozod.Proofs.C07", "Gozod.Proofs.C07Lazy", "Gozod.Proofs.C07Refs", "Gozod.Proofs.C07Rec", "Gozod.Proofs.C07Wf", "Gozod.Proofs.C07Cases"]
GEN = os.path.join(C.LEAN, "Gozod", "Gen", "ToJsonCases.lean")
THEOREMS = [
    "Gozod.C07.c07_equiv_partial", "Gozod.C07.c07_pres", "Gozod.C07.c07_sound", "Gozod.C07.c07_complete",
    "Gozod.C07.c07_wellformed", "Gozod.C07.eqv", "Gozod.C07.pres",
    "Gozod.C07.runHistory_get", "Gozod.C07.c07_history_equiv", "Gozod.C07.c07_history_sound", "Gozod.C07.c07_history_complete",
    "Gozod.C07.c07_history_stable",
    "Gozod.C07.witness_bytes_vs_codepoints", "Gozod.C07.witness_trim_before_min", "Gozod.C07.witness_optional_null",
    "Gozod.C07.witness_array_single_item", "Gozod.C07.witness_rest_without_min_items",
    "Gozod.C07.witness_array_length_keyword", "Gozod.C07.witness_record_enum_exhaustive", "Gozod.C07.witness_union_nil",
    "Gozod.C07.witness_num_bound_merge", "Gozod.C07.witness_length_overwrites", "Gozod.C07.witness_size_overwrites",
    "Gozod.C07.witness_int_kind_range", "Gozod.C07.witness_strict_catchall", "Gozod.C07.witness_nested_strip",
    "Gozod.C07.witness_strip_size_after_strip", "Gozod.C07.witness_literal_mixed_kinds", "Gozod.C07.c07_full_false",
    # Lazy on top of the base fragment (Model/JsonSchemaLazy.lean)
    "Gozod.C07.eqvX", "Gozod.C07.presX", "Gozod.C07.c07_lazy_equiv_partial", "Gozod.C07.c07_lazy_sound", "Gozod.C07.c07_lazy_complete",
    "Gozod.C07.c07_lazy_wellformed", "Gozod.C07.witness_lazy_typed_inner_unvalidated", "Gozod.C07.witness_lazy_null", "Gozod.C07.c07_lazy_full_false",
    # objects with a Partial / Required call history; the converter before the fix C07-object-optionality
    "Gozod.C07.eqvShapeG", "Gozod.C07.objF_equiv", "Gozod.C07.objF_sound_strip", "Gozod.C07.objF_complete_strip",
    "Gozod.C07.c07_x_sound", "Gozod.C07.c07_x_complete",
    "Gozod.C07.fieldOpt_no_calls", "Gozod.C07.fieldOpt_required_all", "Gozod.C07.fieldOpt_required_keys", "Gozod.C07.fieldOpt_required_keys_frame",
    "Gozod.C07.fieldOpt_partial_all", "Gozod.C07.fieldOpt_partial_keys",
    "Gozod.C07.legacy_same_doc", "Gozod.C07.c07_legacy_sound", "Gozod.C07.c07_legacy_complete",
    "Gozod.C07.witness_partial_required", "Gozod.C07.witness_required_keeps_optional", "Gozod.C07.witness_partial_keys",
    "Gozod.C07.erase_same", "Gozod.C07.mapOf_equiv", "Gozod.C07.witness_map_key_dropped",
    # $defs / $ref bookkeeping of convert / convertLazy / toJSONSchemaSingle (Model/JsonSchemaRefs.lean)
    "Gozod.C07.inv_convert", "Gozod.C07.c07_refs_resolve", "Gozod.C07.c07_refs_table_resolves",
    # recursive schemas whose Lazy cycle does not close at the root (Model/JsonSchemaRec.lean)
    "Gozod.C07.validVF_eq", "Gozod.C07.c07_rec_equiv", "Gozod.C07.c07_rec_sound", "Gozod.C07.c07_rec_complete", "Gozod.C07.c07_rec_root_legacy",
    "Gozod.C07.witness_lazy_ref_root_field", "Gozod.C07.witness_lazy_ref_root_slice",
    # metaschema constraints on keyword values (Model/JsonSchemaWf.lean)
    "Gozod.C07.xwf", "Gozod.C07.c07_wellformed_values", "Gozod.C07.mul_pos_fold", "Gozod.C07.nodup_requiredKeys",
    # over the tables regenerated from jsonschema/to.go + core/constants.go (Gen/ToJsonCases.lean)
    "Gozod.C07.c07_codes_covered", "Gozod.C07.c07_cases_partition", "Gozod.C07.c07_modelled_branches", "Gozod.C07.c07_tail_is_applyBag",
    "Gozod.C07.c07_unmodelled_gap", "Gozod.C07.c07_unmodelled_rest", "Gozod.C07.c07_default_unrepresentable",
    "Gozod.C07.c07_range_defaults_int", "Gozod.C07.c07_range_defaults_flt", "Gozod.C07.c07_range_defaults_depth", "Gozod.C07.c07_range_defaults_domain",
    "Gozod.C07.c07_bag_keywords", "Gozod.C07.c07_bag_model_instances", "Gozod.C07.c07_bag_renamed", "Gozod.C07.c07_option_tests", "Gozod.C07.c07_composite_types",
]

CASES_THEOREMS = THEOREMS[THEOREMS.index("Gozod.C07.c07_codes_covered"):]

def verdict_ok(impl):
    """the property evaluated on the implementation's observation alone"""
    t = impl.split(" ")
    if len(t) != 3: return None
    p, vr, vi = t
    if p == "1" and vr != "1": return "sound"
    if vi == "1" and p != "1": return "complete"
    if vi not in ("0", "1") or p not in ("0", "1"): return "harness"
    return ""

# classes the Lean model knowingly does not mirror (notes/C07.md): there a model≠impl case whose implementation
# observation satisfies the property is filed under the class's listed finding instead of being reported as drift
UNMIRRORED = ("intersection-strict-objects", "intersection-strict-nested")

def make_key(known_keys):
    def key(op, impl, M, S):
        kind = C.op_body(op).split(" ")[1]
        if kind in ("udoc", "uinst"):
            # schema types without a model: the implementation's own observation, judged by the independent validator
            import re
            m = re.search(r"class=(\S+)", C.op_comment(op))
            cls = m.group(1) if m else "unknown"
            if kind == "udoc": return "doc:unmodelled:" + cls
            return (verdict_ok(impl) or "harness") + ":unmodelled:" + cls
        if kind == "refs":
            # the statement on the implementation alone: every $ref names a $defs entry; otherwise model ≠ implementation
            return "refs:unresolved" if (S or "").startswith("refs-must-resolve") else "refs:model-differs"
        if kind in ("doc", "hdoc"):
            if S is not None and S.startswith("document-of-first-conversion:"):
                return "doc:unstable"      # a later conversion of the same instance / options gave another document
            return "doc:" + (impl.split(" ")[0] if impl else "empty")
        d = verdict_ok(impl) or "model"
        why = [w for w in C.op_comment(op).split("#why=")[-1].replace("why=", "").split(",") if w]
        # a listed finding is a defect the MODEL reproduces (that is what its witness theorem is about): a violating
        # observation the model does not predict is not that finding, whatever excluded classes the schema lies in
        if d != "model" and M is not None and impl != M and not any(w in UNMIRRORED for w in why):
            return d + ":not-predicted-by-model:" + "+".join(why or ["none"])
        if not why: return d + ":none"
        if d == "model":
            for w in why:
                if w in UNMIRRORED:
                    for x in ("sound:" + w, "complete:" + w):
                        if any(C.key_matches(k, x) for k in known_keys): return x
        ks = [d + ":" + w for w in why]
        if "( xor " in C.op_body(op):
            # inside Xor a member document that is wrong in ONE direction flips the oneOf count, i.e. shows up in
            # the other direction too; such mirrored classes are listed with an @xor suffix (only matched here)
            ks += [d + ":" + w + "@xor" for w in why]
        # several excluded classes meet in one schema: file the case under the first class that is
        # a listed finding for this direction; if none is, the combination is reported as new
        for x in ks:
            if any(C.key_matches(k, x) for k in known_keys): return x
        return d + ":" + "+".join(why)
    return key

def describe(op):
    return ("harness/cmd/c07 (hdoc/hinst: the K-th ToJSONSchema call on ONE live instance, with the option set in the op, after the calls listed "
            "in the comment and the calls of the run before it — re-run the harness with the same seed to replay the whole history): "
            "schema S built through the public gozod API (build.go), gozod.ToJSONSchema(S) serialised; "
            "instance J embedded schema-directedly (embed) and given to S.ParseAny; kaptinlin/jsonschema compiled from the emitted "
            "document validates J and the returned value. Grammar of S/J: harness/cmd/c07/ast.go")

META_SCRIPT = r"""
import sys, json
from jsonschema import Draft202012Validator
from jsonschema.exceptions import SchemaError
bad = 0; n = 0
for line in open(sys.argv[1]):
    text, _, raw = line.rstrip("\n").partition("\t")
    n += 1
    try:
        Draft202012Validator.check_schema(json.loads(raw))
    except SchemaError as e:
        bad += 1
        print("BAD\t%s\t%s\t%s" % (text, raw, str(e.message)[:200]))
print("CHECKED\t%d\t%d" % (n, bad))
"""

def metaschema_check(res):
    """thorough tier: every emitted document must validate against the Draft 2020-12 metaschema (Python jsonschema)."""
    import os, shutil
    d = os.path.join(C.BUILD, "run", "C07-meta-%d" % os.getpid())
    shutil.rmtree(d, ignore_errors=True); os.makedirs(d)
    env = C.goenv(); env["C07_RAWDOCS"] = os.path.join(d, "docs.tsv")
    rc, out = C.run([C.harness_bin("C07"), "-seed", str(res.seed), "-tier", "quick", "-out", d], env=env, timeout=3600)
    if rc != 0:
        C.tie_broken(res, "metaschema C07/harness", out[-2000:]); return
    script = os.path.join(d, "meta.py"); open(script, "w").write(META_SCRIPT)
    rc, out = C.run(["python3-vt", script, env["C07_RAWDOCS"]], timeout=3600)
    lines = out.strip().split("\n")
    summary = [l for l in lines if l.startswith("CHECKED")]
    if rc != 0 or not summary:
        C.tie_broken(res, "metaschema C07/python-jsonschema", out[-2000:]); shutil.rmtree(d, ignore_errors=True); return
    _, n, bad = summary[0].split("\t")
    res.coverage["metaschema_documents_checked"] = int(n)
    for l in lines:
        if l.startswith("BAD"):
            _, text, raw, msg = (l.split("\t") + ["", "", ""])[:4]
            res.violation("doc-metaschema", "property C07: the emitted document is not a valid Draft 2020-12 schema\n  schema: %s\n  document: %s\n  metaschema error: %s\n" % (text, raw, msg))
            break
    shutil.rmtree(d, ignore_errors=True)

def translate(res):
    """regenerate Gen/ToJsonCases.lean (go/ast over jsonschema/to.go + core/constants.go of REPO's working tree)."""
    ok, out = C.build_harness("C07")
    if not ok:
        return "harness C07 does not build against the library:\n" + out[-3000:]
    env = C.goenv(); env["VERIF_REPO"] = C.REPO; env["C07_GEN"] = GEN
    rc, out = C.run([C.harness_bin("C07")], env=env, timeout=600)
    if rc != 0:
        return "translator failed (rc=%d):\n%s" % (rc, out[-3000:])
    if "rewritten" in out: res.notes.append("Gen/ToJsonCases.lean changed and was rewritten")
    return None

def run(res):
    # translator + proofs under one lock: the regenerated table and the proof run belong to the same tree
    with C.Lock("c07-gen"):
        terr = translate(res)
        if terr:
            C.tie_broken(res, "translator C07 (jsonschema/to.go -> Gen/ToJsonCases.lean)", terr)
            ok, detail = C.prove(res, MODULES[:5], [t for t in THEOREMS if t not in CASES_THEOREMS])   # everything but C07Cases (over the regenerated tables)
        else:
            ok, detail = C.prove(res, MODULES, THEOREMS)
    if not ok:
        C.tie_broken(res, "proof Gozod.Proofs.C07 / C07Cases (the latter is over the tables regenerated from jsonschema/to.go)", detail)
    # structure fingerprints of the hand-transcribed functions (vlib/fingerprints/C07.json): a changed structure with a green
    # correspondence is a broken tie (the transcription may no longer mirror the function); a text-only change is noted
    changed = C.fingerprint(res, "C07")
    data, err = C.correspond(res, "C07")
    if data is None:
        C.tie_broken(res, "correspondence C07/toJS+accepts", err)
        return res.finish()
    ops, impl, model, stats = data
    ops2, model2 = [], []
    # the document is a function of (schema instance, option set): the first conversion's document is the
    # reference for every later conversion of that instance under those options (judged on the implementation alone)
    DEFAULT = "io=-,unrep=-,reused=-,cycles=-,target=-,meta=global"
    first_doc = {}
    nhist = 0
    nunmod = 0
    for o, im, m in zip(ops, impl, model):
        mm, _, why = m.partition("\t")
        body = C.op_body(o)
        kind = body.split(" ")[1] if " " in body else ""
        if kind in ("udoc", "uinst"):
            # no model stands behind these ops (the driver answers `unmodelled`): model := the observation itself,
            # spec := the statement evaluated on the observation
            if kind == "udoc":
                spec = im if im in ("1 document", "error") else "document-must-be-wellformed"
            else:
                bad = verdict_ok(im)
                spec = im if bad == "" else "property-violated:%s" % bad
            if mm != "unmodelled":
                spec = "driver-must-answer-unmodelled"
            ops2.append(o); model2.append(im + "\t" + spec); nunmod += 1
            continue
        if kind == "refs":
            # "defs=a,b;refs=x,y" (or error / panic): judged on the implementation alone — every reference resolves
            spec = im
            if im.startswith("defs="):
                d, _, r = im.partition(";refs=")
                defs = set(x for x in d[len("defs="):].split(",") if x)
                if any(x not in defs for x in r.split(",") if x):
                    spec = "refs-must-resolve"
            ops2.append(o); model2.append(mm + "\t" + spec)
            continue
        if kind in ("doc", "hdoc"):
            if kind == "doc":
                ref_key = (DEFAULT, body.split(" ", 2)[2])
            else:
                _, _, k, opts, text = body.split(" ", 4)
                ref_key = (opts.rsplit(",dup=", 1)[0], text)
                nhist += 1
            ref = first_doc.setdefault(ref_key, im)
            if im != ref:
                spec = "document-of-first-conversion:" + ref
            elif im.startswith("1 ") or im == "error":
                spec = im          # a conversion error puts the call outside the property
            else:
                spec = "document-must-be-wellformed"
        else:
            bad = verdict_ok(im)
            spec = im if bad == "" else "property-violated:%s" % bad
        ops2.append(o + " #why=" + why)
        model2.append(mm + "\t" + spec)
    known_open, _ = C.load_known("C07")
    C.decide(res, "C07", (ops2, impl, model2, stats), make_key([k["key"] for k in known_open]),
             "C07/toJS+accepts+jsValid", describe=describe)
    res.coverage["rule"] = ("conversion histories: every schema is built ONCE (one AST node = one live instance; ~25 % of the schemas embed an earlier "
        "top-level schema's live instance as a child, ~7 % use one instance under two names) and converted >= 3 times: right after construction, "
        "again at once (30 %), after its parent (children), after the conversions of up to 700 other schemas, under random option sets "
        "(IO, Unrepresentable, Reused, Cycles, Target, private/global Metadata registry); every resulting document is compiled by the independent "
        "validator and judged on the instance set (whole set for every new document text, a rotating sample otherwise), Parse being called on the "
        "live converted instance; the document of every later conversion must equal the first one's for the same options. "
        "structured generator: schemas of depth <= 3 over string(min/max/len/startsWith/endsWith/includes/lower/upper/trim/regex from a 5-entry table), registry IDs (Meta{ID}) on any non-integer node, "
        "10 integer kinds and float64 with gt/gte/lt/lte/multipleOf, bool, nil, any, never, enum, literal, Optional/Nilable, object (3 modes, catch-all, "
        "Partial, size checks), slice, array, tuple (optional items, rest), record (string / enum keys), union, xor, intersection; corpus of the DESIGN §5 classes first. "
        "Per schema: the emitted document (1 case) and up to 60 instances at / one below / one above every constant in the schema, missing / extra / null members, "
        "wrong kinds, non-ASCII strings. impl observation = (Parse verdict, independent validator on returned value, independent validator on input). "
        "distinct = distinct op lines; histogram = node kinds, checks and verdict triples.")
    structural = [c for c in changed if c[2] in ("structure", "missing")]
    if structural and not any(sfx == "" for _, sfx in res.violations):
        C.tie_broken(res, "structure fingerprint C07", "these functions no longer have the structure the Lean transcription was written against "
                     "(switch cases / calls / literals / control-flow skeleton), and the correspondence run found no disagreement:\n"
                     + "\n".join("  %s [%s: %s] transcribed by %s" % (c[0], c[2], c[3], c[1]) for c in structural)
                     + "\nre-validate the transcription, then `./check --fingerprint C07 --update`")
    for c in changed:
        if c[2] == "text": res.notes.append("source text of %s changed (structure unchanged); transcribed by %s" % (c[0], c[1]))
    res.coverage["parse_panics_counted_as_reject"] = stats.get("parse_panics", 0)
    res.coverage["conversions"] = stats.get("conversions", 0)
    res.coverage["unmodelled_type_cases_judged_by_the_independent_validator_alone"] = nunmod
    res.coverage["later_conversions_checked_against_first_document"] = nhist
    if res.tier == "thorough":
        metaschema_check(res)
    res.assumptions += [
        "jsValid is Draft 2020-12 for the emitted keyword set (cross-checked case by case against kaptinlin/jsonschema run on the REAL document)",
        "schema-directed embedding: an integral JSON number at an integer-schema position is that Go integer type, otherwise float64; within one union/xor/intersection all numeric leaves have one Go kind",
        "instances: ASCII-only strings and |number| < 2^51 with denominators dividing 4 in the theorems' scope (non-ASCII strings are generated and reported as a finding class)",
        "float MultipleOf on quarter-valued operands is exact (epsilon rule not modelled)",
        "models /repo after fix commits 5339542 (minProperties), 697defa (record nil value), 3e22e56 (properties visited in key order), d72e9e7 (applyBag in key order)",
        "Lazy: LazyAny(func() any { return inner }) at the top of a schema; `consults` (which inner Go types (*schemaWrapper).Parse knows) is a table validated case by case",
    ]
    return res.finish()
