/-
  C06 — the schema of a struct type is a function of its own tags: histories of FromStruct calls,
  white space and quoting of the tag text, order of the rules.
-/
import Gozod.Proofs.C06
import Gozod.Model.TagRules
set_option linter.unusedSimpArgs false
set_option linter.unusedVariables false

namespace Gozod.C06
open Gozod.TagParser Gozod.Tags.Rules

/-- **History independence**: in any two histories of FromStruct calls, two positions that hold the same
    tag hold the same schema — whatever was built before, between or after. -/
theorem c06_history_independent (h₁ h₂ : List Str) (i j : Nat) (t : Str)
    (e₁ : h₁[i]? = some t) (e₂ : h₂[j]? = some t) : (history h₁)[i]? = (history h₂)[j]? := by
  simp [history, List.getElem?_map, e₁, e₂]

/-- the verdict of a later struct does not change the verdict of an earlier one: extending the history
    leaves every existing schema as it is -/
theorem c06_history_prefix_stable (h more : List Str) (i : Nat) (hi : i < h.length) :
    (history (h ++ more))[i]? = (history h)[i]? := by
  unfold history
  rw [List.map_append, List.getElem?_append_left (by simpa using hi)]

/-- **White space around the tag text never changes the schema** (code and documented meaning). -/
theorem c06_tag_ws_verdict (w₁ w₂ t : Str) (h₁ : AllSpace w₁) (h₂ : AllSpace w₂) :
    Code.accepts (w₁ ++ t ++ w₂) = Code.accepts t ∧ Spec.accepts (w₁ ++ t ++ w₂) = Spec.accepts t := by
  have e : rulesOf (w₁ ++ t ++ w₂) = rulesOf t := by
    unfold rulesOf; rw [c06_parse_ws false w₁ w₂ t h₁ h₂]
  constructor <;> funext v <;> simp only [Code.accepts, Spec.accepts, e]

/-- the documented verdict does not depend on the order of the rules in the tag (any number of rules) -/
theorem c06_rules_perm (rs rs' : List Rule) (h : rs.Perm rs') (v : Str) :
    rs.all (holds · v) = rs'.all (holds · v) := by
  induction h with
  | nil => rfl
  | cons x _ ih => simp [List.all_cons, ih]
  | swap x y l => simp only [List.all_cons]; rw [← Bool.and_assoc, ← Bool.and_assoc, Bool.and_comm (holds y v)]
  | trans _ _ ih₁ ih₂ => rw [ih₁, ih₂]

theorem perm_all {α} (f : α → Bool) (rs rs' : List α) (h : rs.Perm rs') : rs.all f = rs'.all f := by
  induction h with
  | nil => rfl
  | cons x _ ih => simp [List.all_cons, ih]
  | swap x y l => simp only [List.all_cons]; rw [← Bool.and_assoc, ← Bool.and_assoc, Bool.and_comm (f y)]
  | trans _ _ ih₁ ih₂ => rw [ih₁, ih₂]

/-- **Order independence of the documented meaning, lifted from pairs to any tag**: the documented verdict
    of a field carrying `rules` (matrix vocabulary of `Tags.Spec`) is the same for every permutation of the
    rule list, of any length. -/
theorem c06_accept_perm (rs rs' : List Gozod.Tags.TRule) (h : rs.Perm rs') (p : Gozod.Tags.Probe) :
    Gozod.Tags.Spec.accept rs p = Gozod.Tags.Spec.accept rs' p := by
  have hc : rs.contains .required = rs'.contains .required := by
    cases h1 : rs.contains .required <;> cases h2 : rs'.contains .required <;> try rfl
    · have h3 := List.contains_iff_mem.mpr (h.mem_iff.mpr (List.contains_iff_mem.mp h2))
      rw [h1] at h3; exact h3
    · have h3 := List.contains_iff_mem.mpr (h.mem_iff.mp (List.contains_iff_mem.mp h1))
      rw [h2] at h3; exact h3.symm
  cases p <;> simp only [Gozod.Tags.Spec.accept, hc, perm_all _ _ _ h]

def hasParams (r : Rule) : Bool := match r.params with | some (_ :: _) => true | _ => false

theorem holds_noParams (r : Rule) (v : Str) (h : hasParams r = false) : holds r v = true := by
  unfold holds
  cases hp : r.params with
  | none => rfl
  | some ps => cases ps with
    | nil => rfl
    | cons p ps => simp [hasParams, hp] at h

theorem foldl_noEnum (rs : List Rule) (cs : List Rule) (h : ∀ r ∈ rs, Code.isEnum r = false) :
    rs.foldl Code.applyRule (.str cs) = .str (cs ++ rs.filter hasParams) := by
  induction rs generalizing cs with
  | nil => simp
  | cons r rs ih =>
    have hr := h r (by simp)
    have ih' := fun cs' => ih cs' (fun r' hr' => h r' (by simp [hr']))
    simp only [List.foldl_cons, Code.applyRule]
    cases hp : r.params with
    | none => simp [ih', List.filter_cons, hasParams, hp]
    | some ps => cases ps with
      | nil => simp [ih', List.filter_cons, hasParams, hp]
      | cons p ps => simp [ih', List.filter_cons, hasParams, hp, hr, List.append_assoc]

/-- Full statement (false: `enum` replaces the schema, see the witness): the code's verdict is the documented one. -/
def c06_tag_meaning_full : Prop := ∀ tag v, Code.accepts tag v = Spec.accepts tag v

/-- **Every rule of the tag is enforced (partial)**: on a string field whose tag has no `enum` rule the
    schema accepts exactly the values that satisfy every rule — any number of rules, any order. -/
theorem c06_tag_meaning_partial (tag v : Str) (h : ∀ r ∈ rulesOf tag, Code.isEnum r = false) :
    Code.accepts tag v = Spec.accepts tag v := by
  unfold Code.accepts Spec.accepts
  rw [foldl_noEnum _ _ h]
  simp only [List.nil_append, Code.Sch.accepts]
  induction rulesOf tag with
  | nil => rfl
  | cons r rs ih =>
    simp only [List.filter_cons, List.all_cons]
    cases hp : hasParams r with
    | true => simp [hp, ih]
    | false => simp [hp, ih, holds_noParams r v hp]

/-- witness: `min=5,enum=ab` accepts "ab" — the `enum` rule replaces the string schema and `min` is lost -/
theorem c06_tag_meaning_full_false : ¬ c06_tag_meaning_full := by
  intro h
  have := h (nm "min=5,enum=ab") (nm "ab")
  revert this
  decide

-- the hypotheses are inhabited
example : (∀ r ∈ rulesOf (nm "min=3,max=5"), Code.isEnum r = false) ∧ Code.accepts (nm "min=3,max=5") (nm "aaaa") = true := by decide
-- sampled instances (tests, not theorems): quoting changes the rules, spacing and order do not
example : Code.accepts (nm "enum=read write") (nm "read") = true ∧ Code.accepts (nm "enum='read write'") (nm "read") = false ∧
    Code.accepts (nm "enum='read write'") (nm "read write") = true := by decide

end Gozod.C06
