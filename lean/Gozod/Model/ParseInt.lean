/-
  Gozod.Model.ParseInt — the text ↔ integer primitives `pkg/coerce` relies on, on byte strings
  (Go strings are bytes; a byte is a `Nat` < 256):

  * `trimSpace`   — `strings.TrimSpace`: strips leading and trailing Unicode white space
                    (`unicode.IsSpace`: the six ASCII ones, U+0085, U+00A0, U+1680, U+2000–U+200A,
                    U+2028, U+2029, U+202F, U+205F, U+3000 in their UTF-8 encodings; a byte
                    sequence that is not one of these encodings is not white space).
  * `parseUint`   — `strconv.ParseUint(s, 10, bitSize)`: one or more ASCII digits, nothing else
                    (no sign; `_` is a syntax error for a base other than 0), range error when the
                    value does not fit `bitSize` bits.
  * `parseInt`    — `strconv.ParseInt(s, 10, bitSize)`: optional `+`/`-`, then `ParseUint`, then
                    the cutoff test `2^(bitSize-1)` (`-2^(bitSize-1)` itself is accepted).
  * `parseBig`    — `new(big.Int).SetString(s, base)` for base 10 / 16: optional sign, one or
                    more digits of the base (both letter cases), nothing else, no range.
  * `formatInt`   — `strconv.FormatInt(n, 10)` / `FormatUint` / `Itoa` / `big.Int.String`: `-` for
                    negatives, no leading zeros, "0" for zero.

  Only ok/error is modelled (syntax and range errors are both `none`): Go detects overflow
  incrementally against `cutoff = MaxUint64/10 + 1`; accumulating exactly and testing the range at
  the end accepts and rejects the same strings.  These definitions are driven against the real
  strconv / math/big / strings functions by `harness/cmd/c17` (op lines `P …`), and the coercion
  model takes ParseInt / SetString / TrimSpace results from here, not from the harness.

  Core-only.
-/
namespace Gozod.ParseInt

/-! ## strings.TrimSpace -/

/-- Length of the white-space rune (UTF-8) the byte string starts with, or 0. -/
def spaceAtHead : List Nat → Nat
  | 9 :: _ | 10 :: _ | 11 :: _ | 12 :: _ | 13 :: _ | 32 :: _ => 1
  | 0xC2 :: 0x85 :: _ => 2
  | 0xC2 :: 0xA0 :: _ => 2
  | 0xE1 :: 0x9A :: 0x80 :: _ => 3
  | 0xE2 :: 0x80 :: b :: _ => if (0x80 ≤ b ∧ b ≤ 0x8A) ∨ b = 0xA8 ∨ b = 0xA9 ∨ b = 0xAF then 3 else 0
  | 0xE2 :: 0x81 :: 0x9F :: _ => 3
  | 0xE3 :: 0x80 :: 0x80 :: _ => 3
  | _ => 0

/-- The same on the reversed string (the rune the string *ends* with). -/
def spaceAtEndRev : List Nat → Nat
  | 9 :: _ | 10 :: _ | 11 :: _ | 12 :: _ | 13 :: _ | 32 :: _ => 1
  | 0x85 :: 0xC2 :: _ => 2
  | 0xA0 :: 0xC2 :: _ => 2
  | 0x80 :: 0x9A :: 0xE1 :: _ => 3
  | 0x9F :: 0x81 :: 0xE2 :: _ => 3
  | 0x80 :: 0x80 :: 0xE3 :: _ => 3
  | b :: 0x80 :: 0xE2 :: _ => if (0x80 ≤ b ∧ b ≤ 0x8A) ∨ b = 0xA8 ∨ b = 0xA9 ∨ b = 0xAF then 3 else 0
  | _ => 0

def stripWith (f : List Nat → Nat) : Nat → List Nat → List Nat
  | 0, bs => bs
  | fuel + 1, bs => match f bs with
    | 0 => bs
    | n => stripWith f fuel (bs.drop n)

/-- `strings.TrimSpace`. -/
def trimSpace (bs : List Nat) : List Nat :=
  let l := stripWith spaceAtHead bs.length bs
  (stripWith spaceAtEndRev l.length l.reverse).reverse

/-! ## strings.ToLower on ASCII text -/

def isASCII (bs : List Nat) : Bool := bs.all (· < 128)

/-- `strings.ToLower` on an ASCII string (Go's fast path: `A`–`Z` + 32). Non-ASCII text goes through
    the Unicode tables and stays a parameter of the model. -/
def lowerASCII (bs : List Nat) : List Nat := bs.map (fun b => if 65 ≤ b ∧ b ≤ 90 then b + 32 else b)

/-! ## digits -/

/-- The value of an ASCII digit of `base` (10 or 16; letters in both cases), as `strconv` and
    `math/big` read it. `_` and every other byte: none. -/
def digitVal (base b : Nat) : Option Nat :=
  if 48 ≤ b ∧ b ≤ 57 then some (b - 48)
  else if base = 16 ∧ 97 ≤ b ∧ b ≤ 102 then some (b - 87)
  else if base = 16 ∧ 65 ≤ b ∧ b ≤ 70 then some (b - 55)
  else none

/-- The digit loop `n = n*base + d`; none on the first byte that is not a digit. -/
def digitsVal (base : Nat) : List Nat → Nat → Option Nat
  | [], acc => some acc
  | b :: bs, acc => match digitVal base b with
    | some d => digitsVal base bs (acc * base + d)
    | none => none

/-- `strconv.ParseUint(s, 10, bitSize)`; none = syntax or range error. -/
def parseUint (bs : List Nat) (bitSize : Nat) : Option Nat :=
  if bs = [] then none
  else match digitsVal 10 bs 0 with
    | some n => if n < 2 ^ bitSize then some n else none
    | none => none

/-- Split an optional leading `+` / `-`: (negative?, rest). -/
def splitSign : List Nat → Bool × List Nat
  | 43 :: rest => (false, rest)
  | 45 :: rest => (true, rest)
  | bs => (false, bs)

/-- `strconv.ParseInt(s, 10, bitSize)`; none = syntax or range error.  (Go tests `s == ""` first;
    here the empty string falls to `parseUint []`, an error as well.) -/
def parseInt (bs : List Nat) (bitSize : Nat) : Option Int :=
  match parseUint (splitSign bs).2 bitSize with
  | none => none
  | some un =>
    let cutoff := 2 ^ (bitSize - 1)
    if (splitSign bs).1 then (if un > cutoff then none else some (-(un : Int)))
    else (if un ≥ cutoff then none else some (un : Int))

/-- `new(big.Int).SetString(s, base)` for base 10 or 16; none = not ok. -/
def parseBig (bs : List Nat) (base : Nat) : Option Int :=
  if (splitSign bs).2 = [] then none
  else match digitsVal base (splitSign bs).2 0 with
    | some n => some (if (splitSign bs).1 then -(n : Int) else (n : Int))
    | none => none

/-- `strings.HasPrefix(s, "0x") || strings.HasPrefix(s, "0X")`. -/
def hasHexPrefix : List Nat → Bool
  | 48 :: 120 :: _ => true
  | 48 :: 88 :: _ => true
  | _ => false

/-! ## strconv.FormatInt(·, 10) -/

/-- Decimal digits of `n`, most significant first (`fuel` ≥ the number of digits). -/
def natDigitsAux : Nat → Nat → List Nat → List Nat
  | 0, _, acc => acc
  | fuel + 1, n, acc => if n < 10 then n :: acc else natDigitsAux fuel (n / 10) (n % 10 :: acc)

def natDigits (n : Nat) : List Nat := natDigitsAux (n.log2 + 1) n []

/-- `strconv.FormatUint(n, 10)`. -/
def formatNat (n : Nat) : List Nat := (natDigits n).map (· + 48)

/-- `strconv.FormatInt(n, 10)` (also `strconv.Itoa`, `big.Int.String`). -/
def formatInt (n : Int) : List Nat :=
  if n < 0 then 45 :: formatNat n.natAbs else formatNat n.natAbs

/-! ## what a decimal numeral denotes (independent of the parser's accumulator loop) -/

/-- Positional value of a digit list, most significant first. -/
def posVal (base : Nat) : List Nat → Nat
  | [] => 0
  | d :: ds => d * base ^ ds.length + posVal base ds

/-- `Denotes bs n`: `bs` is an optional `+`/`-` followed by one or more ASCII decimal digits and
    nothing else, and `n` is the integer that numeral denotes (leading zeros allowed). -/
def Denotes (bs : List Nat) (n : Int) : Prop :=
  ∃ (neg : Bool) (sign ds : List Nat),
    bs = sign ++ ds.map (· + 48) ∧ ds ≠ [] ∧ (∀ d ∈ ds, d < 10) ∧
    ((neg = false ∧ (sign = [] ∨ sign = [43])) ∨ (neg = true ∧ sign = [45])) ∧
    n = if neg then -(posVal 10 ds : Int) else (posVal 10 ds : Int)

end Gozod.ParseInt
