/-
  C19 — the dot notation identifies the path.

  `dotPathEsc` = utils.ToDotPath as it stands in /repo (since fix c7ce73a: quoted keys are string
                 literals with `\` and `"` escaped, the empty key is quoted).
  `dotPath`    = utils.ToDotPath before c7ce73a (quoted keys copied verbatim, empty key bare).

  * `c19_dotpath_esc_injective` — the FULL statement, for the code as it stands: for ALL paths (any
    keys, any indices, any length) two different paths never render alike.
  * `c19_dotpath_injective_escfree` — the code before c7ce73a: the same on the region `escFree`
    (no key is empty or contains `"` or `\`), where both renderings coincide (`dotPath_eq_esc`).
    It contains the region `plainPath` of `c19_dotpath_injective_partial` (`plainPath_escFree`);
    outside it the full statement was false (`c19_dotpath_injective_full_false`,
    `dotpath_empty_key`, `dotpath_backslash_outside` in Proofs/C19.lean and below): legacy witnesses.
-/
import Gozod.Proofs.C19
namespace Gozod.C19
open Gozod.Issues

/-! ## escaping can be read back in one way only -/

theorem escChar_cases (c : Char) :
    (c ≠ '"' ∧ c ≠ '\\' ∧ escChar c = [c]) ∨ ((c = '"' ∨ c = '\\') ∧ escChar c = ['\\', c]) := by
  unfold escChar
  by_cases h : c = '"' ∨ c = '\\'
  · right; exact ⟨h, by simp [h]⟩
  · left
    refine ⟨fun e => h (Or.inl e), fun e => h (Or.inr e), by simp [h]⟩

/-- an escaped key followed by the closing quote: the key and what follows are determined -/
theorem esc_split : ∀ (a b u v : List Char),
    escChars a ++ '"' :: u = escChars b ++ '"' :: v → a = b ∧ u = v
  | [], [], u, v, h => ⟨rfl, by simpa [escChars] using h⟩
  | [], d :: b, u, v, h => by
    rcases escChar_cases d with ⟨h1, _, he⟩ | ⟨_, he⟩
    · simp [escChars, he] at h; exact absurd h.1.symm h1
    · simp [escChars, he] at h
  | c :: a, [], u, v, h => by
    rcases escChar_cases c with ⟨h1, _, he⟩ | ⟨_, he⟩
    · simp [escChars, he] at h; exact absurd h.1 h1
    · simp [escChars, he] at h
  | c :: a, d :: b, u, v, h => by
    rcases escChar_cases c with ⟨_, hc2, hec⟩ | ⟨_, hec⟩ <;>
    rcases escChar_cases d with ⟨_, hd2, hed⟩ | ⟨_, hed⟩
    · simp [escChars, hec, hed] at h
      have := esc_split a b u v h.2
      exact ⟨by rw [h.1, this.1], this.2⟩
    · simp [escChars, hec, hed] at h
      exact absurd h.1 hc2
    · simp [escChars, hec, hed] at h
      exact absurd h.1.symm hd2
    · simp [escChars, hec, hed] at h
      have := esc_split a b u v h.2
      exact ⟨by rw [h.1, this.1], this.2⟩

/-! ## one segment -/

theorem plain_of_not_quoted {s : String} (h : quotedKey s = false) : plainKey s = true := by
  unfold quotedKey at h
  unfold plainKey
  simp only [Bool.or_eq_false_iff] at h
  simp [h.1, h.2]

theorem digit_ne_quote {c : Char} (h : c.isDigit = true) : c ≠ '"' := by
  intro e; subst e; revert h; decide

theorem ident_ne_esc {c : Char} (h : isIdentChar c = true) : c ≠ '"' ∧ c ≠ '\\' := by
  constructor <;> (intro e; subst e; revert h; decide)

theorem segDotEsc_delimited (s : Seg) (u : List Char) : delimited (segDotEsc false s ++ u) := by
  cases s with
  | idx n => simp [segDotEsc, delimited]
  | key k => cases hq : quotedKey k <;> simp [segDotEsc, hq, delimited]

theorem dotRestEsc_delimited (p : List Seg) : delimited (dotRestEsc p) := by
  cases p with
  | nil => simp [dotRestEsc, delimited]
  | cons s r => exact segDotEsc_delimited s _

/-- an index can never be read as a key -/
theorem idx_key_differ (first : Bool) (n : Nat) (k : String) (u v : List Char)
    (h : segDotEsc first (.idx n) ++ u = segDotEsc first (.key k) ++ v) : False := by
  cases hq : quotedKey k
  · obtain ⟨hne, hid, _⟩ := plainKey_chars (plain_of_not_quoted hq)
    cases first
    · simp [segDotEsc, hq] at h
    · simp only [segDotEsc, hq] at h
      cases hk : k.toList with
      | nil => exact absurd hk hne
      | cons c cs =>
        rw [hk] at h
        simp at h
        exact absurd h.1.symm (ident_ne_delim (hid c (by simp [hk]))).2
  · simp only [segDotEsc, hq] at h
    cases hd : (toString n).toList with
    | nil => rw [hd] at h; simp at h
    | cons c cs =>
      rw [hd] at h
      simp at h
      exact absurd h.1 (digit_ne_quote (repr_digits n c (by rw [hd]; simp)))

/-- a quoted key can never be read as a plain one -/
theorem quoted_plain_differ (first : Bool) (k k' : String) (u v : List Char)
    (hq : quotedKey k = true) (hq' : quotedKey k' = false)
    (h : segDotEsc first (.key k) ++ u = segDotEsc first (.key k') ++ v) : False := by
  obtain ⟨hne, hid, _⟩ := plainKey_chars (plain_of_not_quoted hq')
  cases first
  · simp [segDotEsc, hq, hq'] at h
  · simp only [segDotEsc, hq, hq'] at h
    cases hk : k'.toList with
    | nil => exact absurd hk hne
    | cons c cs =>
      rw [hk] at h
      simp at h
      exact absurd h.1.symm (ident_ne_delim (hid c (by simp [hk]))).2

/-- **one segment of the rendering can be read back in one way only** — whatever the key -/
theorem segDotEsc_split (first : Bool) (s t : Seg) (u v : List Char) (hu : delimited u) (hv : delimited v)
    (h : segDotEsc first s ++ u = segDotEsc first t ++ v) : s = t ∧ u = v := by
  cases s with
  | idx n =>
    cases t with
    | idx m =>
      simp only [segDotEsc, List.cons_append, List.append_assoc, List.cons.injEq, true_and] at h
      have := digits_split _ _ _ _ (repr_digits n) (repr_digits m) (by simpa using h)
      exact ⟨by rw [repr_toList_inj this.1], this.2⟩
    | key k => exact (idx_key_differ first n k u v h).elim
  | key k =>
    cases t with
    | idx m => exact (idx_key_differ first m k v u h.symm).elim
    | key k' =>
      cases hq : quotedKey k <;> cases hq' : quotedKey k'
      · obtain ⟨_, hid, _⟩ := plainKey_chars (plain_of_not_quoted hq)
        obtain ⟨_, hid', _⟩ := plainKey_chars (plain_of_not_quoted hq')
        have key : k.toList ++ u = k'.toList ++ v := by
          cases first <;> simpa [segDotEsc, hq, hq'] using h
        have := ident_split _ _ _ _ hid hid' hu hv key
        exact ⟨by rw [String.toList_injective this.1], this.2⟩
      · exact (quoted_plain_differ first k' k v u hq' hq h.symm).elim
      · exact (quoted_plain_differ first k k' u v hq hq' h).elim
      · have key : escChars k.toList ++ '"' :: (']' :: u) = escChars k'.toList ++ '"' :: (']' :: v) := by
          simpa [segDotEsc, hq, hq'] using h
        have := esc_split _ _ _ _ key
        have hu' : u = v := by simpa using this.2
        exact ⟨by rw [String.toList_injective this.1], hu'⟩

theorem segDotEsc_ne_nil (first : Bool) (s : Seg) (u : List Char) : segDotEsc first s ++ u ≠ [] := by
  cases s with
  | idx n => simp [segDotEsc]
  | key k =>
    cases hq : quotedKey k
    · obtain ⟨hne, _, _⟩ := plainKey_chars (plain_of_not_quoted hq)
      cases first <;> simp [segDotEsc, hq, hne]
    · simp [segDotEsc, hq]

/-! ## whole paths -/

theorem dotRestEsc_injective : ∀ (p q : List Seg), dotRestEsc p = dotRestEsc q → p = q
  | [], [], _ => rfl
  | [], t :: q, h => absurd h.symm (segDotEsc_ne_nil false t _)
  | s :: p, [], h => absurd h (segDotEsc_ne_nil false s _)
  | s :: p, t :: q, h => by
    have := segDotEsc_split false s t _ _ (dotRestEsc_delimited p) (dotRestEsc_delimited q) h
    rw [this.1, dotRestEsc_injective p q this.2]

/-- **ToDotPath identifies the path — FULL statement**: for all paths, of every length,
    with arbitrary keys (empty, numeric-looking, dotted, containing quotes, brackets, backslashes)
    and indices, two different paths never render alike.  So the "path: message" segments of
    PrettifyError / PrettifyErrorWithFormatter / err.Error() name the position unambiguously. -/
theorem c19_dotpath_esc_injective (p q : List Seg) (h : dotPathEsc p = dotPathEsc q) : p = q := by
  have h := String.ofList_injective h
  cases p with
  | nil =>
    cases q with
    | nil => rfl
    | cons t q => exact absurd h.symm (segDotEsc_ne_nil true t _)
  | cons s p =>
    cases q with
    | nil => exact absurd h (segDotEsc_ne_nil true s _)
    | cons t q =>
      have := segDotEsc_split true s t _ _ (dotRestEsc_delimited p) (dotRestEsc_delimited q) h
      rw [this.1, dotRestEsc_injective p q this.2]

/-- in particular a non-empty path never renders to nothing (`[""]` used to print like `[]`) -/
theorem c19_dotpath_esc_nonempty (p : List Seg) (h : p ≠ []) : dotPathEsc p ≠ "" := by
  intro e
  have e' : dotPathEsc p = dotPathEsc [] := by simpa [dotPathEsc, dotCharsEsc] using e
  exact h (c19_dotpath_esc_injective p [] e')

/-- the collisions of the code before c7ce73a are gone -/
example : dotPathEsc [.key "-a\"][\"-b"] ≠ dotPathEsc [.key "-a", .key "-b"] := by decide
example : dotPathEsc [.key ""] = "[\"\"]" := by decide
example : dotPathEsc [.key "users", .idx 0, .key "first-name", .key "x\"y\\"] = "users[0][\"first-name\"][\"x\\\"y\\\\\"]" := by decide

/-! ## the code before c7ce73a: same rendering — hence injective — on escape-free paths -/

/-- a key the old ToDotPath rendered exactly like the current one: not empty, no `"`, no `\` -/
def escFreeKey (s : String) : Bool :=
  !s.toList.isEmpty && s.toList.all (fun c => !(c == '"' || c == '\\'))

def escFreeSeg : Seg → Bool
  | .key s => escFreeKey s
  | .idx _ => true

/-- the region of the partial theorem; its complement (some key is empty or contains `"` or `\`)
    is the excluded region -/
def escFree (p : List Seg) : Bool := p.all escFreeSeg

theorem escChars_id : ∀ (cs : List Char), (∀ c ∈ cs, c ≠ '"' ∧ c ≠ '\\') → escChars cs = cs
  | [], _ => rfl
  | c :: r, h => by
    have hc := h c (by simp)
    have hr := escChars_id r (fun x hx => h x (by simp [hx]))
    simp [escChars, escChar, hc.1, hc.2, hr]

theorem escFreeKey_chars {s : String} (h : escFreeKey s = true) :
    s.toList ≠ [] ∧ ∀ c ∈ s.toList, c ≠ '"' ∧ c ≠ '\\' := by
  unfold escFreeKey at h
  simp only [Bool.and_eq_true, Bool.not_eq_true', List.all_eq_true] at h
  refine ⟨by intro e; simp [e] at h, fun c hc => ?_⟩
  have := h.2 c hc
  simp only [Bool.or_eq_false_iff, beq_eq_false_iff_ne] at this
  exact this

theorem segDot_eq_esc (first : Bool) (s : Seg) (h : escFreeSeg s = true) : segDot first s = segDotEsc first s := by
  cases s with
  | idx n => rfl
  | key k =>
    obtain ⟨hne, hch⟩ := escFreeKey_chars h
    have he : k.toList.isEmpty = false := by cases hk : k.toList <;> simp_all
    cases hb : needsBracket k <;> simp [segDot, segDotEsc, quotedKey, hb, he, escChars_id _ hch]

theorem dotRest_eq_esc : ∀ (p : List Seg), escFree p = true → dotRest p = dotRestEsc p
  | [], _ => rfl
  | s :: r, h => by
    simp only [escFree, List.all_cons, Bool.and_eq_true] at h
    simp [dotRest, dotRestEsc, segDot_eq_esc false s h.1, dotRest_eq_esc r (by simpa [escFree] using h.2)]

/-- on escape-free paths the old code rendered exactly what the current code renders -/
theorem dotPath_eq_esc (p : List Seg) (h : escFree p = true) : dotPath p = dotPathEsc p := by
  cases p with
  | nil => rfl
  | cons s r =>
    simp only [escFree, List.all_cons, Bool.and_eq_true] at h
    simp [dotPath, dotPathEsc, dotChars, dotCharsEsc, segDot_eq_esc true s h.1,
      dotRest_eq_esc r (by simpa [escFree] using h.2)]

/-- **ToDotPath before c7ce73a identified the path on every escape-free path** (any length, keys of
    any shape — numeric-looking, dotted, spaced, bracketed, non-ASCII — as long as no key is empty
    or contains `"` or `\`).  The full statement is `c19_dotpath_injective_full` (false, see
    `c19_dotpath_injective_full_false`). -/
theorem c19_dotpath_injective_escfree (p q : List Seg) (hp : escFree p = true) (hq : escFree q = true)
    (h : dotPath p = dotPath q) : p = q := by
  rw [dotPath_eq_esc p hp, dotPath_eq_esc q hq] at h
  exact c19_dotpath_esc_injective p q h

/-- the new region contains the old one -/
theorem plainPath_escFree : ∀ (p : List Seg), plainPath p = true → escFree p = true
  | [], _ => rfl
  | s :: r, h => by
    simp only [plainPath, List.all_cons, Bool.and_eq_true] at h
    have hr := plainPath_escFree r (by simpa [plainPath] using h.2)
    have hs : escFreeSeg s = true := by
      cases s with
      | idx n => rfl
      | key k =>
        obtain ⟨hne, hid, _⟩ := plainKey_chars h.1
        have he : k.toList.isEmpty = false := by cases hk : k.toList <;> simp_all
        simp only [escFreeSeg, escFreeKey, he, Bool.not_false, Bool.true_and, List.all_eq_true]
        intro c hc
        have := ident_ne_esc (hid c hc)
        simp [this.1, this.2]
    simp only [escFree, List.all_cons, Bool.and_eq_true]
    exact ⟨hs, by simpa [escFree] using hr⟩

example : escFree [.key "a.b", .key "0", .idx 3, .key "x y", .key "[0]", .key "名"] = true := by decide
example : plainPath [.key "a.b"] = false ∧ escFree [.key "a.b"] = true := by decide
example : escFree [.key "k\"]"] = false ∧ escFree [.key ""] = false := by decide

/-- outside the region the renderings differ (and the old one collided):
    a backslash was copied verbatim by the old code -/
theorem dotpath_backslash_outside : dotPath [.key "a\\"] ≠ dotPathEsc [.key "a\\"] := by decide

end Gozod.C19
