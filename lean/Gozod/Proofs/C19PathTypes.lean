/-
  C19 — which Go types the library itself puts into issue paths, decided over the table regenerated
  from the working tree on every run (lean/Gozod/Gen/C19PathTypes.lean, written by
  `harness/cmd/c19 -genpaths` with go/types): every site where an element enters a path, with the
  static type of the element.

  The model's path element `El` (Model/IssuesGo.lean) is `str | int | other`: `c19_path_types_covered`
  says every site's static type is one of string / int / an interface or type parameter (a value of ANY
  dynamic type, which the formatters read through `%v`: all three constructors) — a site with, say, a
  static `int64` or `float64` element would be a new case the transcriptions of the type switches have
  to be re-read against.  `c19_path_types_any_sources` pins down where arbitrary dynamic types come
  from (Map keys and Set elements), so `El.other` and negative ints are not hypothetical:
  `Map(Float64(), String()).Parse(map[any]any{1.5: 5})` has the path `[1.5]`.
-/
import Gozod.Gen.C19PathTypes
import Gozod.Model.IssuesGo
namespace Gozod.C19
open Gozod.Issues Gozod.Gen.C19PathTypes

/-- what a static Go type can hold, as constructors of `El` -/
inductive Static where
  | string | int | any
  deriving DecidableEq, Repr

def Static.ofName : String → Option Static
  | "string" => some .string
  | "int" => some .int
  | "any" => some .any
  | "interface" => some .any
  | "typeparam" => some .any
  | _ => none

/-- the elements a site of that static type can emit -/
def Static.admits : Static → El → Bool
  | .string, .str _ => true
  | .int, .int _ => true
  | .any, _ => true
  | _, _ => false

/-- **every element the library puts into a path has a static type `El` has constructors for** -/
theorem c19_path_types_covered :
    pathElementSites.all (fun s => (Static.ofName s.2.2.2).isSome) = true := by decide

/-- **`El` is not wider than the library**: every element of the model is admitted by some site
    (the `any` sites admit everything; there are string and int sites too) -/
theorem c19_el_needed (e : El) :
    pathElementSites.any (fun s => match Static.ofName s.2.2.2 with | some t => t.admits e | none => false) = true := by
  have h : pathElementSites.any (fun s => Static.ofName s.2.2.2 == some .any) = true := by decide
  rw [List.any_eq_true] at h ⊢
  obtain ⟨s, hs, ht⟩ := h
  refine ⟨s, hs, ?_⟩
  have : Static.ofName s.2.2.2 = some .any := by simpa using ht
  rw [this]
  cases e <;> rfl

/-- the sites where a FRESH element of arbitrary dynamic type enters a path (a literal, not the
    spreading of an existing path): Map keys and Set elements, and nothing else in package types -/
def anyLiteralSites : List (String × String) :=
  (pathElementSites.filter (fun s => s.2.1 == "literal" && s.2.2.2 != "string" && s.2.2.2 != "int")).map
    (fun s => (s.1, s.2.2.1))

theorem c19_path_types_any_sources :
    anyLiteralSites = [("types/map.go:collectErrors", "pathKey"), ("types/set.go:collectErrors", "pathKey")] := by decide

/-- string sites (field names, record keys, check properties) and int sites (indices) exist -/
theorem c19_path_types_typed_present :
    pathElementSites.any (fun s => s.2.2.2 == "string") = true ∧ pathElementSites.any (fun s => s.2.2.2 == "int") = true := by
  decide

/-! ## every way a path is built is one the translator understands (round 4c)

`pathSinks` is type-driven (harness/cmd/c19/pathsinks.go): every expression written to a `Path []any`
field, or to a variable / parameter / field / function result that flows into one, with its SHAPE.
A path built in a way the translator does not understand is a row `unrecognised` — the theorem below
stops checking, the tie is broken — instead of being silently absent from `pathElementSites`
(audit B, LOW: the first translator matched append / literal / index shapes under path-like names only;
this enumeration found `slices.Concat(p.path, issue.Path)` in core/context.go and the string elements
of internal/checks/factory.go:resolvePath that way). -/

def knownShapes : List String :=
  ["nil", "literal", "append", "make", "reslice", "convert", "clone", "concat", "copy", "forward", "call"]

/-- **no path is built in a way the translator does not understand** -/
theorem c19_path_sinks_recognised :
    pathSinks.all (fun s => s.2.1 != "unrecognised" && knownShapes.contains s.2.1) = true := by decide

/-- the shapes that ADD elements have their elements in `pathElementSites` (same file:function), unless the
    literal is the empty path -/
theorem c19_path_sinks_elements_recorded :
    pathSinks.all (fun s =>
      !(s.2.1 == "literal" || s.2.1 == "append" || s.2.1 == "concat") || s.2.2 == "[]any{}" ||
        pathElementSites.any (fun e => e.1 == s.1)) = true := by decide

/-- the table is not vacuous: the payload's own path (`PushPath`), issue creation and the containers are there -/
theorem c19_path_sinks_nonvacuous :
    40 ≤ pathSinks.length ∧
    pathSinks.any (fun s => s.1 == "core/context.go:PushPath" && s.2.1 == "append") = true ∧
    pathSinks.any (fun s => s.2.1 == "literal") = true ∧
    pathSinks.any (fun s => s.1 == "internal/issues/finalize.go:FinalizeIssue") = true := by decide

end Gozod.C19
