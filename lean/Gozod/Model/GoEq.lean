/-
  Gozod.Model.GoEq — Go's `==` on values held in an interface (`any`), as `ZodEnum` and `ZodLiteral` use it
  for membership:

    * `ZodEnum.validateEnum`   (types/enum.go:407)  `lookupHashable(z.internals.Values, value)`: a Go map access,
      i.e. key equality `==` on T (for T = any: interface equality); an unhashable key is "absent";
    * `ZodLiteral.Contains`    (types/literal.go:225) `slices.ContainsFunc(values, literalEqual)`: `a == b`, and
      `reflect.DeepEqual` when either side is not comparable (a slice or map held in an `any`, /repo e48d4b1).

  Interface equality: the dynamic types are identical AND the values are `==`. On floats `==` is IEEE equality:
  a NaN equals nothing (itself included), +0 == −0. A value of a named type (`type MyString string`) has another
  dynamic type than its underlying type and is never equal to it.
-/
import Gozod.Model.Num
namespace Gozod.GoEq
open Gozod

/-- A Go value as an interface holds it: the dynamic type's name and the payload. -/
inductive GoVal where
  | str (ty : String) (b : List Nat)
  | int (ty : String) (v : Int)
  | bool (ty : String) (v : Bool)
  | float (ty : String) (x : F)
  | opaque (ty : String) (repr : String)     -- an uncomparable value (slice, map): structural equality on its rendering
  deriving Repr, DecidableEq

def GoVal.ty : GoVal → String
  | .str t _ | .int t _ | .bool t _ | .float t _ | .opaque t _ => t

/-- IEEE `==` on binary64 values. -/
def floatEq (x y : F) : Bool := F.cmp x y == some .eq

/-- Go's `a == b` for `a, b any` (with `literalEqual`'s structural fallback for uncomparable values). -/
def goEq : GoVal → GoVal → Bool
  | .str t a, .str u b => t == u && a == b
  | .int t a, .int u b => t == u && a == b
  | .bool t a, .bool u b => t == u && a == b
  | .float t x, .float u y => t == u && floatEq x y
  | .opaque t a, .opaque u b => t == u && a == b
  | _, _ => false

/-- Membership as the code computes it: some listed value is `==` to the input. -/
def enumAccepts (members : List GoVal) (x : GoVal) : Bool := members.any (fun m => goEq m x)

/-! ### the documented meaning, written independently: "the input is one of the listed values" -/

/-- Two floats denote the same number: the same real (`a/2^k = b/2^l`) or the same infinity. A NaN denotes none. -/
def sameNumber : F → F → Prop
  | .fin a k, .fin b l => a * 2 ^ l = b * 2 ^ k
  | .pinf, .pinf => True
  | .ninf, .ninf => True
  | _, _ => False

/-- The two interface values are the same value of the same Go type. -/
def SameValue : GoVal → GoVal → Prop
  | .str t a, .str u b => t = u ∧ a = b
  | .int t a, .int u b => t = u ∧ a = b
  | .bool t a, .bool u b => t = u ∧ a = b
  | .float t x, .float u y => t = u ∧ sameNumber x y
  | .opaque t a, .opaque u b => t = u ∧ a = b
  | _, _ => False

/-- **Documented meaning of Enum / Literal:** the input is one of the listed values. -/
def OneOf (members : List GoVal) (x : GoVal) : Prop := ∃ m ∈ members, SameValue m x

/-- The spec oracle the driver evaluates: decides `OneOf` without going through `goEq` / `F.cmp`
    (cross-multiplied integers for floats, plain equality otherwise). -/
def sameNumberB : F → F → Bool
  | .fin a k, .fin b l => decide (a * 2 ^ l = b * 2 ^ k)
  | .pinf, .pinf => true
  | .ninf, .ninf => true
  | _, _ => false

def sameValueB : GoVal → GoVal → Bool
  | .str t a, .str u b => decide (t = u) && decide (a = b)
  | .int t a, .int u b => decide (t = u) && decide (a = b)
  | .bool t a, .bool u b => decide (t = u) && decide (a = b)
  | .float t x, .float u y => decide (t = u) && sameNumberB x y
  | .opaque t a, .opaque u b => decide (t = u) && decide (a = b)
  | _, _ => false

def specOneOf (members : List GoVal) (x : GoVal) : Bool :=
  match members with
  | [] => false
  | m :: ms => sameValueB m x || specOneOf ms x

end Gozod.GoEq
