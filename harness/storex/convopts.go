package storex

// Conversion options with callbacks (C12, round 4b): option sets that carry `URI` / `Override` callbacks, unknown option
// strings, combinations and private registries with full entries; the level-1 mutation of a document node (what an
// Override — or a caller holding the returned document — can write through the references the node holds); and the
// measurement, on a scout replica, of which GlobalRegistry entries' example lists a conversion's document holds.

import (
	"encoding/json"
	"fmt"
	"reflect"
	"sort"
	"strings"
	"unsafe"

	lib "github.com/kaptinlin/jsonschema"

	"github.com/kaptinlin/gozod"
	"github.com/kaptinlin/gozod/core"
	"github.com/kaptinlin/gozod/jsonschema"

	"verifharness/hx"
)

// Option-set indices beyond the fixed ones and the three private registries of hist.go (OptionSets() + 3 = 9).
const (
	OptCallbacksRead = 9 + iota // URI + an Override that only reads what it is handed
	OptOverrideEdit             // an Override that assigns value keywords of the node (title, description, $comment-like)
	OptBogus                    // unknown option strings in every string field
	OptCombo                    // IO input + Reused ref + Unrepresentable any + Cycles ref + URI
	OptRegistryFull             // a private registry with ID, title, description and examples for the converted schema
	OptInplace                  // an Override that rewrites IN PLACE every list / pointee the node holds (ConvW histories only)
	OptMutReturned              // no callback; the caller rewrites in place every list / pointee of the RETURNED document
	nOptAll
)

// NOptionsPure counts the option sets without persistent effect by construction (every set but the two in-place ones).
func NOptionsPure() int { return OptInplace }

// OptionName names an option set for the evidence.
func OptionName(opt int) string {
	names := []string{"default", "io-input", "unrepresentable-any", "reused-ref", "draft-07", "cycles-throw", "registry-self", "registry-all",
		"registry-empty", "uri+override-readonly", "override-edits-values", "unknown-strings", "combination+uri", "registry-full-entry",
		"override-rewrites-in-place", "caller-rewrites-returned-document"}
	if opt >= 0 && opt < len(names) {
		return names[opt]
	}
	return fmt.Sprintf("opt%d", opt)
}

func testURI(id string) string { return "https://example.test/defs/" + id }

// MutSentinel is what the in-place rewriting stores into `any` / string slots.
const MutSentinel = "MUT"

// MutCode is the model's code of the sentinel as a registry example value.
func MutCode() int {
	return exampleCode(MutSentinel)
}

func exampleCode(e any) int {
	internMu.Lock()
	defer internMu.Unlock()
	k := Canon(e) + fmt.Sprintf("|%T", e)
	c, ok := internEx[k]
	if !ok {
		c = len(internEx) + 1
		internEx[k] = c
	}
	return c
}

var tSchemaPtr = reflect.TypeOf((*lib.Schema)(nil))

func holdsSchemas(t reflect.Type) bool {
	switch t.Kind() {
	case reflect.Ptr:
		return t == tSchemaPtr || (t.Elem().Kind() == reflect.Map && holdsSchemas(t.Elem()))
	case reflect.Slice, reflect.Map:
		return holdsSchemas(t.Elem())
	}
	return false
}

// MutSlots rewrites, in place, everything ONE document node holds by reference except its child nodes: every element
// of every list (`Examples`, `Enum`, `Required`, `Type`), the pointee of every pointer to a scalar (`Title`, `MinLength`,
// `Pattern`, …), `Const.Value`, every value of `DependentRequired`.  It never follows an element (a map that is an enum
// member is replaced in its slot, not entered): level 1 of the memory the node hands to whoever holds it.
func MutSlots(n *lib.Schema) {
	if n == nil {
		return
	}
	v := reflect.ValueOf(n).Elem()
	for i := 0; i < v.NumField(); i++ {
		f := v.Field(i)
		sf := v.Type().Field(i)
		if sf.PkgPath != "" || holdsSchemas(sf.Type) {
			continue
		}
		switch f.Kind() {
		case reflect.Slice:
			for k := 0; k < f.Len(); k++ {
				setSentinel(f.Index(k))
			}
		case reflect.Ptr:
			if f.IsNil() {
				continue
			}
			e := f.Elem()
			switch e.Kind() {
			case reflect.String, reflect.Float64, reflect.Bool:
				if sf.Name != "Boolean" { // the boolean-schema switch is the node's kind, not a keyword
					setSentinel(e)
				}
			case reflect.Struct:
				if cv, ok := f.Interface().(*lib.ConstValue); ok && cv != nil {
					cv.Value = MutSentinel
				}
			}
		case reflect.Map:
			for _, k := range f.MapKeys() {
				e := f.MapIndex(k)
				if e.Kind() == reflect.Slice {
					for j := 0; j < e.Len(); j++ {
						setSentinel(e.Index(j))
					}
				}
			}
		}
	}
}

func setSentinel(x reflect.Value) {
	if !x.CanSet() {
		return
	}
	switch x.Kind() {
	case reflect.Interface:
		if x.Type().NumMethod() == 0 {
			x.Set(reflect.ValueOf(MutSentinel))
		}
	case reflect.String:
		x.SetString(MutSentinel)
	case reflect.Float64:
		x.SetFloat(424242)
	case reflect.Bool:
		x.SetBool(!x.Bool())
	}
}

// docNodes lists every node reachable from the returned document (children, $defs), each once.
func docNodes(root *lib.Schema) []*lib.Schema {
	var out []*lib.Schema
	seen := map[*lib.Schema]bool{}
	var walk func(v reflect.Value, d int)
	walk = func(v reflect.Value, d int) {
		if !v.IsValid() || d > 200 {
			return
		}
		switch v.Kind() {
		case reflect.Ptr:
			if v.IsNil() {
				return
			}
			if v.Type() == tSchemaPtr {
				n := v.Interface().(*lib.Schema)
				if seen[n] {
					return
				}
				seen[n] = true
				out = append(out, n)
				e := v.Elem()
				for i := 0; i < e.NumField(); i++ {
					if sf := e.Type().Field(i); sf.PkgPath == "" && holdsSchemas(sf.Type) {
						walk(e.Field(i), d+1)
					}
				}
				return
			}
			walk(v.Elem(), d+1)
		case reflect.Slice:
			for i := 0; i < v.Len(); i++ {
				walk(v.Index(i), d+1)
			}
		case reflect.Map:
			keys := v.MapKeys()
			sort.Slice(keys, func(a, b int) bool { return fmt.Sprint(keys[a]) < fmt.Sprint(keys[b]) })
			for _, k := range keys {
				walk(v.MapIndex(k), d+1)
			}
		}
	}
	walk(reflect.ValueOf(root), 0)
	return out
}

// MutReturned is MutSlots on every node of a returned document.
func MutReturned(root *lib.Schema) {
	for _, n := range docNodes(root) {
		MutSlots(n)
	}
}

// callbackOptions builds the option sets of this file for converting live[i].
func callbackOptions(opt int, live []Schema, i int) jsonschema.Options {
	switch opt {
	case OptCallbacksRead:
		return jsonschema.Options{URI: testURI, Override: func(ctx jsonschema.OverrideContext) {
			if ctx.ZodSchema != nil && ctx.JSONSchema != nil {
				_ = ctx.ZodSchema.Internals().Type
				_ = len(ctx.JSONSchema.Examples) + len(ctx.JSONSchema.Enum)
			}
		}}
	case OptOverrideEdit:
		return jsonschema.Options{Override: func(ctx jsonschema.OverrideContext) {
			if ctx.JSONSchema == nil || ctx.ZodSchema == nil {
				return
			}
			t := "edited:" + string(ctx.ZodSchema.Internals().Type)
			ctx.JSONSchema.Title = &t
			if ctx.JSONSchema.Description == nil {
				d := "by override"
				ctx.JSONSchema.Description = &d
			}
			ctx.JSONSchema.Examples = append([]any{"first"}, ctx.JSONSchema.Examples...) // a new list: nothing written in place
		}}
	case OptBogus:
		return jsonschema.Options{Unrepresentable: "bogus", Cycles: "bogus", Reused: "bogus", Target: "bogus", IO: "bogus"}
	case OptCombo:
		return jsonschema.Options{IO: "input", Reused: "ref", Unrepresentable: "any", Cycles: "ref", Target: "draft-2020-12", URI: testURI}
	case OptRegistryFull:
		reg := core.NewRegistry[core.GlobalMeta]()
		if zs, ok := live[i].(core.ZodSchema); ok {
			reg.Add(zs, core.GlobalMeta{ID: fmt.Sprintf("F%d", i), Title: "private title", Description: "private description",
				Examples: []any{"e1", 2, []any{"n"}, map[string]any{"k": "v"}}})
		}
		return jsonschema.Options{Metadata: reg, URI: testURI}
	case OptInplace:
		return jsonschema.Options{Override: func(ctx jsonschema.OverrideContext) { MutSlots(ctx.JSONSchema) }}
	}
	return jsonschema.Options{}
}

// JSOpt converts live[i] under option set opt and serialises the document; for OptMutReturned the returned document is
// rewritten in place after it has been serialised.
func JSOpt(opt int, live []Schema, i int) string {
	o := OptionsFor(opt, live, i)
	if opt != OptMutReturned {
		return JS(live[i], o)
	}
	var out string
	p := hx.Safely(func() {
		d, err := jsonschema.ToJSONSchema(live[i], o)
		if err != nil {
			out = "ERR:" + err.Error()
			return
		}
		b, err := json.Marshal(d)
		if err != nil {
			out = "MARSHAL:" + err.Error()
		} else {
			out = string(b)
		}
		MutReturned(d)
	})
	if p != "" {
		return "PANIC:" + p
	}
	return out
}

// ---------------------------------------------------------------------------------------------
// which registry entries' example lists does a conversion's document hold?  (measured on a scout replica)

func sliceData(xs []any) uintptr {
	if len(xs) == 0 {
		return 0
	}
	return uintptr(unsafe.Pointer(unsafe.SliceData(xs)))
}

// Held is one live schema whose GlobalRegistry entry's example list the document of a conversion holds.
type Held struct {
	J             int
	Shown, Handed bool // in the returned document / in a node handed to the Override callback
}

// scoutHeld replays the history on a fresh family and converts scout[i] under option set opt with a recording Override
// in front of the option set's own: for every scout schema with a GlobalRegistry entry that has examples, is the backing
// array of the entry's list the backing array of a node's `Examples` — of a node handed to the Override, of a node of the
// returned document?  Entries that exist only after the conversion (Describe/Meta checks are registered by it) count.
func (h *Hist) scoutHeld(i, opt int) ([]Held, bool) {
	scout := Replay(h.Base, h.Calls)
	if scout == nil || i >= len(scout) {
		return nil, false
	}
	first := map[any]int{}
	for j := len(scout) - 1; j >= 0; j-- {
		first[any(scout[j])] = j
	}
	entryData := func() map[uintptr][]int { // backing array of an entry's example list -> every schema whose entry has it
		m := map[uintptr][]int{}
		for j, s := range scout {
			if first[any(s)] != j {
				continue
			}
			if zs, ok := s.(core.ZodSchema); ok {
				if e, has := core.GlobalRegistry.Get(zs); has && len(e.Examples) > 0 {
					m[sliceData(e.Examples)] = append(m[sliceData(e.Examples)], j)
				}
			}
		}
		return m
	}
	shown, handed := map[int]bool{}, map[int]bool{}
	o := OptionsFor(opt, scout, i)
	inner := o.Override
	o.Override = func(ctx jsonschema.OverrideContext) {
		if ctx.JSONSchema != nil && len(ctx.JSONSchema.Examples) > 0 {
			for _, j := range entryData()[sliceData(ctx.JSONSchema.Examples)] {
				handed[j] = true
			}
		}
		if inner != nil {
			inner(ctx)
		}
	}
	hx.Safely(func() {
		d, err := jsonschema.ToJSONSchema(scout[i], o)
		if err != nil || d == nil {
			return
		}
		ed := entryData()
		for _, n := range docNodes(d) {
			if len(n.Examples) > 0 {
				for _, j := range ed[sliceData(n.Examples)] {
					shown[j] = true
				}
			}
		}
		// a document was returned: what a handed node held is in it, if only as a copy (an Override may have put the
		// elements into a new list)
		for j := range handed {
			shown[j] = true
		}
	})
	var out []Held
	for j := range scout {
		if shown[j] || handed[j] {
			out = append(out, Held{J: j, Shown: shown[j], Handed: handed[j]})
		}
	}
	return out, true
}

// ConvW is ConvR for histories that contain in-place rewriting of documents (OptInplace / OptMutReturned): every conv
// step additionally carries, for the Lean model (`ConvOpts.convertO` with `copy = false`), the live schemas whose
// registry entry's example list the scout's document holds, with the entry before; the harness reports the entries it
// finds afterwards (`w<j>=<entry>` in the structure).
func (h *Hist) ConvW(i, opt int, o *hx.Out) {
	held, ok := h.scoutHeld(i, opt)
	before := make([]string, len(h.Live))
	for k, l := range h.Live {
		before[k] = entryCode(l.S) // "-": no entry yet (a Describe/Meta check registers it during the conversion; the model derives it)
	}
	h.WTok = "W?"
	h.ConvR(i, opt, o)
	h.WTok = ""
	// The scout tells which schemas' lists the document holds; which OTHER live entries are the same list (the entries of
	// derived schemas and of schemas carrying the same check value share one backing array, and earlier conversions of
	// this history have registered entries the fresh scout family does not have) is read off the live registry.
	entryPtr := func(k int) uintptr {
		if zs, isZ := h.Live[k].S.(core.ZodSchema); isZ {
			if e, has := core.GlobalRegistry.Get(zs); has {
				return sliceData(e.Examples)
			}
		}
		return 0
	}
	shown, handed := map[int]bool{}, map[int]bool{}
	for _, x := range held {
		if x.J >= len(h.Live) {
			continue
		}
		p := entryPtr(x.J)
		if p == 0 {
			continue
		}
		for k := range h.Live {
			if entryPtr(k) == p {
				shown[k] = shown[k] || x.Shown
				handed[k] = handed[k] || x.Handed
			}
		}
	}
	var items, after []string
	for k := range h.Live {
		if !shown[k] && !handed[k] {
			continue
		}
		fl := ""
		if shown[k] {
			fl += "s"
		}
		if handed[k] {
			fl += "h"
		}
		items = append(items, fmt.Sprintf("%d=%s:%s", k, before[k], fl))
		if (opt == OptInplace && handed[k]) || (opt == OptMutReturned && shown[k]) {
			after = append(after, fmt.Sprintf("%d=%s", k, entryCode(h.Live[k].S)))
		}
	}
	tok := fmt.Sprintf("W%d/", MutCode())
	if !ok {
		tok += "scout-failed"
	} else if len(items) == 0 {
		tok += "-"
	} else {
		tok += strings.Join(items, ",")
	}
	last := len(h.Steps) - 1
	h.Steps[last] = strings.Replace(h.Steps[last], " W? ", " "+tok+" ", 1)
	if len(after) > 0 {
		st := h.Strct[len(h.Strct)-1]
		cut := strings.Index(st+"!", "!")
		h.Strct[len(h.Strct)-1] = st[:cut] + "w" + strings.Join(after, ",") + st[cut:]
	}
	o.Count("class:conv-with-held-examples-measured")
	if len(items) > 0 {
		o.Count("class:conv-document-holds-registry-examples")
	}
}

// ---------------------------------------------------------------------------------------------
// ToJSONSchema(registry)

// registryFor builds a private registry over the family: variant 0 = every schema with an ID, 1 = every schema with a
// title only (nothing is hoisted), 2 = every second schema with an ID and examples.
func registryFor(live []Schema, variant int) *core.Registry[core.GlobalMeta] {
	reg := core.NewRegistry[core.GlobalMeta]()
	for j, s := range live {
		zs, ok := s.(core.ZodSchema)
		if !ok {
			continue
		}
		switch variant % 3 {
		case 0:
			reg.Add(zs, core.GlobalMeta{ID: fmt.Sprintf("R%d", j)})
		case 1:
			reg.Add(zs, core.GlobalMeta{Title: fmt.Sprintf("t%d", j)})
		case 2:
			if j%2 == 0 {
				reg.Add(zs, core.GlobalMeta{ID: fmt.Sprintf("R%d", j), Examples: []any{"e", j}})
			}
		}
	}
	return reg
}

// NRegistryVariants: registry contents x option settings (default, reused-ref, io-input+uri).
func NRegistryVariants() int { return 9 }

func jsRegistry(live []Schema, variant int) string {
	reg := registryFor(live, variant)
	var o jsonschema.Options
	switch variant / 3 {
	case 1:
		o = jsonschema.Options{Reused: "ref"}
	case 2:
		o = jsonschema.Options{IO: "input", URI: testURI, Unrepresentable: "any"}
	}
	return JS(reg, o)
}

// ConvReg converts a REGISTRY that holds every live schema (`ToJSONSchema(registry, opts)`): the document is compared with
// the one the isolated twin family's registry gives, and every live schema is re-observed.
func (h *Hist) ConvReg(variant int, o *hx.Out) {
	if h.anyMetaChecks() {
		return // a registry conversion visits every schema: the registering of Describe/Meta checks is ConvR's tie
	}
	lives := make([]Schema, len(h.Live))
	for j, x := range h.Live {
		lives[j] = x.S
	}
	iso := "replay-failed"
	if twin := Replay(h.Base, h.Calls); twin != nil {
		iso = jsRegistry(twin, variant)
	}
	doc := jsRegistry(lives, variant)
	changed, bagChanged := h.relook(o, fmt.Sprintf("convreg %d", variant))
	same := "1"
	if doc != iso {
		same = "0"
		for try := 0; try < 12; try++ {
			if twin := Replay(h.Base, h.Calls); twin != nil {
				if d := jsRegistry(twin, variant); d != iso {
					same = "n" + docDiffKeys(iso, d)
					o.Count("convreg:nondeterministic-in-isolation")
					break
				}
			}
		}
	}
	l := h.Live[0]
	h.Steps = append(h.Steps, fmt.Sprintf("0 convreg %d 0 0 %s %s 0 ToJSONSchema(registry)@%s", variant, l.Snap.BagState, l.Snap.ValState, shortType(l.S)))
	h.Verd = append(h.Verd, fmt.Sprintf("%s:%s", same, idx(changed)))
	h.Strct = append(h.Strct, "g"+idx(bagChanged))
	h.Names = append(h.Names, fmt.Sprintf("convreg(%d)", variant))
	o.Count("class:convreg")
	if strings.HasPrefix(doc, "ERR:") {
		o.Count("convreg:error")
	}
}

// MetaExampleBases are schemas whose GlobalRegistry entry carries examples from the start (the `Meta` METHOD), alone and
// inside composites and wrappers: the entries `applyMeta` copies `Examples` from.
func MetaExampleBases() []Base {
	ex := func() []any { return []any{"alice", "bob"} }
	mk := func(name string, f func() any) Base { return Base{Name: name, Mk: f} }
	return []Base{
		mk("MetaExString", func() any { return gozod.String().Meta(core.GlobalMeta{Title: "T", Examples: ex()}) }),
		mk("MetaExIntID", func() any { return gozod.Int().Meta(core.GlobalMeta{ID: "X1", Examples: []any{1, 2, 3}}) }),
		mk("MetaExObject", func() any {
			return gozod.Object(core.ObjectSchema{"a": gozod.String(), "b": gozod.Int()}).
				Meta(core.GlobalMeta{Description: "D", Examples: []any{map[string]any{"a": "x", "b": 1}}})
		}),
		mk("MetaExSliceElem", func() any { return gozod.Slice[string](gozod.String().Meta(core.GlobalMeta{Examples: ex()})) }),
		mk("MetaExOptional", func() any { return gozod.String().Meta(core.GlobalMeta{Examples: ex()}).Optional() }),
		mk("MetaExComposite", func() any {
			return gozod.Bool().Meta(core.GlobalMeta{Examples: []any{[]any{"n", 1}, map[string]any{"k": "v"}}})
		}),
	}
}
