/-
  C19 specification oracle for Go-level errors (every path element type, nil errors), written from
  the property statement:

  * a report accounts for every issue, whatever its path elements are, and never panics;
  * the position a path denotes: a string is a key, a non-negative int an index, any other value
    (a negative int, a map key / set element of another type) the key its `%v` text is (`El.pos`,
    READING DECISION in notes/C19.md) — the reports are then those of the grouping oracle of
    Model/IssuesSpec.lean on the positions;
  * the pretty report names the position in the documented notation: an int in brackets (`[-1]` for a
    negative one, as Zod writes numbers), anything else as the key of its text;
  * a nil `*ZodError` carries no issue: its reports are those of an error without issues.
-/
import Gozod.Model.IssuesGo
import Gozod.Model.IssuesSpec
namespace Gozod.Issues.Spec
open Gozod.Issues

def docSegGo (first : Bool) : El → String
  | .int z => s!"[{z}]"
  | .str s => docSeg first (.key s)
  | .other r => docSeg first (.key r)

def docPathGo : List El → String
  | [] => ""
  | s :: r => docSegGo true s ++ String.join (r.map (docSegGo false))

def specPrettyGo (is : List IssueGo) : String :=
  if is.isEmpty then "Validation failed"
  else "; ".intercalate (is.map (fun i => if i.path.isEmpty then i.msg else docPathGo i.path ++ ": " ++ i.msg))

def issuesOf : Err → List IssueGo
  | none => []
  | some is => is

def specReports (e : Err) : Flat × Tree × Fmt × String :=
  let is := issuesOf e
  (specFlat (normList is), specTree (normList is), specFmt (normList is), specPrettyGo is)

end Gozod.Issues.Spec
