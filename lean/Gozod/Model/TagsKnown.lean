/-
  C06: the matrix the regenerated table must cover, and the *known-finding region* — the cells of
  the rule matrix where the pinned library does not apply the documented rule (known-findings.txt,
  `open: property=C06 key=cell:… / pair:…`).  Hand-written and fixed; the table is regenerated.
-/
import Gozod.Model.Tags
namespace Gozod.Tags

def allBases : List Base :=
  [.string, .int, .int8, .int16, .int32, .int64, .uint, .uint8, .uint16, .uint32, .uint64, .float32, .float64, .bool,
   .slice_string, .slice_int, .slice_int64, .slice_float64, .slice_bool, .slice_int32, .slice_uint8,
   .slice_slice_string, .slice_struct, .slice_ptr_string,
   .map_string_string, .map_string_int, .map_string_any, .map_string_float64, .struct, .structT]

/-- every field type of the matrix: each base, then a pointer to each base -/
def allFtys : List FTy := allBases.map (FTy.mk false) ++ allBases.map (FTy.mk true)

/-- the rule instances of the matrix for a class: every rule docs/tags.md documents for it
    (plus `min=37` for strings: a valid UUID has 36 bytes, so only a larger minimum can expose a dropped `min`) -/
def instances : Cls → List TRule
  | .str => [.required, .min 20, .max 30, .length 25, .email, .url, .uuid, .regex, .min 37]
  | .num => [.required, .min 3, .max 5, .positive, .negative, .nonnegative, .nonpositive]
  | .slice => [.required, .min 2, .max 4, .length 3, .nonempty]
  | .bool | .map | .struct => [.required]

def smallCmp : List TRule := [.gt 3, .gte 3, .lt 5, .lte 5]

/-- (signed, bits) of the integer field types -/
def Base.intShape : Base → Option (Bool × Nat)
  | .int => some (true, 64) | .int8 => some (true, 8) | .int16 => some (true, 16) | .int32 => some (true, 32) | .int64 => some (true, 64)
  | .uint => some (false, 64) | .uint8 => some (false, 8) | .uint16 => some (false, 16) | .uint32 => some (false, 32) | .uint64 => some (false, 64)
  | _ => none

def big53 : Int := 2 ^ 53 + 1

/-- single-rule cells with LARGE and type-boundary parameters, per integer width (a parameter above
    2^53 exposes any detour of the bound through float64), plus `gt/gte/lt/lte` -/
def extraInstances (b : Base) : List TRule :=
  match b.intShape with
  | some (true, bits) =>
    let hi : Int := 2 ^ (bits - 1) - 1
    let lo : Int := -(2 ^ (bits - 1))
    (if bits = 64 then
      [.min big53, .max big53, .min hi, .max hi, .min lo, .max lo, .gt big53, .gte big53, .lt big53, .lte big53]
     else [.min hi, .max hi, .min lo, .max lo]) ++ smallCmp
  | some (false, bits) =>
    let hi : Int := 2 ^ bits - 1
    (if bits = 64 then
      [.min big53, .max big53, .min (2 ^ 63 - 1), .max (2 ^ 63 - 1), .min hi, .max hi, .gt big53, .gte big53, .lt big53, .lte big53]
     else [.min hi, .max hi]) ++ smallCmp
  | none => match b with | .float32 | .float64 => smallCmp | _ => []

/-- all single-rule cells of a field type -/
def singleInstances (b : Base) : List TRule := instances b.cls ++ extraInstances b

def pairsOf : List TRule → List (TRule × TRule)
  | [] => []
  | r :: rs => rs.map (fun s => (r, s)) ++ pairsOf rs

/-- unordered pairs probed (in both orders) for a class -/
def pairInstances : Cls → List (TRule × TRule)
  | .str => pairsOf [.required, .min 20, .max 30, .length 25, .email, .url, .uuid, .regex] ++ [(.min 37, .uuid)]
  | c => pairsOf (instances c)

def Base.isUnsigned : Base → Bool
  | .uint | .uint8 | .uint16 | .uint32 | .uint64 => true | _ => false
def Base.narrowInt : Base → Bool
  | .int8 | .int16 | .int32 => true | _ => false
/-- slice element types for which the value-slice schema is typed and the rule switches list it -/
def Base.sliceListed : Base → Bool
  | .slice_string | .slice_int | .slice_struct => true | _ => false
/-- pointer-to-slice types whose schema is the untyped `SlicePtr[any]` and rejects every value -/
def Base.slicePtrAny : Base → Bool
  | .slice_int32 | .slice_uint8 | .slice_slice_string | .slice_struct | .slice_ptr_string => true | _ => false

def TRule.isFormat : TRule → Bool
  | .email | .url | .uuid => true | _ => false

/-- no value of the integer type violates the rule -/
def vacuous (r : TRule) (b : Base) : Bool :=
  match b.intShape, r with
  | some (true, bits), .min n => decide (n ≤ -(2 ^ (bits - 1)))
  | some (true, bits), .max n => decide (2 ^ (bits - 1) - 1 ≤ n)
  | some (false, bits), .max n => decide (2 ^ bits - 1 ≤ n)
  | some (false, _), .min n => decide (n ≤ 0)
  | some (false, _), .nonnegative => true
  | _, _ => false

def roundsThroughFloat : TRule → Bool
  | .gt n | .gte n | .lt n | .lte n => decide (2 ^ 53 < n.natAbs)
  | _ => false

/-- Which of the proposed repairs of the rule-application code (`pending/C06-*.diff`) the tree under
    check carries.  Each flag removes one MECHANISM from the known-finding region below; landing a fix
    flips its flag (`pending/C06-*.lean.diff`) and the partial theorems tighten by themselves, the
    witness theorems (`Proofs/C06W.lean`) keep the region exact. -/
structure Landed where
  /-- numeric rules dispatch on the generic ZodIntegerTyped / ZodFloatTyped (every width, unsigned, pointer); exact integer bounds -/
  numeric : Bool
  /-- `nonnegative` / `nonpositive` are implemented -/
  nonneg : Bool
  /-- string rules dispatch on *ZodString[T] and its wrappers; a format rule adds its checks instead of replacing the schema -/
  strings : Bool
  /-- element-count rules dispatch on the generic ZodSlice / ZodMap / ZodRecord -/
  collections : Bool
  /-- a pointer field that is not `required` accepts nil whatever its schema type -/
  ptrNil : Bool
  /-- pointers to slices / maps of other element types are converted instead of rejected -/
  ptrContainers : Bool
  /-- a `required` pointer to a struct without gozod tags must be non-nil -/
  reqUntagged : Bool

/-- the fixes /repo HEAD carries: all seven landed (9a4a316, bf27a94, df49b33, d8f36d1, 73aac3b, ec7d81c, 6071bfe); the flags are
    pinned here by hand — nothing probes the tree to set them, so a regression of a landed fix is a violation -/
def landed : Landed where
  numeric := true
  nonneg := true
  strings := true
  collections := true
  ptrNil := true
  ptrContainers := true
  reqUntagged := true

/-- KNOWN FINDINGS, single rule: the (rule, field type) cells where the schema built by FromStruct
    does not behave as documented on some boundary value. -/
def knownSingleL (L : Landed) (r : TRule) (t : FTy) : Bool :=
  match t.base.cls, t.ptr, r with
  -- numeric fields.  A rule no value of the type can violate (`max=127` on int8, `nonnegative` on
  -- uint) cannot be observed as dropped.  Otherwise: `nonnegative`/`nonpositive` are not implemented
  -- at all; value fields: the switches list int, int64, float32, float64 only; pointer fields: no
  -- switch lists a pointer schema; int/int64: `gt/gte/lt/lte` parse the bound with ParseFloat and
  -- convert back (`int64(value)`), so a bound above 2^53 is rounded.
  | .num, _, .required => false
  | .num, ptr, r =>
    if vacuous r t.base then false
    else match r with
      | .nonpositive | .nonnegative => !L.nonneg
      | _ => !L.numeric && (ptr || t.base.narrowInt || t.base.isUnsigned || (t.base.intShape.isSome && roundsThroughFloat r))
  | .str, false, _ => false
  | .str, true, .min _ | .str, true, .max _ | .str, true, .length _ | .str, true, .regex => !L.strings
  | .str, true, .uuid => !(L.strings || L.ptrNil)      -- nil rejected although not `required`
  | .str, true, _ => false
  | .slice, false, .required => false
  | .slice, false, _ => !L.collections && !t.base.sliceListed
  | .slice, true, .required => !L.ptrContainers && t.base.slicePtrAny      -- every value rejected
  | .slice, true, _ =>                                  -- rule ignored; nil rejected; every value rejected
    !L.collections || !L.ptrNil || (!L.ptrContainers && t.base.slicePtrAny)
  | .map, true, .required =>
    !L.ptrContainers && (match t.base with | .map_string_any => false | _ => true)   -- every value rejected
  | .struct, true, .required =>
    !L.reqUntagged && (match t.base with | .struct => true | _ => false)             -- nil accepted (schema is Any())
  | _, _, _ => false

def knownSingle (r : TRule) (t : FTy) : Bool := knownSingleL landed r t

/-- KNOWN FINDINGS, two rules: cells whose verdicts are not the conjunction of the two single-rule
    cells.  On `string` a format rule replaces the schema and the other rule is lost in both
    orders; with two format rules the first one wins.  (`required` composes with everything.) -/
def knownPair (r₁ r₂ : TRule) (t : FTy) : Bool :=
  let exposable (o : TRule) (f : TRule) : Bool :=      -- can a member of format `f` violate `o`?
    match f, o with
    | .uuid, .min n => decide (36 < n)
    | .uuid, .max n => decide (n < 36)
    | .uuid, .length n => decide (n ≠ 36)
    | _, .required => false
    | _, _ => true
  !landed.strings &&
  match t.base with
  | .string =>
    if t.ptr then r₁.isFormat && r₂.isFormat
    else (r₁.isFormat && exposable r₂ r₁) || (r₂.isFormat && exposable r₁ r₂)
  | _ => false

/-- KNOWN FINDINGS, order: the two orders of the tag give different schemas. -/
def knownOrder (r₁ r₂ : TRule) (t : FTy) : Bool :=
  !landed.strings &&
  match t.base with
  | .string => r₁.isFormat && r₂.isFormat
  | _ => false

end Gozod.Tags
