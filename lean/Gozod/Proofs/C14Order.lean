/-
  C14 — deadlock freedom of the library's own locking, over the regenerated lock-order table.

  General part (any table, any rank): threads that keep the lock discipline `wr` (a lock is only acquired while
  every lock held ranks strictly below it; nothing held at the end) never reach a state in which unfinished
  threads exist and none can move (`progress`, `wr_step`, `no_deadlock`).
  Table part (`Gozod.Gen.LockOrder.table`, regenerated from every non-test file of the library): with callbacks
  that take no library lock every locking function keeps the discipline (`lockorder_disciplined`), for the rank
  computed from the table's own acquired-while-holding relation; since /repo 1703379 no code the library does not
  control runs under a lock ; round 4b counts `once.Do` as a lock, so the lazy getter is the one callback site under a lock
  (`cb_under_lock_sites`), callbacks that take no Once keep the discipline (`lockorder_disciplined_callbacks_partial`),
  a getter re-entering `once.Do` does not (`getter_reenter_undisciplined`, `getter_reenter_stuck`: out of scope, see there).
  Witness about the legacy `Registry.Range` (callback under the read lock): a callback that calls back into the
  registry (`Get`, as every chaining method does for `GlobalRegistry`) breaks the discipline and the model thread
  is stuck (`range_reenter_undisciplined`, `range_reenter_stuck`).
-/
import Gozod.Model.LockOrder
import Gozod.Gen.LockOrder

namespace Gozod.C14
open Gozod.LockOrder

/-! ### the general theorem -/

theorem exists_max {α : Type} (f : α → Nat) : ∀ (l : List α), l ≠ [] → ∃ a ∈ l, ∀ b ∈ l, f b ≤ f a
  | [], h => absurd rfl h
  | [a], _ => ⟨a, by simp, by intro b hb; simp at hb; subst hb; exact Nat.le_refl _⟩
  | a :: b :: r, _ => by
    obtain ⟨m, hm, hmax⟩ := exists_max f (b :: r) (by simp)
    by_cases hc : f m ≤ f a
    · refine ⟨a, by simp, ?_⟩
      intro x hx
      rcases List.mem_cons.1 hx with rfl | hx
      · exact Nat.le_refl _
      · exact Nat.le_trans (hmax x hx) hc
    · refine ⟨m, List.mem_cons_of_mem _ hm, ?_⟩
      intro x hx
      rcases List.mem_cons.1 hx with rfl | hx
      · omega
      · exact hmax x hx

/-- the lock a thread is waiting for (0 when it is not about to acquire) -/
def wants (t : Thread) : Nat :=
  match t.rest with
  | .acq n :: _ => n
  | _ => 0

/-- **progress**: if every thread keeps the discipline and some thread is not finished, some thread can move. -/
theorem progress (ts : List Thread) (h : ∀ t ∈ ts, wr t.held t.rest = true)
    (hu : ∃ t ∈ ts, t.rest ≠ []) : ∃ t ∈ ts, enabled ts t = true := by
  by_cases hrel : ∃ t ∈ ts, ∃ n r, t.rest = .rel n :: r
  · obtain ⟨t, ht, n, r, hr⟩ := hrel
    exact ⟨t, ht, by simp [enabled, hr]⟩
  · -- every unfinished thread is about to acquire; take the one that wants the highest lock
    have hne : ts.filter (fun t => !t.rest.isEmpty) ≠ [] := by
      obtain ⟨t, ht, hr⟩ := hu
      intro he
      have : t ∈ ts.filter (fun t => !t.rest.isEmpty) := by
        refine List.mem_filter.2 ⟨ht, ?_⟩
        cases hrest : t.rest with
        | nil => exact absurd hrest hr
        | cons _ _ => simp
      rw [he] at this
      simp at this
    obtain ⟨t, htm, hmax⟩ := exists_max wants _ hne
    have ht : t ∈ ts := (List.mem_filter.1 htm).1
    have htr : t.rest ≠ [] := by
      have := (List.mem_filter.1 htm).2
      intro he
      simp [he] at this
    refine ⟨t, ht, ?_⟩
    cases hrest : t.rest with
    | nil => exact absurd hrest htr
    | cons e r =>
      cases e with
      | rel n => exact absurd ⟨t, ht, n, r, hrest⟩ hrel
      | acq n =>
        simp only [enabled, hrest, List.all_eq_true, Bool.not_eq_true']
        intro u hu'
        cases hc : u.held.contains n with
        | false => rfl
        | true =>
          exfalso
          have hmem : n ∈ u.held := by simpa using hc
          have hwu := h u hu'
          cases hur : u.rest with
          | nil =>
            rw [hur] at hwu
            simp only [wr, List.isEmpty_iff] at hwu
            rw [hwu] at hmem
            simp at hmem
          | cons e' r' =>
            cases e' with
            | rel n' => exact hrel ⟨u, hu', n', r', hur⟩
            | acq n' =>
              rw [hur] at hwu
              simp only [wr, Bool.and_eq_true, List.all_eq_true, decide_eq_true_eq] at hwu
              have hlt : n < n' := hwu.1 n hmem
              have hum : u ∈ ts.filter (fun t => !t.rest.isEmpty) :=
                List.mem_filter.2 ⟨hu', by simp [hur]⟩
              have := hmax u hum
              simp only [wants, hur, hrest] at this
              omega

/-- the discipline is kept by every step of a thread -/
theorem wr_step (t : Thread) (h : wr t.held t.rest = true) : wr (stepT t).held (stepT t).rest = true := by
  unfold stepT
  cases hr : t.rest with
  | nil => simpa [hr] using h
  | cons e r =>
    cases e with
    | rel n => rw [hr] at h; simpa [wr] using h
    | acq n =>
      rw [hr] at h
      simp only [wr, Bool.and_eq_true] at h
      exact h.2

/-- one scheduler step: an enabled thread moves -/
inductive Step : List Thread → List Thread → Prop
  | mk (pre : List Thread) (t : Thread) (post : List Thread) :
      enabled (pre ++ t :: post) t = true → Step (pre ++ t :: post) (pre ++ stepT t :: post)

inductive Reach : List Thread → List Thread → Prop
  | refl (ts) : Reach ts ts
  | step {a b c} : Reach a b → Step b c → Reach a c

theorem reach_wr {a b : List Thread} (hr : Reach a b) (h : ∀ t ∈ a, wr t.held t.rest = true) :
    ∀ t ∈ b, wr t.held t.rest = true := by
  induction hr with
  | refl => exact h
  | step _ hs ih =>
    cases hs with
    | mk pre t post _ =>
      intro u hu
      rcases List.mem_append.1 hu with hu | hu
      · exact ih u (List.mem_append.2 (Or.inl hu))
      · rcases List.mem_cons.1 hu with rfl | hu
        · exact wr_step t (ih t (List.mem_append.2 (Or.inr (List.mem_cons_self))))
        · exact ih u (List.mem_append.2 (Or.inr (List.mem_cons_of_mem _ hu)))

/-- **no_deadlock**: from threads that hold nothing and run disciplined programs, every reachable state in which some
    thread is unfinished has a thread that can move. -/
theorem no_deadlock (progs : List (List PEv)) (h : ∀ p ∈ progs, wr [] p = true)
    (ts : List Thread) (hr : Reach (progs.map (fun p => ⟨[], p⟩)) ts) (hu : ∃ t ∈ ts, t.rest ≠ []) :
    ∃ t ∈ ts, enabled ts t = true := by
  refine progress ts (reach_wr hr ?_) hu
  intro t ht
  obtain ⟨p, hp, rfl⟩ := List.mem_map.1 ht
  exact h p hp

/-- a thread that runs disciplined segments one after the other (calls made while it holds nothing) is disciplined -/
theorem wr_append : ∀ (a : List PEv) (held : List Nat) (b : List PEv),
    wr held a = true → wr [] b = true → wr held (a ++ b) = true
  | [], held, b, ha, hb => by
    simp only [wr, List.isEmpty_iff] at ha
    subst ha
    simpa using hb
  | .acq n :: r, held, b, ha, hb => by
    simp only [wr, Bool.and_eq_true, List.cons_append] at ha ⊢
    exact ⟨ha.1, wr_append r _ b ha.2 hb⟩
  | .rel n :: r, held, b, ha, hb => by
    simp only [wr, List.cons_append] at ha ⊢
    exact wr_append r _ b ha hb

theorem wr_segments (segs : List (List PEv)) (h : ∀ s ∈ segs, wr [] s = true) : wr [] segs.flatten = true := by
  induction segs with
  | nil => rfl
  | cons s r ih =>
    simp only [List.flatten_cons]
    exact wr_append s [] _ (h s (by simp)) (ih (fun x hx => h x (List.mem_cons_of_mem _ hx)))

/-- what `disciplined` establishes for each function of a table -/
theorem disciplined_wr (tbl : List Fn) (cbBody : List Ev) (h : disciplined tbl cbBody = true) (f : Fn) (hf : f ∈ tbl) :
    ∃ p, flatten tbl (order tbl) cbBody (fuelFor tbl) 0 f.evs = some p ∧ wr [] p = true := by
  simp only [disciplined, List.all_eq_true] at h
  have := h f hf
  cases hfl : flatten tbl (order tbl) cbBody (fuelFor tbl) 0 f.evs with
  | none => simp [hfl] at this
  | some p => exact ⟨p, rfl, by simpa [hfl] using this⟩

/-! ### the regenerated table -/

/-- **lockorder_disciplined**: every locking function of the library, with the functions it calls while holding a
    lock inlined, acquires locks in strictly increasing rank and releases what it took — provided callbacks
    (`Registry.Range`'s `f`) take no library lock. -/
theorem lockorder_disciplined : disciplined Gen.LockOrder.table [] = true := by decide +kernel

/-- the table is not empty and names at least the registry mutex and both regex-cache mutexes -/
example : (mutexes Gen.LockOrder.table).length ≥ 3 ∧ Gen.LockOrder.table.length ≥ 7 := by decide +kernel

/-- no lock is ever acquired while another (or the same) lock is held: the acquired-while-holding relation is empty -/
theorem lockorder_no_nesting : edges Gen.LockOrder.table = [] := by decide +kernel

/-- the sync.Once objects of the table (their `Do` is a lock held for the length of the function it runs) -/
def onceLocks : List String := ["types.ZodLazyInternals.once"]

/-- **cb_under_lock_sites**: the places where the library runs code it does not control while holding a lock — since /repo
    1703379 no mutex is held around a callback; what remains is the lazy schema's getter, which `resolveInner` runs inside
    `once.Do` (the Once counted as a lock: round 4b). -/
theorem cb_under_lock_sites : cbUnderLock Gen.LockOrder.table = [("types.ZodLazy.resolveInner", "Getter")] := by decide +kernel

/-- the full statement: whatever a callback does — every locking function of the library in turn — the discipline holds -/
def lockorder_disciplined_any_callback_full : Prop :=
  ∀ cbBody : List Ev, (∀ e ∈ cbBody, ∃ f ∈ Gen.LockOrder.table, e = Ev.call f.name) →
    disciplinedCb Gen.LockOrder.table cbBody = true

/-- does the function call back? -/
def callsBack (f : Fn) : Bool := f.evs.any (fun e => match e with | .cb _ => true | _ => false)

/-- what a callback may do: call every locking function of the library that takes no sync.Once and does not itself call
    back (a callback that starts another `Range` with a callback nests without bound; the model inlines) -/
def callbackSafe : List Ev :=
  (Gen.LockOrder.table.filter (fun f => !takesAny onceLocks f && !callsBack f)).map (fun f => Ev.call f.name)

/-- **lockorder_disciplined_callbacks_partial**: callbacks — the Range callback (outside the lock) and the lazy getter
    (inside `once.Do`) — that call any of the library's locking functions except those that go through a lazy schema's
    `once.Do` (`callbackSafe`: the registry, the locale table, the regex caches — what chaining methods, Describe/Meta and
    format checks use) keep the discipline, for the rank computed with the callbacks' acquisitions. -/
theorem lockorder_disciplined_callbacks_partial : disciplinedCb Gen.LockOrder.table callbackSafe = true := by decide +kernel

example : callbackSafe.length ≥ 8 := by decide +kernel

/-- the rows of the regenerated table the witness is about (a sub-table: the kernel evaluates the unbounded nesting of the
    re-entrant getter until the fuel is gone, which is only affordable over a small table) -/
def getterTable : List Fn :=
  [⟨"types.ZodLazy.resolveInner", [.acq "types.ZodLazyInternals.once" true, .cb "Getter", .rel "types.ZodLazyInternals.once"]⟩]

theorem getterTable_in_table : ∀ f ∈ getterTable, f ∈ Gen.LockOrder.table := by decide +kernel

/-- **Witness**: a getter that resolves a lazy schema (parses with the schema being resolved, or — the Once being one lock
    per TYPE in this table — with any other lazy schema) re-enters `once.Do`: the discipline is broken, so the full
    statement is false for such callbacks.  Decided OUT of the property's scope: `sync.Once` documents that a re-entrant
    `Do` deadlocks, and a getter that parses with the schema it is defining does not terminate without the Once either
    (resolveInner → getter → Parse → resolveInner …); the usual recursive definition — the getter DERIVES from or refers
    to the lazy schema — takes no Once (`cloneState` loads the cache atomically). -/
theorem getter_reenter_undisciplined :
    disciplinedCb getterTable [.call "types.ZodLazy.resolveInner"] = false := by decide +kernel

/-- … and the model thread is stuck inside the getter -/
theorem getter_reenter_stuck :
    let cbBody := [Ev.call "types.ZodLazy.resolveInner"]
    let p := [PEv.acq 0, PEv.acq 0]   -- what the thread runs first: Do, and inside it the getter's Do on the same Once
    let t1 := stepT ⟨[], p⟩
    disciplinedCb getterTable cbBody = false ∧ enabled [⟨[], p⟩] ⟨[], p⟩ = true ∧ t1.rest ≠ [] ∧ enabled [t1] t1 = false := by
  decide +kernel

/-- `Registry.Range` before `fix: Range calls back outside the lock` -/
def legacyTable : List Fn := [
  ⟨"core.Registry.Get", [.acq "core.mu" false, .rel "core.mu"]⟩,
  ⟨"core.Registry.Range", [.acq "core.mu" false, .cb "f", .rel "core.mu"]⟩]

/-- every program made of calls of the table's locking functions (each call made while holding nothing, callbacks
    lock-free) is deadlock-free together with any number of such programs -/
theorem table_no_deadlock (calls : List (List Fn)) (hc : ∀ c ∈ calls, ∀ f ∈ c, f ∈ Gen.LockOrder.table)
    (progs : List (List PEv))
    (hp : progs = calls.map (fun c => (c.map (fun f =>
      (flatten Gen.LockOrder.table (order Gen.LockOrder.table) [] (fuelFor Gen.LockOrder.table) 0 f.evs).getD [])).flatten))
    (ts : List Thread) (hr : Reach (progs.map (fun p => ⟨[], p⟩)) ts) (hu : ∃ t ∈ ts, t.rest ≠ []) :
    ∃ t ∈ ts, enabled ts t = true := by
  refine no_deadlock progs ?_ ts hr hu
  intro p hpm
  subst hp
  obtain ⟨c, hcm, rfl⟩ := List.mem_map.1 hpm
  refine wr_segments _ ?_
  intro s hs
  obtain ⟨f, hf, rfl⟩ := List.mem_map.1 hs
  obtain ⟨q, hq, hw⟩ := disciplined_wr _ _ lockorder_disciplined f (hc c hcm f hf)
  simpa [hq] using hw

/-- **Witness** (legacy code): a `Range` callback that calls `Registry.Get` (every chaining method of every schema type does, on
    `GlobalRegistry`) re-acquires the registry mutex it runs under: the discipline is broken … -/
theorem range_reenter_undisciplined :
    disciplined legacyTable (body legacyTable "core.Registry.Get") = false := by decide +kernel

/-- … and in the model the thread is stuck after its first step (in Go: as soon as a writer — `Add`, `Remove`, any
    `Describe`/`Meta` — queues between the two read locks; at once when the callback itself writes). -/
theorem range_reenter_stuck :
    let p := (flatten legacyTable (order legacyTable) (body legacyTable "core.Registry.Get")
      (fuelFor legacyTable) 0 (body legacyTable "core.Registry.Range")).getD []
    let t1 := stepT ⟨[], p⟩
    p ≠ [] ∧ enabled [⟨[], p⟩] ⟨[], p⟩ = true ∧ t1.rest ≠ [] ∧ enabled [t1] t1 = false := by decide +kernel

end Gozod.C14
