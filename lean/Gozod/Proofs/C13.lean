/-
  C13 — gozodgen output compiles and validates exactly like the reflection-built schema.

  Part A (all parameter strings): the generator's literal formatting.
  Part B (finite): `decide` over the regenerated `Gen.genTable` (what gozodgen emitted, parsed from
  the written files, and whether each file type-checks — decided by `go build` in the tie) against
  `Gen.tagTable` (what FromStruct does on every probe).
-/
import Gozod.Model.GenChain
import Gozod.Model.TagsKnown
import Gozod.Gen.TagTable
import Gozod.Gen.GenTable
set_option linter.unusedSimpArgs false

namespace Gozod.C13
open Gozod.Tags Gozod.GenChain Gozod.Gen

/-! ## Part A — literals -/

def Plain (p : Str) : Prop := ∀ c ∈ p, c ≠ cDQ ∧ c ≠ cBS ∧ c ≠ cNL

theorem goStringTail_plain (p : Str) (h : Plain p) : goStringTail (p ++ [cDQ]) = some p := by
  induction p with
  | nil => simp [goStringTail]
  | cons c p ih =>
    have hc := h c (by simp)
    have hp : Plain p := fun d hd => h d (by simp [hd])
    have ih := ih hp
    cases hq : p ++ [cDQ] with
    | nil => simp at hq
    | cons d rest =>
      rw [hq] at ih
      show goStringTail (c :: (p ++ [cDQ])) = some (c :: p)
      rw [hq]
      simp [goStringTail, hc.1, hc.2.1, hc.2.2, ih]

/-- Full statement for the pinned formatting (`"%s"`): the text emitted for a `default=` parameter is a Go string literal denoting the parameter. -/
def c13_quote_full : Prop := ∀ p : Str, goStringLit (emitDefault p) = some p

/-- … true for parameters without quote, backslash, newline … -/
theorem c13_quote_partial (p : Str) (h : Plain p) : goStringLit (emitDefault p) = some p := by
  simp [emitDefault, goStringLit, goStringTail_plain p h]

/-- … and false in general: `default="` is emitted as `.Default(""")`, `default=he"llo` as `.Default("he"llo")`. -/
theorem c13_quote_full_false : ¬ c13_quote_full := by
  intro h
  have := h [0x68, 0x65, cDQ, 0x6C, 0x6C, 0x6F]
  revert this; decide

theorem c13_quote_backslash_witness : goStringLit (emitDefault [0x61, cBS, 0x62]) = some [0x61, 0x08] := by decide

example : Plain [0x68, 0x65, 0x6C, 0x6C, 0x6F] := by
  intro c hc
  simp at hc
  rcases hc with rfl | rfl | rfl | rfl | rfl <;> decide

theorem quoteRune_spec (c : Nat) (a : Str) (h : quoteRune c = some a) (tail v : Str)
    (ht : goStringTail (tail ++ [cDQ]) = some v) : goStringTail (a ++ (tail ++ [cDQ])) = some (c :: v) := by
  unfold quoteRune at h
  by_cases h1 : c = cDQ
  · subst h1; simp at h; subst h; have ht2 := ht; simp only [cDQ] at ht2; simp [goStringTail, escapeValue, ht2, cDQ, cBS, cNL]
  by_cases h2 : c = cBS
  · subst h2; simp [h1] at h; subst h; have ht2 := ht; simp only [cDQ] at ht2; simp [goStringTail, escapeValue, ht2, cDQ, cBS, cNL]
  by_cases h3 : c = 0x07
  · subst h3; simp [cDQ, cBS] at h; subst h; have ht2 := ht; simp only [cDQ] at ht2; simp [goStringTail, escapeValue, ht2, cDQ, cBS, cNL]
  by_cases h4 : c = 0x08
  · subst h4; simp [cDQ, cBS] at h; subst h; have ht2 := ht; simp only [cDQ] at ht2; simp [goStringTail, escapeValue, ht2, cDQ, cBS, cNL]
  by_cases h5 : c = 0x0C
  · subst h5; simp [cDQ, cBS] at h; subst h; have ht2 := ht; simp only [cDQ] at ht2; simp [goStringTail, escapeValue, ht2, cDQ, cBS, cNL]
  by_cases h6 : c = 0x0A
  · subst h6; simp [cDQ, cBS] at h; subst h; have ht2 := ht; simp only [cDQ] at ht2; simp [goStringTail, escapeValue, ht2, cDQ, cBS, cNL]
  by_cases h7 : c = 0x0D
  · subst h7; simp [cDQ, cBS] at h; subst h; have ht2 := ht; simp only [cDQ] at ht2; simp [goStringTail, escapeValue, ht2, cDQ, cBS, cNL]
  by_cases h8 : c = 0x09
  · subst h8; simp [cDQ, cBS] at h; subst h; have ht2 := ht; simp only [cDQ] at ht2; simp [goStringTail, escapeValue, ht2, cDQ, cBS, cNL]
  by_cases h9 : c = 0x0B
  · subst h9; simp [cDQ, cBS] at h; subst h; have ht2 := ht; simp only [cDQ] at ht2; simp [goStringTail, escapeValue, ht2, cDQ, cBS, cNL]
  simp [h1, h2, h3, h4, h5, h6, h7, h8, h9] at h
  obtain ⟨hr, ha⟩ := h
  subst ha
  cases hq : tail ++ [cDQ] with
  | nil => simp at hq
  | cons d rest =>
    rw [hq] at ht
    simp [goStringTail, h1, h2, h6, ht, cNL] 

theorem quoteBody_spec (p b : Str) (h : quoteBody p = some b) : goStringTail (b ++ [cDQ]) = some p := by
  induction p generalizing b with
  | nil => simp [quoteBody] at h; subst h; simp [goStringTail]
  | cons c p ih =>
    simp only [quoteBody] at h
    cases ha : quoteRune c with
    | none => simp [ha] at h
    | some a =>
      cases hb : quoteBody p with
      | none => simp [ha, hb] at h
      | some b' =>
        simp [ha, hb] at h
        subst h
        rw [List.append_assoc]
        exact quoteRune_spec c a ha b' p (ih b' hb)

/-- **After the fix** every modelled parameter is emitted as a Go string literal denoting it. -/
theorem c13_quote_fixed (p e : Str) (h : emitDefaultFixed p = some e) : goStringLit e = some p := by
  unfold emitDefaultFixed at h
  cases hb : quoteBody p with
  | none => simp [hb] at h
  | some b =>
    simp [hb] at h
    subst h
    simp [goStringLit, quoteBody_spec p b hb]

example : emitDefaultFixed [0x68, 0x65, cDQ, 0x6C, cBS, 0x0A] = some [cDQ, 0x68, 0x65, cBS, cDQ, 0x6C, cBS, cBS, cBS, 0x6E, cDQ] := by decide

/-- the two `ReplaceAll` passes of the regex path amount to escaping `\` and `"` rune by rune -/
def escChar (c : Nat) : Str := if c = cBS then [cBS, cBS] else if c = cDQ then [cBS, cDQ] else [c]

theorem repl_eq (p : Str) : replQuote (replBackslash p) = p.flatMap escChar := by
  induction p with
  | nil => rfl
  | cons c p ih =>
    by_cases h1 : c = cBS
    · subst h1
      have : cBS ≠ cDQ := by decide
      simp [replBackslash, replQuote, escChar, this, ih]
    · by_cases h2 : c = cDQ
      · subst h2; simp [replBackslash, replQuote, escChar, h1, ih]
      · simp [replBackslash, replQuote, escChar, h1, h2, ih]

theorem goStringTail_esc (p : Str) (h : cNL ∉ p) : goStringTail (p.flatMap escChar ++ [cDQ]) = some p := by
  induction p with
  | nil => simp [goStringTail]
  | cons c p ih =>
    have hc : c ≠ cNL := fun e => h (by simp [e])
    have ih := ih (fun hm => h (by simp [hm]))
    by_cases h1 : c = cBS
    · subst h1
      simp only [List.flatMap_cons, escChar, if_true, List.cons_append, List.nil_append]
      have e1 : (cBS = cDQ) = False := by decide
      have e2 : (cBS = cNL) = False := by decide
      have e3 : escapeValue cBS = some cBS := by decide
      simp [goStringTail, e1, e2, e3, ih]
    · by_cases h2 : c = cDQ
      · subst h2
        have e0 : (cDQ = cBS) = False := by decide
        have e3 : escapeValue cDQ = some cDQ := by decide
        have e4 : (cBS = cDQ) = False := by decide
        have e5 : (cBS = cNL) = False := by decide
        simp [escChar, e0, goStringTail, e3, e4, e5, ih]
      · simp only [List.flatMap_cons, escChar, h1, h2, if_false, List.cons_append, List.nil_append]
        cases hq : List.flatMap escChar p ++ [cDQ] with
        | nil => simp at hq
        | cons d rest =>
          rw [hq] at ih
          simp [goStringTail, h1, h2, hc, ih]

/-- **The regex escaping is right**: for every pattern without a newline the emitted text is a Go
    string literal whose value is the pattern. -/
theorem c13_regex_quote (p : Str) (h : cNL ∉ p) : goStringLit (emitRegex p) = some p := by
  simp [emitRegex, goStringLit, repl_eq, goStringTail_esc p h]

/-! ## Part B — the generated chains against FromStruct's behaviour -/

/-- FromStruct's verdict rows of a block in matrix order (singles, then each pair in both orders) -/
def refRows (b : Block) : List (List TRule × List Bool) :=
  b.singles.map (fun s => ([s.1], s.2)) ++
  b.pairs.flatMap (fun p => [([p.1, p.2.1], p.2.2.1), ([p.2.1, p.1], p.2.2.2)])

def zipTables : List (Block × List GenCell) := tagTable.zip genTable

def alignedBlock (x : Block × List GenCell) : Bool :=
  decide ((refRows x.1).map (·.1) = x.2.map (·.rules)) && x.2.all (fun c => decide (c.fty = x.1.fty))

/-- both regenerated tables list the same cells in the same order -/
theorem c13_tables_aligned : tagTable.length = genTable.length ∧ zipTables.all alignedBlock = true := by
  constructor <;> decide +kernel

/-- KNOWN FINDINGS (classes, decidable on the regenerated cell itself) -/
def refKnown (c : GenCell) : Bool :=
  c.rules.any (fun r => knownSingle r c.fty) ||
  (match c.rules with | [r₁, r₂] => knownPair r₁ r₂ c.fty || knownPair r₂ r₁ c.fty | _ => false)

/-- the generator emitted no call for some rule of the tag -/
def dropsRule (c : GenCell) : Bool :=
  c.rules.any fun r => r != .required && !(chainRules c.ctor c.chain).contains r &&
    !(r == .nonempty && (chainRules c.ctor c.chain).contains (.min 1))      -- `nonempty` is written `.Min(1)`

/-- `.Optional()` on a `required` pointer field: the generated schema accepts nil -/
def optionalOnRequired (c : GenCell) : Bool :=
  c.fty.ptr && c.rules.contains .required && acceptsNil c.chain

/-- the UUID special case appends `.Optional()` to non-pointer fields only: a `*string` field with `uuid` and without
    `required` gets `gozod.UUID()…` and rejects nil (FromStruct accepts it since 73aac3b; pending/C13-optional-special-ctor.diff) -/
def specialCtorPtrNil (c : GenCell) : Bool :=
  c.fty.ptr && !c.rules.contains .required && decide (c.ctor = .uuid) && !acceptsNil c.chain

def equivKnown (c : GenCell) : Bool := refKnown c || dropsRule c || optionalOnRequired c || specialCtorPtrNil c

def equivOKBlock (x : Block × List GenCell) : Bool :=
  ((refRows x.1).zip x.2).all fun rc =>
    rc.2.status != .ok || equivKnown rc.2 || x.1.probes.map (denote rc.2) == rc.1.2

/-- Full statement: every generated schema that compiles gives FromStruct's verdict on every probe. -/
def c13_equiv_full : Prop :=
  ∀ x ∈ zipTables, ∀ rc ∈ (refRows x.1).zip x.2, rc.2.status = .ok → x.1.probes.map (denote rc.2) = rc.1.2

/-- **Equivalence**, outside the known classes (FromStruct itself is a C06 finding on the cell; the
    generator dropped a rule; `.Optional()` on a required pointer field). -/
theorem c13_equiv_partial :
    ∀ x ∈ zipTables, ∀ rc ∈ (refRows x.1).zip x.2, rc.2.status = .ok → equivKnown rc.2 = false →
      x.1.probes.map (denote rc.2) = rc.1.2 := by
  have h : zipTables.all equivOKBlock = true := by decide +kernel
  intro x hx rc hrc hs hk
  have := List.all_eq_true.mp (List.all_eq_true.mp h x hx) rc hrc
  simpa [hs, hk] using this

/-- KNOWN FINDINGS: generated files that do not type-check. -/
def compileKnown (c : GenCell) : Bool :=
  c.rules.contains .url ||
  c.rules.any (fun r => match r with | .min n | .max n => decide (2 ^ 63 - 1 < n) | _ => false) ||  -- Uint64().Max takes an int64
  (match c.fty.base.cls, c.fty.ptr with
   | .slice, false => true                                   -- gozod.Slice(elem): cannot infer T
   | .slice, true => c.rules.any (fun r => match r with | .min _ | .max _ => true | _ => false)  -- FromStruct[[]T]().Min undefined
   | .map, false => true                                     -- gozod.Record(value): not enough arguments
   | _, _ => false)

def c13_typechecks_full : Prop := ∀ b ∈ genTable, ∀ c ∈ b, c.status = .ok

/-- **Every generated file parses and type-checks**, outside the known classes. -/
theorem c13_typechecks_partial : ∀ b ∈ genTable, ∀ c ∈ b, compileKnown c = false → c.status = .ok := by
  have h : genTable.all (fun b => b.all fun c => compileKnown c || c.status == .ok) = true := by decide +kernel
  intro b hb c hc hk
  have := List.all_eq_true.mp (List.all_eq_true.mp h b hb) c hc
  simpa [hk] using this

example : ∃ x ∈ zipTables, ∃ rc ∈ (refRows x.1).zip x.2, rc.2.status = .ok ∧ equivKnown rc.2 = false ∧ rc.2.rules = [.min 3] := by
  decide +kernel

end Gozod.C13
