package main

// Random schema trees with a matching input generator (C15 class "val"), and the typed bases for defaults ("hist").
//
// A node is a schema, a generator of by-value inputs for it (mostly accepted, sometimes not, in several Go
// representations: any-typed and typed maps / slices, structs, pointers to scalars), and whether an overwrite or a
// transform occurs anywhere in it (then the statement does not speak about the input and the case is not judged).

import (
	"encoding/json"
	"fmt"
	"reflect"
	"regexp"

	"github.com/kaptinlin/gozod"
	"github.com/kaptinlin/gozod/core"
	"github.com/kaptinlin/gozod/types"
	lib "github.com/kaptinlin/jsonschema"

	"verifharness/hx"
	"verifharness/storex"
)

type node struct {
	name string
	kind string
	s    any
	ow   bool
	in   func(g *storex.GraphGen) any
}

type sgen struct {
	r *hx.Rng
}

func zs(s any) (core.ZodSchema, bool) {
	z, ok := s.(core.ZodSchema)
	return z, ok
}

var reKey = regexp.MustCompile(`^[a-z0-9.+]+$`)

// leaf schemas
func (sg *sgen) leaf() node {
	r := sg.r
	str := func(g *storex.GraphGen) any { return hx.Pick(g.R, storex.StrPool) }
	num := func(g *storex.GraphGen) any { return g.R.Intn(9) - 2 }
	if r.Chance(22) {
		if n, ok := sg.stateLeaf(); ok {
			return n
		}
	}
	switch r.Intn(20) {
	case 0, 1:
		return node{"String", "leaf", types.String(), false, str}
	case 2:
		return node{"Int", "leaf", types.Int(), false, num}
	case 3:
		return node{"Float64", "leaf", types.Float64(), false, floatLeaf}
	case 4:
		return node{"Bool", "leaf", types.Bool(), false, func(g *storex.GraphGen) any { return g.R.Bool() }}
	case 5:
		return node{"CoercedInt", "leaf", types.CoercedInt(), false, func(g *storex.GraphGen) any {
			return hx.Pick(g.R, []any{"12", 3.0, true, 4, "03", int64(9)})
		}}
	case 6:
		return node{"CoercedString", "leaf", types.CoercedString(), false, func(g *storex.GraphGen) any {
			return hx.Pick(g.R, []any{12, true, "s", 2.5})
		}}
	case 7:
		return node{"CoercedBool", "leaf", types.CoercedBool(), false, func(g *storex.GraphGen) any {
			return hx.Pick(g.R, []any{"true", 1, false, "0"})
		}}
	case 8, 9:
		return node{"Any", "leaf", types.Any(), false, func(g *storex.GraphGen) any { return g.Value(reflect.TypeOf((*any)(nil)).Elem(), 3).Interface() }}
	case 10:
		return node{"Unknown", "leaf", types.Unknown(), false, func(g *storex.GraphGen) any { return g.Value(reflect.TypeOf((*any)(nil)).Elem(), 3).Interface() }}
	case 11:
		return node{"Literal(x)", "leaf", types.Literal("x"), false, func(g *storex.GraphGen) any { return "x" }}
	case 12:
		return node{"Enum(a,b)", "leaf", types.Enum("a", "b"), false, func(g *storex.GraphGen) any { return hx.Pick(g.R, []string{"a", "b"}) }}
	case 13:
		return node{"String.Optional", "leaf", types.String().Optional(), false, func(g *storex.GraphGen) any {
			s := hx.Pick(g.R, storex.StrPool)
			return hx.Pick(g.R, []any{s, nil, &s})
		}}
	case 14:
		return node{"Int.Default(3)", "leaf", types.Int().Default(3), false, func(g *storex.GraphGen) any {
			return hx.Pick(g.R, []any{nil, 5})
		}}
	case 15:
		return node{"StringPtr", "leaf", types.StringPtr(), false, func(g *storex.GraphGen) any {
			s := hx.Pick(g.R, storex.StrPool)
			return hx.Pick(g.R, []any{s, &s})
		}}
	case 16:
		return node{"String.Nilable", "leaf", types.String().Nilable(), false, func(g *storex.GraphGen) any {
			s := hx.Pick(g.R, storex.StrPool)
			return hx.Pick(g.R, []any{s, nil, &s})
		}}
	case 17:
		return node{"String.Trim", "leaf", types.String().Trim(), true, func(g *storex.GraphGen) any { return " " + hx.Pick(g.R, storex.StrPool) + " " }}
	case 18:
		return node{"String.ToLowerCase", "leaf", types.String().ToLowerCase(), true, func(g *storex.GraphGen) any { return "AbC" }}
	default:
		return node{"Number", "leaf", types.Number(), false, floatLeaf}
	}
}

// compositeTypes are the Go types of the reference-typed values a schema is made to hold (literal / enum members,
// JSON Schema const / enum / default values): none of them comparable with ==, top level never a pointer.
var compositeTypes = []reflect.Type{
	reflect.TypeOf([]any{}), reflect.TypeOf(map[string]any{}), reflect.TypeOf([]any{}), reflect.TypeOf(map[string]any{}),
	reflect.TypeOf([]string{}), reflect.TypeOf([]storex.Rule{}), reflect.TypeOf(map[string][]int{}),
	reflect.TypeOf([2][]string{}), storex.TRule, storex.TTag, reflect.TypeOf([]map[string]any{}),
}

// composite builds, from a seed, a non-nil composite value; calling it again with the same seed gives an equal value
// made of different cells (what a caller builds when it decodes the same document twice).
func composite(seed uint64) any {
	g := storex.NewGraphGen(hx.NewRng(seed))
	t := compositeTypes[int(seed%uint64(len(compositeTypes)))]
	for try := 0; ; try++ {
		g.Reset()
		v := g.Value(t, 3)
		switch v.Kind() {
		case reflect.Slice, reflect.Map:
			if v.IsNil() || (v.Len() == 0 && try < 20) {
				continue
			}
		}
		return v.Interface()
	}
}

// jsonComposite is a composite made of what encoding/json decodes to ([]any, map[string]any, float64, string, bool, nil).
func jsonComposite(r *hx.Rng, d int) any {
	if d <= 0 {
		return hx.Pick(r, []any{"a", "x", 1.0, 2.5, true, nil, "1.0"})
	}
	if r.Bool() {
		n := 1 + r.Intn(3)
		xs := make([]any, n)
		for i := range xs {
			xs[i] = jsonComposite(r, d-1-r.Intn(2))
		}
		return xs
	}
	m := map[string]any{}
	for i := 0; i < 1+r.Intn(3); i++ {
		m[hx.Pick(r, []string{"a", "b", "k", "1"})] = jsonComposite(r, d-1-r.Intn(2))
	}
	return m
}

func fromJSON(doc map[string]any) any {
	b, err := json.Marshal(doc)
	if err != nil {
		return nil
	}
	sch, err := lib.NewCompiler().Compile(b)
	if err != nil {
		return nil
	}
	z, err := gozod.FromJSONSchema(sch)
	if err != nil || z == nil {
		return nil
	}
	return z
}

func decodeAgain(v any) any {
	b, _ := json.Marshal(v)
	var out any
	_ = json.Unmarshal(b, &out)
	return out
}

// stateLeaf: schemas that HOLD reference-typed values other than a default / prefault — members of a literal or of a
// union of literals (Literal[any], LiteralOf[any], LiteralTyped, what FromJSONSchema builds for a composite const /
// enum), an enum over `any`, and the schemas derived from them (the clones share `Def`). Their inputs are equal values
// made of other cells, sometimes a different value.
func (sg *sgen) stateLeaf() (node, bool) {
	r := sg.r
	seed := r.Next()
	other := r.Next()
	mkIn := func(mk func(uint64) any) func(g *storex.GraphGen) any {
		return func(g *storex.GraphGen) any {
			if g.R.Chance(15) {
				return mk(other)
			}
			return mk(seed)
		}
	}
	var n node
	p := hx.Safely(func() {
		switch r.Intn(9) {
		case 0:
			n = node{"Literal[any](composite)", "leaf", types.Literal[any](composite(seed)), false, mkIn(composite)}
		case 1:
			n = node{"LiteralOf[any](composite,s,composite)", "leaf", types.LiteralOf[any]([]any{composite(seed), "s", composite(other)}), false,
				func(g *storex.GraphGen) any { return hx.Pick(g.R, []any{composite(seed), composite(other), "s", "t"}) }}
		case 2:
			n = node{"LiteralTyped[any,any](composite)", "leaf", types.LiteralTyped[any, any](composite(seed)), false, mkIn(composite)}
		case 3:
			n = node{"Literal[any](composite).Optional", "leaf", types.Literal[any](composite(seed)).Optional(), false, func(g *storex.GraphGen) any {
				if g.R.Chance(15) {
					return nil
				}
				return composite(seed)
			}}
		case 4:
			n = node{"Literal[any](composite).RefineAny", "leaf", types.Literal[any](composite(seed)).RefineAny(func(any) bool { return true }), false, mkIn(composite)}
		case 5:
			n = node{"Literal[any](composite).Default(composite)", "leaf", types.Literal[any](composite(seed)).Default(composite(seed)), false, func(g *storex.GraphGen) any {
				if g.R.Chance(25) {
					return nil
				}
				return composite(seed)
			}}
		case 6:
			c := jsonComposite(hx.NewRng(seed), 2)
			s := fromJSON(map[string]any{"const": c})
			if s == nil {
				return
			}
			n = node{"FromJSONSchema{const:composite}", "leaf", s, false, func(g *storex.GraphGen) any {
				if g.R.Chance(15) {
					return jsonComposite(hx.NewRng(other), 2)
				}
				return decodeAgain(c)
			}}
		case 7:
			c1, c2 := jsonComposite(hx.NewRng(seed), 2), jsonComposite(hx.NewRng(other), 2)
			s := fromJSON(map[string]any{"enum": []any{c1, "a", 1, c2}})
			if s == nil {
				return
			}
			n = node{"FromJSONSchema{enum:[composite,a,1,composite]}", "leaf", s, false, func(g *storex.GraphGen) any {
				return hx.Pick(g.R, []any{decodeAgain(c1), decodeAgain(c2), "a", 1.0, "zz"})
			}}
		default:
			c := jsonComposite(hx.NewRng(seed), 2)
			s := fromJSON(map[string]any{"type": []any{"array", "object"}, "default": c})
			if s == nil {
				return
			}
			n = node{"FromJSONSchema{default:composite}", "leaf", s, false, func(g *storex.GraphGen) any {
				if g.R.Chance(40) {
					return nil
				}
				return decodeAgain(c)
			}}
		}
	})
	if p != "" || n.s == nil {
		return node{}, false
	}
	if _, ok := zs(n.s); !ok {
		return node{}, false
	}
	return n, true
}

// viaPointer: now and then a member of a container input is handed over through a pointer (a map value that is *[]int, a field
// that is *map[string]any, an element that is *Rule): the member schema dereferences it, and whatever it does with the pointee is
// seen by the digests of the input graph (the pointer cell, the pointee's cells).
func viaPointer(g *storex.GraphGen, v any) any {
	if v == nil || !g.R.Chance(12) {
		return v
	}
	t := reflect.TypeOf(v)
	switch t.Kind() {
	case reflect.Ptr, reflect.Func, reflect.Chan:
		return v
	}
	p := reflect.New(t)
	p.Elem().Set(reflect.ValueOf(v))
	return p.Interface()
}

// typedFrom turns []any / map[string]any whose members all have one Go type into the typed container (half the time).
func typedSlice(g *storex.GraphGen, xs []any) any {
	if len(xs) == 0 || !g.R.Chance(40) {
		return xs
	}
	t := reflect.TypeOf(xs[0])
	if t == nil {
		return xs
	}
	for _, x := range xs {
		if reflect.TypeOf(x) != t {
			return xs
		}
	}
	out := reflect.MakeSlice(reflect.SliceOf(t), len(xs), len(xs)+g.R.Intn(2)*2)
	for i, x := range xs {
		out.Index(i).Set(reflect.ValueOf(x))
	}
	return out.Interface()
}

func typedMap(g *storex.GraphGen, m map[string]any) any {
	if len(m) == 0 {
		return m
	}
	c := g.R.Intn(10)
	if c < 5 {
		return m
	}
	if c < 7 { // map[any]any
		out := map[any]any{}
		for k, v := range m {
			out[k] = v
		}
		return out
	}
	var t reflect.Type
	for _, x := range m {
		if x == nil {
			return m
		}
		if t == nil {
			t = reflect.TypeOf(x)
		} else if reflect.TypeOf(x) != t {
			return m
		}
	}
	out := reflect.MakeMap(reflect.MapOf(reflect.TypeOf(""), t))
	for k, x := range m {
		out.SetMapIndex(reflect.ValueOf(k), reflect.ValueOf(x))
	}
	return out.Interface()
}

func spare(g *storex.GraphGen, xs []any) []any {
	if g.R.Chance(30) {
		ys := make([]any, len(xs), len(xs)+2)
		copy(ys, xs)
		return ys
	}
	return xs
}

// tree builds a schema tree of the given depth.
func (sg *sgen) tree(d int) node {
	if d <= 0 {
		return sg.leaf()
	}
	r := sg.r
	var n node
	ok := false
	for try := 0; try < 6 && !ok; try++ {
		p := hx.Safely(func() { n, ok = sg.container(d, r.Intn(22)) })
		if p != "" {
			ok = false
		}
	}
	if !ok {
		return sg.leaf()
	}
	// a modifier on top now and then
	if r.Chance(25) {
		m := hx.Pick(r, []string{"Optional", "Nilable", "Nullish", "Describe", "RefineAny"})
		if s2, ok2, _ := storex.Call(n.s, m, 0); ok2 {
			inner := n.in
			nilOK := m != "Describe" && m != "RefineAny"
			n = node{n.name + "." + m, n.kind, s2, n.ow, func(g *storex.GraphGen) any {
				if nilOK && g.R.Chance(10) {
					return nil
				}
				return inner(g)
			}}
		}
	}
	return n
}

func (sg *sgen) container(d int, which int) (node, bool) {
	r := sg.r
	kid := func() node { return sg.tree(d - 1 - r.Intn(2)) }
	switch which {
	case 0, 1, 2, 3: // Object in its four unknown-key modes
		keys := []string{"a", "b", "c"}[:1+r.Intn(3)]
		kids := make([]node, len(keys))
		shape := core.ObjectSchema{}
		ow := false
		name := ""
		for i, k := range keys {
			kids[i] = kid()
			z, ok := zs(kids[i].s)
			if !ok {
				return node{}, false
			}
			shape[k] = z
			ow = ow || kids[i].ow
			name += k + ":" + kids[i].name + ","
		}
		mode := hx.Pick(r, []string{"strip", "strip", "strict", "loose", "catchall"})
		var s any
		switch mode {
		case "strip":
			s = types.Object(shape)
		case "strict":
			s = types.StrictObject(shape)
		case "loose":
			s = types.LooseObject(shape)
		default:
			s = types.Object(shape).WithCatchall(types.Any())
		}
		if r.Chance(15) {
			s = types.ObjectPtr(shape)
			mode = "ptr"
		}
		return node{"Object/" + mode + "{" + name + "}", "Object/" + mode, s, ow, func(g *storex.GraphGen) any {
			m := map[string]any{}
			for i, k := range keys {
				if g.R.Chance(6) {
					continue // a missing key (rejected unless the member is optional)
				}
				m[k] = viaPointer(g, kids[i].in(g))
			}
			if mode != "strict" && g.R.Chance(60) {
				m["zz"] = g.Value(reflect.TypeOf((*any)(nil)).Elem(), 2).Interface() // an unknown key
				if g.R.Bool() {
					m["yy"] = 1
				}
			}
			return typedMap(g, m)
		}}, true
	case 4, 5, 6, 7: // Record with every kind of key schema
		v := kid()
		type ks struct {
			name string
			s    any
			ow   bool
		}
		k := hx.Pick(r, []ks{
			{"String", types.String(), false}, {"String.Min(1)", types.String().Min(1), false},
			{"String.Regex", types.String().Regex(reKey), false},
			{"Enum(a,b)", types.Enum("a", "b"), false}, {"Literal(a)", types.Literal("a"), false},
			{"Int", types.Int(), false}, {"Float64", types.Float64(), false}, {"Number", types.Number(), false},
			{"Int64", types.Int64(), false}, {"Uint8", types.Uint8(), false},
			{"Union(Literal(a),Int)", types.Union([]any{types.Literal("a"), types.Int()}), false},
			{"CoercedInt", types.CoercedInt(), false},
			{"String.ToLowerCase", types.String().ToLowerCase(), true},
			{"Any", types.Any(), false},
		})
		ctor := hx.Pick(r, []string{"Record", "Record", "LooseRecord", "PartialRecord", "RecordPtr"})
		var s any
		switch ctor {
		case "Record":
			s = types.Record(k.s, v.s)
		case "LooseRecord":
			s = types.LooseRecord(k.s, v.s)
		case "PartialRecord":
			s = types.PartialRecord(k.s, v.s)
		default:
			s = types.RecordPtr(k.s, v.s)
		}
		return node{ctor + "(" + k.name + "," + v.name + ")", ctor + "/" + k.name, s, v.ow || k.ow, func(g *storex.GraphGen) any {
			m := map[string]any{}
			n := g.R.Intn(4)
			for i := 0; i < n; i++ {
				key := hx.Pick(g.R, storex.StrPool)
				if k.name == "Enum(a,b)" || k.name == "Literal(a)" {
					key = hx.Pick(g.R, []string{"a", "b", "a", "b", "zz"})
				}
				m[key] = viaPointer(g, v.in(g))
			}
			if (k.name == "Enum(a,b)") && g.R.Chance(70) {
				m["a"], m["b"] = v.in(g), v.in(g)
			}
			return typedMap(g, m)
		}}, true
	case 8, 9: // Slice[any]
		e := kid()
		s := types.Slice[any](e.s)
		return node{"Slice[any](" + e.name + ")", "Slice[any]", s, e.ow, func(g *storex.GraphGen) any {
			n := g.R.Intn(4)
			xs := make([]any, 0, n)
			for i := 0; i < n; i++ {
				xs = append(xs, viaPointer(g, e.in(g)))
			}
			return typedSlice(g, spare(g, xs))
		}}, true
	case 10: // typed slices
		switch r.Intn(5) {
		case 0:
			return node{"Slice[string](String)", "Slice[string]", types.Slice[string](types.String()), false, func(g *storex.GraphGen) any {
				return g.Value(reflect.TypeOf([]string{}), 1).Interface()
			}}, true
		case 1:
			return node{"Slice[int](Int)", "Slice[int]", types.Slice[int](types.Int()), false, func(g *storex.GraphGen) any {
				return hx.Pick(g.R, []any{g.Value(reflect.TypeOf([]int{}), 1).Interface(), []any{1, 2}})
			}}, true
		case 2:
			e := sg.objectOf(d - 1)
			return node{"Slice[map[string]any](" + e.name + ")", "Slice[map]", types.Slice[map[string]any](e.s), e.ow, func(g *storex.GraphGen) any {
				n := g.R.Intn(3)
				xs := make([]map[string]any, 0, n+1)
				for i := 0; i < n; i++ {
					if m, ok := e.in(g).(map[string]any); ok {
						xs = append(xs, m)
					}
				}
				return xs
			}}, true
		case 3:
			return node{"Slice[Rule](Struct[Rule])", "Slice[Rule]", types.Slice[storex.Rule](types.Struct[storex.Rule]()), false, func(g *storex.GraphGen) any {
				return g.Value(reflect.TypeOf([]storex.Rule{}), 3).Interface()
			}}, true
		default:
			return node{"SlicePtr[string](String)", "SlicePtr[string]", types.SlicePtr[string](types.String()), false, func(g *storex.GraphGen) any {
				return g.Value(reflect.TypeOf([]string{}), 1).Interface()
			}}, true
		}
	case 11: // Array / Tuple
		a, b := kid(), kid()
		za, ok1 := zs(a.s)
		zb, ok2 := zs(b.s)
		in := func(g *storex.GraphGen) any {
			xs := []any{viaPointer(g, a.in(g)), viaPointer(g, b.in(g))}
			if g.R.Chance(30) {
				xs = append(xs, b.in(g))
			}
			return typedSlice(g, spare(g, xs))
		}
		switch r.Intn(3) {
		case 0:
			return node{"Array(" + a.name + "," + b.name + ")", "Array", types.Array(a.s, b.s), a.ow || b.ow, in}, true
		case 1:
			if !ok1 || !ok2 {
				return node{}, false
			}
			return node{"Tuple(" + a.name + "," + b.name + ")", "Tuple", types.Tuple(za, zb), a.ow || b.ow, in}, true
		default:
			if !ok1 || !ok2 {
				return node{}, false
			}
			return node{"TupleWithRest(" + a.name + ";" + b.name + ")", "TupleRest", types.TupleWithRest([]core.ZodSchema{za}, zb), a.ow || b.ow, in}, true
		}
	case 12, 13: // Map
		v := kid()
		type ks struct {
			name string
			s    any
			in   func(g *storex.GraphGen) any
		}
		k := hx.Pick(r, []ks{
			{"String", types.String(), func(g *storex.GraphGen) any { return hx.Pick(g.R, storex.StrPool) }},
			{"Int", types.Int(), func(g *storex.GraphGen) any { return g.R.Intn(5) }},
			{"CoercedString", types.CoercedString(), func(g *storex.GraphGen) any { return hx.Pick(g.R, []any{1, "a", true}) }},
			{"Any", types.Any(), func(g *storex.GraphGen) any { return hx.Pick(g.R, []any{1, "a", 2.5}) }},
		})
		s := any(types.Map(k.s, v.s))
		nm := "Map"
		if r.Chance(20) {
			s, nm = types.MapPtr(k.s, v.s), "MapPtr"
		}
		return node{nm + "(" + k.name + "," + v.name + ")", nm, s, v.ow, func(g *storex.GraphGen) any {
			m := map[any]any{}
			n := g.R.Intn(4)
			for i := 0; i < n; i++ {
				m[k.in(g)] = viaPointer(g, v.in(g))
			}
			if g.R.Chance(40) { // string-keyed representation
				sm := map[string]any{}
				for kk, vv := range m {
					if ks, ok := kk.(string); ok {
						sm[ks] = vv
					}
				}
				return typedMap(g, sm)
			}
			return m
		}}, true
	case 14: // Set
		switch r.Intn(3) {
		case 0:
			e := kid()
			return node{"Set[any](" + e.name + ")", "Set[any]", types.Set[any](e.s), e.ow, func(g *storex.GraphGen) any {
				if g.R.Bool() {
					x := e.in(g)
					return spare(g, []any{x, e.in(g), x}) // a slice with duplicates
				}
				m := map[any]struct{}{}
				for i := 0; i < g.R.Intn(3); i++ {
					x := e.in(g)
					if x != nil && reflect.TypeOf(x).Comparable() {
						m[x] = struct{}{}
					}
				}
				return m
			}}, true
		case 1:
			return node{"Set[string](String)", "Set[string]", types.Set[string](types.String()), false, func(g *storex.GraphGen) any {
				return hx.Pick(g.R, []any{map[string]struct{}{"a": {}, "1.0": {}}, []string{"a", "a", "b"}, []any{"x", "x"}, map[string]struct{}{}})
			}}, true
		default:
			return node{"Set[int](CoercedInt)", "Set[int]", types.Set[int](types.CoercedInt()), false, func(g *storex.GraphGen) any {
				return hx.Pick(g.R, []any{map[int]struct{}{1: {}, 2: {}}, []any{"1", 1, "01"}, []int{1, 1}})
			}}, true
		}
	case 15, 16: // Struct
		in := func(t reflect.Type) func(g *storex.GraphGen) any {
			return func(g *storex.GraphGen) any {
				v := g.Value(t, 3)
				if g.R.Chance(25) {
					p := reflect.New(t)
					p.Elem().Set(v)
					return p.Interface()
				}
				return v.Interface()
			}
		}
		switch r.Intn(8) {
		case 5:
			return node{"Struct[Box]", "Struct", types.Struct[storex.Box](), false, in(storex.TBox)}, true
		case 6:
			return node{"Struct[Box](fields)", "Struct", types.Struct[storex.Box](core.StructSchema{"m": types.Record(types.String(), types.Any()).Optional(),
				"s": types.Slice[int](types.Int()).Optional(), "rs": types.Slice[*storex.Rule](types.Any())}), false, in(storex.TBox)}, true
		case 7:
			return node{"Slice[*Rule](StructPtr[Rule])", "Slice[*Rule]", types.Slice[*storex.Rule](types.StructPtr[storex.Rule]()), false, func(g *storex.GraphGen) any {
				return g.Value(reflect.TypeOf([]*storex.Rule{}), 3).Interface()
			}}, true
		case 0:
			return node{"Struct[Rule]", "Struct", types.Struct[storex.Rule](), false, in(storex.TRule)}, true
		case 1:
			return node{"StructPtr[Rule]", "StructPtr", types.StructPtr[storex.Rule](), false, in(storex.TRule)}, true
		case 2:
			return node{"FromStruct[Rule]", "FromStruct", types.FromStruct[storex.Rule](), false, in(storex.TRule)}, true
		case 3:
			return node{"Struct[Tag](fields)", "Struct", types.Struct[storex.Tag](core.StructSchema{"k": types.String(), "vs": types.Slice[string](types.String())}), false, in(storex.TTag)}, true
		default:
			return node{"FromStruct[Flat]", "FromStruct", types.FromStruct[storex.Flat](), false, in(storex.TFlat)}, true
		}
	case 17, 18: // Union / Xor
		a, b := kid(), kid()
		in := func(g *storex.GraphGen) any {
			if g.R.Bool() {
				return a.in(g)
			}
			return b.in(g)
		}
		if r.Chance(30) {
			return node{"Xor(" + a.name + "|" + b.name + ")", "Xor", types.Xor([]any{a.s, b.s}), a.ow || b.ow, in}, true
		}
		return node{"Union(" + a.name + "|" + b.name + ")", "Union", types.Union([]any{a.s, b.s}), a.ow || b.ow, in}, true
	case 19: // Intersection
		a, b := sg.objectOf(d-1), sg.objectOf(d-1)
		if r.Chance(30) {
			b = node{"Any", "leaf", types.Any(), false, nil}
		}
		return node{"Intersection(" + a.name + "&" + b.name + ")", "Intersection", types.Intersection(a.s, b.s), a.ow || b.ow, func(g *storex.GraphGen) any {
			m, _ := a.in(g).(map[string]any)
			if b.in != nil {
				if m2, ok := b.in(g).(map[string]any); ok {
					if m == nil {
						m = map[string]any{}
					}
					for k, v := range m2 {
						if _, has := m[k]; !has {
							m[k] = v
						}
					}
				}
			}
			if m == nil {
				return map[string]any{}
			}
			return m
		}}, true
	case 20: // DiscriminatedUnion
		a, b := kid(), kid()
		za, ok1 := zs(a.s)
		zb, ok2 := zs(b.s)
		if !ok1 || !ok2 {
			return node{}, false
		}
		s := types.DiscriminatedUnion("t", []any{
			types.Object(core.ObjectSchema{"t": types.Literal("x"), "v": za}),
			types.Object(core.ObjectSchema{"t": types.Literal("y"), "v": zb}),
		})
		return node{"DiscriminatedUnion(x:" + a.name + "|y:" + b.name + ")", "DiscriminatedUnion", s, a.ow || b.ow, func(g *storex.GraphGen) any {
			if g.R.Bool() {
				return map[string]any{"t": "x", "v": viaPointer(g, a.in(g)), "zz": []any{1}}
			}
			return map[string]any{"t": "y", "v": viaPointer(g, b.in(g))}
		}}, true
	default: // Lazy
		e := kid()
		return node{"LazyAny(" + e.name + ")", "Lazy", types.LazyAny(func() any { return e.s }), e.ow, e.in}, true
	}
}

// objectOf is an Object node whose inputs are always map[string]any (for Intersection and Slice[map[string]any]).
func (sg *sgen) objectOf(d int) node {
	keys := []string{"p", "q"}[:1+sg.r.Intn(2)]
	if sg.r.Bool() {
		keys = []string{"a", "q"}
	}
	kids := make([]node, len(keys))
	shape := core.ObjectSchema{}
	ow := false
	name := ""
	for i, k := range keys {
		for {
			kids[i] = sg.tree(d - 1)
			if z, ok := zs(kids[i].s); ok {
				shape[k] = z
				break
			}
		}
		ow = ow || kids[i].ow
		name += k + ":" + kids[i].name + ","
	}
	loose := sg.r.Bool()
	var s any = types.Object(shape)
	if loose {
		s = types.LooseObject(shape)
	}
	return node{fmt.Sprintf("Object/%v{%s}", map[bool]string{true: "loose", false: "strip"}[loose], name), "Object", s, ow, func(g *storex.GraphGen) any {
		m := map[string]any{}
		for i, k := range keys {
			m[k] = viaPointer(g, kids[i].in(g))
		}
		if g.R.Bool() {
			m["zz"] = g.Value(reflect.TypeOf((*any)(nil)).Elem(), 2).Interface()
		}
		return m
	}}
}

// ---------------------------------------------------------------------------------------------
// bases for default / prefault histories

type dbase struct {
	name string
	mk   func() any
	// wrap embeds a generated graph in a value the schema accepts (nil: the graph itself is the value)
	wrap func(graph any) any
}

// typedBases are schema types whose Default / Prefault parameter is a typed Go value (beyond storex.Bases()).
func typedBases() []dbase {
	anyS := func() any { return types.Any() }
	member := func(g any) any { return map[string]any{"t": "x", "v": g, "w": []any{g}} }
	return []dbase{
		{name: "Any", mk: anyS},
		{name: "Unknown", mk: func() any { return types.Unknown() }},
		// shaped schemas given a value that fits the shape, with the generated graph inside
		{"DiscriminatedUnion{t,v:Any,w:Slice}", func() any {
			return types.DiscriminatedUnion("t", []any{
				types.Object(core.ObjectSchema{"t": types.Literal("x"), "v": types.Any(), "w": types.Slice[any](types.Any())}),
				types.Object(core.ObjectSchema{"t": types.Literal("y")}),
			})
		}, member},
		{"Object{t,v:Any,w:Slice}", func() any {
			return types.Object(core.ObjectSchema{"t": types.String(), "v": types.Any(), "w": types.Slice[any](types.Any())})
		}, func(g any) any { return map[string]any{"t": "x", "v": g, "w": []any{g}, "unknown": g} }},
		{"Record(Int,Any)", func() any { return types.Record(types.Int(), types.Any()) },
			func(g any) any { return map[string]any{"1.0": g, "2": []any{g}} }},
		{"Union(Object{v:Any}|String)", func() any {
			return types.Union([]any{types.Object(core.ObjectSchema{"v": types.Any()}), types.String()})
		}, func(g any) any { return map[string]any{"v": g} }},
		{"Intersection(Object{v}&Object{w})", func() any {
			return types.Intersection(types.Object(core.ObjectSchema{"v": types.Any()}), types.LooseObject(core.ObjectSchema{"w": types.Any()}))
		}, func(g any) any { return map[string]any{"v": g, "w": []any{g}} }},
		{"Tuple(Any,Slice)", func() any { return types.Tuple(types.Any(), types.Slice[any](types.Any())) },
			func(g any) any { return []any{g, []any{g}} }},
		{"Map(String,Any)", func() any { return types.Map(types.String(), types.Any()) },
			func(g any) any { return map[any]any{"k": g} }},
		{"AnyTyped[[]Rule]", func() any { return types.AnyTyped[[]storex.Rule, []storex.Rule]() }, nil},
		{"AnyTyped[map[string]Rule]", func() any { return types.AnyTyped[map[string]storex.Rule, map[string]storex.Rule]() }, nil},
		{"AnyTyped[[2][]string]", func() any { return types.AnyTyped[[2][]string, [2][]string]() }, nil},
		{"AnyTyped[*Rule]", func() any { return types.AnyTyped[*storex.Rule, *storex.Rule]() }, nil},
		{"Slice[Rule](Any)", func() any { return types.Slice[storex.Rule](types.Any()) }, nil},
		{"Slice[Rule](Struct[Rule])", func() any { return types.Slice[storex.Rule](types.Struct[storex.Rule]()) }, nil},
		{"Slice[[2][]int](Any)", func() any { return types.Slice[[2][]int](types.Any()) }, nil},
		{"Slice[map[string]Tag](Any)", func() any { return types.Slice[map[string]storex.Tag](types.Any()) }, nil},
		{"Slice[*Rule](Any)", func() any { return types.Slice[*storex.Rule](types.Any()) }, nil},
		{"Slice[any](Any)", func() any { return types.Slice[any](types.Any()) }, nil},
		{"Slice[[]Tag](Any)", func() any { return types.Slice[[]storex.Tag](types.Any()) }, nil},
		{"Struct[Rule]", func() any { return types.Struct[storex.Rule]() }, nil},
		{"StructPtr[Rule]", func() any { return types.StructPtr[storex.Rule]() }, nil},
		{"FromStruct[Rule]", func() any { return types.FromStruct[storex.Rule]() }, nil},
		{"Struct[Tag]", func() any { return types.Struct[storex.Tag]() }, nil},
		{"Record(String,Any)", func() any { return types.Record(types.String(), types.Any()) }, nil},
		{"LooseRecord(String,Any)", func() any { return types.LooseRecord(types.String(), types.Any()) }, nil},
		{"RecordTyped[map[string]Rule]", func() any {
			return types.RecordTyped[map[string]storex.Rule, map[string]storex.Rule](types.String(), types.Any())
		}, nil},
		{"LooseObject{}", func() any { return types.LooseObject(core.ObjectSchema{}) }, nil},
		{"Object.Catchall(Any)", func() any { return types.Object(core.ObjectSchema{}).WithCatchall(types.Any()) }, nil},
		{"Map(Any,Any)", func() any { return types.Map(types.Any(), types.Any()) }, nil},
		{"MapTyped[map[string][]Rule]", func() any {
			return types.MapTyped[map[string][]storex.Rule, map[string][]storex.Rule](types.String(), types.Any())
		}, nil},
		{"Array(Any,Any)", func() any { return types.Array(types.Any(), types.Any()) }, nil},
		{"TupleWithRest(;Any)", func() any { return types.TupleWithRest([]core.ZodSchema{}, types.Any()) }, nil},
		{"Set[any](Any)", func() any { return types.Set[any](types.Any()) }, nil},
		{"Set[[2]string](Any)", func() any { return types.Set[[2]string](types.Any()) }, nil},
		{"Union(Any)", func() any { return types.Union([]any{types.Any()}) }, nil},
		{"Xor(Any)", func() any { return types.Xor([]any{types.Any()}) }, nil},
		{"Intersection(Any,Any)", func() any { return types.Intersection(types.Any(), types.Any()) }, nil},
		{"LazyAny(Any)", func() any { return types.LazyAny(func() any { return types.Any() }) }, nil},
		{"Function", func() any { return types.Function() }, nil},
	}
}

// floatLeaf: an input for a float-typed leaf schema: ordinary numbers and, half of the time, the values on which == and "the
// same bits" part ways (storex.FloatLeaves: NaN in several bit patterns, -0, the infinities).
func floatLeaf(g *storex.GraphGen) any {
	if g.R.Bool() {
		return hx.Pick(g.R, []float64{0, 1.5, -2})
	}
	return hx.Pick(g.R, storex.FloatLeaves)
}
