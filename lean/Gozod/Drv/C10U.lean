/-
  Line handler for C10 over the universal value domain (`Gozod.UVal`): the same engine model
  (`runFrom` / `runChecksOn` / `parsePipeline`) run against string, integer, slice and object
  schemas' check chains, multi-issue `Check` functions, and Transform / Pipe chains across types.

  op line:  c10u <pipeline tokens> | <input> @ <implementation observation>
    pipeline := B <tag> <kind s|i|l|o> <ptr 0/1> <n> <check>*n | T <id> <k> <pipeline> | P <pipeline> <pipeline> | PM <base> <pipeline>
    value    := <hex>|-  (string)  |  i<int>  |  l[<int>,…]  |  o<int>:<int>
    input    := <value>[*]
    check    := (string) min n | max n | len n | sw hex | ew hex | inc hex | lc | uc | re k | trim | lower | upper
              | (int) igte n | ilte n | igt n | ilt n | imul n   | (slice) lmin n | lmax n | llen n
              | ref k <abort> <when k|-> | chk k <abort> <when k|-> | ow k
  observation:  (ok <value> | err <tag>:<pos,pos,…>);<event,…>   (a multi-issue check repeats its position)
  Also: `c10shape <func> ¦ <stmt> ¦ <stmt> …` — the go/ast fingerprint of the engine loop against
  `Gozod.ChecksShape.expected`.
-/
import Gozod.Model.UVal
import Gozod.Model.ChecksC
import Gozod.Model.ChecksShape
import Gozod.Model.RawClassSpec
import Gozod.Drv.C10
namespace Gozod.Drv.C10U
open Gozod Gozod.UVal
open Gozod.Drv.C10 (hex unhex splitOnce sortedLt)

abbrev Chk := Check UPred UOw
abbrev Pipe := PipelineK UPred UOw Nat

def encU : UV → String
  | .str b => hex b
  | .int i => s!"i{i}"
  | .ints l => "l" ++ ",".intercalate (l.map toString)
  | .obj a b => s!"o{a}:{b}"
  | .nil => "n"

def decU (s : String) : Option UV :=
  if s == "n" then some .nil
  else if s.startsWith "i" then (s.drop 1).toString.toInt?.map .int
  else if s.startsWith "l" then
    let r := (s.drop 1).toString
    if r == "" then some (.ints []) else ((r.splitOn ",").mapM String.toInt?).map .ints
  else if s.startsWith "o" then
    match (s.drop 1).toString.splitOn ":" with
    | [a, b] => do let a ← a.toInt?; let b ← b.toInt?; pure (.obj a b)
    | _ => none
  else (unhex s).map .str

def parseCheck : List String → Option (Chk × List String)
  | "igte" :: n :: r => n.toInt?.map fun n => (.pred (.igte n) false none, r)
  | "ilte" :: n :: r => n.toInt?.map fun n => (.pred (.ilte n) false none, r)
  | "igt" :: n :: r => n.toInt?.map fun n => (.pred (.igt n) false none, r)
  | "ilt" :: n :: r => n.toInt?.map fun n => (.pred (.ilt n) false none, r)
  | "imul" :: n :: r => n.toInt?.map fun n => (.pred (.imul n) false none, r)
  | "lmin" :: n :: r => n.toNat?.map fun n => (.pred (.lmin n) false (some .measurable), r)
  | "lmax" :: n :: r => n.toNat?.map fun n => (.pred (.lmax n) false (some .measurable), r)
  | "llen" :: n :: r => n.toNat?.map fun n => (.pred (.llen n) false (some .measurable), r)
  | "ref" :: k :: a :: w :: r => do
    let k ← k.toNat?
    let w ← if w == "-" then some none else w.toNat?.map (fun n => some (UPred.custom n))
    pure (.pred (.custom k) (a == "1") w, r)
  | "chk" :: k :: a :: w :: r => do
    let k ← k.toNat?
    let w ← if w == "-" then some none else w.toNat?.map (fun n => some (UPred.custom n))
    pure (.pred (.multi k) (a == "1") w, r)
  | "ow" :: k :: r => k.toNat?.map fun k => (.overwrite (.custom k), r)
  | toks =>
    -- the string checks, through the C10 string parser
    match Gozod.Drv.C10.parseCheck toks with
    | some (.pred p a _, r) => some (.pred (.s p) a none, r)
    | some (.overwrite o, r) => some (.overwrite (.s o), r)
    | none => none

def parseChecks : Nat → List String → Option (List Chk × List String)
  | 0, r => some ([], r)
  | n + 1, r => do
    let (c, r) ← parseCheck r
    let (cs, r) ← parseChecks n r
    pure (c :: cs, r)

/-- (tag, kind, schema type key) of every base schema in the token stream; the key is the kind, with `p` appended
    for the pointer constructors (`StringPtr()`, `IntPtr()`): the row of `Gen.rawClass` / `Gen.owClass`. -/
def baseKinds : List String → List (Nat × String × String)
  | "B" :: tag :: kind :: ptr :: r =>
    (match tag.toNat? with | some t => [(t, kind, if ptr == "1" then kind ++ "p" else kind)] | none => []) ++ baseKinds r
  | _ :: r => baseKinds r
  | [] => []

/-- Which values base schema `tag` takes as values of its own type. -/
def tyOf (kinds : List (Nat × String × String)) (tag : Nat) (v : UV) : Bool :=
  match kinds.find? (·.1 == tag) with
  | some (_, k, _) => v.kind == k
  | none => true

/-- The column of `Gen.rawClass` a predicate belongs to. -/
def checkKind : UPred → String
  | .custom _ => "ref"
  | .multi _ => "chk"
  | _ => "builtin"

/-- The pointer-pass class of base schema `tag`, read from the table regenerated from the current tree
    (`Gozod.RawClassSpec.rawOf / owOf` look the cell up in `Gen.rawClass` / `Gen.owClass`). -/
def clsOf (kinds : List (Nat × String × String)) (tag : Nat) : BaseClass UPred :=
  match kinds.find? (·.1 == tag) with
  | some (_, k, key) => ⟨fun p => Gozod.RawClassSpec.rawOf key (checkKind p), Gozod.RawClassSpec.owOf key, k == "l" || k == "o"⟩
  | none => ⟨fun _ => .run, .cook, false⟩

def parsePipe : Nat → List String → Option (Pipe × List String)
  | 0, _ => none
  | _ + 1, "B" :: tag :: kind :: ptr :: n :: r => do
    let tag ← tag.toNat?; let n ← n.toNat?
    let (cs, r) ← parseChecks n r
    pure (.base tag (ptr == "1") (kind == "l" || kind == "o") cs, r)
  | fuel + 1, "T" :: id :: k :: r => do
    let id ← id.toNat?; let k ← k.toNat?
    let (p, r) ← parsePipe fuel r
    pure (.transform p id k, r)
  | fuel + 1, "P" :: r => do
    let (a, r) ← parsePipe fuel r
    let (b, r) ← parsePipe fuel r
    pure (.pipe a b, r)
  | fuel + 1, "PM" :: r => do
    -- a Pipe built with the first schema's own method (ZodIntegerTyped.Pipe): the target is handed the base
    -- VALUE (`extractIntegerValue`), never the pointer a pointer-typed first schema returns
    let (a, r) ← parsePipe fuel r
    let (b, r) ← parsePipe fuel r
    let a' := match a with
      | .base tag _ k cs => PipelineK.base tag false k cs
      | x => x
    pure (.pipe a' b, r)
  | _, _ => none

inductive OEv where
  | w (tag pos : Nat) (v : UV) | c (tag pos : Nat) (v : UV) | o (tag pos : Nat) (v : UV)
  | t (id : Nat) (v : UV)
  deriving DecidableEq

structure Obs where
  out : Except (Nat × List Nat) UV
  log : List OEv

def OEv.render : OEv → String
  | .w tg p v => s!"w{tg}.{p}={encU v}" | .c tg p v => s!"c{tg}.{p}={encU v}"
  | .o tg p v => s!"o{tg}.{p}={encU v}" | .t i v => s!"t{i}={encU v}"

def Obs.render (o : Obs) : String :=
  let head := match o.out with
    | .ok v => s!"ok {encU v}"
    | .error (tag, is) => s!"err {tag}:" ++ ",".intercalate (is.map toString)
  head ++ ";" ++ ",".intercalate (o.log.map OEv.render)

/-- Is the check at `pos` a user callback (whose invocation the harness logs)? -/
def isCustom (cs : List Chk) (pos : Nat) : Bool :=
  match cs[pos]? with
  | some (.pred (.custom _) _ _) => true
  | some (.pred (.multi _) _ _) => true
  | some (.overwrite (.custom _)) => true
  | _ => false

def multiOf (cs : List Chk) (pos : Nat) : Option Nat :=
  match cs[pos]? with
  | some (.pred (.multi k) _ _) => some k
  | _ => none

def baseChecks : Pipe → Nat → Option (List Chk)
  | .base tag _ _ cs, t => if tag == t then some cs else none
  | .transform s _ _, t => baseChecks s t
  | .pipe a b, t => (baseChecks a t).orElse fun _ => baseChecks b t

def project (p : Pipe) (log : List (PEv UV)) : List OEv :=
  log.filterMap fun e =>
    match e with
    | .tr i v => some (.t i v)
    | .chk tag (.when pos v) =>
      -- only user guards are observable (the size checks carry a built-in guard)
      match (baseChecks p tag).bind (·[pos]?) with
      | some (.pred _ _ (some (.custom _))) => some (.w tag pos v)
      | _ => none
    | .chk tag (.check pos v) =>
      match baseChecks p tag with
      | some cs => if isCustom cs pos then some (.c tag pos v) else none
      | none => none
    | .chk tag (.over pos v) =>
      match baseChecks p tag with
      | some cs => if isCustom cs pos then some (.o tag pos v) else none
      | none => none

/-- Positions as the error lists them: a multi-issue check appears once per issue it pushed (on the
    value the model's log says it was evaluated on). -/
def expandIssues (p : Pipe) (log : List (PEv UV)) (tag : Nat) (is : List Nat) : List Nat :=
  is.flatMap fun pos =>
    match (baseChecks p tag).bind (fun cs => multiOf cs pos) with
    | none => [pos]
    | some k =>
      let seen := log.reverse.findSome? fun e =>
        match e with
        | .chk t (.check q v) => if t == tag && q == pos then some v else none
        | _ => none
      match seen with
      | some v => List.replicate (issueCount k v) pos
      | none => [pos]

def modelObs (kinds : List (Nat × String × String)) (p : Pipe) (v : UV) (ptrIn : Bool) : Obs :=
  let r := parsePipelineG UVal.env (clsOf kinds) (tyOf kinds) p v ptrIn
  let out := match r.out with
    | .ok x => .ok x
    | .error (tag, is) => .error (tag, expandIssues p r.log tag is)
  ⟨out, project p r.log⟩

def parseEv (s : String) : Option OEv := do
  let (l, h) ← splitOnce s "="
  let v ← decU h
  let kind := l.toList.headD ' '
  let rest := String.ofList (l.toList.drop 1)
  if kind == 't' then
    let i ← rest.toNat?
    pure (.t i v)
  else
    let (a, b) ← splitOnce rest "."
    let tag ← a.toNat?; let pos ← b.toNat?
    if kind == 'w' then pure (.w tag pos v)
    else if kind == 'c' then pure (.c tag pos v)
    else if kind == 'o' then pure (.o tag pos v)
    else none

/-- events are separated by ';' after the head (values may contain ','). -/
def parseObs (s : String) : Option Obs := do
  let (head, logs) ← splitOnce s ";"
  let evs ← (if logs == "" then some [] else (logs.splitOn ";").mapM parseEv)
  match head.splitOn " " with
  | ["ok", h] => do let v ← decU h; pure ⟨.ok v, evs⟩
  | ["err", e] => do
    let (t, is) ← splitOnce e ":"
    let tag ← t.toNat?
    let ps ← (if is == "" then some [] else (is.splitOn ",").mapM String.toNat?)
    pure ⟨.error (tag, ps), evs⟩
  | _ => none

def Obs.renderS (o : Obs) : String :=
  let head := match o.out with
    | .ok v => s!"ok {encU v}"
    | .error (tag, is) => s!"err {tag}:" ++ ",".intercalate (is.map toString)
  head ++ ";" ++ ";".intercalate (o.log.map OEv.render)

/-! the spec oracle: judge an observation by the property's clauses (seenAt / failsAt / abortAt only) -/

def specEval (kinds : List (Nat × String × String)) : Pipe → UV → (Except (Nat × Bool) UV) × List (Nat × UV)
  | .base tag _ _ cs, v =>
    if !tyOf kinds tag v then (.error (tag, true), [(tag, v)]) else      -- THIS stage rejects a value of another type
    let anyFail := (List.range cs.length).any fun k => failsAt UVal.env cs k v
    (if anyFail then .error (tag, false) else .ok (seenAt UVal.env cs cs.length v), [(tag, v)])
  | .transform s _ k, v =>
    match specEval kinds s v with
    | (.ok x, ins) => (.ok (customTr k x), ins)
    | (.error t, ins) => (.error t, ins)
  | .pipe a b, v =>
    match specEval kinds a v with
    | (.ok x, ins) => let (r, ins2) := specEval kinds b x; (r, ins ++ ins2)
    | (.error t, ins) => (.error t, ins)

def specTransforms (kinds : List (Nat × String × String)) : Pipe → UV → List (Nat × UV)
  | .base .., _ => []
  | .transform s i _, v =>
    match (specEval kinds s v).1 with
    | .ok x => specTransforms kinds s v ++ [(i, x)]
    | .error _ => specTransforms kinds s v
  | .pipe a b, v =>
    match (specEval kinds a v).1 with
    | .ok x => specTransforms kinds a v ++ specTransforms kinds b x
    | .error _ => specTransforms kinds a v

def sortedLe : List Nat → Bool
  | a :: b :: r => a ≤ b && sortedLe (b :: r)
  | _ => true

def dedup : List Nat → List Nat
  | a :: b :: r => if a == b then dedup (b :: r) else a :: dedup (b :: r)
  | l => l

def judge (kinds : List (Nat × String × String)) (p : Pipe) (v : UV) (o : Obs) : Option String :=
  let (ref, ins) := specEval kinds p v
  let inputOf := fun tag => (ins.find? (·.1 == tag)).map (·.2)
  let evBad := o.log.find? fun e =>
    match e with
    | .t _ _ => false
    | .w tag pos x | .c tag pos x | .o tag pos x =>
      match baseChecks p tag, inputOf tag with
      | some cs, some vin => !(decide (seenAt UVal.env cs pos vin = x))
      | _, _ => true
  if evBad.isSome then some "value-threading" else
  -- clause: a when-guarded check is evaluated only when its guard holds on the value it is given
  let guardBad := o.log.any fun e =>
    match e with
    | .c tag pos x =>
      match (baseChecks p tag).bind (·[pos]?) with
      | some (.pred _ _ (some w)) => !UVal.holds w x
      | _ => false
    | _ => false
  if guardBad then some "evaluated-though-guard-false" else
  let trs := o.log.filterMap fun e => match e with | .t i x => some (i, x) | _ => none
  if trs != specTransforms kinds p v then some "transform-once" else
  match ref, o.out with
  | .ok x, .ok y => if x == y then none else some "result-value"
  | .ok _, .error _ => some "rejected-though-no-check-fails"
  | .error _, .ok _ => some "accepted-though-a-check-fails"
  | .error (t, isTy), .error (t', isRaw) =>
    if t != t' then some "wrong-schema-fails" else
    if isTy then (if isRaw == [typeErrPos] then none else some "checks-reported-on-a-value-of-another-type") else
    match baseChecks p t, inputOf t with
    | some cs, some vin =>
      let is := dedup isRaw
      if is.isEmpty then some "error-without-issues"
      else if !sortedLe isRaw || !sortedLt is then some "issue-order"
      else if !(is.all fun k => failsAt UVal.env cs k vin) then some "reported-check-does-not-fail"
      else if !(is.all fun k =>
          let want := match multiOf cs k with
            | some m => issueCount m (seenAt UVal.env cs k vin)
            | none => 1
          (isRaw.filter (· == k)).length == want) then some "issue-count"
      else
        let first := (List.range cs.length).find? fun k => failsAt UVal.env cs k vin
        if first != is.head? then some "first-failing-check-missing"
        else
          let ab := is.find? fun k => abortAt cs k
          match ab with
          | none => none
          | some k =>
            if is.any (· > k) then some "reported-after-abort"
            else if o.log.any (fun e => match e with
                | .w tg pos _ | .c tg pos _ | .o tg pos _ => tg == t && pos > k
                | .t _ _ => false) then some "evaluated-after-abort"
            else none
    | _, _ => some "unknown-schema"

def handleU (line : String) : String :=
  match splitOnce line " | " with
  | none => "bad-op"
  | some (lhs, rhs) =>
    let toks := (lhs.splitOn " ").filter (· ≠ "")
    match toks with
    | "c10u" :: ptoks =>
      match parsePipe (ptoks.length + 1) ptoks with
      | some (p, []) =>
        let (inTok, implObs) := match splitOnce rhs " @ " with
          | some (a, b) => (a, some b)
          | none => (rhs, none)
        let inTok := inTok.trimAscii.toString
        let ptrIn := inTok.endsWith "*"
        let inTok := if ptrIn then (inTok.dropEnd 1).toString else inTok
        match decU inTok with
        | none => "bad-op"
        | some v =>
          let kinds := baseKinds ptoks
          let m := (modelObs kinds p v ptrIn).renderS
          let s := match implObs with
            | none => "-"
            | some io =>
              match parseObs io with
              | none => "spec-rejects:unparsable-observation"
              | some o =>
                match judge kinds p v o with
                | none => io
                | some why => "spec-rejects:" ++ why
          m ++ "\t" ++ s
      | _ => "bad-op"
    | _ => "bad-op"

/-- `c10shape <func> ¦ <stmt> ¦ …  @ shape-ok`: compare with the recorded expectation. -/
def handleShape (line : String) : String :=
  let (body, impl) := match splitOnce line " @ " with
    | some (a, b) => (a, b)
    | none => (line, "-")
  match (body.splitOn " ¦ ").map (·.trimAscii.toString) with
  | head :: stmts =>
    match (head.splitOn " ").filter (· ≠ "") with
    | ["c10shape", fn] =>
      let m := match Gozod.ChecksShape.expected fn with
        | none => s!"shape-unknown-function:{fn}"
        | some exp =>
          if exp == stmts then "shape-ok"
          else
            let idx := (List.range (max exp.length stmts.length)).find? fun i => exp[i]? != stmts[i]?
            let i := idx.getD 0
            let clause := (Gozod.ChecksShape.clauseOf fn i).replace " " "_"
            s!"shape-differs:{fn}:stmt{i}:{clause}:expected=" ++ ((exp[i]?).getD "<end>").replace " " "_" ++ ":got=" ++ ((stmts[i]?).getD "<end>").replace " " "_"
      m ++ "\t" ++ impl
    | _ => "bad-op"
  | _ => "bad-op"

def handleAny (line : String) : String :=
  if line.startsWith "c10raw offenders" then
    let off := Gozod.RawClassSpec.offenders
    (if off.isEmpty then "rawclass-ok" else " ; ".intercalate off) ++ "\t-"
  else if line.startsWith "c10shape " then handleShape line
  else if line.startsWith "c10u " then handleU line
  else Gozod.Drv.C10.handleLine line

end Gozod.Drv.C10U
