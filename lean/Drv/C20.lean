import Gozod.Drv.C20
def main (args : List String) : IO UInt32 := Gozod.Drv.C20.main args
