/-
  C07 — helper lemmas (Bag folds, leaf cases). Property theorems: Gozod/Proofs/C07.lean
-/
import Gozod.Model.JsonSchema
namespace Gozod.C07
open Gozod.Jsc

/-! ### keyword lists -/

theorem kwsValid_ofList (l : List Kw) (c : Ctx) (x : Json) :
    kwsValid (KwList.ofList l) c x = l.all (fun k => kwValid k c x) := by
  induction l with
  | nil => simp [KwList.ofList, kwsValid]
  | cons k ks ih => simp [KwList.ofList, kwsValid, ih]

theorem jsValid_node (l : List Kw) (x : Json) :
    jsValid (.node (KwList.ofList l)) x
      = l.all (fun k => kwValid k ⟨(KwList.ofList l).nPrefix, (KwList.ofList l).propKeys⟩ x) := by
  simp [jsValid, kwsValid_ofList]

/-! ### strings -/

theorem byteLen_ascii (s : Str) (h : asciiStr s = true) : byteLen s = s.length := by
  induction s with
  | nil => rfl
  | cons c cs ih =>
    simp [asciiStr] at h
    have ih' := ih (by simpa [asciiStr] using h.2)
    simp [byteLen, cpWidth, h.1, ih']; omega

theorem runStr_noTrim (cks : List StrCk) (s : Str) (h : noTrim cks = true) :
    runStr cks s = if cks.all (fun c => c.holds s) then some s else none := by
  induction cks with
  | nil => simp [runStr]
  | cons c cs ih =>
    simp [noTrim] at h
    have ih' := ih (by simpa [noTrim] using h.2)
    cases c <;> simp_all [runStr, noTrim] <;> split <;> simp_all

/-- what the string Bag means for a string. -/
def strSem (b : StrBag) (s : Str) : Bool :=
  (match b.minL with | some n => decide (n ≤ s.length) | none => true)
  && (match b.maxL with | some n => decide (s.length ≤ n) | none => true)
  && b.pats.all (fun p => p.holds s)

theorem addPat_sem (b : StrBag) (p : Pat) (s : Str) :
    strSem (b.addPat p) s = (strSem b s && p.holds s) := by
  unfold StrBag.addPat
  by_cases h : b.pats.contains p = true
  · simp only [h, if_true]
    have : p ∈ b.pats := by simpa using h
    unfold strSem
    cases hp : p.holds s
    · have : b.pats.all (fun p => p.holds s) = false := by
        simp only [List.all_eq_false]; exact ⟨p, this, by simp [hp]⟩
      simp [this]
    · simp
  · simp only [h]
    simp [strSem, List.all_append, Bool.and_assoc]

/-- the value-side meaning of one check on an ASCII string, in code points. -/
theorem step_sem_nolen (b : StrBag) (c : StrCk) (s : Str) (ha : asciiStr s = true)
    (hc : ∀ n, c ≠ .len n) : strSem (b.step c) s = (strSem b s && c.holds s) := by
  have hb := byteLen_ascii s ha
  cases c with
  | len n => exact absurd rfl (hc n)
  | min n =>
    simp only [StrBag.step, StrCk.holds, hb]
    unfold strSem
    cases hm : b.minL <;> simp <;> (try split) <;> simp_all <;> (try (constructor <;> intros <;> omega)) <;> grind
  | max n =>
    simp only [StrBag.step, StrCk.holds, hb]
    unfold strSem
    cases hm : b.maxL <;> simp <;> (try split) <;> simp_all <;> (try (constructor <;> intros <;> omega)) <;> grind
  | sw p => simp [StrBag.step, addPat_sem, StrCk.holds, Pat.holds]
  | ew p => simp [StrBag.step, addPat_sem, StrCk.holds, Pat.holds]
  | inc p => simp [StrBag.step, addPat_sem, StrCk.holds, Pat.holds]
  | lower => simp [StrBag.step, addPat_sem, StrCk.holds, Pat.holds]
  | upper => simp [StrBag.step, addPat_sem, StrCk.holds, Pat.holds]
  | trim => simp [StrBag.step, StrCk.holds]
  | re r => simp [StrBag.step, addPat_sem, StrCk.holds, Pat.holds]

theorem fold_sem_lenFree (cs : List StrCk) (b : StrBag) (s : Str) (ha : asciiStr s = true)
    (h : strLenOK.lenFree cs = true) :
    strSem (cs.foldl StrBag.step b) s = (strSem b s && cs.all (fun c => c.holds s)) := by
  induction cs generalizing b with
  | nil => simp
  | cons c cs ih =>
    have hc : ∀ n, c ≠ .len n := by
      intro n hn; subst hn; simp [strLenOK.lenFree] at h
    have h' : strLenOK.lenFree cs = true := by
      cases c <;> simp_all [strLenOK.lenFree]
    simp only [List.foldl_cons, List.all_cons]
    rw [ih _ h', step_sem_nolen b c s ha hc, Bool.and_assoc]

theorem fold_sem_lenOK (cs : List StrCk) (b : StrBag) (s : Str) (ha : asciiStr s = true)
    (h : strLenOK cs = true) (h1 : b.minL = none) (h2 : b.maxL = none) :
    strSem (cs.foldl StrBag.step b) s = (strSem b s && cs.all (fun c => c.holds s)) := by
  induction cs generalizing b with
  | nil => simp
  | cons c cs ih =>
    simp only [List.foldl_cons, List.all_cons]
    cases c with
    | len n =>
      have h' : strLenOK.lenFree cs = true := by simpa [strLenOK] using h
      rw [fold_sem_lenFree cs _ s ha h']
      have hb := byteLen_ascii s ha
      simp only [StrBag.step, strSem, h1, h2, StrCk.holds, hb]
      have hd : (decide (n ≤ s.length) && decide (s.length ≤ n)) = decide (s.length = n) := by
        by_cases h3 : s.length = n
        · subst h3; simp
        · have : ¬ (n ≤ s.length ∧ s.length ≤ n) := by omega
          simp [h3]; omega
      rw [hd]
      cases b.pats.all (fun p => p.holds s) <;> cases cs.all (fun c => c.holds s) <;> simp
    | min n =>
      have h' : strLenOK.lenFree cs = true := by simpa [strLenOK] using h
      rw [fold_sem_lenFree cs _ s ha h', step_sem_nolen b _ s ha (by intro m; simp), Bool.and_assoc]
    | max n =>
      have h' : strLenOK.lenFree cs = true := by simpa [strLenOK] using h
      rw [fold_sem_lenFree cs _ s ha h', step_sem_nolen b _ s ha (by intro m; simp), Bool.and_assoc]
    | sw p =>
      have h' : strLenOK cs = true := by simpa [strLenOK] using h
      rw [ih _ h' (by simp [StrBag.step, StrBag.addPat]; split <;> simp [h1]) (by simp [StrBag.step, StrBag.addPat]; split <;> simp [h2]),
          step_sem_nolen b _ s ha (by intro m; simp), Bool.and_assoc]
    | ew p =>
      have h' : strLenOK cs = true := by simpa [strLenOK] using h
      rw [ih _ h' (by simp [StrBag.step, StrBag.addPat]; split <;> simp [h1]) (by simp [StrBag.step, StrBag.addPat]; split <;> simp [h2]),
          step_sem_nolen b _ s ha (by intro m; simp), Bool.and_assoc]
    | inc p =>
      have h' : strLenOK cs = true := by simpa [strLenOK] using h
      rw [ih _ h' (by simp [StrBag.step, StrBag.addPat]; split <;> simp [h1]) (by simp [StrBag.step, StrBag.addPat]; split <;> simp [h2]),
          step_sem_nolen b _ s ha (by intro m; simp), Bool.and_assoc]
    | lower =>
      have h' : strLenOK cs = true := by simpa [strLenOK] using h
      rw [ih _ h' (by simp [StrBag.step, StrBag.addPat]; split <;> simp [h1]) (by simp [StrBag.step, StrBag.addPat]; split <;> simp [h2]),
          step_sem_nolen b _ s ha (by intro m; simp), Bool.and_assoc]
    | upper =>
      have h' : strLenOK cs = true := by simpa [strLenOK] using h
      rw [ih _ h' (by simp [StrBag.step, StrBag.addPat]; split <;> simp [h1]) (by simp [StrBag.step, StrBag.addPat]; split <;> simp [h2]),
          step_sem_nolen b _ s ha (by intro m; simp), Bool.and_assoc]
    | trim =>
      have h' : strLenOK cs = true := by simpa [strLenOK] using h
      rw [ih _ h' (by simp [StrBag.step, h1]) (by simp [StrBag.step, h2]),
          step_sem_nolen b _ s ha (by intro m; simp), Bool.and_assoc]
    | re r =>
      have h' : strLenOK cs = true := by simpa [strLenOK] using h
      rw [ih _ h' (by simp [StrBag.step, StrBag.addPat]; split <;> simp [h1]) (by simp [StrBag.step, StrBag.addPat]; split <;> simp [h2]),
          step_sem_nolen b _ s ha (by intro m; simp), Bool.and_assoc]

theorem allValid_pats (ps : List Pat) (s : Str) :
    allValid (ps.foldr (fun p acc => JSList.cons (.node (.cons (.pattern p) .nil)) acc) .nil) (.str s)
      = ps.all (fun p => p.holds s) := by
  induction ps with
  | nil => simp [allValid]
  | cons p ps ih => simp [allValid, jsValid, kwsValid, kwValid, ih]

theorem patKws_valid (ps : List Pat) (c : Ctx) (s : Str) :
    (patKws ps).all (fun k => kwValid k c (.str s)) = ps.all (fun p => p.holds s) := by
  match ps with
  | [] => simp [patKws]
  | [p] => simp [patKws, kwValid]
  | p :: q :: ps => simp only [patKws, List.all_cons, List.all_nil, kwValid, allValid_pats, Bool.and_true]

/-- the string keywords on a string instance mean the Bag. -/
theorem strKws_valid (cks : List StrCk) (c : Ctx) (s : Str) :
    (strKws cks).all (fun k => kwValid k c (.str s)) = strSem (strBag cks) s := by
  unfold strKws strSem
  simp only [List.all_append, List.all_cons, List.all_nil, kwValid, typeOk, Bool.true_and, Bool.and_true,
    patKws_valid]
  cases (strBag cks).minL <;> cases (strBag cks).maxL <;> simp [optKw, kwValid] <;>
    cases (strBag cks).pats.all (fun p => p.holds s) <;> simp <;> (try (constructor <;> intros <;> simp_all))

theorem str_case (cks : List StrCk) (x : Json) (h1 : strLenOK cks = true) (h2 : noTrim cks = true)
    (hx : instOK x = true) :
    jsValid (.node (KwList.ofList (strKws cks))) x = accepts (.str cks) x := by
  cases x with
  | str s =>
    have ha : asciiStr s = true := by simpa [instOK] using hx
    rw [jsValid_node, strKws_valid, strBag, fold_sem_lenOK cks {} s ha h1 rfl rfl]
    simp [accepts, runStr_noTrim cks s h2, strSem]
    split <;> simp_all
  | _ => simp [jsValid_node, strKws, kwValid, typeOk, accepts]

/-! ### numbers -/

def lowSem (u : Int) (mn ex : Option Int) (q : Int) : Bool :=
  (match mn with | some m => decide (u * m ≤ q) | none => true)
  && (match ex with | some e => decide (u * e < q) | none => true)

def highSem (u : Int) (mx ex : Option Int) (q : Int) : Bool :=
  (match mx with | some m => decide (q ≤ u * m) | none => true)
  && (match ex with | some e => decide (q < u * e) | none => true)

def mulSem (u : Int) (ml : Option Int) (q : Int) : Bool :=
  match ml with | some v => decide (q % (u * v) = 0) | none => true

/-- what the numeric Bag means for a number (all in quarters). -/
def numSem (u : Int) (b : NumBag) (q : Int) : Bool :=
  lowSem u b.min b.exMin q && highSem u b.max b.exMax q && mulSem u b.mul q

theorem step_num (u : Int) (hu : u = 1 ∨ u = 4) (b : NumBag) (c : NumCk) (q : Int)
    (hok : b.stepOK c = true) : numSem u (b.step c) q = (numSem u b q && c.holds u q) := by
  have key : ∀ (A B C D : Bool), (A && B && C && D) = (A && D && B && C) := by decide
  rcases hu with rfl | rfl <;> cases c <;>
    simp only [NumBag.step, NumBag.stepOK, numSem, NumCk.holds, lowSem, highSem, mulSem] at * <;>
    cases hmin : b.min <;> cases hex : b.exMin <;> cases hmax : b.max <;> cases hexM : b.exMax <;>
    cases hmul : b.mul <;> simp_all <;> grind

theorem fold_num (u : Int) (hu : u = 1 ∨ u = 4) (cs : List NumCk) (b : NumBag) (q : Int)
    (h : numFoldOK b cs = true) :
    numSem u (cs.foldl NumBag.step b) q = (numSem u b q && cs.all (fun c => c.holds u q)) := by
  induction cs generalizing b with
  | nil => simp
  | cons c cs ih =>
    simp only [numFoldOK, Bool.and_eq_true] at h
    simp only [List.foldl_cons, List.all_cons]
    rw [ih _ h.2, step_num u hu b c q h.1, Bool.and_assoc]

theorem numKws_valid (u : Int) (cks : List NumCk) (top : Bool) (d : Int × Int) (c : Ctx) (q : Int) :
    (numKws u cks top d).all (fun k => kwValid k c (.num q))
      = ((if top && !(numBag cks).hasBound then decide (d.1 ≤ q) && decide (q ≤ d.2) else true)
         && numSem u (numBag cks) q) := by
  unfold numKws numSem lowSem highSem mulSem
  simp only [List.all_append]
  generalize numBag cks = b
  obtain ⟨mn, ex, mx, exM, ml⟩ := b
  cases mn <;> cases ex <;> cases mx <;> cases exM <;> cases ml <;>
    cases top <;> simp [optKw, kwValid, NumBag.hasBound, Bool.and_assoc]

theorem p53 : (2:Int) ^ 53 = 9007199254740992 := by decide
theorem p63 : (2:Int) ^ 63 = 9223372036854775808 := by decide
theorem p64 : (2:Int) ^ 64 = 18446744073709551616 := by decide

theorem kind_range (top : Bool) (k : IntKind) (cks : List NumCk) (q : Int)
    (h1 : intKindOK top k cks = true) (hq : -(9007199254740992:Int) < q ∧ q < 9007199254740992) :
    (decide (q % 4 = 0) &&
      (if (top && !(numBag cks).hasBound) = true then decide (k.defaults.1 ≤ q) && decide (q ≤ k.defaults.2) else true))
      = k.holds q := by
  by_cases hc : (top && !(numBag cks).hasBound) = true
  · simp only [hc, if_true]
    rw [Bool.eq_iff_iff]
    simp only [IntKind.holds, Bool.and_eq_true, decide_eq_true_eq]
    cases k <;> simp only [IntKind.range, IntKind.defaults, p63, p64] <;> omega
  · simp only [hc]
    rw [Bool.eq_iff_iff]
    simp only [IntKind.holds, Bool.and_eq_true, decide_eq_true_eq]
    cases k <;> simp [intKindOK] at h1 <;> (try (simp_all; done)) <;>
      simp [IntKind.range, p63] <;> omega

theorem int_case (top : Bool) (k : IntKind) (cks : List NumCk) (x : Json)
    (h1 : intKindOK top k cks = true) (h2 : numFoldOK {} cks = true) (hx : instOK x = true) :
    jsValid (.node (KwList.ofList (.type .integer :: numKws 4 cks top k.defaults))) x = accepts (.int k cks) x := by
  cases x with
  | num q =>
    have hq : -(9007199254740992:Int) < q ∧ q < 9007199254740992 := by
      simpa [instOK, p53] using hx
    rw [jsValid_node]
    simp only [List.all_cons, numKws_valid, kwValid, typeOk, accepts]
    rw [numBag, fold_num 4 (Or.inr rfl) cks {} q h2]
    have h0 : numSem 4 {} q = true := by simp [numSem, lowSem, highSem, mulSem]
    rw [h0, Bool.true_and, ← Bool.and_assoc, ← numBag, kind_range top k cks q h1 hq]
  | _ => simp [jsValid_node, kwValid, typeOk, accepts]

set_option exponentiation.threshold 400 in
theorem fltDefault_big : (9007199254740992:Int) < fltDefault := by decide

theorem flt_case (top : Bool) (cks : List NumCk) (x : Json)
    (h2 : numFoldOK {} cks = true) (hx : instOK x = true) :
    jsValid (.node (KwList.ofList (.type .number :: numKws 1 cks top (-fltDefault, fltDefault)))) x
      = accepts (.flt cks) x := by
  cases x with
  | num q =>
    have hq : -(9007199254740992:Int) < q ∧ q < 9007199254740992 := by
      simpa [instOK, p53] using hx
    have hb := fltDefault_big
    rw [jsValid_node]
    simp only [List.all_cons, numKws_valid, kwValid, typeOk, accepts]
    rw [numBag, fold_num 1 (Or.inl rfl) cks {} q h2]
    have h0 : numSem 1 {} q = true := by simp [numSem, lowSem, highSem, mulSem]
    rw [h0, Bool.true_and, Bool.true_and]
    have : (decide (-fltDefault ≤ q) && decide (q ≤ fltDefault)) = true := by
      simp; omega
    split <;> simp_all
  | _ => simp [jsValid_node, kwValid, typeOk, accepts]

/-! ### size checks -/

theorem sz_min (n l : Nat) : SzCk.holds (.min n) l = decide (n ≤ l) := rfl
theorem sz_max (n l : Nat) : SzCk.holds (.max n) l = decide (l ≤ n) := rfl
theorem sz_len (n l : Nat) : SzCk.holds (.len n) l = (decide (n ≤ l) && decide (l ≤ n)) := by
  rw [Bool.eq_iff_iff]; simp [SzCk.holds]; omega

/-- the two size keywords (whatever their names) mean the size checks, when the Bag is faithful. -/
theorem szBag_sem (cks : List SzCk) (l : Nat) (h : szSimple cks = true) :
    ((match (szBag cks).minN with | some n => decide (n ≤ l) | none => true)
      && (match (szBag cks).maxN with | some n => decide (l ≤ n) | none => true)) = szOk cks l := by
  cases cks with
  | nil => simp [szBag, szOk]
  | cons c cs =>
    cases cs with
    | nil => cases c <;> simp [szBag, SzBag.step, szOk, sz_min, sz_max, sz_len]
    | cons d ds =>
      cases ds with
      | nil =>
        cases c <;> cases d <;> simp [szSimple] at h <;>
          simp [szBag, SzBag.step, szOk, sz_min, sz_max, Bool.and_comm]
      | cons e es => cases c <;> cases d <;> simp [szSimple] at h

theorem propsKws_valid (cks : List SzCk) (c : Ctx) (fs : JsonFields) (h : szSimple cks = true) :
    (propsKws (szBag cks)).all (fun k => kwValid k c (.obj fs)) = szOk cks fs.size := by
  rw [← szBag_sem cks fs.size h]
  generalize szBag cks = b
  obtain ⟨mn, mx⟩ := b
  cases mn <;> cases mx <;> simp [propsKws, optKw, kwValid]

theorem itemsKws_valid (cks : List SzCk) (c : Ctx) (xs : JsonList) (h : szSimple cks = true) :
    (itemsKws (szBag cks)).all (fun k => kwValid k c (.arr xs)) = szOk cks xs.length := by
  rw [← szBag_sem cks xs.length h]
  generalize szBag cks = b
  obtain ⟨mn, mx⟩ := b
  cases mn <;> cases mx <;> simp [itemsKws, optKw, kwValid]

end Gozod.C07
