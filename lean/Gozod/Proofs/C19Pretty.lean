/-
  C19 — PrettifyError at the strength of the clause, about the definition the driver runs
  (`prettifyGo`, Model/IssuesGo.lean: every path element type), round 4c (audit B, M9).

  The report is one string, so "exactly one message per issue, filed under the position its path
  denotes" is stated as what a reader of the string can recover:

    c19_go_prettify_join      the report is the "; "-join of one segment per issue, in order
    c19_go_prettify_seg       a segment is the message, preceded by `<dot path>: ` unless the path is empty
    c19_go_prettify_accounts  every issue's segment occurs in the report (nothing is dropped)
    c19_go_prettify_split_partial   cutting the report at every "; " gives back exactly the segments —
                              one per issue — when no segment contains ';'
    c19_go_prettify_split_full_false  … and not otherwise: a message "a; b" reads as two segments
                              (the report shape cannot tell; the messages are the user's)
    c19_dotpath_go_injective  (Proofs/C19Parse.lean) the path part identifies the position
    c19_go_prettify_empty_iff / c19_go_nonempty (Proofs/C19Go.lean)  the report is "" exactly for one
                              root issue with an empty message

  `prettifyGo_eq` relates the driver's definition to the position-level `prettify` of
  Model/Issues.lean (like flattenGo_eq / formatGo_eq / treeifyGo_eq) — outside negative ints, which
  the pretty report writes `[-1]` while the tree files them as the key "-1" (witness
  `prettifyGo_neg_differs`); the statements above do not go through it: they hold for every error.
-/
import Gozod.Proofs.C19Parse
namespace Gozod.C19
open Gozod.Issues

/-- the segments of PrettifyError's report, one per issue -/
def segsGo (is : List IssueGo) : List String := is.map (prettySegWith dotPathGo)

theorem segsGo_length (is : List IssueGo) : (segsGo is).length = is.length := by simp [segsGo]

/-- **Prettify, shape**: the report is the "; "-join of exactly one segment per issue, in the order of the issues -/
theorem c19_go_prettify_join (is : List IssueGo) (h : is ≠ []) :
    prettifyGo is = "; ".intercalate (segsGo is) ∧ (segsGo is).length = is.length :=
  ⟨prettifyWith_ne_empty_segs dotPathGo is h, segsGo_length is⟩

/-- **Prettify, placement**: the segment is the message, preceded by the path in dot notation (which
    identifies the position: `c19_dotpath_go_injective`) when the path is not empty -/
theorem c19_go_prettify_seg (i : IssueGo) :
    prettySegWith dotPathGo i = if i.path = [] then i.msg else dotPathGo i.path ++ ": " ++ i.msg := by
  unfold prettySegWith
  cases h : i.path <;> simp

theorem mem_infix_intercalate (sep : List Char) (xs : List (List Char)) (x : List Char) (h : x ∈ xs) :
    x <:+: sep.intercalate xs := by
  induction xs with
  | nil => cases h
  | cons a r ih =>
    cases r with
    | nil => simp at h; subst h; simp [List.intercalate]
    | cons b r =>
      rw [intercalate_cons2]
      rcases List.mem_cons.mp h with rfl | h
      · exact ⟨[], sep ++ sep.intercalate (b :: r), by simp⟩
      · obtain ⟨s, t, e⟩ := ih h
        exact ⟨a ++ sep ++ s, t, by simp [← e]⟩

/-- **Prettify loses nothing**: the segment of every issue — its path and its message — occurs in the report -/
theorem c19_go_prettify_accounts (is : List IssueGo) (i : IssueGo) (hi : i ∈ is) :
    (prettySegWith dotPathGo i).toList <:+: (prettifyGo is).toList := by
  have hne : is ≠ [] := by intro e; rw [e] at hi; cases hi
  rw [(c19_go_prettify_join is hne).1, String.toList_intercalate]
  exact mem_infix_intercalate _ _ _ (List.mem_map.mpr ⟨_, List.mem_map.mpr ⟨i, hi, rfl⟩, rfl⟩)

/-- … in particular its message does -/
theorem c19_go_prettify_msg_occurs (is : List IssueGo) (i : IssueGo) (hi : i ∈ is) :
    i.msg.toList <:+: (prettifyGo is).toList := by
  refine List.IsInfix.trans ?_ (c19_go_prettify_accounts is i hi)
  rw [c19_go_prettify_seg]
  split
  · exact List.infix_rfl
  · exact ⟨(dotPathGo i.path ++ ": ").toList, [], by simp⟩

/-! ### reading the report back: cut at every "; " -/

/-- cut a character list at every "; " -/
def splitSemi : List Char → List (List Char)
  | [] => [[]]
  | ';' :: ' ' :: r => [] :: splitSemi r
  | c :: r =>
    match splitSemi r with
    | [] => [[c]]
    | s :: ss => (c :: s) :: ss

theorem splitSemi_cons_ne (c : Char) (hc : c ≠ ';') (r : List Char) :
    splitSemi (c :: r) = match splitSemi r with | [] => [[c]] | s :: ss => (c :: s) :: ss := by
  rw [splitSemi]
  intro r' h; exact absurd h hc

theorem splitSemi_free (x : List Char) (hx : ';' ∉ x) : splitSemi x = [x] := by
  induction x with
  | nil => rfl
  | cons c r ih =>
    have hc : c ≠ ';' := fun e => hx (by simp [e])
    rw [splitSemi_cons_ne c hc, ih (fun m => hx (by simp [m]))]

theorem splitSemi_free_sep (x : List Char) (hx : ';' ∉ x) (rest : List Char) :
    splitSemi (x ++ ';' :: ' ' :: rest) = x :: splitSemi rest := by
  induction x with
  | nil => simp [splitSemi]
  | cons c r ih =>
    have hc : c ≠ ';' := fun e => hx (by simp [e])
    rw [List.cons_append, splitSemi_cons_ne c hc, ih (fun m => hx (by simp [m]))]

theorem splitSemi_intercalate (xs : List (List Char)) (hne : xs ≠ []) (hx : ∀ x ∈ xs, ';' ∉ x) :
    splitSemi ([';', ' '].intercalate xs) = xs := by
  induction xs with
  | nil => exact absurd rfl hne
  | cons a r ih =>
    cases r with
    | nil => simpa [List.intercalate] using splitSemi_free a (hx a (by simp))
    | cons b r =>
      rw [intercalate_cons2]
      have : a ++ [';', ' '] ++ [';', ' '].intercalate (b :: r) = a ++ ';' :: ' ' :: [';', ' '].intercalate (b :: r) := by simp
      rw [this, splitSemi_free_sep a (hx a (by simp)), ih (by simp) (fun x m => hx x (by simp [m]))]

/-- no segment of the error contains the character the report separates segments with -/
def semiFree (is : List IssueGo) : Bool := is.all (fun i => !(prettySegWith dotPathGo i).toList.contains ';')

/-- **Prettify carries exactly one segment per issue, PARTIAL** (excluded: errors with a ';' in a
    message or in a quoted key): cutting the report at every "; " gives back the segments of the
    issues, one each, in order. -/
theorem c19_go_prettify_split_partial (is : List IssueGo) (h : is ≠ []) (hs : semiFree is = true) :
    splitSemi (prettifyGo is).toList = (segsGo is).map String.toList ∧
    (splitSemi (prettifyGo is).toList).length = is.length := by
  have key : splitSemi (prettifyGo is).toList = (segsGo is).map String.toList := by
    rw [(c19_go_prettify_join is h).1, String.toList_intercalate]
    have : "; ".toList = [';', ' '] := by decide
    rw [this]
    apply splitSemi_intercalate
    · cases is with
      | nil => exact absurd rfl h
      | cons i r => simp [segsGo]
    · intro x hx
      obtain ⟨sg, hsg, rfl⟩ := List.mem_map.mp hx
      obtain ⟨i, hi, rfl⟩ := List.mem_map.mp hsg
      have := (List.all_eq_true.mp hs) i hi
      simpa using this
  exact ⟨key, by rw [key]; simp [segsGo]⟩

example : semiFree [.mk .tooBig [.str "users", .int 0, .str "first-name"] "Too big: expected <= 5" [] [],
    .mk .custom [.int (-1), .other "1.5"] "m2" [] [], .mk .custom [] "" [] []] = true := by decide

/-- the full statement: the cut report has one segment per issue, for every error -/
def c19_go_prettify_split_full : Prop :=
  ∀ is : List IssueGo, is ≠ [] → (splitSemi (prettifyGo is).toList).length = is.length

/-- witness: one issue whose message is "a; b" reads as two segments (and so does a key `"a; b"`) -/
theorem c19_go_prettify_split_full_false : ¬ c19_go_prettify_split_full := by
  intro h
  exact absurd (h [.mk .custom [] "a; b" [] []] (by simp)) (by decide)

/-! ### the driver's definition and the position-level one -/

/-- no negative int among the path elements of the (top-level) issues -/
def noNegTop (is : List IssueGo) : Bool := is.all (fun i => !i.path.any El.isNeg)

theorem segDotGo_pos (first : Bool) (e : El) (h : e.isNeg = false) :
    segDotEsc first (El.pos e) = segDotGo first e := by
  cases e with
  | str k => rfl
  | other k => rfl
  | int z =>
    cases z with
    | ofNat n => simp [El.pos, segDotGo, bracketed, itoa, segDotEsc]
    | negSucc n => simp [El.isNeg] at h

theorem dotRestGo_pos (p : List El) (h : p.any El.isNeg = false) :
    dotRestEsc (p.map El.pos) = dotRestWith segDotGo p := by
  induction p with
  | nil => rfl
  | cons e r ih =>
    simp only [List.any_cons, Bool.or_eq_false_iff] at h
    simp [dotRestWith, dotRestEsc, segDotGo_pos _ e h.1, ih h.2]

theorem dotPathGo_pos (p : List El) (h : p.any El.isNeg = false) : dotPathEsc (p.map El.pos) = dotPathGo p := by
  cases p with
  | nil => rfl
  | cons e r =>
    simp only [List.any_cons, Bool.or_eq_false_iff] at h
    simp [dotPathGo, dotCharsGo, dotCharsWith, dotPathEsc, dotCharsEsc, segDotGo_pos _ e h.1, dotRestGo_pos r h.2]

theorem prettySegGo_norm (i : IssueGo) (h : i.path.any El.isNeg = false) :
    prettySeg i.norm = prettySegWith dotPathGo i := by
  unfold prettySeg prettySegWith
  rw [norm_path, norm_msg]
  cases hp : i.path with
  | nil => rfl
  | cons e r =>
    have := dotPathGo_pos (e :: r) (by rw [← hp]; exact h)
    simp only [List.map_cons] at this ⊢
    rw [this]

/-- **the PrettifyError the driver runs is the position-level transcription** (the subject of
    `c19_prettify_*`, `c19_dotpath_esc_injective`) on the positions — PARTIAL: outside negative ints -/
theorem prettifyGo_eq (is : List IssueGo) (h : noNegTop is = true) : prettifyGo is = prettify (normList is) := by
  cases is with
  | nil => rfl
  | cons i r =>
    have hall : ∀ j ∈ i :: r, j.path.any El.isNeg = false := by
      intro j hj
      have := (List.all_eq_true.mp h) j hj
      simpa using this
    unfold prettifyGo prettifyWith prettify
    rw [normList_eq_map]
    simp only [List.map_cons, prettySegs]
    congr 1
    rw [prettySegGo_norm i (hall i (by simp))]
    congr 1
    rw [List.map_map]
    apply List.map_congr_left
    intro j hj
    simp only [Function.comp]
    exact (prettySegGo_norm j (hall j (by simp [hj]))).symm

example : noNegTop [.mk .tooBig [.str "a", .int 3, .other "1.5"] "m" [] []] = true := by decide

/-- witness: a negative int is written `[-1]` by PrettifyError, while the position it denotes
    (TreeifyError / FormatError: the key "-1") would be written `["-1"]` -/
theorem prettifyGo_neg_differs :
    prettifyGo [.mk .custom [.int (-1)] "m" [] []] = "[-1]: m" ∧
    prettify (normList [.mk .custom [.int (-1)] "m" [] []]) = "[\"-1\"]: m" := by decide

end Gozod.C19
