/-
  C17, third sentence ("a coercing schema then validates the coerced value exactly as the
  non-coercing schema validates that value"), composed with what that validation is, for the
  float and big-integer coercing schemas (the integer schemas: `C17.c17_schema_check_exact`).

  * `c17_schema_check_exact_float` — the bound check a coercing float32/float64 schema applies to
    the coerced value is the mathematical comparison of the two floats (NaN unordered, ±0 equal,
    infinities ordered): composition with C16's `c16_cmp`;
  * `c17_schema_float_sound` — so a coercing float schema succeeds exactly when `To[T]` produced
    the value and the mathematical comparison holds on it;
  * BigInt schemas compare the coerced value with a `*big.Int` bound through float64
    (`Coerce.bigCmpViaFloat`: `validate.Gt` on two `*big.Int` goes through `coerce.ToFloat64`).
    That was the code before `fix: compare and divide big integers exactly`
    (`legacy_bigint_check_witness`, `legacy_bigint_check_partial`); now `c17_bigint_check_exact`:
    the check is the comparison of the integers.
    The third sentence itself (`C17.c17_schema`, `C17.c17_schema_sound`: the coercing schema
    does to the coerced value exactly what the plain schema does) holds for BigInt as for every
    target.
-/
import Gozod.Proofs.C17
set_option exponentiation.threshold 2000
namespace Gozod.C17S
open Gozod Gozod.Coerce

/-- **Float schemas: the check on the coerced value is the mathematical comparison.** -/
theorem c17_schema_check_exact_float (t : Tgt) (ht : t = .f32 ∨ t = .f64) (op : CmpOp) (x b : F) :
    (Chk.cmp op (.f b)).holds t (.flt x) = specCmp op (.f x) (.f b) := by
  rcases ht with rfl | rfl <;>
    (simp only [Chk.holds, Val.num]; exact C16.c16_cmp op (.f x) (.f b) trivial trivial)

/-- A coercing float schema returns `w` exactly when `To[T]` produced `w` and the mathematical
    comparison with the bound holds on it. -/
theorem c17_schema_float_sound (f g : F → List Nat) (t : Tgt) (ht : t = .f32 ∨ t = .f64) (op : CmpOp) (b : F)
    (s : Src) (x : F) (hex : exact t s = none) :
    parseCoerced f g t (.cmp op (.f b)) s = .ok (.flt x) ↔
      (to f g t s = .ok (.flt x) ∧ specCmp op (.f x) (.f b) = true) := by
  rw [C17.c17_schema_sound f g t _ s _ hex, c17_schema_check_exact_float t ht]

example : parseCoerced (fun _ => []) (fun _ => []) .f64 (.cmp .gt (.f (.fin 1 1))) (.int .i8 1) = .ok (.flt (.fin 1 0)) ∧
    parseCoerced (fun _ => []) (fun _ => []) .f64 (.cmp .lt (.f .nan)) (.int .i8 1) = .error .check := by
  decide

/-! ## BigInt schemas -/

theorem log2_lt_53 (n : Nat) (hn : n ≠ 0) (h : n < 2 ^ 53) : n.log2 < 53 := (Nat.log2_lt hn).mpr h

/-- Below 2^53 in magnitude `big.Int.Float64` is exact. -/
theorem bigToF64_exact (v : Int) (h : v.natAbs < 2 ^ 53) : bigToF64 v = .fin v 0 := by
  by_cases h0 : v.natAbs = 0
  · have : v = 0 := by omega
    subst this; decide +kernel
  · have hl := log2_lt_53 _ h0 h
    have hrm : roundMag 53 1074 v.natAbs 0 = (v.natAbs, 0) :=
      ((C17.roundMag_correct 53 1074 v.natAbs 0 h0).2 _ rfl).1 (by omega)
    have hlt : v.natAbs < 2 ^ 1024 * 2 ^ 0 := by
      have : (2 : Nat) ^ 53 ≤ 2 ^ 1024 := Nat.pow_le_pow_right (by decide) (by decide)
      omega
    unfold bigToF64 roundFin
    rw [hrm]
    simp only []
    rw [if_neg (by omega)]
    by_cases hneg : v < 0
    · rw [if_pos hneg]; congr 1; omega
    · rw [if_neg hneg]; congr 1; omega

/-- **BigInt schemas: the check on the coerced value is the comparison of the integers**
    (full statement, since `fix: compare and divide big integers exactly`). -/
theorem c17_bigint_check_exact (op : CmpOp) (v b : Int) :
    (Chk.cmpBig op b).holds .big (.int v) = op.holdsInt v b := rfl

/-- The code before that fix compared through float64: exact below 2^53 … -/
theorem legacy_bigint_check_partial (op : CmpOp) (v b : Int) (hv : v.natAbs < 2 ^ 53) (hb : b.natAbs < 2 ^ 53) :
    bigCmpViaFloat op v b = op.holdsInt v b := by
  unfold bigCmpViaFloat
  rw [bigToF64_exact v hv, bigToF64_exact b hb]
  simp only [finOrOverflow, F.cmp, Int.pow_zero, Int.mul_one]
  rcases Int.lt_trichotomy v b with h | h | h
  · rw [Int.compare_eq_lt.mpr h]; cases op <;> simp [CmpOp.ofOrdering, CmpOp.holdsInt] <;> omega
  · subst h; rw [Int.compare_eq_eq.mpr rfl]; cases op <;> simp [CmpOp.ofOrdering, CmpOp.holdsInt]
  · rw [Int.compare_eq_gt.mpr h]; cases op <;> simp [CmpOp.ofOrdering, CmpOp.holdsInt] <;> omega

/-- … and wrong above: `BigInt().Gt(2^53).Parse(2^53+1)` was refused, `BigInt().Gt(0).Parse(2^1024)` too. -/
theorem legacy_bigint_check_witness :
    bigCmpViaFloat .gt (2 ^ 53 + 1) (2 ^ 53) = false ∧ bigCmpViaFloat .gt (2 ^ 1024) 0 = false := by
  decide +kernel

example : (Chk.cmpBig .gt (2 ^ 53)).holds .big (.int (2 ^ 53 + 1)) = true := by decide

end Gozod.C17S
