/-
  Gozod.Model.TypeLocal — the (`Parse`, `StrictParse`) pairs of the schema types whose entry points are
  NOT the bare engine pair (C09, round 4b). Each pair is transcribed statement by statement around the
  engine call; the statements themselves are pinned by `Gozod.EntryPoints.transcriptions` (exact source
  text, compared with the regenerated `Gen/EntryPoints.lean` by `c09_table_transcribed`), the helpers they
  call by structure fingerprints (`vlib/fingerprints/C09.json`).

    ZodBigInt    types/bigint.go:102-147, 397-462   a nil pass in front of the primitive engine pair
    ZodFile      types/file.go:55-99, 376-435       the complex engine pair + two different result conversions
    ZodFunction  types/function.go:79-144           the complex engine pair (R = any) + one result conversion
    ZodStruct    types/struct.go:99-200, 497-507    `Parse`: Optional switched on for R = *T, a REWRITE of the engine's root-level
                                                    type error (00db003), a result switch; `StrictParse`: T -> R, engine, nothing else
-/
import Gozod.Model.Complex
namespace Gozod.TypeLocal
open Gozod Gozod.Prim Gozod.Cpx

/-! ## ZodBigInt -/
section BigInt
variable {P O T V : Type}

/-- `(r, sub, done, err)` of `ZodBigInt.parseNilInput`. -/
inductive NilPass (V : Type) where
  | done (o : Prim.Out V)     -- `done = true`: `(r, err)` is the answer
  | sub (v : V)               -- `done = false`: the prefault value replaces the input

/-- `ZodBigInt.parseNilInput` (bigint.go:397-447): Default > DefaultFunc > Prefault > PrefaultFunc >
    NonOptional > Optional/Nilable > type error. A default is handed out as it is (no checks). -/
def bigNilPass (i : Prim.Internals P O V) : NilPass V :=
  match i.dv with
  | some d => .done (.okVal d)
  | none =>
    match i.df with
    | some d => .done (.okVal d)
    | none =>
      match i.pv with
      | some p => .sub p
      | none =>
        match i.pf with
        | some p => .sub p
        | none =>
          if i.nonOptional then .done .errNonOptional
          else if i.optional || i.nilable then .done .okNil
          else .done .errType

/-- `isNilBigIntInput`: untyped nil, a nil `*big.Int`, a nil `**big.Int`. -/
def bigIsNil : Prim.Input V → Bool
  | .nil => true
  | .nilPtr => true
  | _ => false

/-- `ZodBigInt.Parse`: `if isNilBigIntInput(input) { r, sub, done, err := z.parseNilInput(ctx...); if done { return r, err };
    input = sub }; return engine.ParsePrimitive(input, …)`. -/
def bigParse (env : Env P O T V) (i : Prim.Internals P O V) (x : Prim.Input V) : Prim.Out V :=
  if bigIsNil x then
    (match bigNilPass i with
     | .done o => o
     | .sub p => Prim.parse env i (.val p))
  else Prim.parse env i x

/-- `ZodBigInt.StrictParse`: `if isNilBigIntInput(any(input)) { return z.Parse(nil, ctx...) };
    return engine.ParsePrimitiveStrict(input, …)`. -/
def bigStrict (env : Env P O T V) (i : Prim.Internals P O V) (x : Prim.Input V) : Prim.Out V :=
  if bigIsNil x then bigParse env i .nil
  else Prim.strictParse env i x

end BigInt

/-! ## ZodFile and ZodFunction: result conversions around the complex engine pair -/
section Conv
variable {V E : Type}

/-- `convertToFileConstraintType[T, R](value)` (file.go:402-435); `rPtr`: R = `*any`. -/
def fileToR (rPtr : Bool) : Cpx.Res V E → Cpx.Res V E
  | .err e => .err e
  | .nil => .nil                                    -- `value == nil`: zero
  | .val v => if rPtr then .ptr v else .val v       -- `value.(R)` / `valuePtr := &value`
  | .ptr v => .ptr v                                -- R = any: handed on as it is; R = *any: `value.(R)`
  | .nilPtr => if rPtr then .nil else .nilPtr       -- a typed nil `*any`: `value.(R)` (= zero) / handed on

/-- `convertFileResult[T, R](result)` (file.go:376-399). -/
def fileResult (rPtr : Bool) : Cpx.Res V E → Cpx.Res V E
  | .err e => .err e
  | .ptr v => if rPtr then .ptr v else fileToR rPtr (.val v)   -- `case *any`, non-nil: `any(v).(R)` / convert(`*v`)
  | .nilPtr => .nil                                            -- `case *any`, nil: zero
  | .nil => .nil                                               -- `case nil`
  | .val v => fileToR rPtr (.val v)                            -- `default`

/-- `ZodFunction.convertResult(result)` (function.go:79-94); `rPtr`: T = `*any`. -/
def funcConv (rPtr : Bool) : Cpx.Res V E → Cpx.Res V E
  | .err e => .err e
  | .nil => .nil                                    -- `result == nil`: a nil `*any` / zero
  | .val v => if rPtr then .ptr v else .val v       -- `new(result)` / `result.(T)`
  | .ptr v => .ptr v                                -- a `*any` result: `new(result)` (a pointer to the pointer) / the pointer itself
  | .nilPtr => .nilPtr                              -- a typed nil `*any` is not `== nil`

end Conv

section Complex
variable {P O T V E : Type}

/-- `ZodFile.Parse`: `convertFileResult(engine.ParseComplex(input, …))`. -/
def fileParse (env : CEnv P O T V E) (c : CCfg P O T V) (x : CIn V) : Cpx.Res V E :=
  fileResult c.i.ptrSchema (Cpx.parse env c x)

/-- `ZodFile.StrictParse`: `convertToFileConstraintType(engine.ParseComplexStrict(input, …))` — the engine's R is
    the method's parameter type T (= any), so the engine adapts to a VALUE whatever the schema's R is. -/
def fileStrict (env : CEnv P O T V E) (c : CCfg P O T V) (x : CIn V) : Cpx.Res V E :=
  fileToR c.i.ptrSchema (adapt false (Cpx.parse env c x))

/-- `ZodFunction.Parse`: `z.convertResult(engine.ParseComplex[any](input, …))`. -/
def funcParse (env : CEnv P O T V E) (c : CCfg P O T V) (x : CIn V) : Cpx.Res V E :=
  funcConv c.i.ptrSchema (Cpx.parse env c x)

/-- `ZodFunction.StrictParse`: `z.convertResult(engine.ParseComplexStrict[any](any(input), …))` (engine R = any). -/
def funcStrict (env : CEnv P O T V E) (c : CCfg P O T V) (x : CIn V) : Cpx.Res V E :=
  funcConv c.i.ptrSchema (adapt false (Cpx.parse env c x))

/-! ## ZodStruct -/

/-- A well-typed input of `ZodStruct[T, R].StrictParse`: a `T`. `extractStructPtrForEngine` takes a `T` (`&structVal`)
    and a `*T` alike, `extractStructForEngine` both too — so the struct value and `convertToStructConstraintType(input)`
    (the value, or a pointer to a copy of it) are the same input to the engine. -/
def structIn (v : V) : CIn V := { isNil := false, untyped := false, ptrEx := some (some v), typEx := some v }

/-- The internals `ZodStruct.Parse` hands to the engine: for R = `*T` without Optional / Nilable / Prefault(Func) a copy
    with `Optional = true` (struct.go:107-121). -/
def structInternals (c : CCfg P O T V) : CCfg P O T V :=
  if c.i.ptrSchema && !c.i.optional && !c.i.nilable && c.i.pv.isNone && c.i.pf.isNone
  then { c with i := { c.i with optional := true } } else c

/-- What is type-specific about the error rewrite of `ZodStruct.Parse`. -/
structure StructErr (E : Type) where
  looksLikeTypeErr : E → Bool      -- since /repo 00db003: a single root-level invalid_type issue whose message contains
                                   -- "Invalid input: expected struct, received" (before: that text anywhere in `err.Error()`)
  rewritten : E                    -- `z.createStructTypeError(input, parseCtx)`
  conversionErr : E                -- `issues.CreateTypeConversionError(…)`

/-- `ZodStruct.Parse` (struct.go:99-159): error rewrite, then the result switch (`convertToStructConstraintType`). -/
def structParse (env : CEnv P O T V E) (se : StructErr E) (c : CCfg P O T V) (x : CIn V) : Cpx.Res V E :=
  match Cpx.parse env (structInternals c) x with
  | .err e => if se.looksLikeTypeErr e then .err se.rewritten else .err e
  | .val v => if c.i.ptrSchema then .ptr v else .val v        -- `result.(T)`
  | .ptr v => if c.i.ptrSchema then .ptr v else .val v        -- `result.(*T)`, non-nil: the engine's pointer itself when it is an R
                                                              -- (/repo 114caec), else `convertToStructConstraintType(*structPtr)`
  | .nilPtr => .nil                                           -- `result.(*T)`, nil: zero
  | .nil => .nil                                              -- `result == nil`: zero

/-- `ZodStruct.StrictParse` (struct.go:171-190): `constraintInput := convertToStructConstraintType[T, R](input)`, the
    engine on the schema's own internals, the result handed on. -/
def structStrict (env : CEnv P O T V E) (c : CCfg P O T V) (v : V) : Cpx.Res V E :=
  Cpx.strictParse env c (structIn v)

/-! ## The (`Parse`, `StrictParse`) pair of every schema type on the complex path, by mechanism

  What `Gozod.Drv.C09` runs on the `c09 cpx` lines: the family is the row of the regenerated entry-point table
  (`EntryPoints.classify`), everything else comes from the real schema and the real validator. -/

/-- How a complex-path type builds its pair. -/
inductive Fam where
  | slice      -- ZodSlice: `toSliceConstraint(ParseComplex …)` / the bare `ParseComplexStrict`
  | viaParse   -- Array, Map, Object, Record, Set, Tuple, Union, Xor, Intersection: result switch to R / `return z.Parse(input, ctx...)`
  | file | function | struct
  deriving Repr, DecidableEq

def famParse (se : StructErr E) : Fam → CEnv P O T V E → CCfg P O T V → CIn V → Cpx.Res V E
  | .slice, env, c, x => typeParse sliceConv env c x
  | .viaParse, env, c, x => typeParse adapt env c x
  | .file, env, c, x => fileParse env c x
  | .function, env, c, x => funcParse env c x
  | .struct, env, c, x => structParse env se c x

/-- `StrictParse`; for ZodStruct the input is `structIn v` (the parameter is a `T`): `structStrict env c v`. -/
def famStrict (se : StructErr E) : Fam → CEnv P O T V E → CCfg P O T V → CIn V → Cpx.Res V E
  | .slice, env, c, x => Cpx.strictParse env c x
  | .viaParse, env, c, x => famParse se .viaParse env c x
  | .file, env, c, x => fileStrict env c x
  | .function, env, c, x => funcStrict env c x
  | .struct, env, c, x => Cpx.strictParse env c x

/-- All six entry points of a complex-path schema on one input. -/
def famSix (se : StructErr E) (f : Fam) (env : CEnv P O T V E) (c : CCfg P O T V) (x : CIn V) : Six (Cpx.Res V E) E :=
  six (fun y => (famParse se f env c y).toExcept) (fun y => (famStrict se f env c y).toExcept) x

end Complex
end Gozod.TypeLocal
