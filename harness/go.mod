module verifharness

go 1.26

require (
	github.com/kaptinlin/gozod v0.0.0
	github.com/kaptinlin/jsonschema v0.7.3
)

require (
	github.com/go-json-experiment/json v0.0.0-20251027170946-4849db3c2f7e // indirect
	github.com/goccy/go-yaml v1.19.2 // indirect
	github.com/golang-jwt/jwt/v5 v5.3.1 // indirect
	github.com/kaptinlin/go-i18n v0.2.11 // indirect
	github.com/kaptinlin/jsonpointer v0.4.16 // indirect
	github.com/kaptinlin/messageformat-go v0.4.18 // indirect
	golang.org/x/text v0.34.0 // indirect
)

replace github.com/kaptinlin/gozod => /repo
