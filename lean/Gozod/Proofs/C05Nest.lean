/-
  C05 — paths, restated with the member ASKED at each position as part of the structure (audit H3, M1, M2).

  `Asked n v s m x`   : container `n`, given `v`, asks member `m` about the part `x` of `v` at segment `s`
  `AskedKey n v k m`  : … asks the key / element schema `m` about the key `k` (its issues are filed under `k.seg`)
  `AskedSame n v m`   : … asks `m` about `v` itself (intersection sides, the selected option, a lazy target)
  `OwnFault n v s`    : the container itself finds fault at its own key `s` without asking a member
                        (a required key is missing; an exact-optional field is explicitly nil)
  `FromA`             : where an issue of `run` comes from, in these terms (`c05_from_asked`, per container, every env)

  Everything below is derived from `c05_from_asked` by induction over the fuel of the recursive `Cont.parseF`:
  resolution at any depth (`c05_resolves_nested`), one fault at a location of any depth (`c05_fault_nested`,
  `c05_single_fault_nested`: every path is the location or a prefix of it).
-/
import Gozod.Proofs.C05

namespace Gozod.C05
open Gozod.Cont

/-! ### what a container asks -/

def Asked (n : Node) (v : V) (s : Seg) (m : Mid) (x : V) : Prop :=
  match n with
  | .slice _ t e _ => ∃ xs j, extractSlice t v = some xs ∧ getIdx xs j = some x ∧ s = .idx j ∧ m = e
  | .array _ items rest _ =>
    ∃ xs j, extractArray v = some xs ∧ getIdx xs j = some x ∧ s = .idx j ∧ memAt items rest j = some m
  | .tuple _ items _ rest _ =>
    ∃ xs j, extractTuple v = some xs ∧ getIdx xs j = some x ∧ s = .idx j ∧ memAt items rest j = some m
  | .map _ _ vm _ => ∃ es k, extractMap v = some es ∧ (k, x) ∈ es ∧ s = k.seg ∧ vm = some m
  | .record _ _ vm _ _ _ => ∃ es k, extractRecord v = some es ∧ (k, x) ∈ es ∧ s = k.seg ∧ m = vm
  | .object _ shape mode c _ _ =>
    ∃ es, extractObject v = some es ∧
      ((∃ f ∈ shape, lookupKey f.name es = some x ∧ s = .key f.name ∧ m = f.m) ∨
       (∃ k, (k, x) ∈ es ∧ isKnown shape k = false ∧ mode ≠ .strict ∧ c = some m ∧ s = k.seg))
  | .struct _ _ sid shape =>
    ∃ fs, extractStruct sid v = some fs ∧ ∃ f ∈ shape, lookupField f.name fs = some x ∧ s = .key f.name ∧ m = f.m
  | _ => False

def AskedKey (n : Node) (v : V) (k : V) (m : Mid) : Prop :=
  match n with
  | .map _ km _ _ => ∃ es x, extractMap v = some es ∧ (k, x) ∈ es ∧ km = some m
  | .record _ ks _ loose _ _ => ∃ es x, extractRecord v = some es ∧ (k, x) ∈ es ∧ ks = .schema m ∧ loose = false
  | .set _ t e _ => ∃ xs, extractSet t v = some xs ∧ k ∈ xs ∧ m = e
  | _ => False

def AskedSame (n : Node) (_v : V) (m : Mid) : Prop :=
  match n with
  | .inter _ l r => m = l ∨ m = r
  | .du _ _ dmap _ => ∃ e ∈ dmap, e.2 = m
  | .lazy _ _ t => m = t
  | _ => False

/-- the container itself reports its own key `s`: a required key is missing, or an exact-optional field is nil. -/
def OwnFault (n : Node) (v : V) (s : Seg) : Prop :=
  match n with
  | .object _ shape _ _ p _ =>
    ∃ es, extractObject v = some es ∧ ∃ f ∈ shape, s = .key f.name ∧
      ((lookupKey f.name es = none ∧ fieldOptional p f = false) ∨
       (∃ x, lookupKey f.name es = some x ∧ x.isNil = true ∧ f.exactOptional = true))
  | .struct _ _ sid shape =>
    ∃ fs, extractStruct sid v = some fs ∧ ∃ f ∈ shape, s = .key f.name ∧ lookupField f.name fs = none ∧ f.optional = false
  | .record _ (.enum allowed _) _ _ isPartial _ =>
    ∃ es, extractRecord v = some es ∧ ∃ k ∈ allowed, s = .key k ∧ isPartial = false ∧
      (es.map (fun e => keyId e.1)).contains k = false
  | _ => False

/-- Where an issue of a container comes from. -/
inductive FromA (env : Env) (n : Node) (v : V) : Issue → Prop
  | root {i : Issue} : i.path = [] → FromA env n v i
  | elem {i : Issue} (s : Seg) (m : Mid) (x : V) :
      Asked n v s m x → errs env m x ≠ [] → i.path = [s] → FromA env n v i
  | own {i : Issue} (s : Seg) : OwnFault n v s → i.path = [s] → i.code = .invalidType → FromA env n v i
  | child {i : Issue} (s : Seg) (m : Mid) (x : V) (c : Issue) :
      Asked n v s m x → c ∈ errs env m x → i.path = s :: c.path → i.code = c.code → FromA env n v i
  | keyed {i : Issue} (k : V) (m : Mid) (c : Issue) :
      AskedKey n v k m → c ∈ errs env m k → i.path = k.seg :: c.path → i.code = c.code → FromA env n v i
  | same {i : Issue} (m : Mid) (c : Issue) :
      AskedSame n v m → c ∈ errs env m v → i.path = c.path → i.code = c.code → FromA env n v i

/-! ### the element loops, described by membership -/

theorem errs_ne_nil_of_not_acc {env : Env} {m : Mid} {x : V} (h : ¬ acc env m x = true) : errs env m x ≠ [] := by
  unfold acc at h; unfold errs
  cases he : env m x with
  | ok r => simp [he] at h
  | err a t => simp

theorem sliceElems_mem (cfg : Cfg) (env : Env) (e : Mid) (hp : cfg.slicePrepend = true) (k : Nat) (xs : List V)
    (i : Issue) (h : i ∈ sliceElems cfg env e k xs) :
    ∃ j x c, getIdx xs j = some x ∧ c ∈ errs env e x ∧ i = prepend (.idx (k + j)) c := by
  induction xs generalizing k with
  | nil => simp [sliceElems] at h
  | cons y ys ih =>
    simp only [sliceElems, hp, ↓reduceIte, List.mem_append, List.mem_map] at h
    rcases h with ⟨c, hc, rfl⟩ | h
    · exact ⟨0, y, c, rfl, hc, rfl⟩
    · obtain ⟨j, x, c, hj, hc, rfl⟩ := ih (k + 1) h
      exact ⟨j + 1, x, c, by simpa [getIdx] using hj, hc, by congr 2; omega⟩

theorem tupleElems_mem (env : Env) (k : Nat) (ms : List Mid) (r : Option Mid) (xs : List V)
    (i : Issue) (h : i ∈ tupleElems env k ms r xs) :
    ∃ j x m c, getIdx xs j = some x ∧ memAt ms r j = some m ∧ c ∈ errs env m x ∧ i = prepend (.idx (k + j)) c := by
  induction xs generalizing k ms with
  | nil => cases ms <;> simp [tupleElems] at h
  | cons y ys ih =>
    cases ms with
    | cons m ms =>
      simp only [tupleElems, List.mem_append, List.mem_map] at h
      rcases h with ⟨c, hc, rfl⟩ | h
      · exact ⟨0, y, m, c, rfl, rfl, hc, rfl⟩
      · obtain ⟨j, x, m', c, hj, hm, hc, rfl⟩ := ih (k + 1) ms h
        exact ⟨j + 1, x, m', c, by simpa [getIdx] using hj, by simpa [memAt] using hm, hc, by congr 2; omega⟩
    | nil =>
      cases r with
      | none => simp [tupleElems] at h
      | some r =>
        simp only [tupleElems, List.mem_append, List.mem_map] at h
        rcases h with ⟨c, hc, rfl⟩ | h
        · exact ⟨0, y, r, c, rfl, rfl, hc, rfl⟩
        · obtain ⟨j, x, m', c, hj, hm, hc, rfl⟩ := ih (k + 1) [] h
          exact ⟨j + 1, x, m', c, by simpa [getIdx] using hj, by simpa [memAt] using hm, hc, by congr 2; omega⟩

theorem arrayElems_mem (env : Env) (k : Nat) (ms : List Mid) (r : Option Mid) (xs : List V)
    (i : Issue) (h : i ∈ arrayElems env k ms r xs) :
    ∃ j x m, getIdx xs j = some x ∧ memAt ms r j = some m ∧ errs env m x ≠ [] ∧ i.path = [.idx (k + j)] := by
  induction xs generalizing k ms with
  | nil => cases ms <;> simp [arrayElems] at h
  | cons y ys ih =>
    cases ms with
    | cons m ms =>
      simp only [arrayElems, List.mem_append] at h
      rcases h with h | h
      · by_cases ha : acc env m y = true
        · simp [ha] at h
        · simp only [ha, Bool.false_eq_true, ↓reduceIte, List.mem_singleton] at h
          subst h
          exact ⟨0, y, m, rfl, rfl, errs_ne_nil_of_not_acc ha, rfl⟩
      · obtain ⟨j, x, m', hj, hm, hc, hp⟩ := ih (k + 1) ms h
        exact ⟨j + 1, x, m', by simpa [getIdx] using hj, by simpa [memAt] using hm, hc, by rw [hp]; congr 2; omega⟩
    | nil =>
      cases r with
      | none => simp [arrayElems] at h
      | some r =>
        simp only [arrayElems, List.mem_append] at h
        rcases h with h | h
        · by_cases ha : acc env r y = true
          · simp [ha] at h
          · simp only [ha, Bool.false_eq_true, ↓reduceIte, List.mem_singleton] at h
            subst h
            exact ⟨0, y, r, rfl, rfl, errs_ne_nil_of_not_acc ha, rfl⟩
        · obtain ⟨j, x, m', hj, hm, hc, hp⟩ := ih (k + 1) [] h
          exact ⟨j + 1, x, m', by simpa [getIdx] using hj, by simpa [memAt] using hm, hc, by rw [hp]; congr 2; omega⟩

theorem mapEntries_mem (env : Env) (km vm : Option Mid) (es : List (V × V)) (i : Issue)
    (h : i ∈ mapEntries env km vm es) :
    ∃ k x, (k, x) ∈ es ∧
      ((∃ m c, km = some m ∧ c ∈ errs env m k ∧ i = prepend k.seg c) ∨
       (∃ m c, vm = some m ∧ c ∈ errs env m x ∧ i = prepend k.seg c)) := by
  induction es with
  | nil => simp [mapEntries] at h
  | cons e es ih =>
    obtain ⟨k, x⟩ := e
    simp only [mapEntries, List.mem_append, List.mem_map] at h
    rcases h with (⟨c, hc, rfl⟩ | ⟨c, hc, rfl⟩) | h
    · cases km with
      | none => simp [optErrs] at hc
      | some m => exact ⟨k, x, List.mem_cons_self .., Or.inl ⟨m, c, rfl, by simpa [optErrs] using hc, rfl⟩⟩
    · cases vm with
      | none => simp [optErrs] at hc
      | some m => exact ⟨k, x, List.mem_cons_self .., Or.inr ⟨m, c, rfl, by simpa [optErrs] using hc, rfl⟩⟩
    · obtain ⟨k', x', hm, hr⟩ := ih h
      exact ⟨k', x', List.mem_cons_of_mem _ hm, hr⟩

theorem setElems_mem (env : Env) (m : Mid) (xs : List V) (i : Issue) (h : i ∈ setElems env m xs) :
    ∃ x c, x ∈ xs ∧ c ∈ errs env m x ∧ i = prepend x.seg c := by
  induction xs with
  | nil => simp [setElems] at h
  | cons y ys ih =>
    simp only [setElems, List.mem_append, List.mem_map] at h
    rcases h with ⟨c, hc, rfl⟩ | h
    · exact ⟨y, c, List.mem_cons_self .., hc, rfl⟩
    · obtain ⟨x, c, hx, hc, rfl⟩ := ih h
      exact ⟨x, c, List.mem_cons_of_mem _ hx, hc, rfl⟩

theorem recordSchemaKeys_mem (cfg : Cfg) (env : Env) (m : Mid) (loose : Bool) (hp : cfg.recordKeyPath = true)
    (es : List (V × V)) (i : Issue) (h : i ∈ recordSchemaKeys cfg env m loose es) :
    loose = false ∧ ∃ k x c, (k, x) ∈ es ∧ c ∈ errs env m k ∧ i = prepend k.seg c := by
  induction es with
  | nil => simp [recordSchemaKeys] at h
  | cons e es ih =>
    obtain ⟨k, x⟩ := e
    simp only [recordSchemaKeys, List.mem_append] at h
    rcases h with h | h
    · cases loose
      · simp only [Bool.false_eq_true, ↓reduceIte, hp, List.mem_map] at h
        obtain ⟨c, hc, rfl⟩ := h
        exact ⟨rfl, k, x, c, List.mem_cons_self .., hc, rfl⟩
      · simp at h
    · obtain ⟨hl, k', x', c, hm, hc, rfl⟩ := ih h
      exact ⟨hl, k', x', c, List.mem_cons_of_mem _ hm, hc, rfl⟩

theorem recordValues_mem (cfg : Cfg) (env : Env) (ks : KeySpec) (vm : Mid) (loose : Bool)
    (hp : cfg.recordKeyPath = true) (es : List (V × V)) (is : List Issue)
    (h : recordValues cfg env ks vm loose es = some is) (i : Issue) (hi : i ∈ is) :
    ∃ k x c, (k, x) ∈ es ∧ c ∈ errs env vm x ∧ i = prepend k.seg c := by
  induction es with
  | nil => simp [recordValues] at h
  | cons e es ih =>
    obtain ⟨k, x⟩ := e
    simp only [recordValues] at h
    have lift : (∃ k' x' c, (k', x') ∈ es ∧ c ∈ errs env vm x' ∧ i = prepend k'.seg c) →
        ∃ k' x' c, (k', x') ∈ (k, x) :: es ∧ c ∈ errs env vm x' ∧ i = prepend k'.seg c := by
      rintro ⟨k', x', c, hm, hc, he⟩; exact ⟨k', x', c, List.mem_cons_of_mem _ hm, hc, he⟩
    split at h
    · exact lift (ih h)
    · cases he : env vm x with
      | ok r => simp only [he] at h; exact lift (ih h)
      | err a t =>
        simp only [he, hp, Option.some.injEq] at h
        subst h
        obtain ⟨c, hc, rfl⟩ := List.mem_map.1 hi
        exact ⟨k, x, c, List.mem_cons_self .., by simpa [errs, he] using hc, rfl⟩

theorem lookupKey_none_of_not_contains {k : Nat} {es : List (V × V)}
    (h : (es.map (fun e => keyId e.1)).contains k = false) : lookupKey k es = none := by
  induction es with
  | nil => rfl
  | cons e es ih =>
    obtain ⟨a, b⟩ := e
    simp only [List.map_cons, List.contains_cons, Bool.or_eq_false_iff, beq_eq_false_iff_ne, ne_eq] at h
    simp only [lookupKey]
    rw [if_neg (fun hh => h.1 hh.symm)]
    exact ih h.2

theorem recordEnumKeys_mem (allowed : List Nat) (p : Bool) (es : List (V × V)) (i : Issue)
    (h : i ∈ recordEnumKeys allowed p es) :
    i.path = [] ∨ (p = false ∧ ∃ k ∈ allowed, (es.map (fun e => keyId e.1)).contains k = false ∧
      i.path = [.key k] ∧ i.code = .invalidType) := by
  unfold recordEnumKeys at h
  simp only [List.mem_append] at h
  rcases h with h | h
  · split at h
    · cases h
    · simp only [List.mem_singleton] at h; subst h; exact Or.inl rfl
  · cases p
    · simp only [Bool.false_eq_true, ↓reduceIte, List.mem_map, List.mem_filter] at h
      obtain ⟨k, ⟨hk, hc⟩, rfl⟩ := h
      refine Or.inr ⟨rfl, k, hk, ?_, rfl, rfl⟩
      simpa using hc
    · simp at h

/-- why the shape loop of an object reports `i` -/
def ObjFieldWhy (env : Env) (p : Partial) (es : List (V × V)) (shape : List Field) (i : Issue) : Prop :=
  ∃ f ∈ shape,
    (lookupKey f.name es = none ∧ fieldOptional p f = false ∧ i = mk .invalidType [.key f.name]) ∨
    (∃ x, lookupKey f.name es = some x ∧ x.isNil = true ∧ f.exactOptional = true ∧ i = mk .invalidType [.key f.name]) ∨
    (∃ x c, lookupKey f.name es = some x ∧ c ∈ errs env f.m x ∧ i = prepend (.key f.name) c)

theorem objectFields_mem (env : Env) (p : Partial) (es : List (V × V)) (shape : List Field) (i : Issue)
    (h : i ∈ (objectFields env p es shape).1) : ObjFieldWhy env p es shape i := by
  induction shape with
  | nil => simp [objectFields] at h
  | cons f rest ih =>
    simp only [objectFields] at h
    revert h ih
    generalize objectFields env p es rest = rec
    obtain ⟨is, n⟩ := rec
    intro ih h
    have lift : i ∈ is → ObjFieldWhy env p es (f :: rest) i := fun hh => by
      obtain ⟨g, hg, hr⟩ := ih hh
      exact ⟨g, List.mem_cons_of_mem _ hg, hr⟩
    cases hk : lookupKey f.name es with
    | none =>
      simp only [hk, List.mem_append] at h
      rcases h with h | h
      · by_cases ho : fieldOptional p f = true
        · simp [ho] at h
        · simp only [ho, Bool.false_eq_true, ↓reduceIte, List.mem_singleton] at h
          exact ⟨f, List.mem_cons_self .., Or.inl ⟨hk, by simpa using ho, h⟩⟩
      · exact lift h
    | some x =>
      simp only [hk] at h
      by_cases hn : (x.isNil && f.exactOptional) = true
      · simp only [hn, ↓reduceIte, List.mem_cons] at h
        rcases h with h | h
        · simp only [Bool.and_eq_true] at hn
          exact ⟨f, List.mem_cons_self .., Or.inr (Or.inl ⟨x, hk, hn.1, hn.2, h⟩)⟩
        · exact lift h
      · simp only [hn, Bool.false_eq_true, ↓reduceIte] at h
        cases he : env f.m x with
        | ok r => simp only [he] at h; exact lift h
        | err a t =>
          simp only [he, List.mem_append, List.mem_map] at h
          rcases h with ⟨c, hc, rfl⟩ | h
          · exact ⟨f, List.mem_cons_self .., Or.inr (Or.inr ⟨x, c, hk, by simpa [errs, he] using hc, rfl⟩)⟩
          · exact lift h

theorem unkIssues_mem (env : Env) (shape : List Field) (mode : Mode) (c : Option Mid) (es : List (V × V))
    (i : Issue) (h : i ∈ unkIssues env shape mode c es) :
    ∃ k x cm d, (k, x) ∈ es ∧ isKnown shape k = false ∧ mode ≠ .strict ∧ c = some cm ∧ d ∈ errs env cm x ∧
      i = prepend k.seg d := by
  induction es with
  | nil => simp [unkIssues] at h
  | cons e es ih =>
    obtain ⟨k, x⟩ := e
    simp only [unkIssues, List.mem_append] at h
    rcases h with h | h
    · by_cases hk : isKnown shape k = true
      · simp [hk] at h
      · simp only [hk, Bool.false_eq_true, ↓reduceIte] at h
        cases mode <;> cases c <;> simp only [List.not_mem_nil] at h
        all_goals
          rename_i cm
          obtain ⟨d, hd, rfl⟩ := List.mem_map.1 h
          exact ⟨k, x, cm, d, List.mem_cons_self .., by simpa using hk, by simp, rfl, hd, rfl⟩
    · obtain ⟨k', x', cm, d, hm, hr⟩ := ih h
      exact ⟨k', x', cm, d, List.mem_cons_of_mem _ hm, hr⟩

theorem structFields_mem (env : Env) (fs : List (Nat × V)) (shape : List Field) (i : Issue)
    (h : i ∈ structFields env fs shape) :
    ∃ f ∈ shape,
      (lookupField f.name fs = none ∧ f.optional = false ∧ i = mk .invalidType [.key f.name]) ∨
      (∃ x c, lookupField f.name fs = some x ∧ c ∈ errs env f.m x ∧ i = prepend (.key f.name) c) := by
  induction shape with
  | nil => simp [structFields] at h
  | cons f rest ih =>
    simp only [structFields, List.mem_append] at h
    rcases h with h | h
    · cases hk : lookupField f.name fs with
      | none =>
        simp only [hk] at h
        by_cases ho : f.optional = true
        · simp [ho] at h
        · simp only [ho, Bool.false_eq_true, ↓reduceIte, List.mem_singleton] at h
          exact ⟨f, List.mem_cons_self .., Or.inl ⟨hk, by simpa using ho, h⟩⟩
      | some x =>
        simp only [hk, List.mem_map] at h
        obtain ⟨c, hc, rfl⟩ := h
        exact ⟨f, List.mem_cons_self .., Or.inr ⟨x, c, hk, hc, rfl⟩⟩
    · obtain ⟨g, hg, hr⟩ := ih h
      exact ⟨g, List.mem_cons_of_mem _ hg, hr⟩

/-! ### the law for every container, with the member asked -/

theorem engine_fromA {α : Type} (env : Env) (n : Node) (m : Mods) (ex : V → Option α) (va : α → Res) (v : V)
    (h : ∀ a, ex v = some a → ∀ i ∈ (va a).issues, FromA env n v i) :
    ∀ i ∈ (engine m ex va v).issues, FromA env n v i := by
  intro i hi
  unfold engine at hi
  split at hi
  · unfold nilPath at hi
    split at hi
    · simp only [Res.issues, List.mem_singleton] at hi; subst hi; exact .root rfl
    · split at hi
      · simp [Res.issues] at hi
      · simp only [Res.issues, List.mem_singleton] at hi; subst hi; exact .root rfl
  · cases he : ex v with
    | none => simp only [he, Res.issues, List.mem_singleton] at hi; subst hi; exact .root rfl
    | some a => simp only [he] at hi; exact h a he i hi

theorem lookupDisc_mem {dv : V} {dmap : List (Nat × Mid)} {t : Mid} (h : lookupDisc dv dmap = some t) :
    ∃ e ∈ dmap, e.2 = t := by
  unfold lookupDisc at h
  split at h
  · simp only [Option.map_eq_some_iff] at h
    obtain ⟨e, he, rfl⟩ := h
    exact ⟨e, List.mem_of_find?_eq_some he, rfl⟩
  · cases h

theorem du_issues_sel (env : Env) (m : Mods) (disc : Nat) (dmap : List (Nat × Mid)) (opts : List Mid) (v : V)
    (i : Issue) (hi : i ∈ (parseDU env m disc dmap opts v).issues) :
    i.path = [] ∨ ∃ t, (∃ e ∈ dmap, e.2 = t) ∧ i ∈ errs env t v := by
  unfold parseDU at hi
  split at hi
  · simp [Res.issues] at hi
  · split at hi
    · next es _ =>
      dsimp only at hi
      cases hk : lookupKey disc (es.getD []) with
      | none =>
        rw [hk] at hi
        simp only [Res.issues, List.mem_singleton] at hi
        left; rw [hi]; rfl
      | some dv =>
        rw [hk] at hi
        dsimp only at hi
        cases hd : lookupDisc dv dmap with
        | some t =>
          rw [hd] at hi
          dsimp only at hi
          cases he : env t (.map .str .any es) with
          | ok r => rw [he] at hi; simp [Res.issues] at hi
          | err a b =>
            rw [he] at hi
            right; exact ⟨t, lookupDisc_mem hd, by simpa [errs, he, Res.issues] using hi⟩
        | none =>
          rw [hd] at hi
          dsimp only at hi
          split at hi
          · simp [Res.issues] at hi
          · simp only [Res.issues, List.mem_singleton] at hi
            left; rw [hi]; rfl
    · simp only [Res.issues, List.mem_singleton] at hi
      left; rw [hi]; rfl

/-- **C05, per container, with the member asked** (every env; the code of /repo HEAD: slice and record paths prefixed):
    every issue a composite reports is a container-level issue at its root; the wrapper of an element the asked member
    rejects (array); a missing / explicitly-nil own key; or an issue of THE member asked at a segment (about the part of
    the input there), of THE key schema asked about a key, or of a member asked about the input itself — with that
    location in front and the member's code kept. -/
theorem c05_from_asked (cfg : Cfg) (env : Env) (n : Node) (v : V)
    (hs : cfg.slicePrepend = true) (hr : cfg.recordKeyPath = true) :
    ∀ i ∈ (run cfg env n v).issues, FromA env n v i := by
  cases n with
  | slice m t e cs =>
    apply engine_fromA; intro xs hx i hi
    simp only [validateSlice, ofIssues_issues, List.mem_append] at hi
    rcases hi with hi | hi
    · exact .root (sizeIssues_path hi)
    · obtain ⟨j, x, c, hj, hc, rfl⟩ := sliceElems_mem cfg env e hs 0 xs i hi
      exact .child (.idx j) e x c ⟨xs, j, hx, hj, rfl, rfl⟩ hc (by simp [prepend]) rfl
  | array m items rest cs =>
    apply engine_fromA; intro xs hx i hi
    unfold validateArray at hi
    split at hi
    · next a b hsz => exact .root (sizeIssues_path (hsz ▸ hi))
    · repeat' split at hi
      all_goals first
        | (simp only [Res.issues, List.mem_singleton] at hi; subst hi; exact .root rfl)
        | (rw [ofIssues_issues] at hi
           obtain ⟨j, x, mm, hj, hm, hc, hp⟩ := arrayElems_mem env 0 items rest xs i hi
           exact .elem (.idx j) mm x ⟨xs, j, hx, hj, rfl, hm⟩ hc (by simpa using hp))
  | tuple m items req rest cs =>
    apply engine_fromA; intro xs hx i hi
    unfold validateTuple at hi
    repeat' split at hi
    all_goals first
      | (simp only [Res.issues, List.mem_singleton] at hi; subst hi; exact .root rfl)
      | (rw [ofIssues_issues] at hi; exact .root (sizeIssues_path hi))
      | skip
    next a b ht =>
      obtain ⟨j, x, mm, c, hj, hm, hc, rfl⟩ := tupleElems_mem env 0 items rest xs i (ht ▸ hi)
      exact .child (.idx j) mm x c ⟨xs, j, hx, hj, rfl, hm⟩ hc (by simp [prepend]) rfl
  | map m km vm cs =>
    apply engine_fromA; intro es hx i hi
    unfold validateMap at hi
    split at hi
    · next a b hsz => exact .root (sizeIssues_path (hsz ▸ hi))
    · rw [ofIssues_issues] at hi
      obtain ⟨k, x, hm, h | h⟩ := mapEntries_mem env km vm es i hi
      · obtain ⟨mm, c, hk, hc, rfl⟩ := h
        exact .keyed k mm c ⟨es, x, hx, hm, hk⟩ hc rfl rfl
      · obtain ⟨mm, c, hk, hc, rfl⟩ := h
        exact .child k.seg mm x c ⟨es, k, hx, hm, rfl, hk⟩ hc rfl rfl
  | record m ks vm loose part cs =>
    apply engine_fromA; intro es hx i hi
    have hvals : ∀ is, recordValues cfg env ks vm loose es = some is → i ∈ is →
        FromA env (.record m ks vm loose part cs) v i := by
      intro is h hi
      obtain ⟨k, x, c, hm, hc, rfl⟩ := recordValues_mem cfg env ks vm loose hr es is h i hi
      exact .child k.seg vm x c ⟨es, k, hx, hm, rfl, rfl⟩ hc rfl rfl
    cases ks with
    | none =>
      simp only [validateRecord] at hi
      split at hi
      · next a b hsz => exact .root (sizeIssues_path (hsz ▸ hi))
      · split at hi
        · next is h => exact hvals is h hi
        · simp [ofIssues, Res.issues] at hi
    | enum al km =>
      simp only [validateRecord] at hi
      split at hi
      · next a b hsz => exact .root (sizeIssues_path (hsz ▸ hi))
      · split at hi
        · next is h => exact hvals is h hi
        · rw [ofIssues_issues] at hi
          rcases recordEnumKeys_mem al part es i hi with h | ⟨hp, k, hk, hc, hpath, hcode⟩
          · exact .root h
          · exact .own (.key k) ⟨es, hx, k, hk, rfl, hp, hc⟩ hpath hcode
    | schema km =>
      simp only [validateRecord] at hi
      split at hi
      · next a b hsz => exact .root (sizeIssues_path (hsz ▸ hi))
      · split at hi
        · next is h => exact hvals is h hi
        · rw [ofIssues_issues] at hi
          obtain ⟨hl, k, x, c, hm, hc, rfl⟩ := recordSchemaKeys_mem cfg env km loose hr es i hi
          exact .keyed k km c ⟨es, x, hx, hm, rfl, hl⟩ hc rfl rfl
  | set m t e cs =>
    apply engine_fromA; intro xs hx i hi
    unfold validateSet at hi
    split at hi
    · next a b hsz => exact .root (sizeIssues_path (hsz ▸ hi))
    · rw [ofIssues_issues] at hi
      obtain ⟨x, c, hm, hc, rfl⟩ := setElems_mem env e xs i hi
      exact .keyed x e c ⟨xs, hx, hm, rfl⟩ hc rfl rfl
  | object m shape mode c p cs =>
    apply engine_fromA; intro es hx i hi
    unfold validateObject at hi
    have hF := objectFields_mem env p es shape i
    have hU := objectUnknown_fst env shape mode c es
    revert hi hF hU
    generalize objectFields env p es shape = rf
    generalize objectUnknown env shape mode c es = ru
    obtain ⟨fi, fn⟩ := rf
    obtain ⟨ui, un, unN⟩ := ru
    intro hi hF hU
    simp only at hU
    simp only [ofIssues_issues, List.mem_append] at hi
    rcases hi with ((hi | hi) | hi) | hi
    · obtain ⟨f, hf, h | h | h⟩ := hF hi
      · obtain ⟨hk, ho, rfl⟩ := h
        exact .own (.key f.name) ⟨es, hx, f, hf, rfl, Or.inl ⟨hk, ho⟩⟩ rfl rfl
      · obtain ⟨x, hk, hn, he, rfl⟩ := h
        exact .own (.key f.name) ⟨es, hx, f, hf, rfl, Or.inr ⟨x, hk, hn, he⟩⟩ rfl rfl
      · obtain ⟨x, d, hk, hd, rfl⟩ := h
        exact .child (.key f.name) f.m x d ⟨es, hx, Or.inl ⟨f, hf, hk, rfl, rfl⟩⟩ hd rfl rfl
    · rw [hU] at hi
      obtain ⟨k, x, cm, d, hm, hk, hmode, hc, hd, rfl⟩ := unkIssues_mem env shape mode c es i hi
      exact .child k.seg cm x d ⟨es, hx, Or.inr ⟨k, hm, hk, hmode, hc, rfl⟩⟩ hd rfl rfl
    · split at hi
      · cases hi
      · simp only [List.mem_singleton] at hi; subst hi; exact .root rfl
    · exact .root (sizeIssues_path hi)
  | struct m ptrC sid shape =>
    apply engine_fromA; intro fs hx i hi
    simp only [validateStruct, ofIssues_issues] at hi
    obtain ⟨f, hf, h | h⟩ := structFields_mem env fs shape i hi
    · obtain ⟨hk, ho, rfl⟩ := h
      exact .own (.key f.name) ⟨fs, hx, f, hf, rfl, hk, ho⟩ rfl rfl
    · obtain ⟨x, d, hk, hd, rfl⟩ := h
      exact .child (.key f.name) f.m x d ⟨fs, hx, f, hf, hk, rfl, rfl⟩ hd rfl rfl
  | union m opts =>
    simp only [run]
    apply engine_fromA; intro a _ i hi
    unfold validateUnion at hi
    repeat' split at hi
    all_goals first
      | (simp [Res.issues] at hi; done)
      | (simp only [Res.issues, List.mem_singleton] at hi; subst hi; exact .root rfl)
  | xor m opts =>
    simp only [run]
    apply engine_fromA; intro a _ i hi
    unfold validateXor at hi
    repeat' split at hi
    all_goals first
      | (simp [Res.issues] at hi; done)
      | (simp only [Res.issues, List.mem_singleton] at hi; subst hi; exact .root rfl)
  | inter m l r =>
    simp only [run]
    apply engine_fromA; intro a ha i hi
    cases ha
    unfold validateInter at hi
    split at hi
    · next x y hm =>
      have hi' : i ∈ mergeUnrec cfg (mresIssues (env l v)) (mresIssues (env r v)) := hm ▸ hi
      rw [mresIssues_eq, mresIssues_eq] at hi'
      unfold mergeUnrec at hi'
      simp only [List.mem_append, List.mem_filter] at hi'
      rcases hi' with (⟨h1, _⟩ | ⟨h1, _⟩) | h1
      · exact .same l i (Or.inl rfl) h1 rfl rfl
      · exact .same r i (Or.inr rfl) h1 rfl rfl
      · split at h1
        · cases h1
        · simp only [List.mem_singleton] at h1; subst h1; exact .root rfl
    · split at hi
      · simp [Res.issues] at hi
      · simp only [Res.issues, List.mem_singleton] at hi; subst hi; exact .root rfl
  | du m disc dmap opts =>
    intro i hi
    rcases du_issues_sel env m disc dmap opts v i hi with h | ⟨t, ht, h⟩
    · exact .root h
    · exact .same t i ht h rfl rfl
  | lazy m direct t =>
    intro i hi
    rcases lazy_issues cfg env m direct t v i hi with h | h
    · exact .root h
    · exact .same t i rfl h rfl rfl

/-! ### what is asked sits in the input -/

theorem asked_child {n : Node} {v : V} {s : Seg} {m : Mid} {x : V} (h : Asked n v s m x) : Child v s x := by
  cases n <;> simp only [Asked] at h
  case slice =>
    obtain ⟨xs, j, hx, hj, rfl, _⟩ := h; exact seqOf_slice hx j x hj
  case array =>
    obtain ⟨xs, j, hx, hj, rfl, _⟩ := h; exact seqOf_array hx j x hj
  case tuple =>
    obtain ⟨xs, j, hx, hj, rfl, _⟩ := h; exact seqOf_tuple hx j x hj
  case map =>
    obtain ⟨es, k, hx, hm, rfl, _⟩ := h; exact entriesOf_map hx (k, x) hm
  case record =>
    obtain ⟨es, k, hx, hm, rfl, _⟩ := h; exact entriesOf_record hx (k, x) hm
  case object =>
    obtain ⟨es, hx, h | h⟩ := h
    · obtain ⟨f, _, hk, rfl, _⟩ := h; exact (objOf_object hx).2 _ _ hk
    · obtain ⟨k, hm, _, _, _, rfl⟩ := h; exact (objOf_object hx).1 (k, x) hm
  case struct =>
    obtain ⟨fs, hx, f, _, hk, rfl, _⟩ := h; exact fieldsOf_struct hx _ _ (lookupField_mem hk)

/-- the exclusion of the resolution theorems: a Set schema is given a map (`map[T]struct{}`), not a slice
    (witness `c05_set_on_slice_false`: the elements of a slice are filed under their VALUE, which is no location of a slice). -/
def SetOnMap (n : Node) (v : V) : Prop :=
  match n with
  | .set .. => ∀ e ys, v ≠ .slice e ys
  | _ => True

theorem askedKey_child {n : Node} {v : V} {k : V} {m : Mid} (hset : SetOnMap n v) (h : AskedKey n v k m) :
    ∃ u, Child v k.seg u := by
  cases n <;> simp only [AskedKey] at h
  case map =>
    obtain ⟨es, x, hx, hm, _⟩ := h; exact ⟨x, entriesOf_map hx (k, x) hm⟩
  case record =>
    obtain ⟨es, x, hx, hm, _⟩ := h; exact ⟨x, entriesOf_record hx (k, x) hm⟩
  case set =>
    obtain ⟨xs, hx, hm, _⟩ := h; exact keysOf_set hx hset k hm

/-- a map or a struct, possibly behind one pointer: the values that HAVE keys. -/
def hasKeys : V → Bool
  | .map .. => true
  | .strct .. => true
  | .ptr _ (some (.map ..)) => true
  | .ptr _ (some (.strct ..)) => true
  | _ => false

/-- `w` is a keyed container that lacks the key `k`. -/
def NoKey (w : V) (k : Nat) : Prop := hasKeys w = true ∧ step w (.key k) = none

theorem noKey_object {v : V} {es : List (V × V)} {k : Nat} (hx : extractObject v = some es)
    (hk : lookupKey k es = none) : NoKey v k := by
  unfold extractObject at hx
  split at hx
  · cases hx; exact ⟨rfl, by simpa [step] using hk⟩
  · cases hx; exact ⟨rfl, by simpa [step] using hk⟩
  · cases hx; exact ⟨rfl, by simp [step]⟩
  · cases hx

theorem noKey_record {v : V} {es : List (V × V)} {k : Nat} (hx : extractRecord v = some es)
    (hk : lookupKey k es = none) : NoKey v k := by
  unfold extractRecord at hx
  split at hx
  · split at hx
    · cases hx; exact ⟨rfl, by simpa [step] using hk⟩
    · cases hx
  · cases hx; exact ⟨rfl, by simpa [step] using hk⟩
  · cases hx; exact ⟨rfl, by simp [step]⟩
  · cases hx

theorem noKey_struct {sid : Nat} {v : V} {fs : List (Nat × V)} {k : Nat} (hx : extractStruct sid v = some fs)
    (hk : lookupField k fs = none) : NoKey v k := by
  unfold extractStruct at hx
  split at hx
  · split at hx
    · cases hx; exact ⟨rfl, by simpa [step] using hk⟩
    · cases hx
  · split at hx
    · cases hx; exact ⟨rfl, by simpa [step] using hk⟩
    · cases hx
  · cases hx

/-- an own-key fault is at a value the input has, or at a key the input LACKS. -/
theorem ownFault_where {n : Node} {v : V} {s : Seg} (h : OwnFault n v s) :
    (∃ x, Child v s x) ∨ ∃ k, s = .key k ∧ NoKey v k := by
  cases n <;> try (simp only [OwnFault] at h; done)
  case object m shape mode c p cs =>
    simp only [OwnFault] at h
    obtain ⟨es, hx, f, _, rfl, h | ⟨x, hk, _, _⟩⟩ := h
    · exact Or.inr ⟨f.name, rfl, noKey_object hx h.1⟩
    · exact Or.inl ⟨x, (objOf_object hx).2 _ _ hk⟩
  case struct m pc sid shape =>
    simp only [OwnFault] at h
    obtain ⟨fs, hx, f, _, rfl, hk, _⟩ := h
    exact Or.inr ⟨f.name, rfl, noKey_struct hx hk⟩
  case record m ks vm loose part cs =>
    cases ks <;> simp only [OwnFault] at h
    obtain ⟨es, hx, k, _, rfl, _, hc⟩ := h
    exact Or.inr ⟨k, rfl, noKey_record hx (lookupKey_none_of_not_contains hc)⟩

/-! ### resolution, with the issue kind in the statement (audit M2) -/

/-- the issue's path reaches a value of the input — or, for a MISSING-KEY issue only (`invalid_type` whose last
    segment is a key), reaches a keyed container that lacks that key. -/
def RoPk (v : V) (i : Issue) : Prop :=
  (∃ w, Reach v i.path w) ∨
  (i.code = .invalidType ∧ ∃ q k w, i.path = q ++ [.key k] ∧ Reach v q w ∧ NoKey w k)

theorem ropk_root {v : V} {i : Issue} (h : i.path = []) : RoPk v i := Or.inl ⟨v, h ▸ .here v⟩

theorem ropk_cons {v x : V} {s : Seg} {c i : Issue} (hc : Child v s x) (h : RoPk x c)
    (hp : i.path = s :: c.path) (hcode : i.code = c.code) : RoPk v i := by
  rcases h with ⟨w, hw⟩ | ⟨hk, q, k, w, hq, hw, hn⟩
  · exact Or.inl ⟨w, hp ▸ .step hc hw⟩
  · exact Or.inr ⟨hcode ▸ hk, s :: q, k, w, by rw [hp, hq]; rfl, .step hc hw, hn⟩

theorem reach_atom {t : Ty} {a : Nat} {p : List Seg} {w : V} (h : Reach (.atom t a) p w) : p = [] := by
  cases h with
  | here => rfl
  | step hc _ => rcases hc with hc | hc <;> simp [ChildD] at hc

/-- a schema asked about an atom can only report at the atom itself. -/
theorem ropk_atom {t : Ty} {a : Nat} {c : Issue} (h : RoPk (.atom t a) c) : c.path = [] := by
  rcases h with ⟨w, hw⟩ | ⟨_, q, k, w, hq, hw, hn⟩
  · exact reach_atom hw
  · have := reach_atom hw; subst this
    cases hw
    simp [NoKey, hasKeys] at hn

/-- **C05, resolution, one level, hypotheses about the members ASKED only.** -/
theorem c05_resolves_level (cfg : Cfg) (env : Env) (n : Node) (v : V)
    (hs : cfg.slicePrepend = true) (hr : cfg.recordKeyPath = true)
    (hset : SetOnMap n v)
    (hatom : ∀ k m, AskedKey n v k m → ∃ t a, k = .atom t a)
    (hm : ∀ s m x c, Asked n v s m x → c ∈ errs env m x → RoPk x c)
    (hk : ∀ k m c, AskedKey n v k m → c ∈ errs env m k → RoPk k c)
    (hsame : ∀ m c, AskedSame n v m → c ∈ errs env m v → RoPk v c) :
    ∀ i ∈ (run cfg env n v).issues, RoPk v i := by
  intro i hi
  cases c05_from_asked cfg env n v hs hr i hi with
  | root h => exact ropk_root h
  | elem s m x ha _ hp => exact Or.inl ⟨x, hp ▸ .step (asked_child ha) (.here x)⟩
  | own s ho hp hcode =>
    rcases ownFault_where ho with ⟨x, hx⟩ | ⟨k, rfl, hn⟩
    · exact Or.inl ⟨x, hp ▸ .step hx (.here x)⟩
    · exact Or.inr ⟨hcode, [], k, v, hp, .here v, hn⟩
  | child s m x c ha hc hp hcode => exact ropk_cons (asked_child ha) (hm s m x c ha hc) hp hcode
  | keyed k m c ha hc hp _ =>
    obtain ⟨t, a, rfl⟩ := hatom k m ha
    have hnil := ropk_atom (hk _ m c ha hc)
    obtain ⟨u, hu⟩ := askedKey_child hset ha
    rw [hnil] at hp
    exact Or.inl ⟨u, hp ▸ .step hu (.here u)⟩
  | same m c ha hc hp hcode =>
    rcases hsame m c ha hc with ⟨w, hw⟩ | ⟨hk', q, k, w, hq, hw, hn⟩
    · exact Or.inl ⟨w, hp ▸ hw⟩
    · exact Or.inr ⟨hcode ▸ hk', q, k, w, hp ▸ hq, hw, hn⟩

/-! ### any nesting depth: induction over the fuel of the recursive `Cont.parseF` (audit M1) -/

section nested
variable (cfg : Cfg) (defs : Mid → Def) (env : Env) (resv : Mid → V → V)

theorem errs_parseF_zero (id : Mid) (v : V) : errs (parseF cfg defs env resv 0) id v = errs env id v := rfl

theorem errs_parseF_leaf (k : Nat) (id : Mid) (v : V) (h : defs id = .leaf) :
    errs (parseF cfg defs env resv (k + 1)) id v = errs env id v := by
  have e : parseF cfg defs env resv (k + 1) id v =
      (match defs id with
       | .leaf => env id v
       | .node nd =>
         match run cfg (parseF cfg defs env resv k) nd v with
         | .ok => .ok (resv id v)
         | .err [] => .ok (resv id v)
         | .err (i :: is) => .err i is) := rfl
  unfold errs; rw [e, h]

theorem errs_parseF_node (k : Nat) (id : Mid) (v : V) (nd : Node) (h : defs id = .node nd) :
    errs (parseF cfg defs env resv (k + 1)) id v = (run cfg (parseF cfg defs env resv k) nd v).issues := by
  have e : parseF cfg defs env resv (k + 1) id v =
      (match defs id with
       | .leaf => env id v
       | .node nd =>
         match run cfg (parseF cfg defs env resv k) nd v with
         | .ok => .ok (resv id v)
         | .err [] => .ok (resv id v)
         | .err (i :: is) => .err i is) := rfl
  unfold errs; rw [e, h]
  cases hrun : run cfg (parseF cfg defs env resv k) nd v with
  | ok => simp only [hrun, Res.issues]
  | err is => cases is <;> simp only [hrun, Res.issues]

/-- the side conditions of resolution along everything the nested parse visits: no Set schema is asked about a slice,
    the keys a key schema is asked about are atoms (Go map keys of the generated inputs: strings, ints). -/
def VisitOK : Nat → Mid → V → Prop
  | 0, _, _ => True
  | k + 1, id, v =>
    match defs id with
    | .leaf => True
    | .node nd =>
      SetOnMap nd v ∧
      (∀ kk m, AskedKey nd v kk m → (∃ t a, kk = .atom t a) ∧ VisitOK k m kk) ∧
      (∀ s m x, Asked nd v s m x → VisitOK k m x) ∧
      (∀ m, AskedSame nd v m → VisitOK k m v)

/-- **C05, resolution at ANY nesting depth** (induction over the fuel of `parseF`): if the LEAVES report paths that
    resolve in what they were asked about, every issue of the nested parse of schema `id` on `v` carries a path that
    reaches a value of `v` — or, for a missing-key issue only, a keyed container of `v` that lacks the key. -/
theorem c05_resolves_nested (hs : cfg.slicePrepend = true) (hr : cfg.recordKeyPath = true)
    (hleaf : ∀ m x c, c ∈ errs env m x → RoPk x c) :
    ∀ (k : Nat) (id : Mid) (v : V), VisitOK defs k id v →
      ∀ c ∈ errs (parseF cfg defs env resv k) id v, RoPk v c := by
  intro k
  induction k with
  | zero => intro id v _ c hc; exact hleaf id v c hc
  | succ k ih =>
    intro id v hv c hc
    cases hd : defs id with
    | leaf => rw [errs_parseF_leaf cfg defs env resv k id v hd] at hc; exact hleaf id v c hc
    | node nd =>
      rw [errs_parseF_node cfg defs env resv k id v nd hd] at hc
      simp only [VisitOK, hd] at hv
      obtain ⟨h1, h2, h3, h4⟩ := hv
      exact c05_resolves_level cfg (parseF cfg defs env resv k) nd v hs hr h1
        (fun kk m ha => (h2 kk m ha).1)
        (fun s m x c' ha hc' => ih m x (h3 s m x ha) c' hc')
        (fun kk m c' ha hc' => ih m kk (h2 kk m ha).2 c' hc')
        (fun m c' ha hc' => ih m v (h4 m ha) c' hc')
        c hc

/-! ### one fault, at a location of any depth (audit H3) -/

/-- "nothing but the location `L` is at fault" in the nested parse of `id` on `v`: at every container on the way, every
    member asked at ANOTHER segment accepts what it is asked (only THE member asked there, about the part there), no
    other own key is missing or explicitly nil, and the member asked at the next segment of `L` satisfies the same
    below.  `At` is what is known at the location itself. -/
def OffFault (At : Nat → Mid → V → Prop) : Nat → Mid → V → List Seg → Prop
  | 0, id, v, L =>
    (match L with
     | [] => At 0 id v
     | _ :: _ => True)
  | k + 1, id, v, L =>
    (match L with
     | [] => At (k + 1) id v
     | s₀ :: L' =>
       match defs id with
       | .leaf => True
       | .node nd =>
         (∀ s m x, Asked nd v s m x → s ≠ s₀ → errs (parseF cfg defs env resv k) m x = []) ∧
         (∀ kk m, AskedKey nd v kk m → kk.seg ≠ s₀ → errs (parseF cfg defs env resv k) m kk = []) ∧
         (∀ s, OwnFault nd v s → s = s₀) ∧
         (∀ m x, Asked nd v s₀ m x → OffFault At k m x L') ∧
         (∀ kk m, AskedKey nd v kk m → kk.seg = s₀ → OffFault At k m kk L') ∧
         (∀ m, AskedSame nd v m → OffFault At k m v (s₀ :: L')))

/-- the path is the location, a prefix of it, or the location followed by a path reported AT the location. -/
def Near (At : Nat → Mid → V → Prop) (L p : List Seg) : Prop :=
  p <+: L ∨ ∃ k id x c, At k id x ∧ c ∈ errs (parseF cfg defs env resv k) id x ∧ p = L ++ c.path

theorem near_cons {At : Nat → Mid → V → Prop} {L p : List Seg} (s : Seg) (h : Near cfg defs env resv At L p) :
    Near cfg defs env resv At (s :: L) (s :: p) := by
  rcases h with h | ⟨k, id, x, c, ha, hc, rfl⟩
  · exact Or.inl (List.prefix_cons_inj s |>.2 h)
  · exact Or.inr ⟨k, id, x, c, ha, hc, rfl⟩

/-- **C05, one fault at a location of any depth** (induction over the fuel of `parseF`; leaves = schemas that report at
    their own root, i.e. primitives): every path reported is the location `L` or a prefix of it, or `L` followed by
    a path the schema asked AT `L` reports about the value there. -/
theorem c05_fault_nested (At : Nat → Mid → V → Prop) (hs : cfg.slicePrepend = true) (hr : cfg.recordKeyPath = true)
    (hleaf : ∀ m x c, c ∈ errs env m x → c.path = []) :
    ∀ (k : Nat) (id : Mid) (v : V) (L : List Seg), OffFault cfg defs env resv At k id v L →
      ∀ i ∈ errs (parseF cfg defs env resv k) id v, Near cfg defs env resv At L i.path := by
  intro k
  induction k with
  | zero =>
    intro id v L h i hi
    cases L with
    | nil => exact Or.inr ⟨0, id, v, i, h, hi, rfl⟩
    | cons s L => exact Or.inl (by rw [hleaf id v i hi]; exact List.nil_prefix)
  | succ k ih =>
    intro id v L h i hi
    cases L with
    | nil => exact Or.inr ⟨k + 1, id, v, i, h, hi, rfl⟩
    | cons s₀ L' =>
      cases hd : defs id with
      | leaf =>
        rw [errs_parseF_leaf cfg defs env resv k id v hd] at hi
        exact Or.inl (by rw [hleaf id v i hi]; exact List.nil_prefix)
      | node nd =>
        rw [errs_parseF_node cfg defs env resv k id v nd hd] at hi
        simp only [OffFault, hd] at h
        obtain ⟨h1, h2, h3, h4, h5, h6⟩ := h
        have one : ([s₀] : List Seg) <+: s₀ :: L' := ⟨L', rfl⟩
        cases c05_from_asked cfg (parseF cfg defs env resv k) nd v hs hr i hi with
        | root hp => exact Or.inl (by rw [hp]; exact List.nil_prefix)
        | elem s m x ha hne hp =>
          by_cases hss : s = s₀
          · subst hss; exact Or.inl (by rw [hp]; exact one)
          · exact absurd (h1 s m x ha hss) hne
        | own s ho hp _ =>
          have := h3 s ho; subst this
          exact Or.inl (by rw [hp]; exact one)
        | child s m x c ha hc hp _ =>
          by_cases hss : s = s₀
          · subst hss
            rw [hp]; exact near_cons cfg defs env resv s (ih m x L' (h4 m x ha) c hc)
          · rw [h1 s m x ha hss] at hc; cases hc
        | keyed kk m c ha hc hp _ =>
          by_cases hss : kk.seg = s₀
          · rw [hp, hss]; exact near_cons cfg defs env resv s₀ (ih m kk L' (h5 kk m ha hss) c hc)
          · rw [h2 kk m ha hss] at hc; cases hc
        | same m c ha hc hp _ =>
          rw [hp]; exact ih m v (s₀ :: L') (h6 m ha) c hc

/-- what is known at the fault in the clause's reading: the schema asked at the location rejects the value planted
    there AS A WHOLE (every issue it reports is at its own root). -/
def RootOnly : Nat → Mid → V → Prop :=
  fun k id x => ∀ c ∈ errs (parseF cfg defs env resv k) id x, c.path = []

/-- **C05, single fault** (the clause): a nested input in which only the location `L` — a full path of any depth — is
    at fault, the value there being rejected as a whole by the schema asked there: EVERY reported path is `L` or a
    prefix of `L`. -/
theorem c05_single_fault_nested (hs : cfg.slicePrepend = true) (hr : cfg.recordKeyPath = true)
    (hleaf : ∀ m x c, c ∈ errs env m x → c.path = [])
    (k : Nat) (id : Mid) (v : V) (L : List Seg)
    (h : OffFault cfg defs env resv (RootOnly cfg defs env resv) k id v L) :
    ∀ i ∈ errs (parseF cfg defs env resv k) id v, i.path <+: L := by
  intro i hi
  rcases c05_fault_nested cfg defs env resv _ hs hr hleaf k id v L h i hi with h | ⟨k', id', x, c, ha, hc, hp⟩
  · exact h
  · rw [hp, ha c hc, List.append_nil]; exact List.prefix_refl L

end nested

/-! ### the hypotheses are inhabited: a HETEROGENEOUS object `{a: String(), b: Int()}` and a corrupted input -/

/-- leaves: schema 1 = a string schema, schema 2 = an int schema, both reporting `invalid_type` at their own root. -/
def exEnv : Env := fun m x =>
  match m, x with
  | 1, .atom .str _ => .ok x
  | 2, .atom .int _ => .ok x
  | _, _ => .err (mk .invalidType []) []

/-- schema 0 = `Object{a: String(), b: Int()}` (field names interned: a = 1, b = 2); schema 5 = `Object{p: <schema 0>}` (p = 3). -/
def exDefs : Mid → Def := fun id =>
  if id = 0 then .node (.object {} [{ name := 1, m := 1 }, { name := 2, m := 2 }] .strip none {} [])
  else if id = 5 then .node (.object {} [{ name := 3, m := 0 }] .strip none {} [])
  else .leaf

/-- `{a: "x", b: "oops"}`: the valid `{a: "x", b: 7}` corrupted at `b`. -/
def exInput : V := .map .str .any (some [(.atom .str 1, .atom .str 10), (.atom .str 2, .atom .str 11)])

theorem exEnv_root (m : Mid) (x : V) (c : Issue) (hc : c ∈ errs exEnv m x) : c.path = [] := by
  have h : exEnv m x = .ok x ∨ exEnv m x = .err (mk .invalidType []) [] := by
    unfold exEnv; split <;> simp
  unfold errs at hc
  rcases h with h | h <;> rw [h] at hc
  · cases hc
  · simp only [List.mem_singleton] at hc; subst hc; rfl

theorem exOff : OffFault {} exDefs exEnv (fun _ v => v) (RootOnly {} exDefs exEnv (fun _ v => v)) 1 0 exInput [.key 2] := by
  simp only [OffFault, exDefs, ↓reduceIte]
  refine ⟨?_, ?_, ?_, ?_, ?_, ?_⟩
  · intro s m x ha hs
    simp only [Asked, exInput, extractObject] at ha
    obtain ⟨es, he, h | h⟩ := ha
    · cases he
      obtain ⟨f, hf, hk, rfl, rfl⟩ := h
      simp only [List.mem_cons, List.not_mem_nil, or_false] at hf
      rcases hf with rfl | rfl
      · simp [lookupKey, keyId] at hk; subst hk; rfl
      · exact absurd rfl hs
    · obtain ⟨k, _, _, _, hn, _⟩ := h; cases hn
  · intro kk m h; simp [AskedKey] at h
  · intro s h
    simp only [OwnFault, exInput, extractObject] at h
    obtain ⟨es, he, f, hf, rfl, h⟩ := h
    cases he
    simp only [List.mem_cons, List.not_mem_nil, or_false] at hf
    rcases hf with rfl | rfl
    · simp [lookupKey, keyId, V.isNil] at h
    · rfl
  · intro m x ha
    simp only [Asked, exInput, extractObject] at ha
    obtain ⟨es, he, h | h⟩ := ha
    · cases he
      obtain ⟨f, hf, hk, hs, rfl⟩ := h
      simp only [List.mem_cons, List.not_mem_nil, or_false] at hf
      rcases hf with rfl | rfl
      · simp at hs
      · simp [lookupKey, keyId] at hk; subst hk
        intro c hc
        simp [errs, parseF, exEnv, mk] at hc; subst hc; rfl
    · obtain ⟨k, _, _, _, hn, _⟩ := h; cases hn
  · intro kk m h; simp [AskedKey] at h
  · intro m h; simp [AskedSame] at h

/-- … and the theorem applied to it: the only path reported is the location `[b]` (the reported paths, computed: `[[b]]`). -/
example : ∀ i ∈ errs (parseF {} exDefs exEnv (fun _ v => v) 1) 0 exInput, i.path <+: [.key 2] :=
  c05_single_fault_nested {} exDefs exEnv (fun _ v => v) rfl rfl
    exEnv_root 1 0 exInput [.key 2] exOff

example : (errs (parseF {} exDefs exEnv (fun _ v => v) 1) 0 exInput).map (·.path) = [[.key 2]] := by decide


/-- two levels: `{p: {a: "x", b: "oops"}}` under `Object{p: Object{a: String(), b: Int()}}`, the fault at `[p, b]`. -/
def exInput2 : V := .map .str .any (some [(.atom .str 3, exInput)])

theorem exOff2 : OffFault {} exDefs exEnv (fun _ v => v) (RootOnly {} exDefs exEnv (fun _ v => v)) 2 5 exInput2
    [.key 3, .key 2] := by
  have h5 : exDefs 5 = .node (.object {} [{ name := 3, m := 0 }] .strip none {} []) := rfl
  simp only [OffFault, h5]
  refine ⟨?_, ?_, ?_, ?_, ?_, ?_⟩
  · intro s m x ha hs
    simp only [Asked, exInput2, extractObject] at ha
    obtain ⟨es, he, h | h⟩ := ha
    · cases he
      obtain ⟨f, hf, hk, rfl, rfl⟩ := h
      simp only [List.mem_cons, List.not_mem_nil, or_false] at hf
      subst hf
      exact absurd rfl hs
    · obtain ⟨k, _, _, _, hn, _⟩ := h; cases hn
  · intro kk m h; simp [AskedKey] at h
  · intro s h
    simp only [OwnFault, exInput2, extractObject] at h
    obtain ⟨es, he, f, hf, rfl, h⟩ := h
    cases he
    simp only [List.mem_cons, List.not_mem_nil, or_false] at hf
    subst hf
    rfl
  · intro m x ha
    simp only [Asked, exInput2, extractObject] at ha
    obtain ⟨es, he, h | h⟩ := ha
    · cases he
      obtain ⟨f, hf, hk, _, rfl⟩ := h
      simp only [List.mem_cons, List.not_mem_nil, or_false] at hf
      subst hf
      simp [lookupKey, keyId] at hk; subst hk
      exact exOff
    · obtain ⟨k, _, _, _, hn, _⟩ := h; cases hn
  · intro kk m h; simp [AskedKey] at h
  · intro m h; simp [AskedSame] at h

example : ∀ i ∈ errs (parseF {} exDefs exEnv (fun _ v => v) 2) 5 exInput2, i.path <+: [.key 3, .key 2] :=
  c05_single_fault_nested {} exDefs exEnv (fun _ v => v) rfl rfl exEnv_root 2 5 exInput2 [.key 3, .key 2] exOff2

example : (errs (parseF {} exDefs exEnv (fun _ v => v) 2) 5 exInput2).map (·.path) = [[.key 3, .key 2]] := by decide

/-- resolution on the same case: the side conditions hold, the reported path `[b]` reaches the planted value. -/
example : ∀ c ∈ errs (parseF {} exDefs exEnv (fun _ v => v) 1) 0 exInput, RoPk exInput c :=
  c05_resolves_nested {} exDefs exEnv (fun _ v => v) rfl rfl
    (fun m x c hc => ropk_root (exEnv_root m x c hc)) 1 0 exInput
    (by simp only [VisitOK, exDefs, ↓reduceIte]
        exact ⟨trivial, fun kk m h => by simp [AskedKey] at h, fun _ _ _ _ => trivial, fun m h => by simp [AskedSame] at h⟩)

/-- **witness for the exclusion `SetOnMap`**: `Set[string](String().Min(3)).Parse([]string{"ab"})` — a Set given a SLICE —
    files the element's issue under the element's VALUE (`["ab"]`), which is no location of the slice (its locations are
    indices): the path does not resolve, and the issue is no missing-key issue. -/
theorem c05_set_on_slice_false :
    let r := run {} (fun _ _ => .err (mk .tooSmall []) []) (.set {} .str 0 []) (.slice .str (some [.atom .str 5]))
    r.issues.map (fun i => (i.path, i.code)) = [([.key 5], .tooSmall)]
      ∧ resolve (.slice .str (some [.atom .str 5])) [.key 5] = none := by decide

/-- the missing-key escape is real and restricted: `Object{a: String()}.Parse({})` reports `invalid_type` at `[a]`, a key
    the input lacks (`NoKey`); the same path on an issue of any other code would not satisfy `RoPk`. -/
example : RoPk (.map .str .any (some [])) (mk .invalidType [.key 1]) :=
  Or.inr ⟨rfl, [], 1, _, rfl, .here _, rfl, rfl⟩

example : ¬ RoPk (.map .str .any (some [])) (mk .tooSmall [.key 1]) := by
  rintro (⟨w, hw⟩ | ⟨hc, _⟩)
  · cases hw with
    | step hc _ => rcases hc with hc | hc <;> simp [ChildD] at hc
  · cases hc

/-! ### completeness for map and set (audit M3): ALL issues of an asked value / element, in order, behind its key -/

theorem mapEntries_block (env : Env) (km vm : Option Mid) (es : List (V × V)) (k x : V) (m : Mid)
    (hm : (k, x) ∈ es) (hv : vm = some m) :
    ((errs env m x).map (prepend k.seg)).Sublist (mapEntries env km vm es) := by
  induction es with
  | nil => cases hm
  | cons e es ih =>
    obtain ⟨k', x'⟩ := e
    simp only [mapEntries]
    rcases List.mem_cons.1 hm with h | h
    · cases h
      subst hv
      exact (List.sublist_append_right _ _).trans (List.sublist_append_left _ _)
    · exact (ih h).trans (List.sublist_append_right _ _)

/-- **C05, map, every issue of a value**: when the size checks hold, ALL issues the value schema reports for the value
    under key `k` appear among the map's issues, in order, each with path `[k] ++ its own path`. -/
theorem c05_map_all_issues (cfg : Cfg) (env : Env) (md : Mods) (km : Option Mid) (m : Mid) (cs : List SizeCk)
    (v : V) (es : List (V × V)) (hv : v.isNilLike = false) (hx : extractMap v = some es)
    (hsz : sizeIssues cs es.length = []) (k x : V) (hm : (k, x) ∈ es) :
    ((errs env m x).map (fun c => k.seg :: c.path)).Sublist
      ((run cfg env (.map md km (some m) cs) v).issues.map (·.path)) := by
  have hb := mapEntries_block env km (some m) es k x m hm rfl
  simp only [run, engine, hv, Bool.false_eq_true, ↓reduceIte, hx, validateMap, hsz, ofIssues_issues]
  rw [← prepend_paths]
  exact hb.map (·.path)

theorem setElems_block (env : Env) (m : Mid) (xs : List V) (x : V) (hm : x ∈ xs) :
    ((errs env m x).map (prepend x.seg)).Sublist (setElems env m xs) := by
  induction xs with
  | nil => cases hm
  | cons y ys ih =>
    simp only [setElems]
    rcases List.mem_cons.1 hm with h | h
    · subst h; exact List.sublist_append_left _ _
    · exact (ih h).trans (List.sublist_append_right _ _)

/-- **C05, set, every issue of an element** (filed under the element's own key). -/
theorem c05_set_all_issues (cfg : Cfg) (env : Env) (md : Mods) (t : Ty) (m : Mid) (cs : List SizeCk)
    (v : V) (xs : List V) (hv : v.isNilLike = false) (hx : extractSet t v = some xs)
    (hsz : sizeIssues cs xs.length = []) (x : V) (hm : x ∈ xs) :
    ((errs env m x).map (fun c => x.seg :: c.path)).Sublist
      ((run cfg env (.set md t m cs) v).issues.map (·.path)) := by
  have hb := setElems_block env m xs x hm
  simp only [run, engine, hv, Bool.false_eq_true, ↓reduceIte, hx, validateSet, hsz, ofIssues_issues]
  rw [← prepend_paths]
  exact hb.map (·.path)

end Gozod.C05
