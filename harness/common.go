package main

import (
	"bufio"
	"encoding/json"
	"fmt"
	"os"
	"path/filepath"
	"sort"
)

// rng is a splitmix64 generator; every random choice of a run derives from one state
// seeded by VERIF_SEED so a disagreement replays exactly.
type rng struct{ s uint64 }

func newRng(seed uint64) *rng { return &rng{s: seed*0x9E3779B97F4A7C15 + 0x1234567} }
func (r *rng) next() uint64 {
	r.s += 0x9E3779B97F4A7C15
	z := r.s
	z = (z ^ (z >> 30)) * 0xBF58476D1CE4E5B9
	z = (z ^ (z >> 27)) * 0x94D049BB133111EB
	return z ^ (z >> 31)
}
func (r *rng) intn(n int) int {
	if n <= 0 {
		return 0
	}
	return int(r.next() % uint64(n))
}
func (r *rng) bool() bool          { return r.next()&1 == 1 }
func (r *rng) chance(pct int) bool { return r.intn(100) < pct }
func pick[T any](r *rng, xs []T) T { return xs[r.intn(len(xs))] }

// out collects the op lines sent to the Lean driver and the implementation's observation
// for each, plus distribution statistics for the evidence file.
type out struct {
	dir     string
	ops     *bufio.Writer
	impl    *bufio.Writer
	fo      *os.File
	fi      *os.File
	n       int
	hist    map[string]int
	samples []string
}

func newOut(dir string) (*out, error) {
	if err := os.MkdirAll(dir, 0o755); err != nil {
		return nil, err
	}
	fo, err := os.Create(filepath.Join(dir, "ops.txt"))
	if err != nil {
		return nil, err
	}
	fi, err := os.Create(filepath.Join(dir, "impl.txt"))
	if err != nil {
		return nil, err
	}
	return &out{dir: dir, fo: fo, fi: fi, ops: bufio.NewWriterSize(fo, 1<<20), impl: bufio.NewWriterSize(fi, 1<<20), hist: map[string]int{}}, nil
}

// emit records one case: the op line for the model and the implementation's observation.
func (o *out) emit(op, impl string) {
	fmt.Fprintln(o.ops, op)
	fmt.Fprintln(o.impl, impl)
	if o.n < 5 || (o.n%9973 == 0 && len(o.samples) < 12) {
		o.samples = append(o.samples, op+" => "+impl)
	}
	o.n++
}

func (o *out) count(key string) { o.hist[key]++ }

func (o *out) close(extra map[string]any) error {
	o.ops.Flush()
	o.impl.Flush()
	o.fo.Close()
	o.fi.Close()
	keys := make([]string, 0, len(o.hist))
	for k := range o.hist {
		keys = append(keys, k)
	}
	sort.Strings(keys)
	st := map[string]any{"cases": o.n, "histogram": o.hist, "samples": o.samples}
	for k, v := range extra {
		st[k] = v
	}
	b, _ := json.MarshalIndent(st, "", " ")
	return os.WriteFile(filepath.Join(o.dir, "stats.json"), b, 0o644)
}

// safely runs f and converts a panic into a string.
func safely(f func()) (panicMsg string) {
	defer func() {
		if r := recover(); r != nil {
			panicMsg = fmt.Sprint(r)
			if panicMsg == "" {
				panicMsg = "panic"
			}
		}
	}()
	f()
	return ""
}
