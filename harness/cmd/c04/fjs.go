package main

// Round 4b — FromJSONSchema OUTPUTS as schemas.  JSON Schema documents of the classes the C11 generator builds (typed nodes with
// string / number / array / object keywords, type lists with "null", enum / const whose members may be arrays and objects,
// allOf / anyOf / oneOf / not compositions, boolean schemas, $ref into $defs including self-reference, defaults, formats) are
// compiled by kaptinlin/jsonschema, converted by gozod.FromJSONSchema (non-strict), and every schema obtained joins
// allSchemas(): it meets every adversarial value through Parse / ParseAny / StrictParse, the type-directed values and the
// self-referential inputs of the fatal stream.  The conversion itself is not Parse: a panic or error of FromJSONSchema is
// counted (stats `fjs_conv`) and reported in the evidence, it is not judged against C04's statement.
//
// Deterministic from C04_SEED (the fatal-probe child processes rebuild the same list).

import (
	"encoding/json"
	"fmt"
	"os"
	"strconv"

	"github.com/kaptinlin/gozod"
	"github.com/kaptinlin/gozod/core"
	lib "github.com/kaptinlin/jsonschema"

	"verifharness/hx"
)

type fjsGen struct {
	r    *hx.Rng
	defs map[string]any
}

var fjsFormats = []string{"email", "uri", "uuid", "date-time", "date", "time", "ipv4", "ipv6", "hostname", "duration", "regex", "json-pointer"}

func (g *fjsGen) prim() any {
	switch g.r.Intn(7) {
	case 0:
		return "a"
	case 1:
		return 1
	case 2:
		return 1.5
	case 3:
		return true
	case 4:
		return nil
	case 5:
		return []any{1, "x"}
	default:
		return map[string]any{"k": []any{nil}}
	}
}

func (g *fjsGen) typed(t string, d int) map[string]any {
	m := map[string]any{"type": t}
	switch t {
	case "string":
		if g.r.Chance(40) {
			m["minLength"] = g.r.Intn(3)
		}
		if g.r.Chance(30) {
			m["maxLength"] = 1 + g.r.Intn(5)
		}
		if g.r.Chance(25) {
			m["pattern"] = []string{"^a", "[0-9]+", "^$", "(a|b)*c"}[g.r.Intn(4)]
		}
		if g.r.Chance(30) {
			m["format"] = fjsFormats[g.r.Intn(len(fjsFormats))]
		}
	case "number", "integer":
		for _, k := range []string{"minimum", "maximum", "exclusiveMinimum", "exclusiveMaximum"} {
			if g.r.Chance(25) {
				m[k] = []any{0, -1, 2.5, 1e300, 9007199254740993}[g.r.Intn(5)]
			}
		}
		if g.r.Chance(25) {
			m["multipleOf"] = []any{2, 0.1, 1e-9, 3}[g.r.Intn(4)]
		}
	case "array":
		if d > 0 && g.r.Chance(70) {
			m["items"] = g.doc(d - 1)
		}
		if d > 0 && g.r.Chance(30) {
			m["prefixItems"] = []any{g.doc(d - 1), g.doc(d - 1)}
		}
		if g.r.Chance(30) {
			m["minItems"] = g.r.Intn(3)
		}
		if g.r.Chance(30) {
			m["maxItems"] = g.r.Intn(4)
		}
		if g.r.Chance(20) {
			m["uniqueItems"] = true
		}
	case "object":
		if d > 0 {
			props := map[string]any{}
			for _, k := range []string{"a", "t", "name", "next"}[:1+g.r.Intn(4)] {
				props[k] = g.doc(d - 1)
			}
			m["properties"] = props
			if g.r.Chance(50) {
				m["required"] = []any{"a"}
			}
			switch g.r.Intn(4) {
			case 0:
				m["additionalProperties"] = false
			case 1:
				m["additionalProperties"] = g.doc(d - 1)
			}
			if g.r.Chance(15) {
				m["propertyNames"] = map[string]any{"type": "string", "minLength": 1}
			}
			if g.r.Chance(15) {
				m["patternProperties"] = map[string]any{"^x": g.doc(d - 1)}
			}
		}
		if g.r.Chance(15) {
			m["minProperties"] = g.r.Intn(2)
		}
	}
	return m
}

func (g *fjsGen) doc(d int) any {
	types := []string{"string", "number", "integer", "boolean", "null", "array", "object"}
	switch c := g.r.Intn(20); {
	case c < 8:
		return g.typed(types[g.r.Intn(len(types))], d)
	case c == 8: // type list, often nullable
		m := g.typed(types[g.r.Intn(len(types))], d)
		m["type"] = []any{m["type"], "null"}
		return m
	case c == 9:
		return map[string]any{"const": g.prim()}
	case c == 10:
		return map[string]any{"enum": []any{g.prim(), g.prim(), g.prim()}}
	case c == 11 && d > 0:
		return map[string]any{"anyOf": []any{g.doc(d - 1), g.doc(d - 1)}}
	case c == 12 && d > 0:
		return map[string]any{"oneOf": []any{g.doc(d - 1), g.doc(d - 1)}}
	case c == 13 && d > 0:
		return map[string]any{"allOf": []any{g.doc(d - 1), g.doc(d - 1)}}
	case c == 14 && d > 0:
		return map[string]any{"not": g.doc(d - 1)}
	case c == 15:
		return g.r.Bool() // boolean schema
	case c == 16: // reference, possibly to a definition that refers to itself
		name := "d" + strconv.Itoa(g.r.Intn(3))
		if _, ok := g.defs[name]; !ok {
			g.defs[name] = true // placeholder while the definition is generated: inner refs to it are self-references
			g.defs[name] = g.typed([]string{"object", "array"}[g.r.Intn(2)], max(d, 1))
		}
		return map[string]any{"$ref": "#/$defs/" + name}
	case c == 17:
		m := g.typed(types[g.r.Intn(4)], d)
		m["default"] = g.prim()
		return m
	case c == 18:
		return map[string]any{} // the empty schema
	default:
		return g.typed("object", d)
	}
}

var fjsStats = struct{ docs, compileErr, convErr, convPanic, built int }{}
var fjsConvPanics []string

// fjsSchemas builds n documents and returns the schemas FromJSONSchema makes of them.
func fjsSchemas(seed uint64, n int) []named {
	var out []named
	r := hx.NewRng(seed ^ 0xF15)
	for i := 0; i < n*4 && len(out) < n; i++ {
		g := &fjsGen{r: r, defs: map[string]any{}}
		var root any = g.doc(2)
		if m, ok := root.(map[string]any); ok && len(g.defs) > 0 {
			m["$defs"] = g.defs
		} else if len(g.defs) > 0 {
			continue
		}
		text, err := json.Marshal(root)
		if err != nil {
			continue
		}
		fjsStats.docs++
		var sch *lib.Schema
		if p := hx.Safely(func() { sch, err = lib.NewCompiler().Compile(text) }); p != "" || err != nil || sch == nil {
			fjsStats.compileErr++
			continue
		}
		var z core.ZodSchema
		p := hx.Safely(func() { z, err = gozod.FromJSONSchema(sch) })
		switch {
		case p != "":
			fjsStats.convPanic++
			if len(fjsConvPanics) < 8 {
				fjsConvPanics = append(fjsConvPanics, fmt.Sprintf("%s => %.120s", text, p))
			}
			continue
		case err != nil || z == nil:
			fjsStats.convErr++
			continue
		}
		fjsStats.built++
		label := string(text)
		if len(label) > 160 {
			label = label[:160] + "…"
		}
		out = append(out, named{"FromJSONSchema(" + label + ")", "fjs", z})
	}
	return out
}

func fjsSeed() uint64 {
	s, _ := strconv.ParseUint(os.Getenv("C04_SEED"), 10, 64)
	return s
}

func fjsCount() int {
	if os.Getenv("C04_TIER") == "thorough" {
		return 300
	}
	return 40
}
