/-
  Gozod.Model.FloatMul — the float branch of `pkg/validate.MultipleOf` (validate.go:118-131) and
  `ZodFloatTyped.Int` (types/float.go:301), in exact arithmetic on binary64 values.

      val, div := float64 operands;  div == 0 → false
      epsilon   := max(1e-10, math.Abs(div)*1e-6)
      remainder := math.Abs(math.Mod(val, div))
      return remainder < epsilon || math.Abs(remainder-math.Abs(div)) < epsilon

  A finite binary64 is a dyadic rational `a / 2^k` (`F.fin a k`). Magnitudes are held as `D` = n / 2^k.
  * `math.Mod` is exact in IEEE arithmetic (the remainder of two floats is a float): `fmodAbs`.
  * `*` and `-` round to nearest, ties to even: `rnd` rounds a dyadic to 53 significant bits. That is
    the IEEE result whenever the exact value is at least 2^-1022 (normal range) or a multiple of 2^-1074
    (then it has at most 52 significant bits below 2^-1022 and `rnd` leaves it alone), and below
    the overflow threshold. Both uses are inside that region:
      - `|div| - remainder` is a difference of two floats, so a multiple of 2^-1074, and at most |div|;
      - `|div| * 1e-6` is rounded only when the exact product exceeds 1e-10 (normal range); when the
        exact product is at most 1e-10 the rounded product is at most 1e-10 too (rounding is monotone
        and 1e-10 is a float), so the `max` is 1e-10 whatever the rounding (subnormal or not) did.
  * NaN / ±Inf operands follow `math.Mod`'s special cases: Mod(±Inf, y) = Mod(x, NaN) = Mod(NaN, y) = NaN
    (both comparisons false); Mod(x, ±Inf) = x and epsilon = +Inf, so every finite x passes.
-/
import Gozod.Model.Num
namespace Gozod.FloatMul
open Gozod

/-- A non-negative dyadic rational `n / 2^k`. -/
structure D where
  n : Nat
  k : Nat
  deriving Repr, DecidableEq

namespace D
def lt (a b : D) : Bool := decide (a.n * 2 ^ b.k < b.n * 2 ^ a.k)
def le (a b : D) : Bool := decide (a.n * 2 ^ b.k ≤ b.n * 2 ^ a.k)
/-- `a - b` (truncated at 0; callers have `b ≤ a`). -/
def sub (a b : D) : D := ⟨a.n * 2 ^ b.k - b.n * 2 ^ a.k, a.k + b.k⟩
def mul (a b : D) : D := ⟨a.n * b.n, a.k + b.k⟩
end D

/-- Number of significant bits. -/
def bitlen (n : Nat) : Nat := if n = 0 then 0 else n.log2 + 1

/-- Round a natural to `p` significant bits, to nearest, ties to even (the result is again a natural:
    a multiple of `2^(bitlen n - p)`). -/
def roundNat (p n : Nat) : Nat :=
  let sh := bitlen n - p
  if sh = 0 then n else
    let q := n / 2 ^ sh
    let r := n % 2 ^ sh
    let half := 2 ^ (sh - 1)
    (if r > half ∨ (r = half ∧ q % 2 = 1) then q + 1 else q) * 2 ^ sh

/-- binary64 rounding of a non-negative dyadic (see the header for the region where this is IEEE). -/
def rnd (d : D) : D := ⟨roundNat 53 d.n, d.k⟩

/-- `float64(1e-6)` = 0x3EB0C6F7A0B5ED8D and `float64(1e-10)` = 0x3DDB7CDFD9D7BDBB. -/
def c6 : D := ⟨0x10C6F7A0B5ED8D, 72⟩
def c10 : D := ⟨0x1B7CDFD9D7BDBB, 86⟩

/-- `max(1e-10, math.Abs(div)*1e-6)` for a finite divisor of magnitude `ad`. -/
def eps (ad : D) : D :=
  let prod := D.mul ad c6
  if D.le prod c10 then c10 else rnd prod

/-- `math.Abs(math.Mod(a/2^k, b/2^l))` for `b ≠ 0`. -/
def fmodAbs (a : Int) (k : Nat) (b : Int) (l : Nat) : D :=
  ⟨(a.natAbs * 2 ^ l) % (b.natAbs * 2 ^ k), k + l⟩

/-- The two tests of the ε-rule on magnitudes: `rem` = |val mod div|, `ad` = |div|; `round` is the
    rounding applied to the difference (`rnd` in the code, the identity in the documented relation). -/
def epsRule (round : D → D) (rem ad : D) : Bool :=
  let e := eps ad
  D.lt rem e || D.lt (round (D.sub ad rem)) e

/-- The float branch of `validate.MultipleOf` as the code computes it. -/
def implMultF : F → F → Bool
  | .nan, _ => false
  | _, .nan => false
  | .pinf, _ => false
  | .ninf, _ => false
  | .fin _ _, .pinf => true
  | .fin _ _, .ninf => true
  | .fin a k, .fin b l =>
    if b = 0 then false else epsRule rnd (fmodAbs a k b l) ⟨b.natAbs, l⟩

/-- The documented relation: "remainder ≈ 0 or remainder ≈ divisor" with ε = max(1e-10, |div|·1e-6),
    evaluated on the exact remainder and the exact difference. -/
def specMultF : F → F → Bool
  | .nan, _ => false
  | _, .nan => false
  | .pinf, _ => false
  | .ninf, _ => false
  | .fin _ _, .pinf => true
  | .fin _ _, .ninf => true
  | .fin a k, .fin b l =>
    if b = 0 then false else epsRule id (fmodAbs a k b l) ⟨b.natAbs, l⟩

/-- `ZodFloatTyped.Int`: `val == math.Trunc(val)` (NaN ≠ NaN; Trunc(±Inf) = ±Inf). -/
def isIntF : F → Bool
  | .nan => false
  | .pinf => true
  | .ninf => true
  | .fin a k => decide (F.truncInt a k * 2 ^ k = a)

/-- Documented meaning of `Int`: no fractional part (on the extended reals). -/
def specIsIntF : F → Bool
  | .nan => false
  | .pinf => true
  | .ninf => true
  | .fin a k => decide ((2 : Int) ^ k ∣ a)

end Gozod.FloatMul
