/-
  C06: the matrix the regenerated table must cover, and the *known-finding region* — the cells of
  the rule matrix where the pinned library does not apply the documented rule (known-findings.txt,
  `open: property=C06 key=cell:… / pair:…`).  Hand-written and fixed; the table is regenerated.
-/
import Gozod.Model.Tags
namespace Gozod.Tags

def allBases : List Base :=
  [.string, .int, .int8, .int16, .int32, .int64, .uint, .uint8, .uint16, .uint32, .uint64, .float32, .float64, .bool,
   .slice_string, .slice_int, .slice_int64, .slice_float64, .slice_bool, .slice_int32, .slice_uint8,
   .slice_slice_string, .slice_struct, .slice_ptr_string,
   .map_string_string, .map_string_int, .map_string_any, .map_string_float64, .struct, .structT]

/-- every field type of the matrix: each base, then a pointer to each base -/
def allFtys : List FTy := allBases.map (FTy.mk false) ++ allBases.map (FTy.mk true)

/-- the rule instances of the matrix for a class: every rule docs/tags.md documents for it
    (plus `min=37` for strings: a valid UUID has 36 bytes, so only a larger minimum can expose a dropped `min`) -/
def instances : Cls → List TRule
  | .str => [.required, .min 20, .max 30, .length 25, .email, .url, .uuid, .regex, .min 37]
  | .num => [.required, .min 3, .max 5, .positive, .negative, .nonnegative, .nonpositive]
  | .slice => [.required, .min 2, .max 4, .length 3, .nonempty]
  | .bool | .map | .struct => [.required]

def pairsOf : List TRule → List (TRule × TRule)
  | [] => []
  | r :: rs => rs.map (fun s => (r, s)) ++ pairsOf rs

/-- unordered pairs probed (in both orders) for a class -/
def pairInstances : Cls → List (TRule × TRule)
  | .str => pairsOf [.required, .min 20, .max 30, .length 25, .email, .url, .uuid, .regex] ++ [(.min 37, .uuid)]
  | c => pairsOf (instances c)

def Base.isUnsigned : Base → Bool
  | .uint | .uint8 | .uint16 | .uint32 | .uint64 => true | _ => false
def Base.narrowInt : Base → Bool
  | .int8 | .int16 | .int32 => true | _ => false
/-- slice element types for which the value-slice schema is typed and the rule switches list it -/
def Base.sliceListed : Base → Bool
  | .slice_string | .slice_int | .slice_struct => true | _ => false
/-- pointer-to-slice types whose schema is the untyped `SlicePtr[any]` and rejects every value -/
def Base.slicePtrAny : Base → Bool
  | .slice_int32 | .slice_uint8 | .slice_slice_string | .slice_struct | .slice_ptr_string => true | _ => false

def TRule.isFormat : TRule → Bool
  | .email | .url | .uuid => true | _ => false

/-- KNOWN FINDINGS, single rule: the (rule, field type) cells where the schema built by FromStruct
    does not behave as documented on some boundary value. -/
def knownSingle (r : TRule) (t : FTy) : Bool :=
  match t.base.cls, t.ptr, r with
  -- `nonnegative` / `nonpositive` are not implemented at all
  | .num, _, .nonpositive => true
  | .num, _, .nonnegative => !t.base.isUnsigned       -- (unsigned: no probe can violate it)
  | .num, _, .required => false
  -- value fields: the switches list int, int64, float32, float64 only
  | .num, false, _ => t.base.narrowInt || t.base.isUnsigned
  -- pointer fields: no switch lists a pointer schema
  | .num, true, _ => true
  | .str, false, _ => false
  | .str, true, .min _ | .str, true, .max _ | .str, true, .length _ | .str, true, .regex => true
  | .str, true, .uuid => true                          -- nil rejected although not `required`
  | .str, true, _ => false
  | .slice, false, .required => false
  | .slice, false, _ => !t.base.sliceListed
  | .slice, true, .required => t.base.slicePtrAny      -- every value rejected
  | .slice, true, _ => true                            -- rule ignored and nil rejected
  | .map, true, .required =>
    (match t.base with | .map_string_any => false | _ => true)   -- every value rejected
  | .struct, true, .required =>
    (match t.base with | .struct => true | _ => false)           -- nil accepted (schema is Any())
  | _, _, _ => false

/-- KNOWN FINDINGS, two rules: cells whose verdicts are not the conjunction of the two single-rule
    cells.  On `string` a format rule replaces the schema and the other rule is lost in both
    orders; with two format rules the first one wins.  (`required` composes with everything.) -/
def knownPair (r₁ r₂ : TRule) (t : FTy) : Bool :=
  let exposable (o : TRule) (f : TRule) : Bool :=      -- can a member of format `f` violate `o`?
    match f, o with
    | .uuid, .min n => decide (36 < n)
    | .uuid, .max n => decide (n < 36)
    | .uuid, .length n => decide (n ≠ 36)
    | _, .required => false
    | _, _ => true
  match t.base with
  | .string =>
    if t.ptr then r₁.isFormat && r₂.isFormat
    else (r₁.isFormat && exposable r₂ r₁) || (r₂.isFormat && exposable r₁ r₂)
  | _ => false

/-- KNOWN FINDINGS, order: the two orders of the tag give different schemas. -/
def knownOrder (r₁ r₂ : TRule) (t : FTy) : Bool :=
  match t.base with
  | .string => r₁.isFormat && r₂.isFormat
  | _ => false

end Gozod.Tags
