/-
  C08, content level for the schemas that HOLD other schemas or value lists (round 4b) — on top of `StoreC08.lean`.

  The types in question keep, next to the embedded `core.ZodTypeInternals`, members in interface-typed fields
  (`Element`, `Rest`, `KeyType`, `ValueType`, `Left`, `Right`, `Input`, `Output`; `source` / `target` of core.ZodTransform /
  core.ZodPipe) and in slice- or map-typed fields (`Options`, `Items`, `Entries` / `Values`, `DiscMap`).  A member is
  referenced by IDENTITY; what the composite does on an input depends on what its members do — and a member can be
  any schema of the history (`z.Or(x)` holds `z`).

    HSchema / HObs / obsH     common part + kind + single-member holders + list cells (content) + PrefaultValue
    HOp / applyHOp            what the chaining methods of these types do (named Go functions in the comments)
    World / hAccept           the verdict of a composite on an abstract input as a function of the OBSERVATIONS of the
                              live schemas (members looked up by identity) — union, xor, intersection, enum, slice /
                              array / set element + size checks, tuple items + rest, record / map key + value,
                              transform, pipe
    hDoc                      the member structure a JSON Schema document of the composite shows (anyOf / allOf / enum /
                              items / prefixItems / additionalProperties / minItems / maxItems), same dependence
-/
import Gozod.Model.StoreC08
namespace Gozod.StoreC08
open Gozod.Store

inductive HKind
  | union       -- types/union.go: Options
  | xor         -- types/xor.go: Options, exactly one must accept
  | inter       -- types/intersection.go: Left, Right
  | enum        -- types/enum.go: Entries / Values
  | list        -- types/slice.go, set.go: Element / ValueType + size checks
  | tuple       -- types/tuple.go, array.go: Items, Rest + size checks
  | keyed       -- types/record.go, map.go: KeyType, ValueType + size checks
  | transform   -- core/transform.go ZodTransform: source
  | pipe        -- core/transform.go ZodPipe: source, target
deriving DecidableEq, Repr, Inhabited

structure HSchema where
  s : Schema
  k : HKind
  singles : List (Option Loc)      -- interface-typed member fields (copied by value with the struct)
  lists : List (Option Loc)        -- slice- / map-typed fields: `vals` cells (member identities or value ids)
  pre : Option UVal                -- PrefaultValue (DefaultValue is `s.dflt`)
deriving DecidableEq, Repr

structure HObs where
  base : Obs
  k : HKind
  singles : List (Option Loc)
  lists : List (Option (List Nat))
  pre : Option UVal
  preKids : List (Nat × UVal)
deriving DecidableEq, Repr

def obsH (h : Loc → Option Cell) (x : HSchema) : HObs :=
  ⟨obs h x.s, x.k, x.singles, x.lists.map (readVals h), x.pre, dfltKids h x.pre⟩

/-- do the list cells of this kind hold member identities (as opposed to value ids)? -/
def HKind.memberLists : HKind → Bool
  | .union | .xor | .tuple => true
  | _ => false

/-- the identities a composite refers to -/
def HObs.refs (o : HObs) : List Loc :=
  o.singles.filterMap id ++ (if o.k.memberLists then (o.lists.filterMap id).flatten else [])

/-! ### the derivations -/

inductive HOp
  | common (op : Op)
      -- every chaining method built as `in := z.internals.Clone(); …; z.withInternals(in)` (checks — Min / Max / Length /
      -- NonEmpty included —, modifiers, Describe, Meta, Refine, Default…): the type-local fields are copied, so member
      -- holders keep their members and list REFERENCES are shared with the receiver
  | orWith (other : Loc) (cks : List Nat) (cap : Nat)
      -- `z.Or(other)` = `Union([]any{z, other})` (types/union.go UnionTyped): constructor-built core internals, Options =
      -- `make([]core.ZodSchema, 2)` holding the receiver and the argument
  | andWith (other : Loc) (cks : List Nat) (cap : Nat)
      -- `z.And(other)` = `Intersection(z, other)`: Left = the receiver, Right = the argument
  | transform (fl : Nat)
      -- `core.NewZodTransform(z, fn)`: `source.Internals().Clone()`, Type := transform, SetTransform; holds the receiver
  | pipe (fl : Nat) (target : Loc)
      -- `core.NewZodPipe(z, target, fn)`: same, holds receiver and target
  | extract (keys : List Nat) (cks : List Nat) (cap : Nat)
      -- `ZodEnum.Extract(keys)`: `EnumMapTyped(newEntries)` with the listed entries the receiver has
  | exclude (keys : List Nat) (cks : List Nat) (cap : Nat)
      -- `ZodEnum.Exclude(keys)`: … with the entries not listed
  | withRest (rest : Loc) (cks : List Nat) (cap : Nat)
      -- `ZodTuple.WithRest(r)`: `newZodTupleFromDef(&ZodTupleDef{Items: z.internals.Items, Rest: r})` — constructor-built
      -- core internals, the Items slice REFERENCE is the receiver's
  | setSingle (i : Nat) (m : Loc)
      -- `ZodFunction.Input(s)` / `Output(s)`: Clone + a struct literal with one member replaced
  | setDefault (v : UVal)
      -- `Default(v)`: Clone; `SetDefaultValue(v)` stores the caller's value as it is (no copy on write)
  | setPrefault (v : UVal)
      -- `Prefault(v)`: Clone; `SetPrefaultValue(v)`
deriving DecidableEq, Repr

/-- constructor-built core internals (`engine.NewBaseZodTypeInternals`-style): own check slice, own Bag, no registry entry -/
def hRebuild (cfg : Cfg) (σ : Store) (recv : Schema) (kind : Nat) (cks : List Nat) (cap : Nat) : Store × Schema :=
  applyOp cfg σ recv (.rebuild kind 0 cks (if cks.isEmpty then 0 else max cap cks.length) true false false)

def listGet (h : Loc → Option Cell) (ls : List (Option Loc)) : List Nat := (readVals h ls.head?.join).getD []

/-- a struct-copied schema object that is not the one `withInternals` would register: core.ZodTransform / ZodPipe have
    no registry entry of their own -/
def dropReg (σ : Store) (s : Schema) : Store := write σ s.self (.reg none)

def applyHOp (cfg : Cfg) (σ : Store) (recv : HSchema) : HOp → Store × HSchema
  | .common op => let r := applyOp cfg σ recv.s op; (r.1, { recv with s := r.2 })
  | .orWith other cks cap =>
    let r := hRebuild cfg σ recv.s 20 cks cap
    let a := alloc r.1 (.vals [recv.s.self, other])
    (a.1, ⟨r.2, .union, [], [some a.2], none⟩)
  | .andWith other cks cap =>
    let r := hRebuild cfg σ recv.s 21 cks cap
    (r.1, ⟨r.2, .inter, [some recv.s.self, some other], [], none⟩)
  | .transform fl =>
    let r := applyOp cfg σ recv.s (.derive fl [] none)
    (dropReg r.1 r.2, ⟨r.2, .transform, [some recv.s.self], [], recv.pre⟩)
  | .pipe fl target =>
    let r := applyOp cfg σ recv.s (.derive fl [] none)
    (dropReg r.1 r.2, ⟨r.2, .pipe, [some recv.s.self, some target], [], recv.pre⟩)
  | .extract keys cks cap =>
    let r := hRebuild cfg σ recv.s 22 cks cap
    let a := alloc r.1 (.vals ((listGet σ.heap recv.lists).filter (fun e => keys.contains e)))
    (a.1, ⟨r.2, .enum, [], [some a.2], none⟩)
  | .exclude keys cks cap =>
    let r := hRebuild cfg σ recv.s 22 cks cap
    let a := alloc r.1 (.vals ((listGet σ.heap recv.lists).filter (fun e => !keys.contains e)))
    (a.1, ⟨r.2, .enum, [], [some a.2], none⟩)
  | .withRest rest cks cap =>
    let r := hRebuild cfg σ recv.s 23 cks cap
    (r.1, ⟨r.2, recv.k, [some rest], recv.lists, none⟩)
  | .setSingle i m =>
    let r := applyOp cfg σ recv.s (.derive recv.s.flags [] none)
    (r.1, { recv with s := r.2, singles := recv.singles.set i (some m) })
  | .setDefault v =>
    let r := applyOp cfg σ recv.s (.derive (recv.s.flags + 1) [] none)
    (r.1, { recv with s := { r.2 with dflt := some v } })
  | .setPrefault v =>
    let r := applyOp cfg σ recv.s (.derive (recv.s.flags + 1) [] none)
    (r.1, { recv with s := r.2, pre := some v })

/-- history: each step applies an op to the `i`-th live schema; the result joins the live list -/
def runHHist (cfg : Cfg) : Store → List HSchema → List (Nat × HOp) → Store × List HSchema
  | σ, live, [] => (σ, live)
  | σ, live, (i, op) :: rest =>
    match live[i]? with
    | none => runHHist cfg σ live rest
    | some recv =>
      let r := applyHOp cfg σ recv op
      runHHist cfg r.1 (live ++ [r.2]) rest

/-! ### behaviour as a function of the observations of the live schemas -/

/-- abstract inputs: a scalar token, a slice of scalar tokens (slice / tuple elements), or a map whose entries are
    (token ↦ the same token) (records and maps) -/
inductive HIn
  | tok (v : Nat)
  | seq (vs : List Nat)
  | kv (vs : List Nat)
deriving DecidableEq, Repr

/-- identity ↦ observation, for every live schema -/
abbrev World := List (Loc × HObs)

def World.get (w : World) (l : Loc) : Option HObs := (w.find? (fun p => p.1 == l)).map (·.2)

def worldOf (h : Loc → Option Cell) (live : List HSchema) : World := live.map (fun x => (x.s.self, obsH h x))

/-- the size checks among the check ids: `c % 8 = 1` minimum `c / 8` (checks.MinSize / MinLength), `= 2` maximum,
    `= 6` exact size (checks.Size / Length) -/
def lenOk (cks : List Nat) (n : Nat) : Bool :=
  cks.all (fun c => if c % 8 = 1 then c / 8 ≤ n else if c % 8 = 2 then n ≤ c / 8 else if c % 8 = 6 then n = c / 8 else true)

def single (o : HObs) (i : Nat) : Option Loc := (o.singles[i]?).join
def listAt (o : HObs) (i : Nat) : List Nat := ((o.lists[i]?).join).getD []

/-- The member dispatch of a composite on a non-nil input, given what its members do (`mem`).  Transcribes
    `ZodUnion.parseUnion…` (some option accepts), `ZodXor` (exactly one), `ZodIntersection` (both), `ZodEnum` (membership),
    `ZodSlice.validateSlice` / `ZodSet` (size checks, every element), `ZodTuple.validateTupleForEngine` (at least the items,
    each by its item schema, the surplus by Rest or none), `ZodRecord.validateRecord` / `ZodMap` (size checks, every key by
    KeyType and value by ValueType), `ZodTransform.Parse` / `ZodPipe.Parse` (source, then target). -/
def hBody (mem : Loc → HIn → Bool) (o : HObs) (inp : HIn) : Bool :=
  match o.k with
  | .union => (listAt o 0).any (fun m => mem m inp)
  | .xor => ((listAt o 0).filter (fun m => mem m inp)).length == 1
  | .inter => (o.singles.filterMap id).all (fun m => mem m inp)
  | .enum => (match inp with
    | .tok v => (listAt o 0).contains v
    | _ => false)
  | .list => (match inp with
    | .seq vs => lenOk o.base.checks vs.length &&
        (match single o 0 with
         | some e => vs.all (fun v => mem e (.tok v))
         | none => true)
    | _ => false)
  | .tuple => (match inp with
    | .seq vs =>
      let items := listAt o 0
      lenOk o.base.checks vs.length && decide (items.length ≤ vs.length) &&
        (items.zip vs).all (fun p => mem p.1 (.tok p.2)) &&
        (match single o 0 with
         | some r => (vs.drop items.length).all (fun v => mem r (.tok v))
         | none => vs.length == items.length)
    | _ => false)
  | .keyed => (match inp with
    | .kv vs => lenOk o.base.checks vs.length &&
        vs.all (fun v => (match single o 0 with | some kt => mem kt (.tok v) | none => true) &&
                         (match single o 1 with | some vt => mem vt (.tok v) | none => true))
    | _ => false)
  | .transform => (match single o 0 with
    | some src => mem src inp
    | none => false)
  | .pipe => (match single o 0, single o 1 with
    | some src, some tgt => mem src inp && mem tgt inp
    | _, _ => false)

/-- The verdict of the composite with identity `self` and observation `o`, members looked up by identity among the
    live schemas (`w`).  A composite holds schemas that existed when it was built: an identity below `self` that is
    live is evaluated recursively from ITS observation; every other identity (plain member schemas made outside the
    history) is decided by the oracle `leaf`.  `fuel` bounds the nesting depth. -/
def hAccept (leaf : Loc → HIn → Bool) : Nat → World → Loc → HObs → HIn → Bool
  | 0, _, _, _, _ => false
  | f + 1, w, self, o, inp =>
    hBody (fun l i =>
      if l < self then
        match w.get l with
        | some mo => hAccept leaf f w l mo i
        | none => leaf l i
      else leaf l i) o inp

/-- what the JSON Schema of a composite shows of its members: the member identities in document order and the size
    keywords (jsonschema/to.go: anyOf / oneOf / allOf, enum, items, prefixItems + items, propertyNames +
    additionalProperties; minItems / maxItems / minProperties / maxProperties from the size checks) -/
structure HDoc where
  k : HKind
  members : List Loc
  values : List Nat
  minSize : Option Nat
  maxSize : Option Nat
  reg : Option Nat
deriving DecidableEq, Repr

/-- the size annotations the checks of a container leave in the Bag, in check order (internal/checks/length.go: the
    OnAttach callbacks of MinSize / MaxSize / Size call `setMinSizeProperty` / `setMaxSizeProperty`, plain assignments: the
    LAST check of each kind wins; an exact size assigns both) -/
def sizeAnn (cks : List Nat) : Option Nat × Option Nat :=
  cks.foldl (fun acc c =>
    if c % 8 = 1 then (some (c / 8), acc.2)
    else if c % 8 = 2 then (acc.1, some (c / 8))
    else if c % 8 = 6 then (some (c / 8), some (c / 8))
    else acc) (none, none)

def sizeMin (cks : List Nat) : Option Nat := (sizeAnn cks).1
def sizeMax (cks : List Nat) : Option Nat := (sizeAnn cks).2

def hDoc (o : HObs) : HDoc :=
  { k := o.k,
    members := o.singles.filterMap id ++ (if o.k.memberLists then listAt o 0 else []),
    values := if o.k.memberLists then [] else listAt o 0,
    minSize := sizeMin o.base.checks, maxSize := sizeMax o.base.checks, reg := o.base.reg }

end Gozod.StoreC08
