-- REGENERATED on every `./check C13` run by vlib/c13.py: structure facts of cmd/gozodgen/writer.go (harness/cmd/c13/facts.go, go/ast)
-- and the `open:` does-not-compile classes of known-findings.txt. DO NOT EDIT.
import Gozod.Model.GenEmit
namespace Gozod.Gen
open Gozod.GenEmit

def writerFacts : WriterFacts := {
  urlImport := false
  specialOptNonPtrOnly := false
  optionalOnEveryPtr := false
  timePtr := true
  sliceTyped := true
  mapKeyMatch := true
  recordTyped := true
  urlCtor := true
  ruleApplies := true
  boundArg := true
  extraRules := true
  jsonNumKinds := true
}

/-- analyzer.go: every name of `F, G string` gets its own key; a tag written as an interpreted string literal is read -/
def analyzerMultiName : Bool := true
def analyzerTagLiteral : Bool := true
def analyzerSkipTestFiles : Bool := true

/-- classes `<c>` of the lines `open: property=C13 key=wcompile:notypecheck:<c>:*` of known-findings.txt -/
def openCompileClasses : List String := ["lazy-self-reference", "slice-cannot-infer-T"]

end Gozod.Gen
